// frames received from a peer: a real DiscretEndpoint (network/endpoint.rs) on a loopback QUIC
// socket, an attacking client built with the crate's own build_endpoint; the largest single
// allocation requested during an input is taken from the harness's global allocator.
// And rows whose date the calendar cannot hold, through add_nodes. (included by bin/c14.rs)
use discret::verif_hooks::network::endpoint::{build_endpoint, DiscretEndpoint, ServerCertVerifier};
use discret::verif_hooks::peer_connection_service::{PeerConnectionMessage, PeerConnectionService};
use discret::verif_hooks::security::{generate_x509_certificate, MEETING_TOKEN_SIZE};
use discret::verif_hooks::synchronisation::Query as SyncQuery;
use tokio::io::AsyncWriteExt;

const MAX_BUFFER: usize = 512 * 1024;          // max_object_size_in_kb * 1024 * 2 of Configuration::default
const ALLOC_BOUND: usize = 16 * 1024 * 1024;

/// the harness's own reading of a byte stream as length-prefixed frames (reference parser):
/// (announced length, payload bytes really present, payload) ; None = the stream ends inside a length
fn ref_parse(bytes: &[u8]) -> Vec<Option<(u32, usize, Vec<u8>)>> {
    let mut out = vec![]; let mut i = 0;
    while i < bytes.len() {
        if bytes.len() - i < 4 { out.push(None); break; }
        let len = u32::from_be_bytes(bytes[i..i + 4].try_into().unwrap());
        i += 4;
        let avail = (bytes.len() - i).min(len as usize);
        out.push(Some((len, bytes.len() - i, bytes[i..i + avail].to_vec())));
        if (bytes.len() - i) < len as usize { break; }
        i += len as usize;
    }
    out
}
fn fsteps_coq<T: serde::de::DeserializeOwned>(bytes: &[u8]) -> (String, usize) {
    let fr = ref_parse(bytes);
    let n = fr.len();
    (glist(&fr.iter().map(|f| match f { None => "FShortLen".to_string(),
        Some((len, avail, payload)) => format!("FFrame {} {} {}", gn(*len as u64), gn(*avail as u64), gb(*avail >= *len as usize && bincode::deserialize::<T>(payload).is_ok())) }).collect::<Vec<_>>()), n)
}
fn frame(payload: &[u8]) -> Vec<u8> { let mut v = (payload.len() as u32).to_be_bytes().to_vec(); v.extend_from_slice(payload); v }

/// what the real readers delivered, per connection id (the ConnectionInfo the harness sent names it)
#[derive(Default, Clone, Copy, PartialEq)]
struct Counts { info: usize, answers: usize, queries: usize, events: usize }
type Delivered = Mutex<std::collections::HashMap<[u8; 16], Counts>>;

pub async fn frame_streams(rng: &mut Rng, out: &mut Out, stats: &mut serde_json::Map<String, serde_json::Value>) {
    let (tx, mut rx) = tokio::sync::mpsc::channel::<PeerConnectionMessage>(32);
    let server = match DiscretEndpoint::start(PeerConnectionService { sender: tx }, MAX_BUFFER, &[1u8; 33]).await {
        Ok(s) => s, Err(e) => { eprintln!("no loopback QUIC endpoint here ({}): frame stream skipped", e); stats.insert("frame_stream".into(), json!("skipped: no loopback endpoint")); return; } };
    let del: std::sync::Arc<Delivered> = std::sync::Arc::new(Mutex::new(std::collections::HashMap::new()));
    let d = del.clone();
    tokio::spawn(async move {
        while let Some(m) = rx.recv().await {
            if let PeerConnectionMessage::NewConnection(_c, info, _oa, mut ia, _oq, mut iq, _oe, mut ie) = m {
                let id = info.conn_id;
                d.lock().unwrap().entry(id).or_default().info += 1;
                let (d1, d2, d3) = (d.clone(), d.clone(), d.clone());
                tokio::spawn(async move { let _keep = (_c, _oa, _oq, _oe); tokio::join!(
                    async { while ia.recv().await.is_some() { d1.lock().unwrap().entry(id).or_default().answers += 1; } },
                    async { while iq.recv().await.is_some() { d2.lock().unwrap().entry(id).or_default().queries += 1; } },
                    async { while ie.recv().await.is_some() { d3.lock().unwrap().entry(id).or_default().events += 1; } }); });
            }
        }
    });
    let verifier = ServerCertVerifier::new();
    let name = verifier.add_valid_certificate(server.ipv4_cert_hash);
    let client = build_endpoint("0.0.0.0:0".parse().unwrap(), generate_x509_certificate("attacker.me"), verifier).unwrap();
    let addr: std::net::SocketAddr = format!("127.0.0.1:{}", server.ipv4_port).parse().unwrap();

    let mk_info = |id: [u8; 16]| bincode::serialize(&ConnectionInfo { endpoint_id: [3u8; 16], remote_id: [4u8; 16], conn_id: id, meeting_token: [0u8; MEETING_TOKEN_SIZE], peer_verifying_key: vec![1; 33] }).unwrap();
    let info = mk_info([7u8; 16]);
    let ans = bincode::serialize(&Answer { id: 2, success: true, complete: false, serialized: vec![1, 2, 3, 4] }).unwrap();
    let qry = bincode::serialize(&QueryProtocol { id: 7, query: SyncQuery::Nodes(new_uid(), vec![new_uid()]) }).unwrap();
    let evt = bincode::serialize(&RemoteEvent::RoomDataChanged(new_uid())).unwrap();

    // one connection: bytes for the event stream's first frame (ConnectionInfo), then bytes per stream
    // `id` = the connection id the ConnectionInfo bytes carry (None: they do not decode)
    let run_conn = |info_bytes: Vec<u8>, a: Vec<u8>, q: Vec<u8>, e: Vec<u8>, id: Option<[u8; 16]>, want: Option<(usize, usize, usize, usize)>| { let (client, name, del) = (client.clone(), name.clone(), del.clone()); async move {
        if let Some(id) = id { del.lock().unwrap().remove(&id); }
        let conn = match tokio::time::timeout(CALL_TIMEOUT, async { client.connect(addr, &name).map_err(|e| e.to_string())?.await.map_err(|e| e.to_string()) }).await { Ok(Ok(c)) => c, _ => return None };
        let mut ss = vec![];
        for flag in [1u8, 2, 3] { let (mut s, r) = conn.open_bi().await.ok()?; s.write_u8(flag).await.ok()?; ss.push((s, r)); }
        ss[2].0.write_all(&info_bytes).await.ok()?;
        tokio::time::sleep(Duration::from_millis(15)).await;
        let _ = ss[0].0.write_all(&a).await; let _ = ss[1].0.write_all(&q).await; let _ = ss[2].0.write_all(&e).await;
        for s in ss.iter_mut() { let _ = s.0.finish(); }
        // every stream is finished: the readers reach its end and stop, start_accepted returns or the
        // collector lets go of the connection, and the server side closes it: that is the signal that
        // everything sent has been consumed (no timing guess); a probe only waits for its frame
        let read = |del: &Delivered| { let c = id.and_then(|id| del.lock().unwrap().get(&id).copied()).unwrap_or_default(); (c.info, c.answers, c.queries, c.events) };
        if want.is_some() {
            for _ in 0..600 { if Some(read(&del)) == want { break; } tokio::time::sleep(Duration::from_millis(5)).await; }
        } else if tokio::time::timeout(Duration::from_secs(3), conn.closed()).await.is_err() {
            SLOW.fetch_add(1, Ordering::SeqCst);
        }
        conn.close(0u32.into(), b"");
        tokio::time::sleep(Duration::from_millis(5)).await;
        Some(read(&del))
    } };

    let mut cases: Vec<(Vec<u8>, Vec<u8>, Vec<u8>, Vec<u8>, String)> = vec![];
    let ok_info = frame(&info);
    cases.push((ok_info.clone(), frame(&ans), [frame(&qry), frame(&qry)].concat(), frame(&evt), "well-formed connection".into()));
    for len in [1u32 << 31, u32::MAX, 100_000_000, (ALLOC_BOUND as u32), (ALLOC_BOUND as u32) - 1] { cases.push((len.to_be_bytes().to_vec(), vec![], vec![], vec![], format!("former K9 (fixed feffa39): ConnectionInfo frame announcing {} bytes, no payload: must not be allocated", len))); }
    cases.push((0u32.to_be_bytes().to_vec(), vec![], frame(&qry), vec![], "ConnectionInfo frame of length zero".into()));
    cases.push((ok_info[..2].to_vec(), vec![], vec![], vec![], "stream ends inside the length".into()));
    cases.push((ok_info[..ok_info.len() - 3].to_vec(), vec![], vec![], vec![], "truncated ConnectionInfo".into()));
    for len in [u32::MAX, 1 << 31, MAX_BUFFER as u32 + 1, MAX_BUFFER as u32, 0] {
        let mut q = frame(&qry); q.extend_from_slice(&len.to_be_bytes()); if len as usize == MAX_BUFFER { q.extend(vec![0u8; MAX_BUFFER]); } q.extend(frame(&qry));
        cases.push((ok_info.clone(), vec![], q, vec![], format!("query stream: valid frame, frame announcing {} bytes, valid frame", len)));
    }
    { let mut q = ((qry.len() - 5) as u32).to_be_bytes().to_vec(); q.extend_from_slice(&qry); q.extend(frame(&qry)); cases.push((ok_info.clone(), vec![], q, vec![], "length smaller than the payload: the surplus is read as the next length".into())); }
    { let mut q = ((qry.len() + 9) as u32).to_be_bytes().to_vec(); q.extend_from_slice(&qry); cases.push((ok_info.clone(), vec![], q, vec![], "length larger than the payload".into())); }
    // every byte position of every wire type
    let muts = scale(1, 3);
    for (which, payload) in [(0usize, &info), (1, &ans), (2, &qry), (3, &evt)] {
        for pos in 0..payload.len() { for _ in 0..muts {
            let mut p = payload.clone(); p[pos] = match rng.below(3) { 0 => 0xff, 1 => p[pos] ^ (1 << rng.below(8)), _ => rng.below(256) as u8 };
            let f = [frame(&p), frame(payload)].concat();
            let c = match which { 0 => (frame(&p), vec![], frame(&qry), vec![]), 1 => (ok_info.clone(), f, vec![], vec![]), 2 => (ok_info.clone(), vec![], f, vec![]), _ => (ok_info.clone(), vec![], vec![], f) };
            cases.push((c.0, c.1, c.2, c.3, format!("byte {} of a {} changed", pos, ["ConnectionInfo", "Answer", "QueryProtocol", "RemoteEvent"][which])));
        } }
    }
    for _ in 0..scale(40, 600) {
        let mut s: Vec<u8> = vec![];
        for _ in 0..rng.below(4) { match rng.below(6) { 0 => s.extend((0..rng.below(9)).map(|_| rng.below(256) as u8)), 1 => s.extend(frame(&(0..rng.below(40)).map(|_| rng.below(256) as u8).collect::<Vec<u8>>())), _ => s.extend(frame(&qry)) } }
        cases.push((ok_info.clone(), vec![], s, vec![], "random query stream".into()));
    }
    let mut big = 0usize; let mut delivered_total = 0usize;
    let mut serial = 0u64;
    for (ib, a, q, e, what) in cases {
        // give the connection its own id: patch the 16 id bytes inside the ConnectionInfo payload when they are there
        serial += 1;
        let mut id_bytes = [0u8; 16]; id_bytes[..8].copy_from_slice(&serial.to_be_bytes()); id_bytes[8] = 0xC1;
        let mut ib = ib;
        if ib.len() >= 4 + 48 { ib[4 + 32..4 + 48].copy_from_slice(&id_bytes); }
        let sent_id = ref_parse(&ib).first().and_then(|f| f.clone()).and_then(|(len, avail, payload)| if avail >= len as usize { bincode::deserialize::<ConnectionInfo>(&payload).ok().map(|c| c.conn_id) } else { None });
        MAX_ALLOC.store(0, Ordering::SeqCst);
        let got = run_conn(ib.clone(), a.clone(), q.clone(), e.clone(), sent_id, None).await;
        let largest = MAX_ALLOC.load(Ordering::SeqCst);
        let (i, da, dq, de) = got.unwrap_or((9, 9, 9, 9));
        // probe: a fresh well-formed connection must deliver its query frame
        let mut pid = id_bytes; pid[8] = 0xC2;
        let p = run_conn(frame(&mk_info(pid)), vec![], frame(&qry), vec![], Some(pid), Some((1, 0, 1, 0))).await;
        let probe = matches!(p, Some((1, 0, 1, 0))) as i64;
        if largest >= ALLOC_BOUND { big += 1; }
        delivered_total += da + dq + de;
        // after the ConnectionInfo frame the event stream carries events
        let info_step = { let fr = ref_parse(&ib); match fr.first() { Some(Some((len, avail, payload))) => format!("(FFrame {} {} {})", gn(*len as u64), gn(*avail as u64), gb(*avail >= *len as usize && bincode::deserialize::<ConnectionInfo>(payload).is_ok())), _ => "FShortLen".to_string() } };
        let (ca, _) = fsteps_coq::<Answer>(&a); let (cq, _) = fsteps_coq::<QueryProtocol>(&q); let (ce, _) = fsteps_coq::<RemoteEvent>(&e);
        out.push(Case { kind: "frames".into(), coq: format!("CFrames {} {} {} {}", info_step, ca, cq, ce), obs: vec![i as i64, da as i64, dq as i64, de as i64, (largest >= ALLOC_BOUND) as i64, probe],
            meta: json!({"what": what, "largest_allocation": largest, "stream_bytes": [ib.len(), a.len(), q.len(), e.len()]}) });
    }
    stats.insert("frame_inputs_with_allocation_beyond_bound".into(), json!(big));
    stats.insert("frames_delivered_by_the_real_readers".into(), json!(delivered_total));
}

/// rows whose mdate the calendar cannot hold, through add_nodes of an instance (the writer thread)
pub async fn ingest_date_stream(rng: &mut Rng, out: &mut Out, stats: &mut serde_json::Map<String, serde_json::Value>) {
    const MAX_MS: i64 = 8210266876799999;
    let model = "ing { Doc { name: String } }";
    let mut dates: Vec<(i64, &str)> = vec![(0, "now"), (MAX_MS - 86_400_000, "last millisecond of the day before the last"), (MAX_MS - 86_399_999, "former K10 (fixed 8b3434e): first millisecond of the last day of the calendar"), (MAX_MS, "former K10: last millisecond of the calendar"), (MAX_MS + 1, "former K10: first millisecond beyond the calendar"), (i64::MAX, "former K10: i64::MAX"), (-1, "before the rights exist"), (i64::MIN, "i64::MIN: before the rights exist")];
    for _ in 0..scale(6, 60) { dates.push((match rng.below(4) { 0 => MAX_MS - rng.below(200_000_000) as i64, 1 => MAX_MS + 1 + rng.below(1_000_000_000) as i64, 2 => i64::MAX - rng.below(1000) as i64, _ => -(rng.below(1 << 40) as i64) }, "random")); }
    let mut writer_deaths = 0usize;
    let mut inst: Option<(Inst, [u8; 16], Node, i64)> = None;
    for (delta, what) in dates {
        if inst.as_ref().map(|i| !i.0.healthy).unwrap_or(true) {
            if let Some(old) = inst.take() { old.0.close(); }
            let i = Inst::start(model).await;
            let mut p = Parameters::default();
            p.add("user_id", base64_encode(&i.vk)).unwrap();
            let room = setup_mutate(&i.app, r#"mutate { sys.Room{ admin:[{verif_key:$user_id}] authorisations:[{ name:"g" rights:[{entity:"*" mutate_self:true mutate_all:true}] users:[{verif_key:$user_id}] }] } }"#, Some(p)).await;
            let room_id = room.mutate_entities[0].node_to_mutate.id;
            let mut p = Parameters::default();
            p.add("room_id", base64_encode(&room_id)).unwrap();
            let r = setup_mutate(&i.app, r#"mutate { ing.Doc { room_id: $room_id name: "template" } }"#, Some(p)).await;
            let node = r.mutate_entities[0].node_to_mutate.node.clone().unwrap();
            let node: Node = bincode::deserialize(&bincode::serialize(&node).unwrap()).unwrap();
            let t0 = node.mdate;
            inst = Some((i, room_id, node, t0));
        }
        let (i, room_id, template, t0) = inst.as_mut().unwrap();
        // "now" = relative to the template's own date (the rights exist from just before it)
        let mdate = if delta == 0 { *t0 + 1 } else if delta == -1 { *t0 - 86_400_000 * 400 } else { delta };
        let mut n = template.clone();
        n.id = new_uid(); n.mdate = mdate; n.cdate = *t0;
        let nti = NodeToInsert { id: n.id, node: Some(n), ..Default::default() };
        let o = call(i.app.add_nodes(*room_id, vec![nti])).await;
        // have the daily log computed now (it is computed after every local mutation anyway): the
        // request goes through the same writer queue as the write probe that follows
        i.app.compute_daily_log().await;
        tokio::time::sleep(Duration::from_millis(40)).await;
        // a dead writer never answers: a short timeout is enough here
        let w = tokio::time::timeout(Duration::from_secs(4), i.app.mutate(r#"mutate { c14probe.Probe { name: "w" } }"#, None)).await;
        let pr = matches!(w, Ok(Ok(_))) as i64;
        if o >= 2 || pr == 0 { i.healthy = false; writer_deaths += 1; }
        // the rights of the room exist from shortly before the template row
        let rights_from = *t0 - 60_000;
        out.push(Case { kind: "ingest-date".into(), coq: format!("CIngest {} {}", gz(rights_from), gz(mdate)), obs: vec![o, pr], meta: json!({"what": what, "mdate": mdate, "panic": if o == 2 { last_panic() } else { String::new() }}) });
    }
    if let Some(old) = inst.take() { old.0.close(); }
    stats.insert("writer_threads_killed_by_ingested_dates".into(), json!(writer_deaths));
}
