pub mod common;
