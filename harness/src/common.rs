//! shared helpers of the correspondence harness: PRNG, case output, Gallina printing
use std::io::Write;

/// splitmix64: every random choice of a run derives from VERIF_SEED through this
#[derive(Clone)]
pub struct Rng(pub u64);
impl Rng {
    pub fn from_env() -> Rng {
        let seed = std::env::var("VERIF_SEED").ok().and_then(|s| s.parse::<u64>().ok()).unwrap_or(20260923);
        Rng(seed ^ 0x9E3779B97F4A7C15)
    }
    pub fn next(&mut self) -> u64 {
        self.0 = self.0.wrapping_add(0x9E3779B97F4A7C15);
        let mut z = self.0;
        z = (z ^ (z >> 30)).wrapping_mul(0xBF58476D1CE4E5B9);
        z = (z ^ (z >> 27)).wrapping_mul(0x94D049BB133111EB);
        z ^ (z >> 31)
    }
    pub fn below(&mut self, n: u64) -> u64 { if n == 0 { 0 } else { self.next() % n } }
    pub fn range(&mut self, lo: i64, hi: i64) -> i64 { lo + self.below((hi - lo + 1) as u64) as i64 }
    pub fn chance(&mut self, num: u64, den: u64) -> bool { self.below(den) < num }
    pub fn pick<'a, T>(&mut self, v: &'a [T]) -> &'a T { &v[self.below(v.len() as u64) as usize] }
    pub fn fork(&mut self) -> Rng { Rng(self.next()) }
}

pub fn seed() -> u64 {
    std::env::var("VERIF_SEED").ok().and_then(|s| s.parse::<u64>().ok()).unwrap_or(20260923)
}
pub fn tier_thorough() -> bool { std::env::var("VERIF_TIER").map(|t| t == "thorough").unwrap_or(false) }
pub fn scale(quick: usize, thorough: usize) -> usize { if tier_thorough() { thorough } else { quick } }

/// one correspondence case: the Gallina term of the input, what the implementation did
/// (flattened to integers), and free-form metadata for the evidence file / replay
pub struct Case {
    pub kind: String,
    pub coq: String,
    pub obs: Vec<i64>,
    pub meta: serde_json::Value,
}

pub struct Out { f: std::io::BufWriter<std::fs::File>, pub n: usize }
impl Out {
    pub fn create() -> Out {
        let path = std::env::args().nth(1).expect("usage: <bin> <out.jsonl> [replay.json]");
        Out { f: std::io::BufWriter::new(std::fs::File::create(path).unwrap()), n: 0 }
    }
    pub fn push(&mut self, c: Case) {
        let v = serde_json::json!({"id": self.n, "kind": c.kind, "coq": c.coq, "obs": c.obs, "meta": c.meta});
        writeln!(self.f, "{}", v).unwrap();
        self.n += 1;
    }
    /// writes the end marker: a run whose file carries it delivered all its cases (a crash while the
    /// process tears down live database instances afterwards does not invalidate them)
    pub fn finish(mut self) {
        writeln!(self.f, "{}", serde_json::json!({"end": true, "n": self.n})).unwrap();
        self.f.flush().unwrap();
    }
}
/// optional second argument: a replay file (a case's "meta" as written into a replay)
pub fn replay_arg() -> Option<serde_json::Value> {
    std::env::args().nth(2).map(|p| {
        let v: serde_json::Value = serde_json::from_str(&std::fs::read_to_string(p).unwrap()).unwrap();
        v
    })
}

// ---- Gallina printing ----
pub fn gz(z: i64) -> String { if z < 0 { format!("({})", z) } else { format!("{}", z) } }
pub fn gn(n: u64) -> String { format!("{}%N", n) }
pub fn gb(b: bool) -> String { (if b { "true" } else { "false" }).to_string() }
pub fn glist(items: &[String]) -> String { format!("[{}]", items.join("; ")) }
pub fn gopt(o: &Option<String>) -> String { match o { Some(s) => format!("(Some {})", s), None => "None".to_string() } }
pub fn gon(o: Option<u64>) -> String { match o { Some(n) => format!("(Some {})", gn(n)), None => "None".to_string() } }

/// uid for a model index (16 bytes, index in the last bytes, first byte 0x77 so that it never
/// collides with generated uids)
pub fn uid_of(n: u64) -> [u8; 16] {
    let mut u = [0u8; 16];
    u[0] = 0x77;
    u[8..16].copy_from_slice(&n.to_be_bytes());
    u
}
pub fn ent_name(e: u64) -> String { if e == 0 { "*".to_string() } else { format!("ns.E{}", e) } }
pub const DAY: i64 = 86_400_000;
