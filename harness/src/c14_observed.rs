// streams without a model verdict (included by bin/c14.rs)
pub async fn observed_streams(_rng: &mut Rng, _out: &mut Out, _stats: &mut serde_json::Map<String, serde_json::Value>) {}
