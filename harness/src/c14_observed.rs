// streams without a model verdict: mutated requests (b), malformed rows through the ingestion
// entry points (d), arbitrary bytes deserialised as wire types (e), and the corpus of inputs
// kept from earlier failures (replayed first). Observation: [panics during the input; probe answered]
// (included by bin/c14.rs)
use discret::verif_hooks::database::room_node::RoomNode;
use discret::verif_hooks::database::system_entities::Invite;
use discret::verif_hooks::network::multicast::MulticastMessage;
use discret::verif_hooks::network::ConnectionInfo;
use discret::verif_hooks::synchronisation::{Answer, IdentityAnswer, QueryProtocol, RemoteEvent};

const CORPUS: &str = "/verif/corpus/C14";

fn obs_model() -> String { mut_model(&mut_entities()) + "\nobs { Person { name: String, age: Integer nullable, pets: [obs.Pet] nullable, best: obs.Pet nullable, data: Json nullable } Pet { name: String } }" }

const BASE_QUERIES: [&str; 7] = [
    "query { obs.Person (data->$.x > 3, first $a, skip $a, search($n)) { name } }",
    "query { obs.Person { name age pets { name } } }",
    "query q { p: obs.Person (order_by(name asc), first 3, skip 1, age > 3, name != \"x\") { id mdate name best { id name } } }",
    "query { obs.Person (search(\"kiki\")) { name cnt: pets { c: count() } } }",
    "query { obs.Person (nullable(pets), after($a), order_by(age desc)) { name a: data->$.x.y[0] pets(name=$n) { name } } }",
    "query { obs.Pet (before(\"z\"), order_by(name desc)) { name } c14.M1 { f0 f1 f2 f3 f4 f5 } }",
    "query { obs.Person { total: sum(age) mx: max(age) mn: min(age) av: avg(age) } }",
];
const BASE_MUTATIONS: [&str; 4] = [
    "mutate { obs.Person { name: \"a\" age: 4 pets: [{name:\"kiki\"}, {name:\"koko\"}] best: {name:\"b\"} data: \"{\\\"x\\\":1}\" } }",
    "mutate m { p: obs.Person { name: $n age: $a data: $d } }",
    "mutate { c14.M1 { f0: true f1: 1.5 f2: \"AAAA\" f3: -3 f4: \"s\" f5: \"[1]\" } }",
    "mutate { obs.Person { id: $id pets: null best: null } }",
];
const BASE_DELETIONS: [&str; 2] = ["delete { obs.Person { $id } }", "delete d { obs.Person { $id pets[$a, $b] } obs.Pet { $b } }"];
const BASE_MODELS: [&str; 2] = [
    "obs { Person { name: String, age: Integer nullable, pets: [obs.Pet] nullable, best: obs.Pet nullable, data: Json nullable, extra: String default \"e\", index(name, age) } Pet { name: String } @deprecated Old(no_full_text_index) { v: Float default 1.5 } }",
    "{ Loose { a: Boolean default true, @deprecated b: Base64 nullable } }",
];
const BASE_PARAMS: [&str; 2] = [r#"{"n":"x","a":3,"d":"{}","id":"AAAAAAAAAAAAAAAAAAAAAA","b":null,"f":1.5}"#, r#"{"a":18446744073709551615,"b":-9223372036854775808,"c":1e400}"#];

fn tokens(s: &str) -> Vec<String> {
    let mut v: Vec<String> = vec![]; let mut cur = String::new();
    for c in s.chars() {
        if c.is_alphanumeric() || c == '_' || c == '$' || c == '.' { cur.push(c); }
        else { if !cur.is_empty() { v.push(std::mem::take(&mut cur)); } v.push(c.to_string()); }
    }
    if !cur.is_empty() { v.push(cur); }
    v
}
const JUNK: [&str; 16] = ["\"", "\\", "{", "}", "[", "]", "(", ")", "$", ":", "\u{0}", "\u{202e}", "'", "--", "/*", "\u{1F600}"];
fn mutate_text(rng: &mut Rng, base: &str) -> (String, &'static str) {
    let mut t = tokens(base);
    if t.len() < 2 { return (format!("{}{}", base, rng.pick(&JUNK)), "junk appended"); }
    match rng.below(12) {
        0 | 1 => { let i = rng.below(t.len() as u64) as usize; t.remove(i); (t.concat(), "token deleted") }
        2 | 3 => { let i = rng.below(t.len() as u64) as usize; let x = t[i].clone(); t.insert(i, x); (t.concat(), "token duplicated") }
        4 | 5 => { let i = rng.below(t.len() as u64 - 1) as usize; t.swap(i, i + 1); (t.concat(), "tokens swapped") }
        6 => { let n = base.chars().count(); let k = rng.below(n as u64) as usize; (base.chars().take(k).collect(), "truncated") }
        7 | 8 => { let i = rng.below(t.len() as u64) as usize; t.insert(i, (*rng.pick(&JUNK)).to_string()); (t.concat(), "junk inserted") }
        9 => { let i = rng.below(t.len() as u64) as usize; t[i] = (*rng.pick(&["null", "true", "-0", "1e999", "99999999999999999999", "\"\"", "$zz", "_x", "sys.Room", "id", "room_id", "0.5", "nullable", "first 0"])).to_string(); (t.concat(), "token replaced") }
        10 => { // oversized
            match rng.below(4) {
                0 => (base.replace("name", &"n".repeat(20000)), "identifier of 20000 characters"),
                1 => (base.replacen('{', &format!("{{ {} ", "name ".repeat(3000)), 2), "3000 repeated fields"),
                2 => (base.replace("\"a\"", &format!("\"{}\"", "x".repeat(2_000))).replace("\"kiki\"", &format!("\"{}\"", "y".repeat(2_000))), "2 kB string literal"),
                _ => (format!("{}{}", base, " ".repeat(100_000)), "100 kB of trailing blanks"),
            } }
        _ => { // nesting
            let d = 30 + rng.below(30) as usize;
            (format!("{}{}{}", base.trim_end_matches(|c| c == '}' || c == ' '), " pets { name ".repeat(d), "}".repeat(d + 2)), "deep nesting") }
    }
}
/// the value positions of a request text: string literals, numbers, true / false / null, $variables
/// (byte ranges), found by a small lexer that knows nothing of the grammars
fn value_positions(text: &str) -> Vec<(usize, usize)> {
    let b = text.as_bytes(); let mut out = vec![]; let mut i = 0;
    let is_id = |c: u8| c.is_ascii_alphanumeric() || c == b'_' || c >= 0x80;
    while i < b.len() {
        let c = b[i];
        if c == b'"' { let st = i; i += 1; while i < b.len() && b[i] != b'"' { if b[i] == b'\\' { i += 1; } i += 1; } i = (i + 1).min(b.len()); out.push((st, i)); }
        else if c == b'$' { let st = i; i += 1; while i < b.len() && is_id(b[i]) { i += 1; } if i > st + 1 { out.push((st, i)); } }
        else if c.is_ascii_digit() || (c == b'-' && i + 1 < b.len() && b[i + 1].is_ascii_digit()) {
            let prev_id = i > 0 && (is_id(b[i - 1]) || b[i - 1] == b'.' || b[i - 1] == b'$');
            let st = i; i += 1; while i < b.len() && (b[i].is_ascii_digit() || b[i] == b'.') { i += 1; }
            if !prev_id { out.push((st, i)); } }
        else if is_id(c) { let st = i; while i < b.len() && (is_id(b[i]) || b[i] == b'.') { i += 1; }
            if matches!(&text[st..i], "true" | "false" | "null") { out.push((st, i)); } }
        else { i += 1; }
    }
    out
}
const LITERALS: [&str; 12] = ["null", "true", "false", "0", "-1", "3", "1.5", "\"plain text\"", "\"QUJD\"", "\"\"", "$zz", "$a"];

fn params_for(rng: &mut Rng) -> Parameters {
    let mut p = Parameters::default();
    // half of the time long multi-byte text where a name / number / JSON is expected
    if rng.chance(1, 2) { let _ = p.add("n", mb_string(rng)); let _ = p.add("a", mb_string(rng)); let _ = p.add("d", mb_string(rng)); let _ = p.add("id", mb_string(rng)); }
    let _ = p.add("n", "x".to_string()); let _ = p.add("a", rng.range(-5, 50)); let _ = p.add("d", "{\"x\":[1]}".to_string());
    let _ = p.add("id", base64_encode(&new_uid())); let _ = p.add("b", base64_encode(&new_uid())); let _ = p.add("zz", 1i64);
    p
}

struct ObsRun { inst: Inst, model: String, restarts: usize, calls: usize }
impl ObsRun {
    async fn exec(&mut self, api: &str, text: &str) -> (i64, i64, i64) {
        if !self.inst.healthy { let m = self.model.clone(); let old = std::mem::replace(&mut self.inst, Inst::start(&m).await); old.close(); self.restarts += 1; }
        // post-mortem: if the process itself dies (stack overflow, abort) the culprit is on disk
        let _ = std::fs::write(format!("{}/in_flight.json", work_dir()), json!({"api": api, "text": text}).to_string());
        let before = panics();
        let mut rng = Rng(text.len() as u64 ^ (self.calls as u64).wrapping_mul(0x9E3779B97F4A7C15));
        let o = match api {
            "query" => call(self.inst.app.query(text, Some(params_for(&mut rng)))).await,
            "mutate" => call(self.inst.app.mutate(text, Some(params_for(&mut rng)))).await,
            "delete" => call(self.inst.app.delete(text, Some(params_for(&mut rng)))).await,
            "datamodel" => call(self.inst.app.update_data_model(text)).await,
            "paramsjson" => sync_call(std::panic::AssertUnwindSafe(|| Parameters::from_json(text))),
            _ => panic!("unknown api {}", api),
        };
        // the probe always reads; it also writes on every 8th input and after any abnormal outcome
        self.calls += 1;
        let p = self.inst.probe(self.calls % 8 == 0 || o >= 2 || panics() > before).await as i64;
        let d = (panics() - before) as i64;
        if d > 0 || p == 0 || o >= 2 { self.inst.healthy = false; }
        (o, d, p)
    }
}
/// where newly found failing inputs are kept: the corpus, or - when the run is against a scratch
/// checkout (./chk --repo) - a folder of that run, so that seeded regressions do not enter the corpus
fn found_dir() -> String {
    match std::env::var("VERIF_WORK") { Ok(w) if w != "/verif/work" => format!("{}/C14/found", w), _ => CORPUS.to_string() }   // a sweep with its own work dir does not write the corpus either
}
fn save_corpus(stream: u64, api: &str, text: &str, why: &str) {
    let dir = found_dir();
    let _ = std::fs::create_dir_all(&dir);
    let h = blake3::hash(text.as_bytes()).to_hex()[..12].to_string();
    let path = format!("{}/auto_{}_{}.json", dir, api, h);
    if !std::path::Path::new(&path).exists() {
        let _ = std::fs::write(path, serde_json::to_string_pretty(&json!({"stream": stream, "api": api, "text": text, "why": why})).unwrap());
    }
}
/// shrink a failing text by deleting chunks while it still fails (bounded)
async fn shrink(run: &mut ObsRun, api: &str, text: &str) -> String {
    let mut cur: Vec<char> = text.chars().collect();
    let mut chunk = cur.len() / 2;
    let mut budget = 24;
    while chunk >= 1 && budget > 0 {
        let mut i = 0; let mut progressed = false;
        while i + chunk <= cur.len() && budget > 0 {
            let cand: String = cur[..i].iter().chain(cur[i + chunk..].iter()).collect();
            budget -= 1;
            let (o, d, p) = run.exec(api, &cand).await;
            if d > 0 || p == 0 || o >= 2 { cur = cand.chars().collect(); progressed = true; } else { i += chunk; }
        }
        if !progressed { chunk /= 2; }
    }
    cur.into_iter().collect()
}

fn bincode_probe(ty: u64, bytes: &[u8]) -> i64 {
    let r = std::panic::catch_unwind(|| match ty {
        0 => bincode::deserialize::<QueryProtocol>(bytes).is_ok(),
        1 => bincode::deserialize::<Answer>(bytes).is_ok(),
        2 => bincode::deserialize::<RemoteEvent>(bytes).is_ok(),
        3 => bincode::deserialize::<Invite>(bytes).is_ok(),
        4 => bincode::deserialize::<IdentityAnswer>(bytes).map(|a| a.verify(&[1, 2, 3]).is_ok()).unwrap_or(false),
        5 => bincode::deserialize::<Node>(bytes).map(|n| n.verify().is_ok()).unwrap_or(false),
        6 => bincode::deserialize::<RoomNode>(bytes).map(|n| n.check_consistency().is_ok()).unwrap_or(false),
        7 => bincode::deserialize::<MulticastMessage>(bytes).is_ok(),
        8 => bincode::deserialize::<ConnectionInfo>(bytes).is_ok(),
        9 => bincode::deserialize::<Vec<Edge>>(bytes).map(|v| v.iter().all(|e| e.verify().is_ok())).unwrap_or(false),
        _ => bincode::deserialize::<Vec<NodeDeletionEntry>>(bytes).map(|v| v.iter().all(|e| e.verify().is_ok())).unwrap_or(false),
    });
    match r { Err(_) => 2, Ok(true) => 0, Ok(false) => 1 }
}

/// inputs kept from earlier failures and the witnesses of the listed classes: replayed first
pub async fn replay_corpus(out: &mut Out) {
    let model = obs_model();
    let mut run = ObsRun { inst: Inst::start(&model).await, model: model.clone(), restarts: 0, calls: 0 };
    // ---- corpus first (inputs kept from earlier failures; entries carrying a model term are
    //      the witnesses of the listed classes and are judged against the model)
    let mut entries: Vec<std::path::PathBuf> = std::fs::read_dir(CORPUS).map(|d| d.flatten().map(|e| e.path()).filter(|p| p.extension().map(|e| e == "json").unwrap_or(false)).collect()).unwrap_or_default();
    entries.sort();
    for path in entries {
        let v: serde_json::Value = match std::fs::read_to_string(&path).ok().and_then(|s| serde_json::from_str(&s).ok()) { Some(v) => v, None => continue };
        let api = v["api"].as_str().unwrap_or("query").to_string();
        let text = v["text"].as_str().unwrap_or("").to_string();
        let name = path.file_name().unwrap().to_string_lossy().to_string();
        if api == "key" {
            let bytes = hex::decode(&text).unwrap_or_default();
            let o = sync_call(|| import_verifying_key(&bytes));
            out.push(Case { kind: "corpus".into(), coq: v["coq"].as_str().unwrap_or("CObs 7%N").to_string(), obs: vec![o], meta: json!({"file": name}) });
            continue;
        }
        if api == "size" {
            let mut rdm = DataModel::new();
            rdm.update(v["model"].as_str().unwrap_or("")).unwrap();
            let obs = match QueryParser::parse(&text, &rdm) {
                Err(_) => vec![0, 0, 0, 0],
                Ok(p) => match PreparedQueries::build(&p) { Err(_) => vec![0, 0, 0, 0], Ok(b) => { let sql = &b.sql_queries[0].sql_query; vec![1, count_sub(sql, "SELECT \n"), count_sub(sql, "("), count_sub(sql, ")")] } },
            };
            out.push(Case { kind: "corpus".into(), coq: v["coq"].as_str().unwrap_or("CObs 1%N").to_string(), obs, meta: json!({"file": name, "text": text}) });
            continue;
        }
        if api == "bincode" {
            let bytes = hex::decode(&text).unwrap_or_default();
            let o = bincode_probe(v["type"].as_u64().unwrap_or(0), &bytes);
            out.push(Case { kind: "corpus".into(), coq: "CObs 7%N".into(), obs: vec![(o == 2) as i64, 1], meta: json!({"file": name}) });
            continue;
        }
        if let Some(term) = v["coq"].as_str() {
            // a witness with a model term: fresh instance with the model the entry names
            let m = v["model"].as_str().map(|s| s.to_string()).unwrap_or_else(|| model.clone());
            let inst = Inst::start(&m).await;
            let mut p = Parameters::default();
            if let Some(ps) = v["params"].as_object() { for (k, val) in ps { match val { serde_json::Value::Null => p.add_null(k).unwrap(), serde_json::Value::String(s) => p.add(k, s.clone()).unwrap(), serde_json::Value::Bool(b) => p.add(k, *b).unwrap(), other => p.add(k, other.as_i64().unwrap_or(0)).unwrap() } } }
            let o = if api == "mutate" { call(inst.app.mutate(&text, Some(p))).await } else { call(inst.app.query(&text, Some(p))).await };
            let pr = inst.probe(false).await as i64;
            inst.close();
            out.push(Case { kind: "corpus".into(), coq: term.to_string(), obs: vec![o, pr], meta: json!({"file": name, "text": text}) });
            continue;
        }
        let t0 = std::time::Instant::now();
        let (o, d, p) = run.exec(&api, &text).await;
        out.push(Case { kind: "corpus".into(), coq: format!("CObs {}", gn(v["stream"].as_u64().unwrap_or(1))), obs: vec![d, p], meta: json!({"file": name, "outcome": o, "ms": t0.elapsed().as_millis() as u64, "panic": if d > 0 { last_panic() } else { String::new() }}) });
    }

    run.inst.close();
}

pub async fn observed_streams(rng: &mut Rng, out: &mut Out, stats: &mut serde_json::Map<String, serde_json::Value>) {
    let model = obs_model();
    let mut run = ObsRun { inst: Inst::start(&model).await, model: model.clone(), restarts: 0, calls: 0 };
    setup_mutate(&run.inst.app, BASE_MUTATIONS[0], None).await;
    let mut accepted = [0usize; 8]; let mut total = [0usize; 8];

    // ---- measured, not judged: search() hands the text to FTS5 MATCH as one phrase of trigrams; with a
    //      stored text of the same repeated letter the matching time grows much faster than the text
    {
        let m = Inst::start("fts { Doc { body: String } }").await;
        let mut times = vec![];
        let _ = m.app.mutate(&format!("mutate {{ fts.Doc {{ body: \"{}\" }} }}", "y".repeat(2000)), None).await;
        for n in [1000usize, 2000] {
            let t0 = std::time::Instant::now();
            let o = call(m.app.query(&format!("query {{ fts.Doc(search(\"{}\")) {{ id }} }}", "y".repeat(n)), None)).await;
            times.push(json!({"search_chars": n, "ms": t0.elapsed().as_millis() as u64, "outcome": o}));
        }
        stats.insert("fts_search_time_against_2000_stored_chars".into(), json!(times));
        m.close();
    }
    // ---- (b) mutated requests
    let groups: [(&str, u64, &[&str]); 5] = [("query", 1, &BASE_QUERIES), ("mutate", 2, &BASE_MUTATIONS), ("delete", 3, &BASE_DELETIONS), ("datamodel", 4, &BASE_MODELS), ("paramsjson", 5, &BASE_PARAMS)];
    let n_b = scale(350, 9000);
    for i in 0..n_b {
        let (api, stream, bases) = groups[[0usize, 0, 0, 1, 1, 1, 2, 3, 4][rng.below(9) as usize]];
        let base = *rng.pick(bases);
        let (text, how) = if i < 19 { (bases[i % bases.len()].to_string(), "unchanged") } else { let (t, h) = mutate_text(rng, base); if rng.chance(1, 5) && t.len() < 5000 { let (t2, _) = mutate_text(rng, &t); (t2, h) } else { (t, h) } };
        let (o, d, p) = run.exec(api, &text).await;
        total[stream as usize] += 1; if o == 0 { accepted[stream as usize] += 1; }
        let mut meta = json!({"api": api, "how": how, "outcome": o, "len": text.len()});
        if d > 0 || p == 0 || o >= 2 {
            let small = if text.len() < 5000 { shrink(&mut run, api, &text).await } else { text.clone() };
            save_corpus(stream, api, &small, &format!("{} -> outcome {} panics {} probe {} {}", how, o, d, p, last_panic()));
            meta["text"] = json!(small.chars().take(600).collect::<String>()); meta["panic"] = json!(last_panic());
        }
        out.push(Case { kind: format!("mutated-{}", api), coq: format!("CObs {}", gn(stream)), obs: vec![d + (o >= 2 && d == 0) as i64, p], meta });
    }

    // ---- literals of every kind at EVERY value position of every base request: what the grammar
    //      accepts at a position must be handled by the semantic layer behind it
    let mut n_subst = 0usize;
    for (api, stream, bases) in groups.iter().filter(|g| g.0 != "paramsjson") {
        for base in bases.iter() {
            for (st, en) in value_positions(base) {
                for lit in LITERALS {
                    if &base[st..en] == lit { continue; }
                    let text = format!("{}{}{}", &base[..st], lit, &base[en..]);
                    let (o, d, p) = run.exec(api, &text).await;
                    n_subst += 1;
                    total[*stream as usize] += 1; if o == 0 { accepted[*stream as usize] += 1; }
                    let mut meta = json!({"api": api, "how": "literal substituted at a value position", "outcome": o});
                    if d > 0 || p == 0 || o >= 2 {
                        save_corpus(*stream, api, &text, &format!("literal {} at bytes {}..{} -> outcome {} panics {} probe {} {}", lit, st, en, o, d, p, last_panic()));
                        meta["text"] = json!(text); meta["panic"] = json!(last_panic());
                    }
                    out.push(Case { kind: format!("literal-{}", api), coq: format!("CObs {}", gn(*stream)), obs: vec![d + (o >= 2 && d == 0) as i64, p], meta });
                }
            }
        }
    }
    stats.insert("literal_substitutions".into(), json!(n_subst));

    // ---- (d) malformed rows through the ingestion entry points
    let sk = Ed25519SigningKey::create_from(&random32());
    let room_id = {
        let mut p = Parameters::default();
        p.add("user_id", base64_encode(&run.inst.vk)).unwrap();
        let room = setup_mutate(&run.inst.app, r#"mutate { sys.Room{ admin:[{verif_key:$user_id}] authorisations:[{ name:"g" rights:[{entity:"*" mutate_self:true mutate_all:true}] users:[{verif_key:$user_id}] }] } }"#, Some(p)).await;
        room.mutate_entities[0].node_to_mutate.id
    };
    let n_d = scale(120, 1600);
    for _ in 0..n_d {
        if !run.inst.healthy { let old = std::mem::replace(&mut run.inst, Inst::start(&model).await); old.close(); run.restarts += 1; }
        let before = panics();
        let (row, _) = gen_row(rng, &sk, rng.clone().chance(1, 6));
        let rid = if rng.chance(1, 5) { new_uid() } else { room_id };
        let what; let o;
        match row {
            Row::Node(mut n) => {
                if rng.chance(1, 2) { n.room_id = Some(rid); }
                if rng.chance(1, 3) { n._entity = (*rng.pick(&["1.0", "9.9", "", "0.0", "x'); DROP TABLE _node; --"])).to_string(); }
                if rng.chance(1, 3) { n._json = Some((*rng.pick(&["{\"32\":null}", "{\"32\":{}}", "[]", "{", "{\"32\":1e999}", "\u{0}"])).to_string()); }
                match rng.below(3) {
                    0 => { what = "add_nodes"; let nti = NodeToInsert { id: n.id, node: if rng.chance(1, 8) { None } else { Some(n) }, ..Default::default() }; o = call(run.inst.app.add_nodes(rid, vec![nti])).await; }
                    1 => { what = "add_peer_nodes"; o = call(run.inst.app.add_peer_nodes(vec![n])).await; }
                    _ => { what = "add_room_node"; let rn = RoomNode { node: n, last_modified: 0, admin_edges: vec![], admin_nodes: vec![], auth_edges: vec![], auth_nodes: vec![] }; o = call(run.inst.app.add_room_node(rn)).await; }
                }
            }
            Row::Edge(e) => { what = "add_edges"; o = call(run.inst.app.add_edges(rid, vec![e])).await; }
            Row::NodeDel(mut d) => { what = "delete_nodes"; d.room_id = rid; o = call(run.inst.app.delete_nodes(vec![d])).await; }
            Row::EdgeDel(mut d) => { what = "delete_edges"; d.room_id = rid; o = call(run.inst.app.delete_edges(vec![d])).await; }
        }
        let p = run.inst.probe(total[6] % 4 == 0 || o >= 2).await as i64;
        let d = (panics() - before) as i64;
        total[6] += 1; if o == 0 { accepted[6] += 1; }
        if d > 0 || p == 0 || o >= 2 { run.inst.healthy = false; }
        out.push(Case { kind: "ingest".into(), coq: "CObs 6%N".into(), obs: vec![d + (o >= 2 && d == 0) as i64, p], meta: json!({"entry": what, "outcome": o, "panic": if d > 0 { last_panic() } else { String::new() }}) });
    }
    let restarts = run.restarts;
    run.inst.close();

    // ---- (e) arbitrary bytes as wire values
    let samples: Vec<Vec<u8>> = vec![
        bincode::serialize(&QueryProtocol { id: 1, query: discret::verif_hooks::synchronisation::Query::Nodes(new_uid(), vec![new_uid(), new_uid()]) }).unwrap(),
        bincode::serialize(&Answer { id: 2, success: true, complete: false, serialized: vec![1, 2, 3, 4] }).unwrap(),
        bincode::serialize(&RemoteEvent::RoomDataChanged(new_uid())).unwrap(),
        bincode::serialize(&Invite { invite_id: new_uid(), application: "app".into(), invite_sign: vec![9; 64] }).unwrap(),
        { let mut n = Node { _entity: "1.1".into(), _json: Some("{}".into()), ..Default::default() }; n.sign(&sk).unwrap(); bincode::serialize(&IdentityAnswer { peer: n, chall_signature: vec![1; 64] }).unwrap() },
        { let mut n = Node { _entity: "1.1".into(), ..Default::default() }; n.sign(&sk).unwrap(); bincode::serialize(&n).unwrap() },
    ];
    let n_e = scale(500, 30000);
    let mut decoded = 0usize;
    for i in 0..n_e {
        let ty = rng.below(11);
        let mut bytes: Vec<u8> = if rng.chance(1, 4) { (0..rng.below(200)).map(|_| rng.below(256) as u8).collect() } else { rng.pick(&samples).clone() };
        if i >= 6 { for _ in 0..rng.below(4) { if bytes.is_empty() { break; } let k = rng.below(bytes.len() as u64) as usize; match rng.below(5) { 0 => { bytes[k] = rng.below(256) as u8; } 1 => { bytes.truncate(k); } 2 => { bytes[k] = 0xff; } 3 => { let l = bytes.len().min(k + 8); for b in &mut bytes[k..l] { *b = 0xff; } } _ => { bytes.insert(k, 0); } } } }
        let ty = if i < 6 { [0u64, 1, 2, 3, 4, 5][i] } else { ty };
        let bytes = if i < 6 { samples[i].clone() } else { bytes };
        let o = bincode_probe(ty, &bytes);
        if o == 0 { decoded += 1; }
        if o == 2 { let dir = found_dir(); let _ = std::fs::create_dir_all(&dir); let h = hex::encode(&bytes); let _ = std::fs::write(format!("{}/auto_bincode_{}.json", dir, &blake3::hash(&bytes).to_hex()[..12]), json!({"stream": 7, "api": "bincode", "type": ty, "text": h, "why": last_panic()}).to_string()); }
        out.push(Case { kind: "wire-bytes".into(), coq: "CObs 7%N".into(), obs: vec![(o == 2) as i64, 1], meta: json!({"type": ty, "len": bytes.len(), "outcome": o, "panic": if o == 2 { last_panic() } else { String::new() }}) });
    }
    stats.insert("observed_accepted_by_stream".into(), json!(accepted));
    stats.insert("observed_total_by_stream".into(), json!(total));
    stats.insert("observed_instance_restarts".into(), json!(restarts));
    stats.insert("wire_values_decoded_and_verified".into(), json!(decoded));
}
