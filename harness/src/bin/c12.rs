//! C12 correspondence: the same operation judged by the LOCAL path (real validate_entity_mutation /
//! validate_deletion on a RoomAuthorisations built from the room histories; real MutationParser +
//! MutationQuery::execute for field values) and by a PEER (a real GraphDatabaseService holding the same
//! room definitions, data model and prior rows, fed the rows the local path produced through
//! filter_existing_node -> nodes_check -> add_nodes, add_edges, delete_nodes, delete_edges).
#[path = "../c02_rig.rs"]
mod rig;
use discret::verif_hooks::database::authorisation_service::RoomAuthorisations;
use discret::verif_hooks::database::deletion::{DeletionQuery, EdgeDelete, NodeDelete};
use discret::verif_hooks::database::edge::{Edge, EdgeDeletionEntry};
use discret::verif_hooks::database::mutation_query::{InsertEntity, MutationQuery, NodeToMutate};
use discret::verif_hooks::database::node::{Node, NodeDeletionEntry, NodeIdentifier};
use discret::verif_hooks::database::query_language::data_model_parser::{validate_json_for_entity, DataModel};
use discret::verif_hooks::database::query_language::mutation_parser::MutationParser;
use discret::verif_hooks::database::query_language::parameter::Parameters;
use discret::verif_hooks::database::query_language::{FieldType, ParamValue};
use discret::verif_hooks::database::room::Room;
use discret::verif_hooks::database::sqlite_database::{prepare_connection, Writeable};
use discret::verif_hooks::security::uid_encode;
use discret::ParametersAdd;
use discret::verif_hooks::database::Error as DbError;
use discret::verif_hooks::date_utils::verif_clock;
use discret::verif_hooks::security::{base64_decode, Ed25519SigningKey};
use discret::verif_hooks::signature_verification_service::SignatureVerificationService as Sig;
use rig::*;
use serde_json::json;
use std::collections::{HashMap, HashSet};
use std::sync::Arc;
use vharness::common::*;

const D0: i64 = BASE - 30 * DAY;

fn verdict(e: &DbError) -> i64 {
    match e {
        DbError::AuthorisationRejected(_, _) => 1,
        DbError::UnknownRoom(_) => 2,
        DbError::NodeTooBig(_, _) => 3,
        DbError::InvalidAuthorisationMutation(_) => 4,
        DbError::DeleteNotAllowed() => 5,
        _ => 99,
    }
}

fn gen_room(rng: &mut Rng) -> Vec<Ev> {
    let mut evs = vec![Ev::Group(1)];
    for k in 1..=4u64 { if rng.chance(3, 4) { evs.push(Ev::User(1, k, D0 + rng.range(0, 2) * DAY, !rng.chance(1, 8))); } }
    match rng.below(4) {
        0 => evs.push(Ev::Right(1, 0, D0, true, rng.chance(1, 2))),
        1 => { evs.push(Ev::Right(1, 1, D0, true, rng.chance(1, 2))); evs.push(Ev::Right(1, 2, D0, true, false)); }
        2 => { evs.push(Ev::Right(1, 0, D0, true, false)); evs.push(Ev::Right(1, 1 + rng.below(3), D0 + DAY, true, true)); }
        _ => evs.push(Ev::Right(1, 1 + rng.below(2), D0, rng.chance(3, 4), rng.chance(1, 3))),
    }
    if rng.chance(1, 2) { evs.push(Ev::Group(2)); evs.push(Ev::User(2, 1 + rng.below(4), D0, true)); evs.push(Ev::Right(2, rng.below(4), D0, true, true)); }
    if rng.chance(1, 4) { evs.push(Ev::Admin(1 + rng.below(4), D0, true)); }
    let n = rng.below(6) as usize;
    let tail = gen_events(rng, n, true, 4);
    evs.extend(tail.into_iter().filter(|e| !matches!(e, Ev::Group(1))));
    evs
}

struct World { defs: Vec<(u64, Vec<Ev>)>, rooms: HashMap<[u8; 16], Room>, dates: Vec<i64> }
async fn world(rig: &Rig, case: u64, defs: Vec<(u64, Vec<Ev>)>) -> World {
    let by_idx = rig.load_rooms(case, &defs).await;
    let mut dates = vec![BASE, BASE + 1000, BASE + DAY];
    for (_, evs) in &defs { dates.extend(evs.iter().filter_map(|e| e.date()).filter(|d| *d > BASE - 20 * DAY)); }
    World { defs, rooms: by_idx.into_iter().map(|(_, r)| (r.id, r)).collect(), dates }
}
fn local_auth(w: &World, me: u64) -> RoomAuthorisations {
    RoomAuthorisations { signing_key: Ed25519SigningKey::create_from(&[40 + me as u8; 32]), rooms: w.rooms.clone(), max_node_size: MAX_NODE_KB * 1024 }
}
fn gen_defs(rng: &mut Rng) -> Vec<(u64, Vec<Ev>)> { vec![(1, gen_room(rng)), (2, gen_room(rng))] }

fn name_json(dm: &Dm, ent: u64, v: &str) -> Option<String> { Some(format!("{{\"{}\":\"{}\"}}", dm.field(ent, "name").short, v)) }

/// peer side: hand one row over the way synchronise_day does; true = it is stored afterwards
async fn push_node(rig: &Rig, case: u64, room: u64, node: &Node) {
    let set: HashSet<NodeIdentifier> = [NodeIdentifier { id: node.id, mdate: node.mdate, signature: node._signature.clone() }].into_iter().collect();
    let mut ntis = rig.db.filter_existing_node(set).await.unwrap();
    let mut reply = vec![];
    for nti in &mut ntis {
        let mut n = clone_node(node);
        n._local_id = nti.old_local_id;
        reply.push(n.clone());
        nti.node = Some(n);
    }
    if Sig::nodes_check(reply).is_err() { return; }
    let _ = rig.db.add_nodes(cuid(case, room), ntis).await;
}

// ------------------------------------------------------------------ CWrite
#[derive(Clone, Debug)]
struct Head { ent: u64, room: Option<u64>, date: i64, has_node: bool, too_big: bool, old: Option<(Option<u64>, u64)> }
fn head_coq(h: &Head, rm: &[u64]) -> String {
    let old = h.old.map(|(r, a)| format!("{{| o_room := {}; o_author := {} |}}", gon(r), gn(a)));
    format!("{{| h_kind := KNormal; h_ent := {}; h_room := {}; h_date := {}; h_has_node := {}; h_too_big := {}; h_old := {}; h_edge_dels := {} |}}",
        gn(h.ent), gon(h.room), gz(h.date), gb(h.has_node), gb(h.too_big), gopt(&old), glist(&rm.iter().map(|k| gn(*k)).collect::<Vec<_>>()))
}

/// a MutationQuery around hand-built InsertEntity values (validate_mutation does not read the parser)
fn mutation_query(rig: &Rig, ies: Vec<InsertEntity>, date: i64) -> MutationQuery {
    let parser = MutationParser::parse("mutate { ns.E2 { name:\"x\" } }", &rig.dm.dm).unwrap();
    MutationQuery { mutate_entities: ies, mutation_parser: Arc::new(parser), date }
}

async fn run_write(rig: &Rig, case: u64, w: &World, me: u64, h: &Head, nadd: u64, rm: &[u64]) -> Vec<i64> {
    let dm = &rig.dm;
    let keys = &rig.keys;
    let id = cuid(case, 100);
    let short = dm.short(h.ent);
    let room_uid = h.room.map(|r| cuid(case, r));
    let json = if h.too_big { name_json(dm, h.ent, &"x".repeat(1100)) } else { name_json(dm, h.ent, "v") };
    let old_node = h.old.map(|(r, a)| {
        let mut n = Node { id, room_id: r.map(|x| cuid(case, x)), cdate: h.date - 9, mdate: h.date - 5, _entity: short.clone(), _json: name_json(dm, h.ent, "old"), ..Default::default() };
        n.sign(keys.sk(a)).unwrap();
        n
    });
    // as create_node_to_mutate does: an update starts from a copy of the stored row (it carries the old
    // author's key and signature until the caller signs), a creation from an empty row
    let node = if h.has_node { Some(match &old_node {
        Some(o) => { let mut n = o.clone(); n.room_id = room_uid; n.mdate = h.date; n._json = json; n }
        None => Node { id, room_id: room_uid, cdate: h.date - 9, mdate: h.date, _entity: short.clone(), _json: json, ..Default::default() },
    }) } else { None };
    let stored_refs: Vec<Edge> = rm.iter().enumerate().map(|(i, k)| {
        let mut e = Edge { src: id, src_entity: short.clone(), label: "41".into(), dest: cuid(case, 300 + i as u64), cdate: h.date - 5, ..Default::default() };
        e.sign(keys.sk(*k)).unwrap();
        e
    }).collect();
    let adds: Vec<Edge> = (0..nadd).map(|i| Edge { src: id, src_entity: short.clone(), label: "42".into(), dest: cuid(case, 200 + i), cdate: h.date, ..Default::default() }).collect();
    // the rows as the caller signs them (what a peer receives), signed here independently of the local path
    let mut ra = local_auth(w, me);
    let sent_opt = node.clone().map(|mut n| { n.sign(&ra.signing_key).unwrap(); n });
    let adds_signed: Vec<Edge> = adds.iter().map(|e| { let mut e = e.clone(); e.sign(&ra.signing_key).unwrap(); e }).collect();
    let ie = InsertEntity {
        name: ent_name(h.ent),
        node_to_mutate: NodeToMutate { id, date: h.date, entity: ent_name(h.ent), room_id: room_uid, node, old_node: old_node.clone(), ..Default::default() },
        edge_deletions: stored_refs.clone(),
        edge_insertions: adds,
        ..Default::default()
    };
    // ---- local verdict: the whole local path, RoomAuthorisations::validate_mutation on the unsigned request
    let mut mq = mutation_query(rig, vec![ie], h.date);
    verif_clock::set(h.date);
    let local = match ra.validate_mutation(&mut mq) { Ok(_) => 0, Err(e) => verdict(&e) };
    verif_clock::clear();
    let ie = mq.mutate_entities.pop().unwrap();
    let rid = match (h.has_node, h.room) { (true, Some(r)) => r, _ => return vec![local, -1, 0, 0] };
    // ---- the rows the peer receives; the tombstones: those the local path produced, else those it would have written
    let sent = sent_opt.unwrap();
    let tombs: Vec<EdgeDeletionEntry> = if local == 0 { ie.edge_deletions_log.iter().map(clone_edel).collect() }
        else { stored_refs.iter().map(|e| EdgeDeletionEntry::build(cuid(case, rid), e, h.date, &ra.signing_key)).collect() };
    assert_eq!(tombs.len(), stored_refs.len());
    // ---- peer: same prior rows
    if let Some(o) = &old_node { rig.write_raw(Box::new(clone_node(o))).await; }
    for e in &stored_refs { rig.write_raw(Box::new(EdgeW(e.clone()))).await; }
    if !tombs.is_empty() && Sig::edge_log_check(tombs.iter().map(clone_edel).collect()).is_ok() {
        let _ = rig.db.delete_edges(tombs.iter().map(clone_edel).collect()).await;
    }
    push_node(rig, case, rid, &sent).await;
    if !adds_signed.is_empty() && Sig::edges_check(adds_signed.clone()).is_ok() {
        let _ = rig.db.add_edges(cuid(case, rid), adds_signed.clone()).await;
    }
    let d = rig.raw_dump(case).await;
    let node_in = d.nodes.contains(&sent._signature) as i64;
    let adds_in = adds_signed.iter().filter(|e| d.edges.contains(&e.signature)).count() as i64;
    let tombs_in = tombs.iter().filter(|t| d.edels.contains(&t.signature)).count() as i64;
    vec![local, node_in, adds_in, tombs_in]
}

fn gen_head(rng: &mut Rng, w: &World, keys: &Keys, case: u64) -> (u64, Head) {
    use discret::verif_hooks::database::room::RightType;
    let room = match rng.below(24) { 0 => None, 1 => Some(9), _ => Some(1 + rng.below(2)) };
    let mut best = None;
    // mostly a caller, an entity and a date such that the caller has the needed right in the room
    // entered and in the room left
    for attempt in 0..12 {
        let me = 1 + rng.below(4);
        let ent = 1 + rng.below(3);
        let old = if rng.chance(3, 5) {
            let oroom = if room.is_none() { None } else { match rng.below(10) { 0 => None, 1..=6 => room, 7 => Some(9), _ => Some(1 + rng.below(2)) } };
            Some((oroom, if rng.chance(3, 5) { me } else { 1 + rng.below(4) }))
        } else { None };
        let date = *rng.pick(&w.dates) + rng.range(0, 2);
        let right = match old { Some((_, a)) if a != me => RightType::MutateAll, _ => RightType::MutateSelf };
        let ok = |r: Option<u64>| -> bool { match r.and_then(|x| w.rooms.get(&cuid(case, x))) { Some(rm) => rm.can(&keys.vk(me), &ent_name(ent), date, &right), None => r.is_none() } };
        let good = ok(room) && ok(old.and_then(|o| o.0));
        best = Some((me, ent, old, date));
        if good || (attempt == 0 && rng.chance(1, 5)) { break; }
    }
    let (me, ent, old, date) = best.unwrap();
    (me, Head { ent, room, date, has_node: !rng.chance(1, 30), too_big: rng.chance(1, 30), old })
}

// ------------------------------------------------------------------ update requests submitted as text
#[derive(Clone, Debug)]
enum RefOp { None, SetOne(Vec<u64>, bool), ArrAdd(bool), Null(bool, Vec<u64>) }   // Null(on the array field?, stored authors)
impl RefOp {
    fn coq(&self) -> String {
        let l = |v: &Vec<u64>| glist(&v.iter().map(|k| gn(*k)).collect::<Vec<_>>());
        match self { RefOp::None => "RNone".into(), RefOp::SetOne(st, same) => format!("(RSetOne {} {})", l(st), gb(*same)),
            RefOp::ArrAdd(p) => format!("(RArrAdd {})", gb(*p)), RefOp::Null(_, st) => format!("(RNull {})", l(st)) }
    }
}
/// the whole local path: request text -> MutationParser -> MutationQuery::execute (on a connection holding the prior
/// rows) -> RoomAuthorisations::validate_mutation; then the peer is handed exactly the row, references and tombstones
/// that path produced.  obs = [local; rows sent; rows stored; references sent; stored; tombstones sent; stored]
async fn run_request(rig: &Rig, case: u64, w: &World, me: u64, ent_room: Option<u64>, date: i64, author: u64, other: bool, op: &RefOp) -> (Vec<i64>, String) {
    let dm = &rig.dm; let keys = &rig.keys;
    let e1 = dm.dm.get_entity("ns.E1").unwrap();
    let (f_one, f_subs) = (e1.fields.get("one").unwrap().short_name.clone(), e1.fields.get("subs").unwrap().short_name.clone());
    let room_uid = ent_room.map(|r| cuid(case, r));
    let mk = |idx: u64, ent: u64, a: u64, v: &str| { let mut n = Node { id: cuid(case, idx), room_id: room_uid, cdate: date - 9, mdate: date - 5, _entity: dm.short(ent), _json: name_json(dm, ent, v), ..Default::default() };
        n.sign(keys.sk(a)).unwrap(); n };
    let p = mk(100, 1, author, "old");
    let t1 = mk(101, 2, author, "t1");
    let t2 = mk(102, 2, author, "t2");
    let mk_edge = |label: &str, dest: &Node, a: u64| { let mut e = Edge { src: p.id, src_entity: dm.short(1), label: label.to_string(), dest: dest.id, cdate: date - 5, ..Default::default() }; e.sign(keys.sk(a)).unwrap(); e };
    // the stored references of the field the request touches, and the request text
    let (stored, field_text, target): (Vec<Edge>, String, Option<&Node>) = match op {
        RefOp::None => (vec![], String::new(), None),
        RefOp::SetOne(st, same) => {
            let stored: Vec<Edge> = st.iter().map(|a| mk_edge(&f_one, &t1, *a)).collect();
            (stored, "one:{id:$t}".into(), Some(if *same { &t1 } else if st.is_empty() { &t1 } else { &t2 }))
        }
        RefOp::ArrAdd(present) => (if *present { vec![mk_edge(&f_subs, &t1, author)] } else { vec![] }, "subs:[{id:$t}]".into(), Some(&t1)),
        RefOp::Null(arr, st) => {
            let label = if *arr { &f_subs } else { &f_one };
            let stored: Vec<Edge> = st.iter().enumerate().map(|(i, a)| mk_edge(label, if i == 0 { &t1 } else { &t2 }, *a)).collect();
            (stored, format!("{}:null", if *arr { "subs" } else { "one" }), None)
        }
    };
    let text = format!("mutate {{ ns.E1 {{ id:$p {} {} }} }}", if other { "name:\"renamed\"" } else { "" }, field_text);
    // ---- local instance: a connection holding the prior rows
    let conn = rusqlite::Connection::open_in_memory().unwrap();
    prepare_connection(&conn).unwrap();
    for n in [&p, &t1, &t2] { let mut c = clone_node(n); Writeable::write(&mut c, &conn).unwrap(); }
    for e in &stored { e.write(&conn).unwrap(); }
    let mut params = Parameters::default();
    params.add("p", uid_encode(&p.id)).unwrap();
    if let Some(t) = target { params.add("t", uid_encode(&t.id)).unwrap(); }
    let parser = MutationParser::parse(&text, &dm.dm).unwrap();
    verif_clock::set(date);
    let mut mq = MutationQuery::execute(&mut params, Arc::new(parser), &conn).unwrap();
    let mut ra = local_auth(w, me);
    let local = match ra.validate_mutation(&mut mq) { Ok(_) => 0, Err(e) => verdict(&e) };
    verif_clock::clear();
    let ie = &mq.mutate_entities[0];
    // ---- what the local path produced, signed by the caller (validate_mutation has signed it; signed again here so
    // that the peer's verdict does not depend on where the local path signs)
    let sent_node = ie.node_to_mutate.node.clone().map(|mut n| { n._local_id = None; n.sign(&ra.signing_key).unwrap(); n });
    let adds: Vec<Edge> = ie.edge_insertions.iter().map(|e| { let mut e = e.clone(); e.sign(&ra.signing_key).unwrap(); e }).collect();
    let sync_room = ie.node_to_mutate.room_id;
    let tombs: Vec<EdgeDeletionEntry> = match sync_room {
        Some(r) => if local == 0 && !ie.edge_deletions_log.is_empty() { ie.edge_deletions_log.iter().map(clone_edel).collect() }
                   else { ie.edge_deletions.iter().map(|e| EdgeDeletionEntry::build(r, e, date, &ra.signing_key)).collect() },
        None => vec![],
    };
    let (mut ns, mut ni, mut asent, mut ai, mut ts, mut ti) = (0, 0, 0, 0, 0, 0);
    if let Some(r) = sync_room {
        let rid = uid_index(&r) as u64;
        for n in [&p, &t1, &t2] { rig.write_raw(Box::new(clone_node(n))).await; }
        for e in &stored { rig.write_raw(Box::new(EdgeW(e.clone()))).await; }
        if !tombs.is_empty() && Sig::edge_log_check(tombs.iter().map(clone_edel).collect()).is_ok() { let _ = rig.db.delete_edges(tombs.iter().map(clone_edel).collect()).await; }
        if let Some(n) = &sent_node { push_node(rig, case, rid, n).await; }
        if !adds.is_empty() && Sig::edges_check(adds.clone()).is_ok() { let _ = rig.db.add_edges(r, adds.clone()).await; }
        let d = rig.raw_dump(case).await;
        ns = sent_node.is_some() as i64;
        ni = sent_node.as_ref().map(|n| d.nodes.contains(&n._signature) as i64).unwrap_or(0);
        asent = adds.len() as i64;
        ai = adds.iter().filter(|e| d.edges.contains(&e.signature)).count() as i64;
        ts = tombs.len() as i64;
        ti = tombs.iter().filter(|t| d.edels.contains(&t.signature)).count() as i64;
    }
    (vec![local, ns, ni, asent, ai, ts, ti], text)
}

// ------------------------------------------------------------------ rows at the size limit
/// a caller with every right creates / updates a row whose SIGNED size is `target` bytes: the whole local
/// path (validate_mutation on the unsigned request) against the peer's validate_node on the signed row
fn case_size(rig: &Rig, case: u64, update: bool, target: i64) -> Case {
    use discret::verif_hooks::database::node::NodeToInsert;
    let dm = &rig.dm; let keys = &rig.keys;
    let max = MAX_NODE_KB * 1024;
    let me = 1u64;
    let ru = cuid(case, 1);
    let (room, _) = build_room(ru, &move |g| group_uid(case, 1, g), &simple_room(&[(me, 0, true, true)]), keys);
    let mut rooms = HashMap::new();
    rooms.insert(room.id, room);
    let mut ra = RoomAuthorisations { signing_key: Ed25519SigningKey::create_from(&[40 + me as u8; 32]), rooms, max_node_size: max };
    let id = cuid(case, 100);
    let short = dm.short(1);
    let old = if update {
        let mut o = Node { id, room_id: Some(ru), cdate: BASE - 9, mdate: BASE - 5, _entity: short.clone(), _json: name_json(dm, 1, "old"), ..Default::default() };
        o.sign(keys.sk(me)).unwrap();
        Some(o)
    } else { None };
    let build = |payload: usize| -> Node {
        let json = name_json(dm, 1, &"s".repeat(payload));
        match &old {
            Some(o) => { let mut n = o.clone(); n.mdate = BASE; n._json = json; n }
            None => Node { id, room_id: Some(ru), cdate: BASE - 9, mdate: BASE, _entity: short.clone(), _json: json, ..Default::default() },
        }
    };
    let signed_size = |n: &Node| -> i64 { let mut s = n.clone(); s.sign(&ra.signing_key).unwrap(); bincode::serialized_size(&s).unwrap() as i64 };
    let base = signed_size(&build(0));
    let node = build((target - base) as usize);
    let mut sent = node.clone();
    sent.sign(&ra.signing_key).unwrap();
    let real = bincode::serialized_size(&sent).unwrap() as i64;
    assert_eq!(real, target);
    let ie = InsertEntity { name: ent_name(1),
        node_to_mutate: NodeToMutate { id, date: BASE, entity: ent_name(1), room_id: Some(ru), node: Some(node), old_node: old.clone(), ..Default::default() },
        ..Default::default() };
    let mut mq = mutation_query(rig, vec![ie], BASE);
    verif_clock::set(BASE);
    let (local, reported) = match ra.validate_mutation(&mut mq) { Ok(_) => (0, -1), Err(DbError::NodeTooBig(sz, _)) => (3, sz as i64), Err(e) => (verdict(&e), -1) };
    verif_clock::clear();
    let nti = NodeToInsert { id, node: Some(sent.clone()), entity_name: Some(ent_name(1)), old_room_id: old.as_ref().and_then(|o| o.room_id),
        old_mdate: old.as_ref().map(|o| o.mdate).unwrap_or(0), old_verifying_key: old.as_ref().map(|o| o.verifying_key.clone()), ..Default::default() };
    let peer = ra.validate_node(&nti) as i64;
    let srow = format!("{{| sr_room := true; sr_ent_len := {}; sr_json_len := {}; sr_bin_len := None; sr_key_len := {}; sr_sig_len := {} |}}",
        gn(sent._entity.len() as u64), gopt(&sent._json.as_ref().map(|j| gn(j.len() as u64))), gn(sent.verifying_key.len() as u64), gn(sent._signature.len() as u64));
    Case { kind: "size".into(), coq: format!("CSize {} {} {}", gn(max), gb(update), srow), obs: vec![local, reported, peer, real],
        meta: json!({"signed_size": real, "max": max, "update": update, "local": local, "peer": peer}) }
}

// ------------------------------------------------------------------ deletions
fn dnode_coq(auth_like: bool, ent: u64, room: Option<u64>, author: u64, date: i64) -> String {
    format!("{{| dn_kind := {}; dn_ent := {}; dn_room := {}; dn_author := {}; dn_date := {} |}}",
        if auth_like { "KAuthLike" } else { "KNormal" }, gn(ent), gon(room), gn(author), gz(date))
}

async fn run_del_node(rig: &Rig, case: u64, w: &World, me: u64, now: i64, auth_like: bool, ent: u64, room: Option<u64>, author: u64) -> Vec<i64> {
    let dm = &rig.dm; let keys = &rig.keys;
    let mut row = Node { id: cuid(case, 100), room_id: room.map(|r| cuid(case, r)), cdate: now - 9, mdate: now - 5, _entity: dm.short(ent), _json: name_json(dm, ent, "row"), ..Default::default() };
    row.sign(keys.sk(author)).unwrap();
    let name = if auth_like { "sys.EntityRight".to_string() } else { ent_name(ent) };
    let mut dq = DeletionQuery { nodes: vec![NodeDelete { node: row.clone(), name, date: now }], node_log: vec![], updated_nodes: vec![], updated_nodes_previous: vec![], edges: vec![], edge_log: vec![] };
    let ra = local_auth(w, me);
    verif_clock::set(now);
    let local = match ra.validate_deletion(&mut dq) { Ok(_) => 0, Err(e) => verdict(&e) };
    verif_clock::clear();
    let rid = match (auth_like, room) { (false, Some(r)) => r, _ => return vec![local, -1] };
    let tomb = if local == 0 { clone_ndel(&dq.node_log[0]) } else { NodeDeletionEntry::build(cuid(case, rid), &row, now, &ra.signing_key) };
    rig.write_raw(Box::new(clone_node(&row))).await;
    if Sig::node_log_check(vec![clone_ndel(&tomb)]).is_ok() { let _ = rig.db.delete_nodes(vec![clone_ndel(&tomb)]).await; }
    let d = rig.raw_dump(case).await;
    let stored = d.ndels.contains(&tomb.signature);
    // a stored tombstone has removed the row, a refused one has not
    assert_eq!(stored, !d.nodes.contains(&row._signature), "tombstone stored <-> row removed");
    vec![local, stored as i64]
}

async fn run_del_ref(rig: &Rig, case: u64, w: &World, me: u64, now: i64, auth_like: bool, ent: u64, room: Option<u64>, author: u64, ea: u64) -> Vec<i64> {
    let dm = &rig.dm; let keys = &rig.keys;
    let short = dm.short(ent);
    let mut row = Node { id: cuid(case, 100), room_id: room.map(|r| cuid(case, r)), cdate: now - 9, mdate: now - 5, _entity: short.clone(), _json: name_json(dm, ent, "row"), ..Default::default() };
    row.sign(keys.sk(author)).unwrap();
    let mut edge = Edge { src: row.id, src_entity: short.clone(), label: "41".into(), dest: cuid(case, 300), cdate: now - 5, ..Default::default() };
    edge.sign(keys.sk(ea)).unwrap();
    let name = if auth_like { "sys.EntityRight".to_string() } else { ent_name(ent) };
    let mut upd = row.clone();
    upd.mdate = now;
    let mut dq = DeletionQuery { nodes: vec![], node_log: vec![], updated_nodes_previous: vec![], updated_nodes: vec![NodeDelete { node: upd.clone(), name: name.clone(), date: now }],
        edges: vec![EdgeDelete { edge: edge.clone(), src_name: name, room_id: row.room_id, date: now }], edge_log: vec![] };
    let ra = local_auth(w, me);
    verif_clock::set(now);
    let local = match ra.validate_deletion(&mut dq) { Ok(_) => 0, Err(e) => verdict(&e) };
    verif_clock::clear();
    let rid = match (auth_like, room) { (false, Some(r)) => r, _ => return vec![local, -1, -1] };
    let (tomb, sent) = if local == 0 { (clone_edel(&dq.edge_log[0]), clone_node(&dq.updated_nodes[0].node)) }
        else { upd.sign(&ra.signing_key).unwrap(); (EdgeDeletionEntry::build(cuid(case, rid), &edge, now, &ra.signing_key), upd) };
    rig.write_raw(Box::new(clone_node(&row))).await;
    rig.write_raw(Box::new(EdgeW(edge.clone()))).await;
    if Sig::edge_log_check(vec![clone_edel(&tomb)]).is_ok() { let _ = rig.db.delete_edges(vec![clone_edel(&tomb)]).await; }
    push_node(rig, case, rid, &sent).await;
    let d = rig.raw_dump(case).await;
    vec![local, d.edels.contains(&tomb.signature) as i64, d.nodes.contains(&sent._signature) as i64]
}

// ------------------------------------------------------------------ CJson
const JMODEL: &str = r#"js {
  A { s:String, i:Integer nullable, f:Float default 1.5, b:Boolean nullable, k:Base64 nullable, j:Json nullable }
  B { s:String nullable, i:Integer default 3, f:Float nullable, b:Boolean default true, k:Base64 default "YWJj", j:Json default "{}" }
  C { s:String default "d", i:Integer, f:Float, b:Boolean, k:Base64, j:Json }
  D { j:Json default "5", s:String nullable, f:Float default 2 }
  P { name:String nullable, ka:js.A, kb:js.B, kc:js.C, kd:js.D, kas:[js.A], kbs:[js.B], kcs:[js.C], kds:[js.D] }
}"#;
/// the reference fields of js.P towards the entity of index `ei` of JModel::ents: (single reference, array)
const NEST_FIELDS: [(&str, &str); 4] = [("ka", "kas"), ("kb", "kbs"), ("kc", "kcs"), ("kd", "kds")];
fn jkind(v: &serde_json::Value) -> (String, i64) {
    match v {
        serde_json::Value::Null => ("JNull".into(), 0),
        serde_json::Value::Bool(_) => ("JBool".into(), 1),
        serde_json::Value::Number(n) => if n.is_i64() || n.is_u64() { ("JInt".into(), 2) } else { ("JFloat".into(), 3) },
        serde_json::Value::String(s) => if base64_decode(s.as_bytes()).is_ok() { ("(JStr true)".into(), 5) } else { ("(JStr false)".into(), 4) },
        serde_json::Value::Object(_) => ("JObj".into(), 6),
        serde_json::Value::Array(_) => ("JArr".into(), 7),
    }
}
struct JField { name: String, short: u64, ty: &'static str, nullable: bool, default: Option<String> }
struct JModel { dm: DataModel, ents: Vec<(String, Vec<JField>)> }
fn jmodel() -> JModel {
    let mut dm = DataModel::new();
    dm.update(JMODEL).unwrap();
    let mut ents = vec![];
    for n in ["A", "B", "C", "D"] {
        let name = format!("js.{}", n);
        let ent = dm.get_entity(&name).unwrap();
        let mut fs = vec![];
        for (fname, f) in &ent.fields {
            if f.is_system { continue; }
            let ty = match f.field_type { FieldType::Boolean => "TBool", FieldType::Float => "TFloat", FieldType::Base64 => "TBase64", FieldType::Integer => "TInt",
                FieldType::String => "TString", FieldType::Json => "TJson", _ => continue };
            let default = f.default_value.as_ref().map(|d| match (&f.field_type, d) {
                (FieldType::Json, ParamValue::String(s)) => jkind(&serde_json::from_str::<serde_json::Value>(s).unwrap()).0,
                (_, pv) => jkind(&pv.as_serde_json_value().unwrap()).0,
            });
            fs.push(JField { name: fname.clone(), short: f.short_name.parse().unwrap(), ty, nullable: f.nullable, default });
        }
        fs.sort_by_key(|f| f.short);
        ents.push((name, fs));
    }
    JModel { dm, ents }
}
/// (text of the literal in the request, Gallina term of its kind)
fn gen_lit(rng: &mut Rng, ty: &str) -> (String, String) {
    let strs = ["hello", "YWJj", "{\\\"a\\\":1}", "[1]", "5", "\\\"x\\\"", "null", "true", "1.5", "not json {"];
    let matching = rng.chance(19, 20);
    let kind = if matching { match ty { "TBool" => 0, "TInt" => 1, "TFloat" => if rng.chance(1, 2) { 2 } else { 1 }, _ => 3 } } else { rng.below(4) };
    match kind {
        0 => (if rng.chance(1, 2) { "true".into() } else { "false".into() }, "LBool".into()),
        1 => (format!("{}", rng.range(-5, 500)), "LInt".into()),
        2 => ("2.5".into(), "LFloat".into()),
        _ => {
            let s = if matching { match ty {
                "TBase64" => if rng.chance(4, 5) { "YWJj" } else { "hello" },
                "TJson" => *rng.pick(&["{\\\"a\\\":1}", "[1]", "{\\\"a\\\":1}", "[1]", "{\\\"a\\\":1}", "[1]", "{\\\"a\\\":1}", "[1]", "5", "\\\"x\\\"", "null", "true", "not json {"]),
                _ => *rng.pick(&strs),
            } } else { *rng.pick(&strs) };
            let actual = s.replace("\\\"", "\"");
            let b64 = base64_decode(actual.as_bytes()).is_ok();
            let js = serde_json::from_str::<serde_json::Value>(&actual).ok().map(|v| jkind(&v).0);
            (format!("\"{}\"", s), format!("(LStr {} {})", gb(b64), gopt(&js)))
        }
    }
}
/// `nest`: None = the row is created by a root request; Some(array?) = the row is created NESTED under an UPDATE of an
/// existing js.P row (`js.P { id:$p field:{..} }` / `field:[{..}]`): the peers judge the child row exactly as a root one.
/// `omit`: directed nested shape: (entity index, field left out); every other field carries a valid literal.
fn case_json(rng: &mut Rng, jm: &JModel, directed: Option<usize>, nest: Option<bool>, omit: Option<(usize, Option<&str>)>) -> Case {
    let conn = rusqlite::Connection::open_in_memory().unwrap();
    prepare_connection(&conn).unwrap();
    // the parent exists beforehand (created first, stored)
    let parent_id = cuid(1, 100);
    if nest.is_some() {
        let mut parent = Node { id: parent_id, room_id: None, cdate: BASE - 9, mdate: BASE - 5, _entity: jm.dm.get_entity("js.P").unwrap().short_name.clone(),
            _json: Some("{}".to_string()), ..Default::default() };
        parent.sign(&Ed25519SigningKey::create_from(&[41u8; 32])).unwrap();
        Writeable::write(&mut parent, &conn).unwrap();
    }
    // directed 3..8: an explicit null on a field that is not nullable but has a default, one per scalar type
    const NULL_DEFAULTED: [(usize, &str); 6] = [(1, "i"), (1, "b"), (1, "k"), (1, "j"), (0, "f"), (2, "s")];
    let ent_idx = match (omit, directed) { (Some((ei, _)), _) => ei, (None, Some(0)) | (None, Some(1)) => 0, (None, Some(2)) => 3, (None, Some(d)) => NULL_DEFAULTED[d - 3].0,
        (None, None) => [0, 1, 2, 0, 1, 2, 0, 1, 2, 3][rng.below(10) as usize] };
    let (ename, fs) = &jm.ents[ent_idx];
    let valid_lit = |ty: &str| -> (&'static str, &'static str) { match ty {
        "TBool" => ("true", "LBool"), "TInt" => ("7", "LInt"), "TFloat" => ("2.5", "LFloat"), "TBase64" => ("\"YWJj\"", "(LStr true None)"),
        "TJson" => ("\"[1]\"", "(LStr false (Some JArr))"), _ => ("\"v\"", "(LStr false None)") } };
    let nest_field = nest.map(|arr| if arr { NEST_FIELDS[ent_idx].1 } else { NEST_FIELDS[ent_idx].0 });
    let (mut text, closing) = match nest {
        None => (format!("mutate {{ {} {{ ", ename), "} }"),
        Some(false) => (format!("mutate {{ js.P {{ id:$p {}:{{ ", nest_field.unwrap()), "} } }"),
        Some(true) => (format!("mutate {{ js.P {{ id:$p {}:[{{ ", nest_field.unwrap()), "}] } }"),
    };
    let new_params = || { let mut params = Parameters::default(); if nest.is_some() { params.add("p", uid_encode(&parent_id)).unwrap(); } params };
    // the created row inside what execute returns
    let created = |q: &MutationQuery| -> Node { let root = &q.mutate_entities[0];
        let ie = match nest_field { None => root, Some(f) => &root.sub_nodes.get(f).unwrap()[0] };
        ie.node_to_mutate.node.clone().unwrap() };
    // the same request with every explicit null replaced by a value of the field's type (to obtain, from the real
    // code, the content the request would produce if its nulls were let through)
    let mut text_forced = text.clone();
    let mut nulled: Vec<u64> = vec![];
    let mut lits = vec![];
    for f in fs {
        let choice = if let Some((_, om)) = omit { if om == Some(f.name.as_str()) { 0 } else { 12 } } else { match directed {
            Some(0) => if f.name == "s" { 10 } else if f.name == "i" || f.name == "j" { 1 } else { 0 },      // i: null, j: null (repaired: d170035, 8ac9d00)
            Some(1) => if f.name == "s" { 10 } else if f.name == "j" { 11 } else { 0 },     // j: "5"
            Some(2) => 0,                                                                   // everything omitted: Json default "5"
            Some(d) => if f.name == NULL_DEFAULTED[d - 3].1 { 1 } else if !f.nullable && f.default.is_none() { 12 } else { 0 },
            None => {
                let c = rng.below(10);
                if c <= 2 { if !f.nullable && f.default.is_none() && rng.chance(9, 10) { 5 } else { 0 } }
                else if c == 3 && rng.chance(1, 3) && (f.nullable || rng.chance(1, 4)) { 1 } else { 5 }
            }
        } };
        match choice {
            0 => {}                                                                         // omitted
            1 => { text += &format!("{}: null ", f.name); lits.push(format!("({}, LNull)", gn(f.short)));
                   text_forced += &format!("{}: {} ", f.name, valid_lit(f.ty).0); nulled.push(f.short); }
            10 => { let t = format!("{}: \"v\" ", f.name); text += &t; text_forced += &t; lits.push(format!("({}, (LStr false None))", gn(f.short))); }
            11 => { let t = format!("{}: \"5\" ", f.name); text += &t; text_forced += &t; lits.push(format!("({}, (LStr false (Some JInt)))", gn(f.short))); }
            12 => { let (t, c) = valid_lit(f.ty); let t = format!("{}: {} ", f.name, t); text += &t; text_forced += &t; lits.push(format!("({}, {})", gn(f.short), c)); }
            _ => { let (t, c) = gen_lit(rng, f.ty); let t = format!("{}: {} ", f.name, t); text += &t; text_forced += &t; lits.push(format!("({}, {})", gn(f.short), c)); }
        }
    }
    // the grammar wants at least one field in a nested entity (`entity_ref = "{" field+ "}"`, a root entity takes `field*`)
    if nest.is_some() && lits.is_empty() {
        let f = &fs[0];
        let (t, c) = valid_lit(f.ty); let t = format!("{}: {} ", f.name, t); text += &t; text_forced += &t; lits.push(format!("({}, {})", gn(f.short), c));
    }
    text += closing;
    text_forced += closing;
    let mut obs;
    let mut stage = "parse";
    match MutationParser::parse(&text, &jm.dm) {
        Err(_) => {
            obs = vec![0, -1];
            // refused: if the request is acceptable once its explicit nulls are replaced, hand the peer the content
            // it would have produced WITH those nulls
            if !nulled.is_empty() {
                if let Ok(p) = MutationParser::parse(&text_forced, &jm.dm) {
                    let mut params = new_params();
                    if let Ok(q) = MutationQuery::execute(&mut params, Arc::new(p), &conn) {
                        stage = "refused for its nulls";
                        let node = &created(&q);
                        let mut v: serde_json::Value = serde_json::from_str(node._json.as_ref().unwrap()).unwrap();
                        for k in &nulled { v.as_object_mut().unwrap().insert(k.to_string(), serde_json::Value::Null); }
                        let ent = jm.dm.get_entity(ename).unwrap();
                        let remote = validate_json_for_entity(ent, &Some(v.to_string())).is_ok();
                        obs = vec![0, remote as i64];
                        for f in fs { obs.push(match v.get(f.short.to_string()) { None => -1, Some(x) => jkind(x).1 }); }
                    }
                }
            }
        }
        Ok(p) => {
            let mut params = new_params();
            match MutationQuery::execute(&mut params, Arc::new(p), &conn) {
                Err(_) => { obs = vec![0, -1]; stage = "execute"; }
                Ok(q) => {
                    stage = "stored";
                    let node = &created(&q);
                    let ent = jm.dm.get_entity(ename).unwrap();
                    let remote = validate_json_for_entity(ent, &node._json).is_ok();
                    obs = vec![1, remote as i64];
                    let v: serde_json::Value = serde_json::from_str(node._json.as_ref().unwrap()).unwrap();
                    for f in fs { obs.push(match v.get(f.short.to_string()) { None => -1, Some(x) => jkind(x).1 }); }
                }
            }
        }
    }
    let fcoq: Vec<String> = fs.iter().map(|f| format!("{{| lf := {{| f_short := {}; f_type := {}; f_nullable := {}; f_default := {} |}}; lf_default := {} |}}",
        gn(f.short), f.ty, gb(f.nullable), gb(f.default.is_some()), gopt(&f.default))).collect();
    Case { kind: if nest.is_some() { "json-nested".into() } else { "json".into() }, coq: format!("CJson {} {}", glist(&fcoq), glist(&lits)), obs: obs.clone(),
        meta: json!({"text": text, "stage": stage, "local": obs[0], "peer": obs[1], "nested_under_update": nest.map(|a| if a { "array" } else { "single" })}) }
}

// ------------------------------------------------------------------ main
fn simple_room(members: &[(u64, u64, bool, bool)]) -> Vec<Ev> {
    let mut evs = vec![];
    for (i, (k, e, s, a)) in members.iter().enumerate() {
        let g = i as u64 + 1;
        evs.push(Ev::Group(g)); evs.push(Ev::User(g, *k, D0, true)); evs.push(Ev::Right(g, *e, D0, *s, *a));
    }
    evs
}

#[tokio::main(flavor = "multi_thread", worker_threads = 4)]
async fn main() {
    let mut out = Out::create();
    let mut rng = Rng::from_env();
    let rig = Rig::start("C12", "b", MODEL).await;
    let jm = jmodel();
    let n = scale(900, 9000);
    let mut case: u64 = 0;
    // directed: the three listed disagreement classes, then agreement on the plain shapes
    for d in 0..9 { let mut r = rng.fork(); let mut c = case_json(&mut r, &jm, Some(d), None, None); c.kind = "directed".into(); out.push(c); }
    {
        // repaired by 25ca1a0 (was class 3): key 1 owns the row and has the own-rows right only; the reference it removes was written by key 2
        case += 1;
        let w = world(&rig, case, vec![(1, simple_room(&[(1, 1, true, false), (2, 1, true, true)]))]).await;
        let h = Head { ent: 1, room: Some(1), date: BASE, has_node: true, too_big: false, old: Some((Some(1), 1)) };
        let obs = run_write(&rig, case, &w, 1, &h, 1, &[2, 1]).await;
        out.push(Case { kind: "directed".into(), coq: format!("CWrite {} {} {} {} {}", defs_coq(&w.defs), rig.dm.coq(), gn(1), head_coq(&h, &[2, 1]), gn(1)),
            obs, meta: json!({"what": "repaired (25ca1a0): removal of another author's reference inside a mutation is refused locally"}) });
    }
    // a NEW row created nested under an UPDATE of an existing parent (single reference and array field): complete, a required
    // field left out (refused locally, as the peers would refuse the row), a defaulted field left out, a nullable one left out
    {
        // (entity index, omitted field): A{s required, i nullable, f default} B{s nullable, i default, j default "{}"} C{s default, i/f/b/k/j required}
        let shapes: [(usize, Option<&str>); 13] = [(0, None), (0, Some("s")), (0, Some("f")), (0, Some("i")), (0, Some("j")),
            (1, None), (1, Some("i")), (1, Some("s")), (1, Some("j")),
            (2, None), (2, Some("i")), (2, Some("j")), (2, Some("s"))];
        for arr in [false, true] { for sh in &shapes {
            let mut r = rng.fork();
            let mut c = case_json(&mut r, &jm, None, Some(arr), Some(*sh));
            c.kind = "directed".into();
            out.push(c);
        } }
    }
    // update requests as text: each reference operation, with and without another field, by a caller without any right
    // in the room and by one with the all-rows right
    {
        let ops = vec![RefOp::SetOne(vec![], false), RefOp::SetOne(vec![2], false), RefOp::SetOne(vec![2], true), RefOp::ArrAdd(false), RefOp::ArrAdd(true),
                       RefOp::Null(false, vec![2]), RefOp::Null(true, vec![2, 3]), RefOp::Null(false, vec![]), RefOp::None];
        for op in &ops { for other in [false, true] { for me in [4u64, 1u64] {
            case += 1;
            let w = world(&rig, case, vec![(1, simple_room(&[(1, 0, true, true), (2, 0, true, false), (3, 0, true, false)]))]).await;
            let (obs, text) = run_request(&rig, case, &w, me, Some(1), BASE, 2, other, op).await;
            out.push(Case { kind: "directed".into(), coq: format!("CReq {} {} {} {} {} {} {} {} {}", defs_coq(&w.defs), rig.dm.coq(), gn(me), gn(1), gon(Some(1)), gz(BASE), gn(2), gb(other), op.coq()),
                meta: json!({"text": text, "me": me, "local": obs[0], "peer": &obs[1..]}), obs });
        } } }
    }
    // rows at the size limit: every signed size from max-130 to max+130, creations and updates
    let max = (MAX_NODE_KB * 1024) as i64;
    for update in [false, true] {
        for target in (max - 130)..=(max + 130) {
            case += 1;
            out.push(case_size(&rig, case, update, target));
        }
    }
    let n = n + out.n;
    while out.n < n {
        case += 1;
        let mut r = rng.fork();
        match out.n % 9 {
            3 => {
                let w = world(&rig, case, gen_defs(&mut r)).await;
                let room = match r.below(16) { 0 => None, _ => Some(1 + r.below(2)) };
                let other = r.chance(1, 2);
                let st = |r: &mut Rng, max: u64| -> Vec<u64> { (0..r.below(max + 1)).map(|_| 1 + r.below(4)).collect() };
                let op = match r.below(9) { 0..=2 => { let s = st(&mut r, 1); let same = !s.is_empty() && r.chance(1, 3); RefOp::SetOne(s, same) }
                    3..=4 => RefOp::ArrAdd(r.chance(1, 3)), 5 => RefOp::Null(false, st(&mut r, 1)), 6 => RefOp::Null(true, st(&mut r, 2)), _ => RefOp::None };
                // mostly a caller entitled to rewrite the row at that date
                let (mut me, mut date, mut author) = (1, BASE, 1);
                for attempt in 0..12 {
                    use discret::verif_hooks::database::room::RightType;
                    me = 1 + r.below(4); date = *r.pick(&w.dates) + r.range(0, 2); author = if r.chance(3, 5) { me } else { 1 + r.below(4) };
                    let right = if author == me { RightType::MutateSelf } else { RightType::MutateAll };
                    let good = match room.and_then(|x| w.rooms.get(&cuid(case, x))) { Some(rm) => rm.can(&rig.keys.vk(me), &ent_name(1), date, &right), None => true };
                    if good || (attempt == 0 && r.chance(1, 4)) { break; }
                }
                let (obs, text) = run_request(&rig, case, &w, me, room, date, author, other, &op).await;
                out.push(Case { kind: "request".into(), coq: format!("CReq {} {} {} {} {} {} {} {} {}", defs_coq(&w.defs), rig.dm.coq(), gn(me), gn(1), gon(room), gz(date), gn(author), gb(other), op.coq()),
                    meta: json!({"text": text, "local": obs[0], "peer": &obs[1..]}), obs });
            }
            0..=2 => {
                let w = world(&rig, case, gen_defs(&mut r)).await;
                let (me, h) = gen_head(&mut r, &w, &rig.keys, case);
                let nadd = if h.has_node { [0, 0, 1, 2][r.below(4) as usize] } else { 0 };
                let rm: Vec<u64> = if h.old.is_some() && h.has_node { (0..[0, 0, 1, 2][r.below(4) as usize]).map(|_| if r.chance(2, 3) { me } else { 1 + r.below(4) }).collect() } else { vec![] };
                let obs = run_write(&rig, case, &w, me, &h, nadd, &rm).await;
                out.push(Case { kind: "write".into(), coq: format!("CWrite {} {} {} {} {}", defs_coq(&w.defs), rig.dm.coq(), gn(me), head_coq(&h, &rm), gn(nadd)),
                    meta: json!({"local": obs[0], "peer": &obs[1..], "create": h.old.is_none(), "move": h.old.map(|o| o.0 != h.room).unwrap_or(false), "adds": nadd, "removes": rm.len()}), obs });
            }
            4 | 5 => {
                let w = world(&rig, case, gen_defs(&mut r)).await;
                let auth_like = r.chance(1, 30);
                let room = match r.below(16) { 0 => None, 1 => Some(9), _ => Some(1 + r.below(2)) };
                let (mut me, mut now, mut ent, mut author) = (1, BASE, 1, 1);
                for attempt in 0..12 {
                    use discret::verif_hooks::database::room::RightType;
                    me = 1 + r.below(4);
                    now = *r.pick(&w.dates) + r.range(0, 2);
                    ent = 1 + r.below(3);
                    author = if r.chance(3, 5) { me } else { 1 + r.below(4) };
                    let right = if author == me { RightType::MutateSelf } else { RightType::MutateAll };
                    let good = match room.and_then(|x| w.rooms.get(&cuid(case, x))) { Some(rm) => rm.can(&rig.keys.vk(me), &ent_name(ent), now, &right), None => room.is_none() };
                    if good || (attempt == 0 && r.chance(1, 5)) { break; }
                }
                if out.n % 9 == 4 {
                    let obs = run_del_node(&rig, case, &w, me, now, auth_like, ent, room, author).await;
                    out.push(Case { kind: "delete-row".into(), coq: format!("CDelNode {} {} {} {}", defs_coq(&w.defs), gn(me), gz(now), dnode_coq(auth_like, ent, room, author, now)),
                        meta: json!({"local": obs[0], "peer": &obs[1..], "own": author == me}), obs });
                } else {
                    let ea = if r.chance(1, 2) { me } else { 1 + r.below(4) };
                    let obs = run_del_ref(&rig, case, &w, me, now, auth_like, ent, room, author, ea).await;
                    out.push(Case { kind: "delete-reference".into(), coq: format!("CDelRef {} {} {} {} {}", defs_coq(&w.defs), gn(me), gz(now), dnode_coq(auth_like, ent, room, author, now), gn(ea)),
                        meta: json!({"local": obs[0], "peer": &obs[1..], "own_row": author == me, "own_ref": ea == me}), obs });
                }
            }
            _ => {
                // one creation request in three is nested under an update of an existing parent row
                let nest = match r.below(6) { 0 => Some(false), 1 => Some(true), _ => None };
                out.push(case_json(&mut r, &jm, None, nest, None));
            }
        }
    }
    out.finish();
    rig.stop();
}
