//! Shared wiring of the multi-instance harnesses (C03, C11, C17): several real
//! `GraphDatabaseService` instances in one process, one room shared by all of them, directed
//! pulls through the real `LocalPeerService::synchronise_room` (feature-gated wrapper) on the
//! pulling side and the real `InboundQueryService::process_inbound` on the serving side, over
//! in-memory channels.  Every query that crosses the channel is logged, so that the harness knows
//! which days a pull decided to exchange and which row ids it requested.
#![allow(dead_code)]
use discret::verif_hooks::configuration::Configuration;
use discret::verif_hooks::database::graph_database::GraphDatabaseService;
use discret::verif_hooks::database::node::NodeDeletionEntry;
use discret::verif_hooks::date_utils::verif_clock;
use discret::verif_hooks::discret_mod::DiscretServices;
use discret::verif_hooks::event_service::EventService;
use discret::verif_hooks::peer_connection_service::{PeerConnectionMessage, PeerConnectionService};
use discret::verif_hooks::security::{base64_encode, random32, uid_encode, HardwareFingerprint, Uid};
use discret::verif_hooks::signature_verification_service::SignatureVerificationService;
use discret::verif_hooks::synchronisation::peer_inbound_service::{LocalPeerService, QueryService};
use discret::verif_hooks::synchronisation::peer_outbound_service::{InboundQueryService, RemotePeerHandle};
use discret::verif_hooks::synchronisation::{Answer, Query, QueryProtocol};
use discret::{Parameters, ParametersAdd};
use std::collections::{HashMap, HashSet};
use std::path::PathBuf;
use std::sync::atomic::AtomicBool;
use std::sync::Arc;
use tokio::sync::{mpsc, oneshot, Mutex};

pub use vharness::common::DAY;
/// 2023-11-14T00:00:00Z: start of a UTC day, so that `T0 + k*DAY` are day starts
pub const T0: i64 = 1_699_920_000_000;

pub const MODEL: &str = "ns { Doc{ a:String, b:String nullable, refs:[ns.Doc] nullable } Plain(no_full_text_index){ a:String } Note{ a:String nullable, b:String nullable, n:Integer nullable } Memo{ a:String nullable, n:Integer nullable } }";
/// the same data model with one entity declared without full-text index (a later model version)
pub fn model_with_index_off(entity: &str) -> String {
    MODEL.replace(&format!(" {}{{", entity), &format!(" {}(no_full_text_index){{", entity))
}

pub struct Peer {
    pub db: GraphDatabaseService,
    pub vk: Vec<u8>,
    pub services: DiscretServices,
    pub path: PathBuf,
}

pub struct Net {
    pub peers: Vec<Peer>,
    pub peer_service: PeerConnectionService,
    pub root: PathBuf,
    /// answer size (bytes) used by the serving side of a pull; 0 = the instance's own buffer size
    /// (write_buffer_length 1024 KiB).  A small value makes the serving loops of node.rs / edge.rs
    /// (get_entries, get_daily_nodes_for_room, filtered_by_room) cut one day's answer into several batches.
    pub serve_buffer: std::sync::atomic::AtomicUsize,
}

#[derive(Default, Debug, Clone)]
pub struct PullTrace {
    /// result of synchronise_room
    pub ok: bool,
    pub err: String,
    /// (entity, date) of every synchronise_day the puller started, in order
    pub days: Vec<(String, i64)>,
    /// ids asked for in Query::Nodes, in order
    pub requested: Vec<Uid>,
    /// number of rows in the Nodes answers
    pub nodes_received: usize,
    /// tombstones in the NodeDeletionLog answers
    pub tombs_received: usize,
    /// number of NodeDeletionLog / Nodes answers that carried data (more than one per query = the answer was cut into batches)
    pub tomb_batches: usize,
    pub node_batches: usize,
    pub edges_received: usize,
    /// whether the room definition / history log / last-day log were asked for
    pub asked_room_node: bool,
    pub asked_full_log: bool,
    pub asked_log_at: bool,
}

#[derive(Debug, Clone)]
pub struct NodeRow {
    pub id: Uid,
    pub mdate: i64,
    pub cdate: i64,
    pub entity: String,
    pub json: Option<String>,
    pub author: Vec<u8>,
    pub sig: Vec<u8>,
    pub rowid: i64,
}
#[derive(Debug, Clone)]
pub struct TombRow {
    pub id: Uid,
    pub mdate: i64,
    pub ddate: i64,
    pub entity: String,
    pub author: Vec<u8>,
    pub sig: Vec<u8>,
}

pub fn work_root(tag: &str) -> PathBuf {
    let base = std::env::var("VERIF_WORK").unwrap_or_else(|_| "/verif/work".to_string());
    let p: PathBuf = format!("{}/{}/inst_{}", base, tag, std::process::id()).into();
    let _ = std::fs::remove_dir_all(&p);
    std::fs::create_dir_all(&p).unwrap();
    p
}

impl Net {
    /// starts `n` instances with the given data model under `root`
    pub async fn start(n: usize, model: &str, root: PathBuf) -> Net {
        let (ps, mut pr) = mpsc::channel::<PeerConnectionMessage>(64);
        tokio::spawn(async move { while pr.recv().await.is_some() {} });
        let peer_service = PeerConnectionService { sender: ps };
        let mut peers = vec![];
        for i in 0..n {
            let path = root.join(format!("p{}_{}", i, peers.len()));
            std::fs::create_dir_all(&path).unwrap();
            let mut conf = Configuration::default();
            conf.parallelism = 2;
            let events = EventService::new();
            let (db, vk, _) = GraphDatabaseService::start("verif", model, &random32(), &random32(), path.clone(), &conf, events.clone())
                .await
                .expect("instance start");
            let services = DiscretServices { events, database: db.clone(), signature_verification: SignatureVerificationService::start(1) };
            peers.push(Peer { db, vk, services, path });
        }
        Net { peers, peer_service, root, serve_buffer: std::sync::atomic::AtomicUsize::new(0) }
    }

    pub fn cleanup(&self) {
        let _ = std::fs::remove_dir_all(&self.root);
    }

    /// runs a closure on a reader connection of peer `p`; the closure must not panic (it runs on one
    /// of the instance's reader threads): it returns a Result and is retried while SQLite reports
    /// "database is locked" (a loaded machine can exceed the 5 s busy timeout)
    pub async fn sql<T: Send + 'static>(&self, p: usize, f: impl Fn(&rusqlite::Connection) -> rusqlite::Result<T> + Send + Sync + Clone + 'static) -> T {
        let mut last = String::new();
        for _ in 0..200 {
            let (tx, rx) = oneshot::channel::<rusqlite::Result<T>>();
            let g = f.clone();
            self.peers[p]
                .db
                .db
                .reader
                .send_async(Box::new(move |conn| {
                    let _ = tx.send(g(conn));
                }))
                .await
                .expect("reader");
            match rx.await.expect("reader answer") {
                Ok(v) => return v,
                Err(e) => {
                    last = e.to_string();
                    tokio::time::sleep(std::time::Duration::from_millis(100)).await;
                }
            }
        }
        panic!("reader query keeps failing on peer {}: {}", p, last);
    }

    /// waits until the daily log of peer `p` has no row marked for recomputation; returns false
    /// if a recomputation had to be requested explicitly
    pub async fn barrier(&self, p: usize) -> bool {
        let mut natural = true;
        for round in 0..15000 {
            let dirty: i64 = self
                .sql(p, |c| c.query_row("SELECT count(*) FROM _daily_log WHERE need_recompute = 1", [], |r| r.get(0)))
                .await;
            if dirty == 0 {
                return natural;
            }
            if round == 1500 {
                // the recomputation every write asks for did not arrive within 3 s: ask explicitly
                natural = false;
                self.peers[p].db.compute_daily_log().await;
            }
            tokio::time::sleep(std::time::Duration::from_millis(2)).await;
        }
        panic!("daily log of peer {} stays dirty", p);
    }

    /// creates a room on peer 0 in which every peer may write every entity (own and foreign rows)
    /// from `date` on, and copies the definition to every other peer
    pub async fn create_room(&self, date: i64, entities: &[&str]) -> Uid {
        self.create_room_ext(date, entities, None).await
    }
    /// the same, but peer `self_only` (if any) is an ordinary member: it may write and delete its OWN rows
    /// only (mutate_self without mutate_all), in a group of its own
    pub async fn create_room_ext(&self, date: i64, entities: &[&str], self_only: Option<usize>) -> Uid {
        verif_clock::set(date);
        let mut p = Parameters::default();
        let mut users = vec![];
        for (i, peer) in self.peers.iter().enumerate() {
            p.add(&format!("k{}", i), base64_encode(&peer.vk)).unwrap();
            if Some(i) != self_only { users.push(format!("{{verif_key:$k{}}}", i)); }
        }
        let users = users.join(",");
        let rights: Vec<String> = entities.iter().map(|e| format!("{{entity:\"{}\" mutate_self:true mutate_all:true}}", e)).collect();
        let mut groups = format!("{{ name:\"g\" rights:[{}] users:[{}] }}", rights.join(","), users);
        if let Some(m) = self_only {
            let own: Vec<String> = entities.iter().map(|e| format!("{{entity:\"{}\" mutate_self:true mutate_all:false}}", e)).collect();
            groups.push_str(&format!(", {{ name:\"m\" rights:[{}] users:[{{verif_key:$k{}}}] }}", own.join(","), m));
        }
        let q = format!("mutate {{ sys.Room{{ admin:[{{verif_key:$k0}}] authorisations:[{}] }} }}", groups);
        let room = self.peers[0].db.mutate_raw(&q, Some(p)).await.expect("room creation");
        let room_id = room.mutate_entities[0].node_to_mutate.id;
        self.barrier(0).await;
        let node = self.peers[0].db.get_room_node(room_id).await.unwrap().expect("room node");
        let bytes = bincode::serialize(&node).unwrap();
        for i in 1..self.peers.len() {
            let copy = bincode::deserialize(&bytes).unwrap();
            self.peers[i].db.add_room_node(copy).await.expect("room import");
        }
        room_id
    }

    /// one directed pull: `dst` synchronises room `room` from `src`
    pub async fn pull(&self, dst: usize, src: usize, room: Uid, now: i64) -> PullTrace {
        verif_clock::set(now);
        let (q_tx, mut q_rx) = mpsc::channel::<QueryProtocol>(16);
        let (a_tx, a_rx) = mpsc::channel::<Answer>(16);
        let (s_tx, mut s_rx) = mpsc::channel::<Answer>(16);
        let trace = Arc::new(Mutex::new(PullTrace::default()));
        let kinds: Arc<Mutex<HashMap<u64, u8>>> = Arc::new(Mutex::new(HashMap::new()));

        let mut allowed = HashSet::new();
        allowed.insert(room);
        let mut serving_db = self.peers[src].db.clone();
        let small = self.serve_buffer.load(std::sync::atomic::Ordering::SeqCst);
        if small > 0 { serving_db.buffer_size = small; }
        let mut handle = RemotePeerHandle { allowed_room: allowed, db: serving_db, verifying_key: self.peers[dst].vk.clone(), reply: s_tx };
        let remote_key = Arc::new(Mutex::new(self.peers[dst].vk.clone()));
        let ready = Arc::new(AtomicBool::new(true));
        let fingerprint = HardwareFingerprint { id: [7u8; 16], name: "verif".to_string() };

        // serving side: real process_inbound of the source peer; every query is logged
        let tr = trace.clone();
        let kd = kinds.clone();
        let server = tokio::spawn(async move {
            while let Some(msg) = q_rx.recv().await {
                {
                    let mut t = tr.lock().await;
                    let mut k = kd.lock().await;
                    match &msg.query {
                        Query::EdgeDeletionLog(_, e, d) => t.days.push((e.clone(), *d)),
                        Query::Nodes(_, ids) => {
                            t.requested.extend(ids.iter().cloned());
                            k.insert(msg.id, 1);
                        }
                        Query::NodeDeletionLog(_, _, _) => {
                            k.insert(msg.id, 2);
                        }
                        Query::Edges(_, _) => {
                            k.insert(msg.id, 3);
                        }
                        Query::RoomNode(_) => t.asked_room_node = true,
                        Query::RoomLog(_) => t.asked_full_log = true,
                        Query::RoomLogAt(_, _) => t.asked_log_at = true,
                        _ => {}
                    }
                }
                let _ = InboundQueryService::process_inbound(msg, &mut handle, &remote_key, &ready, &fingerprint).await;
            }
        });
        // answers are inspected on their way back
        let tr = trace.clone();
        let kd = kinds.clone();
        let forward = tokio::spawn(async move {
            while let Some(ans) = s_rx.recv().await {
                if ans.success && !ans.complete {
                    let kind = kd.lock().await.get(&ans.id).cloned().unwrap_or(0);
                    let mut t = tr.lock().await;
                    match kind {
                        1 => {
                            if let Ok(v) = bincode::deserialize::<Vec<discret::verif_hooks::database::node::Node>>(&ans.serialized) {
                                t.nodes_received += v.len();
                                t.node_batches += 1;
                            }
                        }
                        2 => {
                            if let Ok(v) = bincode::deserialize::<Vec<NodeDeletionEntry>>(&ans.serialized) {
                                t.tombs_received += v.len();
                                t.tomb_batches += 1;
                            }
                        }
                        3 => {
                            if let Ok(v) = bincode::deserialize::<Vec<discret::verif_hooks::database::edge::Edge>>(&ans.serialized) {
                                t.edges_received += v.len();
                            }
                        }
                        _ => {}
                    }
                }
                if a_tx.send(ans).await.is_err() {
                    break;
                }
            }
        });

        let qs = QueryService::start(q_tx, a_rx);
        let res = LocalPeerService::verif_synchronise_room(room, &qs, self.peer_service.clone(), &self.peers[dst].services).await;
        drop(qs);
        server.abort();
        forward.abort();
        let _ = server.await;
        let _ = forward.await;
        self.barrier(dst).await;
        let mut t = trace.lock().await.clone();
        match res {
            Ok(_) => t.ok = true,
            Err(e) => {
                t.ok = false;
                t.err = format!("{}", e);
            }
        }
        t
    }

    pub async fn dump_nodes(&self, p: usize, room: Uid) -> Vec<NodeRow> {
        self.sql(p, move |c| {
            let mut st = c.prepare("SELECT id, mdate, cdate, _entity, _json, verifying_key, _signature, rowid FROM _node WHERE room_id = ? ORDER BY id")?;
            let rows = st.query_map([room], |r| {
                Ok(NodeRow { id: r.get(0)?, mdate: r.get(1)?, cdate: r.get(2)?, entity: r.get(3)?, json: r.get(4)?, author: r.get(5)?, sig: r.get(6)?, rowid: r.get(7)? })
            })?;
            rows.collect()
        })
        .await
    }

    pub async fn dump_tombs(&self, p: usize, room: Uid) -> Vec<TombRow> {
        self.sql(p, move |c| {
            let mut st = c.prepare("SELECT id, mdate, deletion_date, entity, verifying_key, signature FROM _node_deletion_log WHERE room_id = ? ORDER BY id, deletion_date")?;
            let rows = st.query_map([room], |r| Ok(TombRow { id: r.get(0)?, mdate: r.get(1)?, ddate: r.get(2)?, entity: r.get(3)?, author: r.get(4)?, sig: r.get(5)? }))?;
            rows.collect()
        })
        .await
    }

    /// (date, entity, entry_number, daily_hash, history_hash) of the room's daily log
    pub async fn dump_log(&self, p: usize, room: Uid) -> Vec<(i64, String, i64, Option<Vec<u8>>, Option<Vec<u8>>)> {
        self.sql(p, move |c| {
            let mut st = c.prepare("SELECT date, entity, entry_number, daily_hash, history_hash FROM _daily_log WHERE room_id = ? ORDER BY date, entity")?;
            let rows = st.query_map([room], |r| Ok((r.get(0)?, r.get(1)?, r.get(2)?, r.get(3)?, r.get(4)?)))?;
            rows.collect()
        })
        .await
    }

    pub async fn max_rowid(&self, p: usize) -> i64 {
        self.sql(p, |c| c.query_row("SELECT ifnull(max(rowid),0) FROM _node", [], |r| r.get(0))).await
    }
}

/// rank of every byte string in byte-wise order (the order SQLite and Vec<u8> comparison use),
/// starting at 1
pub fn ranks(items: &[Vec<u8>]) -> HashMap<Vec<u8>, u64> {
    let mut v: Vec<Vec<u8>> = items.to_vec();
    v.sort();
    v.dedup();
    v.into_iter().enumerate().map(|(i, s)| (s, i as u64 + 1)).collect()
}

pub fn b64(u: &Uid) -> String {
    uid_encode(u)
}

// ------------------------------------------------------------------------------------------
// scenario engine shared by C03 and C11: runs a history of local writes and directed pulls on the
// real instances (a fresh room per history) and records, after every step, the flag and the dump of
// the peer the step touched, in the vocabulary of coq/model/Sync.v
// ------------------------------------------------------------------------------------------
use vharness::common::{glist, gn, gz, Case, Rng};

#[derive(Clone, Debug)]
pub enum Op {
    Create { p: usize, x: u64, t: i64 },
    /// ONE mutation that creates k rows (ids x0 .. x0+k-1, all with the same date)
    CreateMany { p: usize, x0: u64, k: u64, t: i64 },
    Update { p: usize, x: u64, t: i64 },
    Delete { p: usize, x: u64, t: i64 },
    /// mutate { ns.Doc{ id:x refs:[{id:y}] } }
    AddRef { p: usize, x: u64, y: u64, t: i64 },
    /// delete { ns.Doc{ x refs[y] } }
    DelRef { p: usize, x: u64, y: u64, t: i64 },
    Pull { dst: usize, src: usize, t: i64 },
}

#[derive(Clone, Debug, Default)]
pub struct Dump {
    pub nodes: Vec<(u64, i64, Vec<u8>)>,
    pub tombs: Vec<(u64, i64, i64)>,
    /// (src, dest, cdate) of _edge rows whose source is a row of the scenario
    pub edges: Vec<(u64, u64, i64)>,
    /// (src, dest, cdate, deletion date) of the room's _edge_deletion_log
    pub etombs: Vec<(u64, u64, i64, i64)>,
}

#[derive(Clone, Debug)]
pub struct StepRec {
    pub op: Op,
    pub flag: i64,
    pub sig: Vec<u8>,     // signature produced by a local write (empty otherwise)
    pub sigs: Vec<Vec<u8>>, // signatures of the rows of a CreateMany
    pub days: Vec<i64>,   // days a pull exchanged
    pub dump: Dump,       // dump of the touched peer after the step
    pub batches: usize,   // data-carrying answers of a pull (deletion records + rows)
    pub natural: bool,    // the daily log got clean without an explicit recompute request
    pub pull_ok: bool,
}

pub struct Runner<'a> {
    pub net: &'a Net,
    pub room: Uid,
    pub n: usize,
    pub ids: Vec<Uid>, // index x-1 -> uid
    pub steps: Vec<StepRec>,
    pub texts: u64,
}

impl<'a> Runner<'a> {
    pub async fn new(net: &'a Net, n: usize) -> Runner<'a> {
        Self::new_ext(net, n, None).await
    }
    /// `self_only`: that peer is an ordinary member of the room (own rows only)
    pub async fn new_ext(net: &'a Net, n: usize, self_only: Option<usize>) -> Runner<'a> {
        let room = net.create_room_ext(T0 - 30 * DAY, &["ns.Doc", "ns.Plain"], self_only).await;
        Runner { net, room, n, ids: vec![], steps: vec![], texts: 0 }
    }
    fn index_of(&self, id: &Uid) -> u64 {
        self.ids.iter().position(|u| u == id).map(|i| i as u64 + 1).expect("row id outside the scenario")
    }
    pub async fn dump(&self, p: usize) -> Dump {
        let mut nodes: Vec<(u64, i64, Vec<u8>)> = self.net.dump_nodes(p, self.room).await.into_iter().map(|r| (self.index_of(&r.id), r.mdate, r.sig)).collect();
        nodes.sort();
        let mut tombs: Vec<(u64, i64, i64)> = self.net.dump_tombs(p, self.room).await.into_iter().map(|r| (self.index_of(&r.id), r.mdate, r.ddate)).collect();
        tombs.sort_by_key(|t| (t.0, t.2));
        let ids = self.ids.clone();
        let raw: Vec<(Uid, Uid, i64)> = self.net.sql(p, |c| {
            let mut st = c.prepare("SELECT src, dest, cdate FROM _edge")?;
            let rows = st.query_map([], |r| Ok((r.get(0)?, r.get(1)?, r.get(2)?)))?;
            rows.collect()
        }).await;
        let idx = |u: &Uid| ids.iter().position(|v| v == u).map(|i| i as u64 + 1);
        let mut edges: Vec<(u64, u64, i64)> = raw.iter().filter_map(|(s, d, c)| match (idx(s), idx(d)) { (Some(a), Some(b)) => Some((a, b, *c)), _ => None }).collect();
        edges.sort();
        let room = self.room;
        let rawt: Vec<(Uid, Uid, i64, i64)> = self.net.sql(p, move |c| {
            let mut st = c.prepare("SELECT src, dest, cdate, deletion_date FROM _edge_deletion_log WHERE room_id = ?")?;
            let rows = st.query_map([room], |r| Ok((r.get(0)?, r.get(1)?, r.get(2)?, r.get(3)?)))?;
            rows.collect()
        }).await;
        let mut etombs: Vec<(u64, u64, i64, i64)> = rawt.iter().map(|(s, d, c, t)| (idx(s).expect("foreign edge record"), idx(d).expect("foreign edge record"), *c, *t)).collect();
        etombs.sort_by_key(|t| (t.0, t.1, t.3));
        Dump { nodes, tombs, edges, etombs }
    }
    /// last dump shown by peer p
    pub fn last_dump(&self, p: usize) -> Dump {
        for s in self.steps.iter().rev() {
            let q = match s.op { Op::Create { p, .. } | Op::CreateMany { p, .. } | Op::Update { p, .. } | Op::Delete { p, .. } | Op::AddRef { p, .. } | Op::DelRef { p, .. } => p, Op::Pull { dst, .. } => dst };
            if q == p { return s.dump.clone(); }
        }
        Dump::default()
    }
    pub fn next_id(&self) -> u64 { self.ids.len() as u64 + 1 }

    pub async fn exec(&mut self, op: Op) -> &StepRec {
        let mut rec = StepRec { op: op.clone(), flag: 0, sig: vec![], sigs: vec![], days: vec![], dump: Dump::default(), batches: 0, natural: true, pull_ok: true };
        match op {
            Op::Create { p, x, t } => {
                assert_eq!(x, self.next_id());
                verif_clock::set(t);
                self.texts += 1;
                let mut pa = Parameters::default();
                pa.add("room_id", b64(&self.room)).unwrap();
                pa.add("a", format!("row {} text {}", x, self.texts)).unwrap();
                let r = self.net.peers[p].db.mutate_raw("mutate { ns.Doc{ room_id:$room_id a:$a } }", Some(pa)).await.expect("create");
                let node = r.mutate_entities[0].node_to_mutate.node.as_ref().unwrap();
                self.ids.push(node.id);
                rec.sig = node._signature.clone();
                rec.flag = 1;
                rec.natural = self.net.barrier(p).await;
                rec.dump = self.dump(p).await;
            }
            Op::CreateMany { p, x0, k, t } => {
                assert_eq!(x0, self.next_id());
                verif_clock::set(t);
                let mut pa = Parameters::default();
                pa.add("room_id", b64(&self.room)).unwrap();
                let mut q = String::from("mutate {");
                for i in 0..k { q.push_str(&format!(" r{}: ns.Doc{{ room_id:$room_id a:\"m{}\" }}", i, i)); }
                q.push_str(" }");
                let r = self.net.peers[p].db.mutate_raw(&q, Some(pa)).await.expect("create many");
                for e in &r.mutate_entities {
                    let node = e.node_to_mutate.node.as_ref().unwrap();
                    self.ids.push(node.id);
                    rec.sigs.push(node._signature.clone());
                }
                rec.flag = k as i64;
                rec.natural = self.net.barrier(p).await;
                rec.dump = self.dump(p).await;
            }
            Op::Update { p, x, t } => {
                verif_clock::set(t);
                self.texts += 1;
                let mut pa = Parameters::default();
                pa.add("id", b64(&self.ids[x as usize - 1])).unwrap();
                pa.add("a", format!("row {} text {}", x, self.texts)).unwrap();
                match self.net.peers[p].db.mutate_raw("mutate { ns.Doc{ id:$id a:$a } }", Some(pa)).await {
                    Ok(r) => {
                        let node = r.mutate_entities[0].node_to_mutate.node.as_ref().unwrap();
                        rec.sig = node._signature.clone();
                        rec.flag = 1;
                    }
                    Err(_) => rec.flag = 0,
                }
                rec.natural = self.net.barrier(p).await;
                rec.dump = self.dump(p).await;
            }
            Op::Delete { p, x, t } => {
                verif_clock::set(t);
                let mut pa = Parameters::default();
                pa.add("id", b64(&self.ids[x as usize - 1])).unwrap();
                let r = self.net.peers[p].db.delete("delete { ns.Doc{ $id } }", Some(pa)).await.expect("delete");
                rec.flag = r.node_log.len() as i64;
                rec.natural = self.net.barrier(p).await;
                rec.dump = self.dump(p).await;
            }
            Op::AddRef { p, x, y, t } => {
                verif_clock::set(t);
                let mut pa = Parameters::default();
                pa.add("x", b64(&self.ids[x as usize - 1])).unwrap();
                pa.add("y", b64(&self.ids[y as usize - 1])).unwrap();
                match self.net.peers[p].db.mutate_raw("mutate { ns.Doc{ id:$x refs:[{id:$y}] } }", Some(pa)).await {
                    Ok(r) => {
                        if let Some(node) = r.mutate_entities[0].node_to_mutate.node.as_ref() { rec.sig = node._signature.clone(); }
                        rec.flag = 1;
                    }
                    Err(_) => rec.flag = 0,
                }
                rec.natural = self.net.barrier(p).await;
                rec.dump = self.dump(p).await;
            }
            Op::DelRef { p, x, y, t } => {
                verif_clock::set(t);
                let mut pa = Parameters::default();
                pa.add("x", b64(&self.ids[x as usize - 1])).unwrap();
                pa.add("y", b64(&self.ids[y as usize - 1])).unwrap();
                let r = self.net.peers[p].db.delete("delete { ns.Doc{ $x refs[$y] } }", Some(pa)).await.expect("delete reference");
                rec.flag = r.edge_log.len() as i64;
                if let Some(n) = r.updated_nodes.first() { rec.sig = n.node._signature.clone(); }
                rec.natural = self.net.barrier(p).await;
                rec.dump = self.dump(p).await;
            }
            Op::Pull { dst, src, t } => {
                let tr = self.net.pull(dst, src, self.room, t).await;
                rec.flag = tr.requested.len() as i64;
                rec.days = tr.days.iter().map(|d| d.1).collect();
                rec.pull_ok = tr.ok;
                rec.batches = tr.tomb_batches + tr.node_batches;
                rec.dump = self.dump(dst).await;
            }
        }
        self.steps.push(rec);
        self.steps.last().unwrap()
    }

    /// round-robin until a round requests nothing and changes no peer (at most `max_rounds`), then
    /// one more round; returns the number of steps that belong to the last two rounds
    pub async fn settle(&mut self, t: i64, max_rounds: usize) -> usize {
        let per_round = self.n * (self.n - 1);
        let mut rounds = 0;
        loop {
            let mut moved = false;
            for dst in 0..self.n {
                for src in 0..self.n {
                    if dst != src {
                        let before = self.last_dump(dst);
                        let s = self.exec(Op::Pull { dst, src, t }).await;
                        if s.flag != 0 || s.dump.nodes != before.nodes || s.dump.tombs != before.tombs || s.dump.edges != before.edges || s.dump.etombs != before.etombs { moved = true; }
                    }
                }
            }
            rounds += 1;
            if !moved || rounds >= max_rounds { break; }
        }
        for dst in 0..self.n {
            for src in 0..self.n {
                if dst != src { self.exec(Op::Pull { dst, src, t }).await; }
            }
        }
        2 * per_round
    }

    /// Gallina terms of the steps and the flattened observation
    pub fn encode(&self) -> (Vec<String>, Vec<i64>) {
        let mut sigs: Vec<Vec<u8>> = vec![];
        for s in &self.steps {
            if !s.sig.is_empty() { sigs.push(s.sig.clone()); }
            for g in &s.sigs { sigs.push(g.clone()); }
            for n in &s.dump.nodes { sigs.push(n.2.clone()); }
        }
        let rk = ranks(&sigs);
        let mut terms = vec![];
        let mut obs = vec![];
        for s in &self.steps {
            let sg = if s.sig.is_empty() { 0 } else { rk[&s.sig] };
            terms.push(match &s.op {
                Op::Create { p, x, t } => format!("Create {} {} {} {}", gn(*p as u64), gn(*x), gz(*t), gn(sg)),
                Op::CreateMany { p, x0, t, .. } => format!("CreateMany {} {} {} {}", gn(*p as u64), gn(*x0), gz(*t), glist(&s.sigs.iter().map(|g| gn(rk[g])).collect::<Vec<_>>())),
                Op::Update { p, x, t } => format!("Update {} {} {} {}", gn(*p as u64), gn(*x), gz(*t), gn(sg)),
                Op::Delete { p, x, t } => format!("Delete {} {} {}", gn(*p as u64), gn(*x), gz(*t)),
                Op::AddRef { p, x, y, t } => format!("AddRef {} {} {} {} {}", gn(*p as u64), gn(*x), gn(*y), gz(*t), gn(sg)),
                Op::DelRef { p, x, y, t } => format!("DelRef {} {} {} {} {}", gn(*p as u64), gn(*x), gn(*y), gz(*t), gn(sg)),
                Op::Pull { dst, src, .. } => format!("Pull {} {} {}", gn(*dst as u64), gn(*src as u64), glist(&s.days.iter().map(|d| gz(*d)).collect::<Vec<_>>())),
            });
            obs.push(s.flag);
            obs.push(s.dump.nodes.len() as i64);
            for n in &s.dump.nodes { obs.push(n.0 as i64); obs.push(n.1); obs.push(rk[&n.2] as i64); }
            obs.push(s.dump.tombs.len() as i64);
            for t in &s.dump.tombs { obs.push(t.0 as i64); obs.push(t.1); obs.push(t.2); }
            obs.push(s.dump.edges.len() as i64);
            for e in &s.dump.edges { obs.push(e.0 as i64); obs.push(e.1 as i64); obs.push(e.2); }
            obs.push(s.dump.etombs.len() as i64);
            for e in &s.dump.etombs { obs.push(e.0 as i64); obs.push(e.1 as i64); obs.push(e.2); obs.push(e.3); }
        }
        (terms, obs)
    }

    pub fn case(&self, ctor: &str, kind: &str, final_len: usize, extra: serde_json::Value) -> Case {
        let (terms, obs) = self.encode();
        let k = terms.len() - final_len.min(terms.len());
        let coq = format!("{} {} {} {}", ctor, gn(self.n as u64), glist(&terms[..k]), glist(&terms[k..]));
        let mut creates = 0; let mut updates = 0; let mut deletes = 0; let mut pulls = 0; let mut moved = 0; let mut unnatural = 0; let mut failed = 0; let mut maxb = 0; let mut refadds = 0; let mut refdels = 0;
        for s in &self.steps {
            match s.op { Op::Create { .. } => creates += 1, Op::CreateMany { k, .. } => creates += k as usize, Op::Update { .. } => updates += 1, Op::Delete { .. } => deletes += 1, Op::AddRef { .. } => refadds += 1, Op::DelRef { .. } => refdels += 1, Op::Pull { .. } => { pulls += 1; if s.flag > 0 { moved += 1; } } }
            if !s.natural { unnatural += 1; }
            if !s.pull_ok { failed += 1; }
            if s.batches > maxb { maxb = s.batches; }
        }
        Case { kind: kind.to_string(), coq, obs,
               meta: serde_json::json!({"peers": self.n, "creates": creates, "updates": updates, "deletes": deletes, "ref_adds": refadds, "ref_removes": refdels, "pulls": pulls, "pulls_that_requested_rows": moved,
                                        "final_steps": final_len, "explicit_recompute": unnatural, "failed_pulls": failed, "max_data_answers_in_one_pull": maxb, "extra": extra}) }
    }
}

/// a clock that mostly advances by seconds, sometimes jumps to another day
pub fn advance(rng: &mut Rng, t: &mut i64) {
    match rng.below(10) {
        0..=5 => *t += 1000 * rng.range(1, 5),
        6 => *t += rng.range(1, 3),
        7 => {}
        8 => *t += DAY + 1000 * rng.range(0, 5),
        _ => *t += 3 * 3_600_000,
    }
}

impl Net {
    /// exchanges the sys.Peer rows of all instances once (a throw-away room, two round-robin rounds),
    /// so that later pulls insert nothing but room rows
    pub async fn warmup(&self) {
        let room = self.create_room(T0 - 40 * DAY, &["ns.Doc"]).await;
        for _ in 0..2 {
            for dst in 0..self.peers.len() {
                for src in 0..self.peers.len() {
                    if dst != src { self.pull(dst, src, room, T0 - 39 * DAY).await; }
                }
            }
        }
    }
    /// (documents, tokens) totals of the full-text index (the FTS5 'averages' record)
    pub async fn fts_totals(&self, p: usize) -> (i64, i64) {
        self.sql(p, |c| {
            let blk: Vec<u8> = match c.query_row("SELECT block FROM _node_fts_data WHERE id=1", [], |r| r.get(0)) {
                Ok(b) => b,
                Err(rusqlite::Error::QueryReturnedNoRows) => vec![],
                Err(e) => return Err(e),
            };
            let mut vals = vec![];
            let mut i = 0;
            while i < blk.len() {
                let mut v: i64 = 0;
                let mut k = 0;
                loop {
                    let b = blk[i];
                    i += 1;
                    k += 1;
                    if k == 9 { v = (v << 8) | b as i64; break; }
                    v = (v << 7) | (b & 0x7f) as i64;
                    if b & 0x80 == 0 || i >= blk.len() { break; }
                }
                vals.push(v);
            }
            Ok((vals.first().cloned().unwrap_or(0), vals.get(1).cloned().unwrap_or(0)))
        })
        .await
    }
}

/// answer size that cuts a day of ~25 deletion records / ~18 rows into several answers (write_buffer_length = 4)
pub const SMALL_ANSWER: usize = 4 * 1024 - 16;

/// a row whose two deletion records name DIFFERENT versions: A creates x, everybody pulls; C updates
/// it; only the peers in `seen` take the new version; one of them deletes the new version, a peer
/// that still holds the old one deletes that (one second apart, `old_later` = the record naming the
/// OLDER version is the more recent one); then the pulls given in `order`
pub async fn two_versions_history(r: &mut Runner<'_>, seen: &[usize], del_new: usize, del_old: usize, old_later: bool, next_day: bool, order: &[(usize, usize)]) {
    let t = T0 + 2000;
    r.exec(Op::Create { p: 0, x: 1, t }).await;
    for d in 1..r.n { r.exec(Op::Pull { dst: d, src: 0, t: t + d as i64 }).await; }
    let updater = r.n - 1;
    r.exec(Op::Update { p: updater, x: 1, t: t + 10_000 }).await;
    for d in seen { if *d != updater { r.exec(Op::Pull { dst: *d, src: updater, t: t + 11_000 }).await; } }
    let base = if next_day { t + DAY } else { t + 20_000 };
    let (t_new, t_old) = if old_later { (base, base + 1000) } else { (base + 1000, base) };
    if old_later {
        r.exec(Op::Delete { p: del_new, x: 1, t: t_new }).await;
        r.exec(Op::Delete { p: del_old, x: 1, t: t_old }).await;
    } else {
        r.exec(Op::Delete { p: del_old, x: 1, t: t_old }).await;
        r.exec(Op::Delete { p: del_new, x: 1, t: t_new }).await;
    }
    for (i, (dst, src)) in order.iter().enumerate() { r.exec(Op::Pull { dst: *dst, src: *src, t: base + 2000 + i as i64 }).await; }
}

/// many rows and many deletion records on ONE day, served in small answers: every serving loop
/// (deletion records, row identifiers, rows) has to cut the day into several batches
pub async fn batching_history(r: &mut Runner<'_>, rows: u64, deleted: u64) {
    let t = T0 + 1000;
    for x in 1..=rows { r.exec(Op::Create { p: 0, x, t: t + x as i64 }).await; }
    r.net.serve_buffer.store(SMALL_ANSWER, std::sync::atomic::Ordering::SeqCst);
    r.exec(Op::Pull { dst: 1, src: 0, t: t + 1000 }).await;
    for x in 1..=deleted { r.exec(Op::Delete { p: 0, x, t: t + 2000 + x as i64 }).await; }
    r.exec(Op::Pull { dst: 1, src: 0, t: t + 5000 }).await;
    if r.n > 2 { r.exec(Op::Pull { dst: 2, src: 1, t: t + 6000 }).await; }
}

/// (a) two peers concurrently add DIFFERENT references to the same row
pub async fn concurrent_refs_history(r: &mut Runner<'_>, same_ms: bool) {
    let t = T0 + 1000;
    for x in 1..=3 { r.exec(Op::Create { p: 0, x, t: t + x as i64 }).await; }
    r.exec(Op::Pull { dst: 1, src: 0, t: t + 100 }).await;
    r.exec(Op::AddRef { p: 0, x: 1, y: 2, t: t + 10_000 }).await;
    r.exec(Op::AddRef { p: 1, x: 1, y: 3, t: if same_ms { t + 10_000 } else { t + 20_000 } }).await;
}
/// (b) a reference is added, removed and added again on one day; the day is exchanged again later
/// (another row changes on it), so the old deletion record is replayed on a peer that holds the new reference
pub async fn ref_readd_history(r: &mut Runner<'_>) {
    let t = T0 + 1000;
    r.exec(Op::Create { p: 0, x: 1, t }).await;
    r.exec(Op::Create { p: 0, x: 2, t: t + 1 }).await;
    r.exec(Op::AddRef { p: 0, x: 1, y: 2, t: t + 1000 }).await;
    r.exec(Op::Pull { dst: 1, src: 0, t: t + 1500 }).await;
    r.exec(Op::DelRef { p: 0, x: 1, y: 2, t: t + 2000 }).await;
    r.exec(Op::AddRef { p: 0, x: 1, y: 2, t: t + 3000 }).await;
    r.exec(Op::Pull { dst: 1, src: 0, t: t + 3500 }).await;
    if r.n > 2 { r.exec(Op::Pull { dst: 2, src: 1, t: t + 3600 }).await; }
    r.exec(Op::Create { p: 0, x: 3, t: t + 4000 }).await;
    r.exec(Op::Pull { dst: 1, src: 0, t: t + 4500 }).await;
    if r.n > 2 { r.exec(Op::Pull { dst: 2, src: 0, t: t + 4600 }).await; }
}
/// two peers add the SAME reference concurrently (two creation dates); the later one is removed again
pub async fn same_ref_history(r: &mut Runner<'_>) {
    let t = T0 + 1000;
    r.exec(Op::Create { p: 0, x: 1, t }).await;
    r.exec(Op::Create { p: 0, x: 2, t: t + 1 }).await;
    r.exec(Op::Pull { dst: 1, src: 0, t: t + 100 }).await;
    r.exec(Op::AddRef { p: 0, x: 1, y: 2, t: t + 10_000 }).await;
    r.exec(Op::AddRef { p: 1, x: 1, y: 2, t: t + 20_000 }).await;
    r.exec(Op::DelRef { p: 1, x: 1, y: 2, t: t + 30_000 }).await;
}
/// one generated reference step on peer p (add / remove / re-add among the rows the peer shows)
pub async fn gen_ref_step(r: &mut Runner<'_>, p: usize, t: i64, rng: &mut Rng) {
    let have = r.last_dump(p);
    let known: Vec<u64> = have.nodes.iter().map(|x| x.0).collect();
    if known.len() < 2 { return; }
    let held: Vec<(u64, u64)> = have.edges.iter().filter(|e| known.contains(&e.0)).map(|e| (e.0, e.1)).collect();
    if !held.is_empty() && rng.chance(2, 5) {
        let (x, y) = *rng.pick(&held);
        r.exec(Op::DelRef { p, x, y, t }).await;
    } else if rng.chance(1, 10) {
        let x = *rng.pick(&known); let y = *rng.pick(&known);
        r.exec(Op::DelRef { p, x, y, t }).await; // usually a reference that does not exist: the source row is re-dated all the same
    } else {
        let x = *rng.pick(&known);
        let mut y = *rng.pick(&known);
        if y == x { y = *known.iter().find(|k| **k != x).unwrap(); }
        r.exec(Op::AddRef { p, x, y, t }).await;
    }
}

/// one pull that fetches exactly `k` rows of one entity for one day, one of them carrying a reference:
/// synchronise_day cuts the rows to fetch into batches of 2048 and asks Query::Nodes / Query::Edges per
/// batch; k = 2048 or 4096 leaves no rest for the request after the loop
pub async fn batch_boundary_history(r: &mut Runner<'_>, k: u64) -> usize {
    let t = T0 + 1000;
    // the source row of a reference and its target first (small dumps), then the other k-2 rows of the
    // day in ONE mutation: every later dump has k rows, and the whole observation has to stay well below
    // what coqc reads as one list literal (~30 000 integers inside an Eval): 4 big dumps
    r.exec(Op::Create { p: 0, x: 1, t }).await;
    r.exec(Op::Create { p: 0, x: 2, t: t + 1 }).await;
    r.exec(Op::AddRef { p: 0, x: 1, y: 2, t: t + 1000 }).await;
    r.exec(Op::CreateMany { p: 0, x0: 3, k: k - 2, t: t + 2000 }).await;
    r.exec(Op::Pull { dst: 1, src: 0, t: t + 3000 }).await;
    r.exec(Op::Pull { dst: 0, src: 1, t: t + 4000 }).await;
    r.exec(Op::Pull { dst: 1, src: 0, t: t + 4001 }).await;
    2
}

/// a removed reference must not come back: A removes x->y (deletion record, x re-dated); C, which has not
/// seen the removal, modifies x later and also holds `extra` rows of the same day that A lacks; A pulls
/// from C before C pulls from A (Query::Edges then carries x with A's date and the new rows with date 0)
pub async fn removed_ref_history(r: &mut Runner<'_>, extra: u64, modify_by_ref: bool, next_day: bool) {
    let t = T0 + 1000;
    r.exec(Op::Create { p: 0, x: 1, t }).await;
    r.exec(Op::Create { p: 0, x: 2, t: t + 1 }).await;
    r.exec(Op::Create { p: 0, x: 3, t: t + 2 }).await;
    r.exec(Op::AddRef { p: 0, x: 1, y: 2, t: t + 1000 }).await;
    for d in 1..r.n { r.exec(Op::Pull { dst: d, src: 0, t: t + 1500 }).await; }
    r.exec(Op::DelRef { p: 0, x: 1, y: 2, t: t + 5000 }).await;
    let c = r.n - 1;
    let t2 = if next_day { t + DAY } else { t + 10_000 };
    if modify_by_ref { r.exec(Op::AddRef { p: c, x: 1, y: 3, t: t2 }).await; } else { r.exec(Op::Update { p: c, x: 1, t: t2 }).await; }
    for i in 0..extra { let x = r.next_id(); r.exec(Op::Create { p: c, x, t: t2 + 100 + i as i64 }).await; }
    r.exec(Op::Pull { dst: 0, src: c, t: t2 + 1000 }).await;
}

/// an ordinary member M (own rows only) creates and deletes its own rows; S holds the row when it is
/// deleted, T never held it and pulls first from the deleter, then from the stale peer
pub async fn self_only_history(r: &mut Runner<'_>, m: usize, s: usize, t_peer: usize, via: Option<usize>) {
    let t = T0 + 1000;
    r.exec(Op::Create { p: m, x: 1, t }).await;
    r.exec(Op::Create { p: m, x: 2, t: t + 1 }).await;
    r.exec(Op::Pull { dst: s, src: m, t: t + 100 }).await;
    r.exec(Op::Delete { p: m, x: 1, t: t + 5000 }).await;
    match via {
        None => { r.exec(Op::Pull { dst: t_peer, src: m, t: t + 6000 }).await; }
        Some(v) => { r.exec(Op::Pull { dst: v, src: m, t: t + 6000 }).await; r.exec(Op::Pull { dst: t_peer, src: v, t: t + 6100 }).await; }
    }
    r.exec(Op::Pull { dst: t_peer, src: s, t: t + 7000 }).await;
}
