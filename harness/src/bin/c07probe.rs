//! scratch probe for C07/C10 (not a registered check)
use discret::verif_hooks::database::query_language::data_model_parser::DataModel;
use discret::verif_hooks::database::query_language::query_parser::QueryParser;
use discret::verif_hooks::database::query::PreparedQueries;
use discret::verif_hooks::database::authorisation_service::RoomAuthorisations;
fn main() {
    let mut dm = DataModel::new();
    dm.update_system(discret::verif_hooks::database::system_entities::SYSTEM_DATA_MODEL).unwrap();
    dm.update("ns { E1{ name:String } }").unwrap();
    let q = QueryParser::parse(RoomAuthorisations::LOAD_QUERY, &dm).unwrap();
    let p = PreparedQueries::build(&q).unwrap();
    println!("{}", p.sql_queries[0].sql_query);
}
