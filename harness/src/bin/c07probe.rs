//! scratch probe for C07/C10 (not a registered check): prints the exported RoomNode of a small history
use discret::verif_hooks::configuration::Configuration;
use discret::verif_hooks::database::graph_database::GraphDatabaseService;
use discret::verif_hooks::database::room_node::RoomNode;
use discret::verif_hooks::database::authorisation_service::RoomAuthorisations;
use discret::verif_hooks::event_service::{EventService, Event};
use discret::verif_hooks::security::{base64_encode, random32, Ed25519SigningKey, SigningKey};
use discret::verif_hooks::date_utils::verif_clock;
use discret::{Parameters, ParametersAdd};
use std::path::PathBuf;

fn dump(n: &RoomNode) {
    let k = |v: &Vec<u8>| base64_encode(v)[0..6].to_string();
    let id = |v: &[u8; 16]| base64_encode(v)[0..6].to_string();
    println!("ROOM id={} cdate={} mdate={} ent={} json={:?} author={} last_modified={}", id(&n.node.id), n.node.cdate, n.node.mdate, n.node._entity, n.node._json, k(&n.node.verifying_key), n.last_modified);
    for e in &n.admin_edges { println!("  admin_edge src={} se={} label={} dest={} cdate={} author={}", id(&e.src), e.src_entity, e.label, id(&e.dest), e.cdate, k(&e.verifying_key)); }
    for u in &n.admin_nodes { println!("  admin_node id={} room={:?} cdate={} mdate={} ent={} json={:?} author={}", id(&u.node.id), u.node.room_id, u.node.cdate, u.node.mdate, u.node._entity, u.node._json, k(&u.node.verifying_key)); }
    for e in &n.auth_edges { println!("  auth_edge src={} se={} label={} dest={} cdate={} author={}", id(&e.src), e.src_entity, e.label, id(&e.dest), e.cdate, k(&e.verifying_key)); }
    for a in &n.auth_nodes {
        println!("  AUTH id={} room={:?} cdate={} mdate={} ent={} json={:?} author={} lm={} need_update={}", id(&a.node.id), a.node.room_id, a.node.cdate, a.node.mdate, a.node._entity, a.node._json, k(&a.node.verifying_key), a.last_modified, a.need_update);
        for e in &a.right_edges { println!("    right_edge src={} se={} label={} dest={} cdate={} author={}", id(&e.src), e.src_entity, e.label, id(&e.dest), e.cdate, k(&e.verifying_key)); }
        for u in &a.right_nodes { println!("    right_node id={} cdate={} mdate={} ent={} json={:?} author={}", id(&u.node.id), u.node.cdate, u.node.mdate, u.node._entity, u.node._json, k(&u.node.verifying_key)); }
        for e in &a.user_edges { println!("    user_edge src={} se={} label={} dest={} cdate={} author={}", id(&e.src), e.src_entity, e.label, id(&e.dest), e.cdate, k(&e.verifying_key)); }
        for u in &a.user_nodes { println!("    user_node id={} cdate={} mdate={} ent={} json={:?} author={}", id(&u.node.id), u.node.cdate, u.node.mdate, u.node._entity, u.node._json, k(&u.node.verifying_key)); }
        for e in &a.user_admin_edges { println!("    uadmin_edge src={} se={} label={} dest={} cdate={} author={}", id(&e.src), e.src_entity, e.label, id(&e.dest), e.cdate, k(&e.verifying_key)); }
        for u in &a.user_admin_nodes { println!("    uadmin_node id={} cdate={} mdate={} ent={} json={:?} author={}", id(&u.node.id), u.node.cdate, u.node.mdate, u.node._entity, u.node._json, k(&u.node.verifying_key)); }
    }
}

#[tokio::main(flavor = "multi_thread")]
async fn main() {
    let path: PathBuf = "/verif/work/C07/probe".into();
    let _ = std::fs::remove_dir_all(&path);
    std::fs::create_dir_all(&path).unwrap();
    let model = "ns { Person{ name:String } }";
    let secret = random32();
    let ev = EventService::new();
    let mut sub = ev.subcribe().await;
    verif_clock::set(1_700_000_000_000);
    let (app, vk, _) = GraphDatabaseService::start("probe", model, &secret, &random32(), path.clone(), &Configuration::default(), ev).await.unwrap();
    let other = Ed25519SigningKey::create_from(&[3u8; 32]).export_verifying_key();
    let mut p = Parameters::default();
    p.add("user_id", base64_encode(&vk)).unwrap();
    p.add("other", base64_encode(&other)).unwrap();
    verif_clock::set(1_700_000_001_000);
    let room = app.mutate_raw(r#"mutate { sys.Room{ admin:[{verif_key:$user_id}] authorisations:[{ name:"g" rights:[{entity:"ns.Person" mutate_self:false mutate_all:true}] users:[{verif_key:$other}] user_admin:[{verif_key:$user_id}] }] } }"#, Some(p)).await.unwrap();
    let ri = &room.mutate_entities[0];
    let rid = ri.node_to_mutate.id;
    let room_id = base64_encode(&rid);
    let auth_id = base64_encode(&ri.sub_nodes.get("authorisations").unwrap()[0].node_to_mutate.id);
    println!("--- after creation");
    dump(&app.get_room_node(rid).await.unwrap().unwrap());
    verif_clock::set(1_700_000_002_000);
    let mut p = Parameters::default();
    p.add("room_id", room_id.clone()).unwrap();
    p.add("auth_id", auth_id.clone()).unwrap();
    p.add("other", base64_encode(&other)).unwrap();
    app.mutate_raw(r#"mutate { sys.Room{ id:$room_id authorisations:[{ id:$auth_id users:[{verif_key:$other enabled:false}] }] } }"#, Some(p)).await.unwrap();
    verif_clock::set(1_700_000_003_000);
    let mut p = Parameters::default();
    p.add("room_id", room_id.clone()).unwrap();
    p.add("other", base64_encode(&other)).unwrap();
    app.mutate_raw(r#"mutate { sys.Room{ id:$room_id admin:[{verif_key:$other}] authorisations:[{ name:"g2" }] } }"#, Some(p)).await.unwrap();
    verif_clock::set(1_700_000_004_000);
    let mut p = Parameters::default();
    p.add("room_id", room_id.clone()).unwrap();
    p.add("auth_id", auth_id.clone()).unwrap();
    app.mutate_raw(r#"mutate { sys.Room{ id:$room_id authorisations:[{ id:$auth_id name:"renamed" rights:[{entity:"ns.Person" mutate_self:true mutate_all:false}] }] } }"#, Some(p)).await.unwrap();
    println!("--- after updates");
    let n = app.get_room_node(rid).await.unwrap().unwrap();
    dump(&n);
    println!("parse of export: {:?}", n.parse().map(|_| ()));
    while let Ok(e) = sub.try_recv() {
        if let Event::RoomModified(r) = e { println!("event RoomModified admins={} auths={}", r.admins.len(), r.authorisations.len()); }
    }
    let q = app.query(RoomAuthorisations::LOAD_QUERY, None).await.unwrap();
    println!("LOAD_QUERY -> {}", q);
    let mut ra = RoomAuthorisations { signing_key: Ed25519SigningKey::create_from(&[7u8; 32]), rooms: Default::default(), max_node_size: 2000 };
    println!("load_json: {:?}", ra.load_json(&q).map(|_| ()));
    drop(app);
    tokio::time::sleep(std::time::Duration::from_millis(300)).await;
    let r = GraphDatabaseService::start("probe", model, &secret, &random32(), path.clone(), &Configuration::default(), EventService::new()).await;
    println!("restart: {:?}", r.as_ref().map(|_| ()).map_err(|e| e.to_string()));
    let _ = std::fs::remove_dir_all(&path);
}
