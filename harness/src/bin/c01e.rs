//! C01 level C: operations submitted as text through the public API of a real instance A whose
//! rooms were defined (and partly populated) by another real instance B; verdict and database
//! change are compared with the model and judged by the grant specification.
use discret::verif_hooks::configuration::Configuration;
use discret::verif_hooks::database::graph_database::GraphDatabaseService;
use discret::verif_hooks::database::node::NodeIdentifier;
use discret::verif_hooks::date_utils::verif_clock;
use discret::verif_hooks::event_service::EventService;
use discret::verif_hooks::security::{base64_encode, random32, uid_decode};
use discret::{Parameters, ParametersAdd};
use serde_json::json;
use std::collections::{HashMap, HashSet};
use std::path::PathBuf;
use vharness::common::*;

const BASE: i64 = 1_700_000_000_000;
const MODEL: &str = "ns { E1{ name:String, subs:[ns.E2], owner:ns.E3 } E2{ name:String } E3{ name:String } }";
const A: u64 = 1; // the caller (instance A)
const B: u64 = 2; // the room admin and other author (instance B)
const C: u64 = 3; // a third key that only appears in definitions

#[derive(Clone, Debug)]
enum Ev { Group(u64), Admin(u64, i64, bool), User(u64, u64, i64, bool), UAdmin(u64, u64, i64, bool), Right(u64, u64, i64, bool, bool) }
impl Ev {
    fn coq(&self) -> String {
        match self {
            Ev::Group(g) => format!("EvGroup {}", gn(*g)),
            Ev::Admin(k, d, b) => format!("EvAdmin {} {} {}", gn(*k), gz(*d), gb(*b)),
            Ev::User(g, k, d, b) => format!("EvUser {} {} {} {}", gn(*g), gn(*k), gz(*d), gb(*b)),
            Ev::UAdmin(g, k, d, b) => format!("EvUAdmin {} {} {} {}", gn(*g), gn(*k), gz(*d), gb(*b)),
            Ev::Right(g, e, d, s, a) => format!("EvRight {} {} {} {} {}", gn(*g), gn(*e), gz(*d), gb(*s), gb(*a)),
        }
    }
}

struct Inst { db: GraphDatabaseService, vk: Vec<u8>, path: PathBuf }
async fn start(tag: &str) -> Inst {
    let work = std::env::var("VERIF_WORK").unwrap_or("/verif/work".into());
    let path: PathBuf = format!("{}/C01/e2e_{}_{}", work, std::process::id(), tag).into();
    let _ = std::fs::remove_dir_all(&path);
    std::fs::create_dir_all(&path).unwrap();
    let (db, vk, _) = GraphDatabaseService::start("c01e", MODEL, &random32(), &random32(), path.clone(), &Configuration::default(), EventService::new()).await.unwrap();
    Inst { db, vk, path }
}

#[derive(Clone, Debug)]
struct Row { id: String, ent: u64, room: u64, author: u64, children: Vec<usize>, alive: bool }

struct Scn {
    defs: Vec<(u64, Vec<Ev>)>,       // model events per room (dates = clock at the mutation)
    room_ids: HashMap<u64, String>,  // model room index -> base64 uid
    auth_ids: HashMap<u64, HashMap<u64, String>>, // room -> group index -> base64 uid of the sys.Authorisation
    rows: Vec<Row>,
}
fn ename(e: u64) -> String { format!("ns.E{}", e) }
fn defs_coq(defs: &[(u64, Vec<Ev>)]) -> String {
    glist(&defs.iter().map(|(r, e)| format!("({}, {})", gn(*r), glist(&e.iter().map(|x| x.coq()).collect::<Vec<_>>()))).collect::<Vec<_>>())
}

async fn dump(a: &Inst) -> String {
    a.db.query("query { ns.E1(order_by(id asc), nullable(subs)){ id room_id mdate verifying_key name subs(order_by(id asc)){ id } } ns.E2(order_by(id asc)){ id room_id mdate verifying_key name } ns.E3(order_by(id asc)){ id room_id mdate verifying_key name } }", None).await.expect("dump query")
}

async fn dump_rooms(a: &Inst) -> String {
    a.db.query("query { sys.Room(order_by(id asc), nullable(admin, authorisations)){ id mdate admin(order_by(id asc)){ id mdate verif_key enabled } authorisations(order_by(id asc), nullable(rights, users, user_admin)){ id mdate name rights(order_by(id asc)){ id mdate entity mutate_self mutate_all } users(order_by(id asc)){ id mdate verif_key enabled } user_admin(order_by(id asc)){ id mdate verif_key enabled } } } }", None).await.expect("room dump query")
}

fn key_b64(k: u64, a: &Inst, b: &Inst) -> String {
    match k { A => base64_encode(&a.vk), B => base64_encode(&b.vk), _ => base64_encode(&[1u8, 77, k as u8, 5, 5, 5, 5, 5, 5, 5, 5, 5, 5, 5, 5, 5, 5, 5, 5, 5, 5, 5, 5, 5, 5, 5, 5, 5, 5, 5, 5, 5, 5]) }
}

/// B defines a room by real mutations, one per event, at the event's date
async fn define_room(rng: &mut Rng, rid: u64, a: &Inst, b: &Inst, clock: &mut i64) -> (String, Vec<Ev>, Vec<i64>, HashMap<u64, String>) {
    let d0 = *clock;
    verif_clock::set(d0);
    let mut p = Parameters::default();
    p.add("b", key_b64(B, a, b)).unwrap();
    let r = b.db.mutate_raw(r#"mutate { sys.Room{ admin:[{verif_key:$b enabled:true}] authorisations:[{ name:"g9" rights:[{entity:"*" mutate_self:true mutate_all:true}] }] } }"#, Some(p)).await.unwrap();
    let ri = &r.mutate_entities[0];
    let room_id = base64_encode(&ri.node_to_mutate.id);
    push_room(a, b, &room_id).await;
    let mut auth_ids: HashMap<u64, String> = HashMap::new();
    auth_ids.insert(9, base64_encode(&ri.sub_nodes.get("authorisations").unwrap()[0].node_to_mutate.id));
    let mut evs = vec![Ev::Admin(B, d0, true), Ev::Group(9), Ev::Right(9, 0, d0, true, true)];
    let mut dates = vec![d0];
    let n = 4 + rng.below(8);
    let a_admin_early = rng.chance(1, 2);
    let a_uadmin_early = rng.chance(1, 3);
    for step in 0..n {
        // (two entries of one key at the same millisecond are ordered differently by an importing peer: C10's business)
        *clock += match rng.below(5) { 0 | 1 => 1, 2 => 1000, 3 => 3_600_000, _ => DAY };
        let d = *clock;
        verif_clock::set(d);
        let g = 1 + rng.below(2);
        let k = if rng.chance(3, 4) { A } else { C };
        let en = !rng.chance(1, 4);
        let mut p = Parameters::default();
        p.add("r", room_id.clone()).unwrap();
        let (ev, text) = if !auth_ids.contains_key(&g) {
            (Ev::Group(g), format!(r#"mutate {{ sys.Room{{ id:$r authorisations:[{{ name:"g{g}" }}] }} }}"#))
        } else {
            p.add("g", auth_ids[&g].clone()).unwrap();
            // membership profiles of the caller: early admin (1/2), early user admin of a group (1/3)
            let choice = if step == 2 && a_admin_early { 0 } else if step == 3 && a_uadmin_early { 4 } else { rng.below(10) };
            let (k, en) = if (step == 2 && a_admin_early) || (step == 3 && a_uadmin_early) { (A, true) } else { (k, en) };
            match choice {
                0 => { p.add("k", key_b64(k, a, b)).unwrap(); p.add("en", en).unwrap();
                       (Ev::Admin(k, d, en), r#"mutate { sys.Room{ id:$r admin:[{verif_key:$k enabled:$en}] } }"#.to_string()) }
                1..=3 => { p.add("k", key_b64(k, a, b)).unwrap(); p.add("en", en).unwrap();
                       (Ev::User(g, k, d, en), r#"mutate { sys.Room{ id:$r authorisations:[{ id:$g users:[{verif_key:$k enabled:$en}] }] } }"#.to_string()) }
                4 => { p.add("k", key_b64(k, a, b)).unwrap(); p.add("en", en).unwrap();
                       (Ev::UAdmin(g, k, d, en), r#"mutate { sys.Room{ id:$r authorisations:[{ id:$g user_admin:[{verif_key:$k enabled:$en}] }] } }"#.to_string()) }
                _ => { let e = rng.below(4); let s = rng.chance(2, 3); let al = rng.chance(1, 3);
                       p.add("e", if e == 0 { "*".to_string() } else { ename(e) }).unwrap(); p.add("s", s).unwrap(); p.add("al", al).unwrap();
                       (Ev::Right(g, e, d, s, al), r#"mutate { sys.Room{ id:$r authorisations:[{ id:$g rights:[{entity:$e mutate_self:$s mutate_all:$al}] }] } }"#.to_string()) }
            }
        };
        match b.db.mutate_raw(&text, Some(p)).await {
            Ok(res) => {
                if let Ev::Group(g) = &ev {
                    let id = base64_encode(&res.mutate_entities[0].sub_nodes.get("authorisations").unwrap()[0].node_to_mutate.id);
                    auth_ids.insert(*g, id);
                }
                evs.push(ev);
                dates.push(d);
                push_room(a, b, &room_id).await;
            }
            Err(e) => panic!("room definition mutation refused by B: {e} ({text})"),
        }
    }
    let _ = rid;
    (room_id, evs, dates, auth_ids)
}

/// A receives the current definition of the room from B (one definition entry at a time: a fresh
/// import of a history with several entries per key is refused by the current code, see C10)
async fn push_room(a: &Inst, b: &Inst, room_b64: &str) {
    let rn = b.db.get_room_node(uid_decode(room_b64).unwrap()).await.unwrap().unwrap();
    let bytes = bincode::serialize(&rn).unwrap();
    a.db.add_room_node(bincode::deserialize(&bytes).unwrap()).await.unwrap();
}

/// hands B's rows of a room over to A through the ingestion entry points (what a synchronisation does)
async fn transfer(a: &Inst, b: &Inst, room_b64: &str, ids: &[String]) {
    let room = uid_decode(room_b64).unwrap();
    let uids: Vec<_> = ids.iter().map(|i| uid_decode(i).unwrap()).collect();
    let mut nodes = vec![];
    let mut rx = b.db.get_nodes(room, uids.clone()).await;
    while let Some(r) = rx.recv().await { nodes.extend(r.unwrap()); }
    let set: HashSet<NodeIdentifier> = nodes.iter().map(|n| NodeIdentifier { id: n.id, mdate: n.mdate, signature: n._signature.clone() }).collect();
    let mut to_insert = a.db.filter_existing_node(set).await.unwrap();
    for ti in &mut to_insert {
        let n = nodes.iter().find(|n| n.id == ti.id).unwrap();
        let bytes = bincode::serialize(n).unwrap();
        ti.node = Some(bincode::deserialize(&bytes).unwrap());
    }
    let rejected = a.db.add_nodes(room, to_insert).await.unwrap();
    assert!(rejected.is_empty(), "A rejected rows of the admin B");
    let mut edges = vec![];
    let mut rx = b.db.get_edges(room, uids.iter().map(|u| (*u, 0i64)).collect()).await;
    while let Some(r) = rx.recv().await { edges.extend(r.unwrap()); }
    if !edges.is_empty() {
        let rejected = a.db.add_edges(room, edges).await.unwrap();
        assert!(rejected.is_empty(), "A rejected references of the admin B");
    }
}

fn head(ent: u64, room: Option<u64>, date: i64, has_node: bool, old: Option<(u64, u64)>) -> String { head_d(ent, room, date, has_node, old, &[]) }
fn head_d(ent: u64, room: Option<u64>, date: i64, has_node: bool, old: Option<(u64, u64)>, dels: &[u64]) -> String {
    let o = old.map(|(r, au)| format!("{{| o_room := {}; o_author := {} |}}", gon(Some(r)), gn(au)));
    format!("{{| h_kind := KNormal; h_ent := {}; h_room := {}; h_date := {}; h_has_node := {}; h_too_big := false; h_old := {}; h_edge_dels := {} |}}",
        gn(ent), gon(room), gz(date), gb(has_node), gopt(&o), glist(&dels.iter().map(|a| gn(*a)).collect::<Vec<_>>()))
}
fn ment(h: String, subs: Vec<String>) -> String { format!("(MEnt {} {})", h, glist(&subs)) }
fn dnode(ent: u64, room: u64, author: u64, date: i64) -> String {
    format!("{{| dn_kind := KNormal; dn_ent := {}; dn_room := {}; dn_author := {}; dn_date := {} |}}", gn(ent), gon(Some(room)), gn(author), gz(date))
}
fn dedge(ent: u64, room: u64, author: u64, date: i64) -> String {
    format!("{{| de_kind := KNormal; de_ent := {}; de_room := {}; de_author := {}; de_date := {} |}}", gn(ent), gon(Some(room)), gn(author), gz(date))
}

async fn scenario(rng: &mut Rng, out: &mut Out, sidx: usize) {
    let a = start(&format!("a{sidx}")).await;
    let b = start(&format!("b{sidx}")).await;
    let mut clock = BASE + rng.range(0, 5) * 3_600_000;
    let mut scn = Scn { defs: vec![], room_ids: HashMap::new(), auth_ids: HashMap::new(), rows: vec![] };
    let mut all_dates = vec![];
    for rid in 1..=2u64 {
        let (room_id, evs, dates, auth_ids) = define_room(rng, rid, &a, &b, &mut clock).await;
        scn.room_ids.insert(rid, room_id);
        scn.auth_ids.insert(rid, auth_ids);
        scn.defs.push((rid, evs));
        all_dates.extend(dates);
        clock += 1000;
    }
    // B's rows (B is admin and group 9 grants everything to admins)
    clock += 1000;
    verif_clock::set(clock);
    let mut edge_author: HashMap<(usize, usize), u64> = HashMap::new();
    let mut owner_edge: HashMap<usize, (usize, u64)> = HashMap::new();
    for rid in 1..=2u64 {
        let mut ids = vec![];
        for ent in 1..=3u64 {
            let mut p = Parameters::default();
            p.add("r", scn.room_ids[&rid].clone()).unwrap();
            if ent == 1 {
                let r = b.db.mutate_raw(r#"mutate { ns.E1{ room_id:$r name:"b-parent" subs:[{name:"b-child"}] } }"#, Some(p)).await.unwrap();
                let pe = &r.mutate_entities[0];
                let pid = base64_encode(&pe.node_to_mutate.id);
                let cid = base64_encode(&pe.sub_nodes.get("subs").unwrap()[0].node_to_mutate.id);
                let ci = scn.rows.len();
                scn.rows.push(Row { id: cid.clone(), ent: 2, room: rid, author: B, children: vec![], alive: true });
                scn.rows.push(Row { id: pid.clone(), ent: 1, room: rid, author: B, children: vec![ci], alive: true });
                edge_author.insert((ci + 1, ci), B);
                ids.push(cid); ids.push(pid);
            } else {
                let r = b.db.mutate_raw(&format!(r#"mutate {{ ns.E{ent}{{ room_id:$r name:"b-row" }} }}"#), Some(p)).await.unwrap();
                let id = base64_encode(&r.mutate_entities[0].node_to_mutate.id);
                scn.rows.push(Row { id: id.clone(), ent, room: rid, author: B, children: vec![], alive: true });
                ids.push(id);
            }
        }
        transfer(&a, &b, &scn.room_ids[&rid], &ids).await;
    }
    all_dates.push(clock);

    // directed: a room mutation whose write fails must not leave the new definition in force
    {
        use discret::verif_hooks::database::sqlite_database::verif_faults;
        clock += 1000;
        verif_clock::set(clock);
        let d0 = clock;
        let mut p = Parameters::default();
        p.add("b", key_b64(B, &a, &b)).unwrap();
        let r = b.db.mutate_raw(r#"mutate { sys.Room{ admin:[{verif_key:$b enabled:true}] authorisations:[{ name:"g1" }] } }"#, Some(p)).await.unwrap();
        let ri = &r.mutate_entities[0];
        let room3 = base64_encode(&ri.node_to_mutate.id);
        let g1 = base64_encode(&ri.sub_nodes.get("authorisations").unwrap()[0].node_to_mutate.id);
        push_room(&a, &b, &room3).await;
        clock += 1000;
        verif_clock::set(clock);
        let d1 = clock;
        let mut p = Parameters::default();
        p.add("r", room3.clone()).unwrap();
        p.add("k", key_b64(A, &a, &b)).unwrap();
        b.db.mutate_raw(r#"mutate { sys.Room{ id:$r admin:[{verif_key:$k enabled:true}] } }"#, Some(p)).await.unwrap();
        push_room(&a, &b, &room3).await;
        scn.room_ids.insert(3, room3.clone());
        let mut ids = HashMap::new();
        ids.insert(1u64, g1.clone());
        scn.auth_ids.insert(3, ids);
        scn.defs.push((3, vec![Ev::Admin(B, d0, true), Ev::Group(1), Ev::Admin(A, d1, true)]));
        clock += 1000;
        let now = clock;
        verif_clock::set(now);
        for step in 0..5 {
            let defs = defs_coq(&scn.defs);
            let before = dump(&a).await;
            let before_rooms = dump_rooms(&a).await;
            let mut p = Parameters::default();
            p.add("r", room3.clone()).unwrap();
            if step == 0 || step == 2 || step == 4 {
                let res = a.db.mutate_raw(r#"mutate { ns.E1{ room_id:$r name:"directed" } }"#, Some(p)).await;
                let refused = res.is_err();
                let changed = before != dump(&a).await;
                out.push(Case { kind: "e2e-create".into(), coq: format!("CE2E (CMut {} {} {} [{}])", defs, gn(A), gz(now), ment(head(1, Some(3), now, true, None), vec![])),
                                obs: vec![refused as i64, if refused { changed as i64 } else { 1 }], meta: json!({"scenario": sidx, "op": format!("directed-create-{step}"), "refused": refused, "now": now}) });
            } else {
                p.add("g", g1.clone()).unwrap();
                let inner = format!("CRoomMut {} {} {} {} [{}]", defs, gn(A), gn(3), gz(now), Ev::Right(1, 1, now, true, true).coq());
                if step == 1 {
                    tokio::time::sleep(std::time::Duration::from_millis(400)).await;
                    verif_faults::arm(verif_faults::MODE_FAIL, 1, 0, None);
                }
                let res = a.db.mutate_raw(r#"mutate { sys.Room{ id:$r authorisations:[{ id:$g rights:[{entity:"ns.E1" mutate_self:true mutate_all:true}] }] } }"#, Some(p)).await;
                let fired = verif_faults::fired();
                verif_faults::disarm();
                tokio::time::sleep(std::time::Duration::from_millis(100)).await;
                let refused = res.is_err();
                let changed = before != dump(&a).await || before_rooms != dump_rooms(&a).await;
                if step == 1 && fired == 1 {
                    out.push(Case { kind: "e2e-room-mutation-write-failure".into(), coq: format!("CFailedWrite ({})", inner), obs: vec![refused as i64, changed as i64],
                                    meta: json!({"scenario": sidx, "op": "directed-room-mutation-write-failure", "refused": refused, "changed": changed, "now": now}) });
                } else {
                    out.push(Case { kind: "e2e-room-mutation".into(), coq: format!("CE2E ({})", inner), obs: vec![refused as i64, if refused { changed as i64 } else { 1 }],
                                    meta: json!({"scenario": sidx, "op": format!("directed-room-mutation-{step}"), "refused": refused, "fired": fired, "now": now}) });
                    if !refused { scn.defs.iter_mut().find(|d| d.0 == 3).unwrap().1.push(Ev::Right(1, 1, now, true, true)); }
                }
            }
        }
        all_dates.push(now);
    }

    // A's operations
    let nops = 10 + rng.below(6);
    for _ in 0..nops {
        let now = match rng.below(6) { 0 => *rng.pick(&all_dates) + rng.range(-1, 1), 1 => *rng.pick(&all_dates), _ => { clock += rng.range(1, 5000); clock } };
        verif_clock::set(now);
        let alive: Vec<usize> = (0..scn.rows.len()).filter(|i| scn.rows[*i].alive).collect();
        let defs = defs_coq(&scn.defs);
        let before = dump(&a).await;
        let before_rooms = dump_rooms(&a).await;
        let kind = [0,1,2,3,4,5,6,7,8,9,10,11,12,13,14,14,14,15,15][rng.below(19) as usize];
        let (coq, refused, opname): (String, bool, &str);
        match kind {
            0 | 1 => { // create (plain or nested)
                let rid = 1 + rng.below(2);
                let mut p = Parameters::default();
                p.add("r", scn.room_ids[&rid].clone()).unwrap();
                if kind == 0 {
                    let ent = 1 + rng.below(3);
                    let res = a.db.mutate_raw(&format!(r#"mutate {{ ns.E{ent}{{ room_id:$r name:"a-row" }} }}"#), Some(p)).await;
                    coq = format!("CMut {} {} {} [{}]", defs, gn(A), gz(now), ment(head(ent, Some(rid), now, true, None), vec![]));
                    refused = res.is_err();
                    if let Ok(r) = res { scn.rows.push(Row { id: base64_encode(&r.mutate_entities[0].node_to_mutate.id), ent, room: rid, author: A, children: vec![], alive: true }); }
                    opname = "create";
                } else {
                    let res = a.db.mutate_raw(r#"mutate { ns.E1{ room_id:$r name:"a-parent" subs:[{name:"a-child"}] } }"#, Some(p)).await;
                    coq = format!("CMut {} {} {} [{}]", defs, gn(A), gz(now), ment(head(1, Some(rid), now, true, None), vec![ment(head(2, Some(rid), now, true, None), vec![])]));
                    refused = res.is_err();
                    if let Ok(r) = res {
                        let pe = &r.mutate_entities[0];
                        let ci = scn.rows.len();
                        scn.rows.push(Row { id: base64_encode(&pe.sub_nodes.get("subs").unwrap()[0].node_to_mutate.id), ent: 2, room: rid, author: A, children: vec![], alive: true });
                        scn.rows.push(Row { id: base64_encode(&pe.node_to_mutate.id), ent: 1, room: rid, author: A, children: vec![ci], alive: true });
                        edge_author.insert((ci + 1, ci), A);
                    }
                    opname = "create-nested";
                }
            }
            2 | 3 => { // update (own or foreign), possibly moving it
                let i = *rng.pick(&alive);
                let row = scn.rows[i].clone();
                let mv = kind == 3;
                let dest = if mv { 3 - row.room } else { row.room };
                let mut p = Parameters::default();
                p.add("id", row.id.clone()).unwrap();
                // (a mutation that only names another room is a move too, since fix 07628ab)
                let room_only = mv && rng.chance(1, 3);
                let text = if room_only { p.add("r", scn.room_ids[&dest].clone()).unwrap(); format!(r#"mutate {{ ns.E{}{{ id:$id room_id:$r }} }}"#, row.ent) }
                           else if mv { p.add("r", scn.room_ids[&dest].clone()).unwrap(); format!(r#"mutate {{ ns.E{}{{ id:$id room_id:$r name:$nm }} }}"#, row.ent) }
                           else { format!(r#"mutate {{ ns.E{}{{ id:$id name:$nm }} }}"#, row.ent) };
                if !room_only { p.add("nm", format!("upd-{}", out.n)).unwrap(); }
                let res = a.db.mutate_raw(&text, Some(p)).await;
                coq = format!("CMut {} {} {} [{}]", defs, gn(A), gz(now), ment(head(row.ent, Some(dest), now, true, Some((row.room, row.author))), vec![]));
                refused = res.is_err();
                if res.is_ok() { scn.rows[i].author = A; scn.rows[i].room = dest; }
                opname = if room_only { "move-room-only" } else if mv { "move" } else { "update" };
            }
            4 => { // update of a child through its unchanged parent
                let parents: Vec<usize> = alive.iter().cloned().filter(|i| scn.rows[*i].children.iter().any(|c| scn.rows[*c].alive)).collect();
                if parents.is_empty() { continue; }
                let pi = *rng.pick(&parents);
                let ci = *scn.rows[pi].children.iter().find(|c| scn.rows[**c].alive).unwrap();
                let (pr, cr) = (scn.rows[pi].clone(), scn.rows[ci].clone());
                let mut p = Parameters::default();
                p.add("p", pr.id.clone()).unwrap();
                p.add("c", cr.id.clone()).unwrap();
                p.add("nm", format!("via-parent-{}", out.n)).unwrap();
                let res = a.db.mutate_raw(r#"mutate { ns.E1{ id:$p subs:[{ id:$c name:$nm }] } }"#, Some(p)).await;
                coq = format!("CMut {} {} {} [{}]", defs, gn(A), gz(now), ment(head(1, Some(pr.room), now, false, Some((pr.room, pr.author))),
                    vec![ment(head(2, Some(cr.room), now, true, Some((cr.room, cr.author))), vec![])]));
                refused = res.is_err();
                if res.is_ok() { scn.rows[ci].author = A; }
                opname = "update-through-parent";
            }
            5 | 6 => { // node deletion
                let i = *rng.pick(&alive);
                let row = scn.rows[i].clone();
                let mut p = Parameters::default();
                p.add("id", row.id.clone()).unwrap();
                let res = a.db.delete(&format!("delete {{ ns.E{} {{ $id }} }}", row.ent), Some(p)).await;
                coq = format!("CDel {} {} {} [{}] [] []", defs, gn(A), gz(now), dnode(row.ent, row.room, row.author, now));
                refused = res.is_err();
                if res.is_ok() { scn.rows[i].alive = false; }
                opname = "delete";
            }
            9 | 10 | 11 => { // A changes the definition of a room (it may or may not be admin of it)
                let rid = 1 + rng.below(2);
                let g = 1 + rng.below(3);
                let k = if rng.chance(1, 2) { A } else { C };
                let en = !rng.chance(1, 3);
                let mut p = Parameters::default();
                p.add("r", scn.room_ids[&rid].clone()).unwrap();
                let known_group = scn.auth_ids[&rid].contains_key(&g);
                let (ev, text) = if !known_group {
                    (Ev::Group(g), format!(r#"mutate {{ sys.Room{{ id:$r authorisations:[{{ name:"ga{g}" }}] }} }}"#))
                } else {
                    p.add("g", scn.auth_ids[&rid][&g].clone()).unwrap();
                    match rng.below(8) {
                        0 | 1 => { p.add("k", key_b64(k, &a, &b)).unwrap(); p.add("en", en).unwrap();
                               (Ev::Admin(k, now, en), r#"mutate { sys.Room{ id:$r admin:[{verif_key:$k enabled:$en}] } }"#.to_string()) }
                        2 | 3 => { p.add("k", key_b64(k, &a, &b)).unwrap(); p.add("en", en).unwrap();
                               (Ev::User(g, k, now, en), r#"mutate { sys.Room{ id:$r authorisations:[{ id:$g users:[{verif_key:$k enabled:$en}] }] } }"#.to_string()) }
                        4 => { p.add("k", key_b64(k, &a, &b)).unwrap(); p.add("en", en).unwrap();
                               (Ev::UAdmin(g, k, now, en), r#"mutate { sys.Room{ id:$r authorisations:[{ id:$g user_admin:[{verif_key:$k enabled:$en}] }] } }"#.to_string()) }
                        _ => { let e = rng.below(4); let sf = rng.chance(2, 3); let al = rng.chance(1, 3);
                               p.add("e", if e == 0 { "*".to_string() } else { ename(e) }).unwrap(); p.add("s", sf).unwrap(); p.add("al", al).unwrap();
                               (Ev::Right(g, e, now, sf, al), r#"mutate { sys.Room{ id:$r authorisations:[{ id:$g rights:[{entity:$e mutate_self:$s mutate_all:$al}] }] } }"#.to_string()) }
                    }
                };
                let res = a.db.mutate_raw(&text, Some(p)).await;
                coq = format!("CRoomMut {} {} {} {} [{}]", defs, gn(A), gn(rid), gz(now), ev.coq());
                refused = res.is_err();
                if let Ok(r) = res {
                    if let Ev::Group(g) = &ev {
                        let id = base64_encode(&r.mutate_entities[0].sub_nodes.get("authorisations").unwrap()[0].node_to_mutate.id);
                        scn.auth_ids.get_mut(&rid).unwrap().insert(*g, id);
                    }
                    scn.defs.iter_mut().find(|d| d.0 == rid).unwrap().1.push(ev);
                    all_dates.push(now);
                }
                opname = "room-mutation";
            }
            15 => { // an update that only sets the single reference `owner` of a row (first time, same target again, or another target)
                let parents: Vec<usize> = alive.iter().cloned().filter(|i| scn.rows[*i].ent == 1).collect();
                let targets: Vec<usize> = alive.iter().cloned().filter(|i| scn.rows[*i].ent == 3).collect();
                if parents.is_empty() || targets.is_empty() { continue; }
                let pi = *rng.pick(&parents);
                let ti = *rng.pick(&targets);
                let (pr, tr) = (scn.rows[pi].clone(), scn.rows[ti].clone());
                let current = owner_edge.get(&pi).cloned();
                let changes = current.map(|(t, _)| t != ti).unwrap_or(true);
                let dels: Vec<u64> = if changes { current.map(|(_, au)| vec![au]).unwrap_or_default() } else { vec![] };
                let mut p = Parameters::default();
                p.add("p", pr.id.clone()).unwrap();
                p.add("t", tr.id.clone()).unwrap();
                let res = a.db.mutate_raw(r#"mutate { ns.E1{ id:$p owner:{ id:$t } } }"#, Some(p)).await;
                coq = format!("CMut {} {} {} [{}]", defs, gn(A), gz(now), ment(head_d(1, Some(pr.room), now, changes, Some((pr.room, pr.author)), &dels),
                    vec![ment(head(3, Some(tr.room), now, false, Some((tr.room, tr.author))), vec![])]));
                refused = res.is_err();
                if res.is_ok() && changes { scn.rows[pi].author = A; owner_edge.insert(pi, (ti, A)); }
                opname = "set-single-reference";
            }
            14 => { // a room mutation whose write fails (injected storage failure): answered Err, nothing changes,
                    // and the rights it would have granted are NOT in force afterwards
                use discret::verif_hooks::database::sqlite_database::verif_faults;
                let rid = 1 + rng.below(2);
                let groups: Vec<u64> = scn.auth_ids[&rid].keys().cloned().filter(|g| *g != 9).collect();
                if groups.is_empty() { continue; }
                let g = *rng.pick(&groups);
                let e = 1 + rng.below(3);
                let mut p = Parameters::default();
                p.add("r", scn.room_ids[&rid].clone()).unwrap();
                p.add("g", scn.auth_ids[&rid][&g].clone()).unwrap();
                p.add("k", key_b64(A, &a, &b)).unwrap();
                p.add("e", ename(e)).unwrap();
                // only interesting when the caller cannot create that entity in that room now: probe first
                {
                    let mut pp = Parameters::default();
                    pp.add("r", scn.room_ids[&rid].clone()).unwrap();
                    let probe = a.db.mutate_raw(&format!(r#"mutate {{ ns.E{e}{{ room_id:$r name:"probe" }} }}"#), Some(pp)).await;
                    let after = dump(&a).await;
                    let refused_p = probe.is_err();
                    out.push(Case { kind: "e2e-create".into(), coq: format!("CE2E (CMut {} {} {} [{}])", defs, gn(A), gz(now), ment(head(e, Some(rid), now, true, None), vec![])),
                                    obs: vec![refused_p as i64, if refused_p { (before != after) as i64 } else { 1 }], meta: json!({"scenario": sidx, "op": "create-probe", "refused": refused_p, "now": now}) });
                    if let Ok(r) = probe { scn.rows.push(Row { id: base64_encode(&r.mutate_entities[0].node_to_mutate.id), ent: e, room: rid, author: A, children: vec![], alive: true }); continue; }
                }
                // let the recompute that follows the previous request pass, then fail the next batch at BEGIN
                tokio::time::sleep(std::time::Duration::from_millis(400)).await;
                verif_faults::arm(verif_faults::MODE_FAIL, 1, 0, None);
                let res = a.db.mutate_raw(r#"mutate { sys.Room{ id:$r authorisations:[{ id:$g users:[{verif_key:$k enabled:true}] rights:[{entity:$e mutate_self:true mutate_all:true}] }] } }"#, Some(p)).await;
                let fired = verif_faults::fired();
                verif_faults::disarm();
                tokio::time::sleep(std::time::Duration::from_millis(100)).await;
                let inner = format!("CRoomMut {} {} {} {} [{}; {}]", defs, gn(A), gn(rid), gz(now), Ev::User(g, A, now, true).coq(), Ev::Right(g, e, now, true, true).coq());
                if fired != 1 {
                    // the caller was not admin (refused before any write) or the batch was not the faulted one: an ordinary room mutation
                    coq = inner;
                    refused = res.is_err();
                    if res.is_ok() { let evs = &mut scn.defs.iter_mut().find(|d| d.0 == rid).unwrap().1; evs.push(Ev::User(g, A, now, true)); evs.push(Ev::Right(g, e, now, true, true)); all_dates.push(now); }
                    opname = "room-mutation";
                } else {
                    let after = dump(&a).await;
                    let changed = before != after || before_rooms != dump_rooms(&a).await;
                    out.push(Case { kind: "e2e-room-mutation-write-failure".into(), coq: format!("CFailedWrite ({})", inner), obs: vec![res.is_err() as i64, changed as i64],
                                    meta: json!({"scenario": sidx, "op": "room-mutation-write-failure", "refused": res.is_err(), "changed": changed, "now": now}) });
                    // what the failed mutation would have granted must not be in force: the caller creates a row of that entity
                    let before2 = dump(&a).await;
                    let mut p = Parameters::default();
                    p.add("r", scn.room_ids[&rid].clone()).unwrap();
                    let res2 = a.db.mutate_raw(&format!(r#"mutate {{ ns.E{e}{{ room_id:$r name:"after-failed-room-mutation" }} }}"#), Some(p)).await;
                    coq = format!("CMut {} {} {} [{}]", defs, gn(A), gz(now), ment(head(e, Some(rid), now, true, None), vec![]));
                    refused = res2.is_err();
                    if let Ok(r) = res2 { scn.rows.push(Row { id: base64_encode(&r.mutate_entities[0].node_to_mutate.id), ent: e, room: rid, author: A, children: vec![], alive: true }); }
                    let _ = before2;
                    opname = "create-after-failed-room-mutation";
                }
            }
            13 => { // all references of a field removed by an update (subs: null): created by the caller or by someone else
                let parents: Vec<usize> = alive.iter().cloned().filter(|i| scn.rows[*i].ent == 1).collect();
                if parents.is_empty() { continue; }
                let pi = *rng.pick(&parents);
                let pr = scn.rows[pi].clone();
                let kids: Vec<usize> = pr.children.iter().cloned().filter(|c| scn.rows[*c].alive).collect();
                let authors: Vec<u64> = kids.iter().map(|c| *edge_author.get(&(pi, *c)).unwrap_or(&B)).collect();
                let mut p = Parameters::default();
                p.add("p", pr.id.clone()).unwrap();
                let res = a.db.mutate_raw(r#"mutate { ns.E1{ id:$p subs:null } }"#, Some(p)).await;
                // without any reference to remove nothing is updated: the parent is a "reference only" head
                coq = format!("CMut {} {} {} [{}]", defs, gn(A), gz(now), ment(head_d(1, Some(pr.room), now, !kids.is_empty(), Some((pr.room, pr.author)), &authors), vec![]));
                refused = res.is_err();
                if res.is_ok() && !kids.is_empty() { scn.rows[pi].author = A; scn.rows[pi].children.clear(); }
                opname = "clear-references";
            }
            12 => { // authorisation rows touched outside a room mutation: always refused
                let rid = 1 + rng.below(2);
                let g = *rng.pick(&scn.auth_ids[&rid].keys().cloned().collect::<Vec<_>>());
                let mut p = Parameters::default();
                p.add("g", scn.auth_ids[&rid][&g].clone()).unwrap();
                p.add("k", key_b64(A, &a, &b)).unwrap();
                let which = rng.below(4);
                let res_err = match which {
                    0 => a.db.mutate_raw(r#"mutate { sys.Authorisation{ id:$g name:"renamed" } }"#, Some(p)).await.is_err(),
                    1 => a.db.mutate_raw(r#"mutate { sys.UserAuth{ verif_key:$k enabled:true } }"#, Some(p)).await.is_err(),
                    2 => a.db.mutate_raw(r#"mutate { sys.EntityRight{ entity:"*" mutate_self:true mutate_all:true } }"#, Some(p)).await.is_err(),
                    _ => a.db.delete("delete { sys.Authorisation { $g } }", Some(p)).await.is_err(),
                };
                let auth_head = format!("{{| h_kind := KAuthLike; h_ent := 1%N; h_room := None; h_date := {}; h_has_node := true; h_too_big := false; h_old := None; h_edge_dels := [] |}}", gz(now));
                coq = if which < 3 { format!("CMut {} {} {} [{}]", defs, gn(A), gz(now), ment(auth_head, vec![])) }
                      else { format!("CDel {} {} {} [{{| dn_kind := KAuthLike; dn_ent := 1%N; dn_room := None; dn_author := {}; dn_date := {} |}}] [] []", defs, gn(A), gz(now), gn(B), gz(now)) };
                refused = res_err;
                opname = "authorisation-row-outside-room-mutation";
            }
            _ => { // reference deletion (existing reference, or a reference that does not exist)
                let parents: Vec<usize> = alive.iter().cloned().filter(|i| scn.rows[*i].ent == 1).collect();
                if parents.is_empty() { continue; }
                let pi = *rng.pick(&parents);
                let pr = scn.rows[pi].clone();
                let existing = pr.children.iter().cloned().find(|c| scn.rows[*c].alive);
                let use_existing = existing.is_some() && rng.chance(2, 3);
                let e2: Vec<usize> = alive.iter().cloned().filter(|i| scn.rows[*i].ent == 2 && !pr.children.contains(i)).collect();
                let target = if use_existing { existing.unwrap() } else if !e2.is_empty() { *rng.pick(&e2) } else { continue };
                let mut p = Parameters::default();
                p.add("p", pr.id.clone()).unwrap();
                p.add("c", scn.rows[target].id.clone()).unwrap();
                let res = a.db.delete("delete { ns.E1 { $p subs[$c] } }", Some(p)).await;
                let es = if use_existing { vec![dedge(1, pr.room, *edge_author.get(&(pi, target)).unwrap_or(&B), now)] } else { vec![] };
                coq = format!("CDel {} {} {} [] {} [{}]", defs, gn(A), gz(now), glist(&es), dnode(1, pr.room, pr.author, now));
                refused = res.is_err();
                if res.is_ok() {
                    scn.rows[pi].author = A;
                    if use_existing { scn.rows[pi].children.retain(|c| *c != target); }
                }
                opname = if use_existing { "delete-reference" } else { "delete-missing-reference" };
            }
        }
        let after = dump(&a).await;
        let changed = before != after || before_rooms != dump_rooms(&a).await;
        out.push(Case { kind: format!("e2e-{opname}"), coq: format!("CE2E ({})", coq), // the property speaks about refused requests only ("leaves the database unchanged"); an accepted one may
                        // legitimately leave the tables byte-identical (same value, same forced clock, deterministic signature)
                        obs: vec![refused as i64, if refused { changed as i64 } else { 1 }],
                        meta: json!({"scenario": sidx, "op": opname, "refused": refused, "changed": changed, "now": now}) });
    }
    verif_clock::clear();
    let _ = std::fs::remove_dir_all(&a.path);
    let _ = std::fs::remove_dir_all(&b.path);
    // the services own threads that still hold connections: they are left running until the process exits
    std::mem::forget(a);
    std::mem::forget(b);
}

#[tokio::main(flavor = "multi_thread", worker_threads = 4)]
async fn main() {
    let mut out = Out::create();
    let mut rng = Rng::from_env();
    let n = scale(12, 120);
    for s in 0..n {
        let mut r = rng.fork();
        scenario(&mut r, &mut out, s).await;
    }
    out.finish();
    std::process::exit(0);
}
