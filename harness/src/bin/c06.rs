//! C06 correspondence: the digests the real code signs (Node::hash, Edge::hash, tombstone
//! sign/verify, Invite::hash, AnnounceHeader::hash), the real sign()/verify() verdicts, one
//! signature put on two rows, and the identity-challenge signing service driven through the real
//! InboundQueryService::process_inbound — each compared with the Gallina model (coq/model/Digest.v
//! over the layouts generated from the source) and judged by the property's oracle in Coq.
//! The witnesses computed by the model's `collide_all` are obtained from coqc and replayed here
//! through the real sign()/verify().
use discret::verif_hooks::configuration::Configuration;
use discret::verif_hooks::database::edge::{Edge, EdgeDeletionEntry};
use discret::verif_hooks::database::graph_database::GraphDatabaseService;
use discret::verif_hooks::database::node::{Node, NodeDeletionEntry};
use discret::verif_hooks::database::system_entities::Invite;
use discret::verif_hooks::event_service::EventService;
use discret::verif_hooks::network::AnnounceHeader;
use discret::verif_hooks::security::{import_verifying_key, Ed25519SigningKey, HardwareFingerprint, SigningKey, VerifyingKey};
use discret::verif_hooks::synchronisation::peer_outbound_service::{InboundQueryService, RemotePeerHandle};
use discret::verif_hooks::synchronisation::{Answer, IdentityAnswer, Query, QueryProtocol};
use serde_json::json;
use std::collections::{BTreeMap, HashSet};
use std::path::PathBuf;
use std::sync::atomic::AtomicBool;
use std::sync::{Arc, Mutex};
use vharness::common::*;
#[path = "sync_common/mod.rs"]
mod sync_common;
use discret::verif_hooks::database::system_entities::Peer;
use discret::verif_hooks::date_utils::verif_clock;
use discret::verif_hooks::security::base64_encode;
use discret::{Parameters, ParametersAdd};

// ---------------------------------------------------------------- rows as the model sees them
#[derive(Clone, PartialEq, Debug)]
enum V { B(Vec<u8>), I(i64), N }
#[derive(Clone, PartialEq, Debug)]
struct Row { kind: usize, f: Vec<V> }

fn hexs(b: &[u8]) -> String { b.iter().map(|x| format!("{:02x}", x)).collect() }
fn gbytes(b: &[u8]) -> String { format!("(bl [{}]%N)", b.iter().map(|x| x.to_string()).collect::<Vec<_>>().join(";")) }
impl V {
    fn coq(&self) -> String {
        match self { V::B(b) => format!("VB {}", gbytes(b)), V::I(z) => format!("VI {}", gz(*z)), V::N => "VNone".to_string() }
    }
}
impl Row { fn coq(&self) -> String { glist(&self.f.iter().map(|v| v.coq()).collect::<Vec<_>>()) } }

fn b(v: &V) -> Option<&Vec<u8>> { if let V::B(x) = v { Some(x) } else { None } }
fn i(v: &V) -> Option<i64> { if let V::I(x) = v { Some(*x) } else { None } }
fn s(v: &V) -> Option<String> { b(v).and_then(|x| String::from_utf8(x.clone()).ok()) }
fn u16b(v: &V) -> Option<[u8; 16]> { b(v).and_then(|x| <[u8; 16]>::try_from(x.as_slice()).ok()) }
fn u32b(v: &V) -> Option<[u8; 32]> { b(v).and_then(|x| <[u8; 32]>::try_from(x.as_slice()).ok()) }

// ---------------------------------------------------------------- the real structures
#[derive(Clone)]
enum Real {
    Node(Node),
    Edge(Edge),
    NDel { room: [u8; 16], id: [u8; 16], mdate: i64, entity: String, ddate: i64, key: Vec<u8> },
    EDel { room: [u8; 16], src: [u8; 16], se: String, label: String, dest: [u8; 16], cdate: i64, ddate: i64, key: Vec<u8> },
    Invite(Invite),
    Ann([u8; 16], [u8; 32]),
}

fn to_real(r: &Row) -> Option<Real> {
    let f = &r.f;
    match r.kind {
        0 => {
            if f.len() != 8 { return None; }
            let room = match &f[1] { V::N => None, v => Some(u16b(v)?) };
            let json = match &f[5] { V::N => None, v => Some(s(v)?) };
            let bin = match &f[6] { V::N => None, v => Some(b(v)?.clone()) };
            Some(Real::Node(Node { id: u16b(&f[0])?, room_id: room, cdate: i(&f[2])?, mdate: i(&f[3])?, _entity: s(&f[4])?, _json: json,
                                   _binary: bin, verifying_key: b(&f[7])?.clone(), _signature: vec![], _local_id: None }))
        }
        1 => {
            if f.len() != 6 { return None; }
            Some(Real::Edge(Edge { src: u16b(&f[0])?, src_entity: s(&f[1])?, label: s(&f[2])?, dest: u16b(&f[3])?, cdate: i(&f[4])?,
                                   verifying_key: b(&f[5])?.clone(), signature: vec![] }))
        }
        2 => {
            if f.len() != 6 { return None; }
            Some(Real::NDel { room: u16b(&f[0])?, id: u16b(&f[1])?, mdate: i(&f[2])?, entity: s(&f[3])?, ddate: i(&f[4])?, key: b(&f[5])?.clone() })
        }
        3 => {
            if f.len() != 8 { return None; }
            Some(Real::EDel { room: u16b(&f[0])?, src: u16b(&f[1])?, se: s(&f[2])?, label: s(&f[3])?, dest: u16b(&f[4])?, cdate: i(&f[5])?,
                              ddate: i(&f[6])?, key: b(&f[7])?.clone() })
        }
        4 => {
            if f.len() != 2 { return None; }
            Some(Real::Invite(Invite { invite_id: u16b(&f[0])?, application: s(&f[1])?, invite_sign: vec![] }))
        }
        5 => {
            if f.len() != 2 { return None; }
            Some(Real::Ann(u16b(&f[0])?, u32b(&f[1])?))
        }
        _ => None,
    }
}

/// a signing key that records the message it is asked to sign (public SigningKey trait)
struct Recorder { inner: Ed25519SigningKey, last: Mutex<Vec<u8>> }
impl SigningKey for Recorder {
    fn export(&self) -> Vec<u8> { self.inner.export() }
    fn export_verifying_key(&self) -> Vec<u8> { self.inner.export_verifying_key() }
    fn verifying_key(&self) -> impl VerifyingKey { self.inner.verifying_key() }
    fn sign(&self, message: &[u8]) -> Vec<u8> { *self.last.lock().unwrap() = message.to_vec(); self.inner.sign(message) }
}

fn announce(endpoint: &[u8; 16], cert: &[u8; 32]) -> AnnounceHeader {
    // AnnounceHeader has private fields: build it through its serde form
    let mut ser = vec![];
    ser.extend_from_slice(endpoint);
    ser.extend_from_slice(cert);
    ser.extend_from_slice(&0u64.to_le_bytes());
    bincode::deserialize(&ser).unwrap()
}
fn node_stub(id: &[u8; 16], mdate: i64, entity: &str) -> Node {
    Node { id: *id, room_id: None, cdate: 0, mdate, _entity: entity.to_string(), _json: None, _binary: None, verifying_key: vec![], _signature: vec![], _local_id: None }
}
fn edge_stub(src: &[u8; 16], se: &str, label: &str, dest: &[u8; 16], cdate: i64) -> Edge {
    Edge { src: *src, src_entity: se.to_string(), label: label.to_string(), dest: *dest, cdate, verifying_key: vec![], signature: vec![] }
}

/// the 32 bytes the real code signs for this row (empty when the real code refuses or panics)
fn digest(real: &Real, rec: &Recorder) -> Vec<u8> {
    std::panic::catch_unwind(std::panic::AssertUnwindSafe(|| digest_inner(real, rec))).unwrap_or_default()
}
fn digest_inner(real: &Real, rec: &Recorder) -> Vec<u8> {
    match real {
        // (a digest function that refuses the row yields no digest: reported through the comparison, never a crash)
        Real::Node(n) => n.hash().map(|h| h.as_bytes().to_vec()).unwrap_or_default(),
        Real::Edge(e) => e.verif_hash().as_bytes().to_vec(),
        Real::NDel { room, id, mdate, entity, ddate, key } => {
            NodeDeletionEntry::sign(room, &node_stub(id, *mdate, entity), *ddate, key, rec);
            rec.last.lock().unwrap().clone()
        }
        Real::EDel { room, src, se, label, dest, cdate, ddate, key } => {
            EdgeDeletionEntry::sign(room, &edge_stub(src, se, label, dest, *cdate), *ddate, key, rec);
            rec.last.lock().unwrap().clone()
        }
        Real::Invite(inv) => inv.hash(),
        Real::Ann(e, c) => announce(e, c).hash().to_vec(),
    }
}
/// real signing path of a freshly built row: (sign accepted it, signature)
fn sign_real(real: &Real, rec: &Recorder) -> (bool, Vec<u8>) {
    match real {
        Real::Node(n) => { let mut n = n.clone(); let ok = n.sign(&rec.inner).is_ok(); (ok, if ok { n._signature } else { vec![] }) }
        // since 6d1bd7f Edge::sign fills the signature in before it checks the size: a refused edge is an Err for
        // every caller (`edge.sign(key)?`), so no signature counts as produced
        Real::Edge(e) => { let mut e = e.clone(); let ok = e.sign(&rec.inner).is_ok(); (ok, if ok { e.signature } else { vec![] }) }
        Real::NDel { room, id, mdate, entity, ddate, key } => (true, NodeDeletionEntry::sign(room, &node_stub(id, *mdate, entity), *ddate, key, &rec.inner)),
        Real::EDel { room, src, se, label, dest, cdate, ddate, key } => (true, EdgeDeletionEntry::sign(room, &edge_stub(src, se, label, dest, *cdate), *ddate, key, &rec.inner)),
        Real::Invite(_) | Real::Ann(_, _) => (true, rec.inner.sign(&digest(real, rec))),   // what GraphDatabaseService::sign does with the digest
    }
}
/// real verify() of the row carrying this signature
fn verify_real(real: &Real, sig: &[u8], rec: &Recorder) -> bool {
    let real = real.clone();
    let sig = sig.to_vec();
    let key = rec.inner.export_verifying_key();
    let dg = match &real { Real::Invite(_) | Real::Ann(_, _) => digest(&real, rec), _ => vec![] };
    let r = std::panic::catch_unwind(move || match real {
        Real::Node(mut n) => { n._signature = sig; n.verify().is_ok() }
        Real::Edge(mut e) => { e.signature = sig; e.verify().is_ok() }
        Real::NDel { room, id, mdate, entity, ddate, key } =>
            NodeDeletionEntry { room_id: room, id, entity, mdate, deletion_date: ddate, verifying_key: key, signature: sig, entity_name: None }.verify().is_ok(),
        Real::EDel { room, src, se, label, dest, cdate, ddate, key } =>
            EdgeDeletionEntry { room_id: room, src, src_entity: se, dest, label, cdate, deletion_date: ddate, verifying_key: key, signature: sig, entity_name: None }.verify().is_ok(),
        Real::Invite(_) | Real::Ann(_, _) => import_verifying_key(&key).map(|k| k.verify(&dg, &sig).is_ok()).unwrap_or(false),
    });
    r.unwrap_or(false)
}
fn json_is_object(r: &Row) -> bool {
    if r.kind != 0 { return true; }
    match &r.f[5] {
        V::N => true,
        v => match s(v) { Some(t) => serde_json::from_str::<serde_json::Value>(&t).map(|x| x.is_object()).unwrap_or(false), None => false },
    }
}

// ---------------------------------------------------------------- generators
const STRS: &[&str] = &["a", "ab", "abc", "0.1", "ns.Person", "pets", "a\"b", "{}", "\"{}\"", "a\\", "\\\"", "é", "日本語", "😀x", "a\nb", "\u{1}", "\u{7f}", "tab\there", "{\"a\":1}", " ", "\u{0}", "a\u{0}b"];
const JSONS: &[&str] = &["{}", "{\"a\":1}", "{\"k\":\"v\\\"x\"}", "{ \"32\" : \"é\\n\" }", "{\"a\":{\"b\":[1,2,{\"c\":null}]}}", "{\"\\u0001\":\"\u{1}\"}", "{\"a\":\"\\\\\"}",
                         "[1]", "3", "\"s\"", "null", "{", "", "{\"a\":1}}", "{}\n", "{\"日\":\"😀\"}"];

fn gen_uid(rng: &mut Rng) -> Vec<u8> {
    match rng.below(4) {
        0 => (0..16).map(|_| b'a' + rng.below(26) as u8).collect(),
        _ => (0..16).map(|_| rng.below(256) as u8).collect(),
    }
}
fn gen_date(rng: &mut Rng) -> i64 {
    match rng.below(8) {
        0 => 0,
        1 => -1,
        2 => i64::MAX,
        3 => i64::MIN,
        4 => 0x6161616161616161,
        5 => -(rng.below(1 << 40) as i64),
        _ => 1_700_000_000_000 + rng.below(1 << 36) as i64,
    }
}
fn gen_str(rng: &mut Rng, allow_empty: bool) -> Vec<u8> {
    match rng.below(12) {
        0 if allow_empty => vec![],
        1 => { let n = 1 + rng.below(300) as usize; (0..n).map(|_| b'a' + rng.below(26) as u8).collect() }
        2 => { let n = 1 + rng.below(12) as usize; (0..n).map(|_| char::from_u32(0x20 + rng.below(0x5f) as u32).unwrap() as u8).collect() }
        3 => { let mut t = String::new(); for _ in 0..(1 + rng.below(4)) { t.push_str(*rng.pick(STRS)); } t.into_bytes() }
        _ => rng.pick(STRS).as_bytes().to_vec(),
    }
}
fn gen_json(rng: &mut Rng) -> Vec<u8> {
    match rng.below(10) {
        0 => { let v = json!({ String::from_utf8(gen_str(rng, true)).unwrap(): String::from_utf8(gen_str(rng, true)).unwrap(), "n": rng.below(1000) }); v.to_string().into_bytes() }
        1 => { let v = json!({ "32": String::from_utf8(gen_str(rng, true)).unwrap() }); serde_json::to_string_pretty(&v).unwrap().into_bytes() }
        2..=6 => rng.pick(&JSONS[0..7]).as_bytes().to_vec(),
        _ => rng.pick(JSONS).as_bytes().to_vec(),
    }
}
fn gen_bin(rng: &mut Rng) -> Vec<u8> {
    let n = match rng.below(12) { 0 => 0, 1 => 1000 + rng.below(100) as usize, 2 => 2040 + rng.below(20) as usize, 3 => 64 - 1 + rng.below(3) as usize, _ => rng.below(40) as usize };
    (0..n).map(|_| rng.below(256) as u8).collect()
}
fn opt(rng: &mut Rng, v: V) -> V { if rng.chance(1, 2) { v } else { V::N } }

fn gen_row(rng: &mut Rng, kind: usize, key: &[u8]) -> Row {
    let k = V::B(key.to_vec());
    let (e1, e2) = (rng.chance(1, 6), rng.chance(1, 8));
    let f = match kind {
        0 => { let r = gen_uid(rng); let j = gen_json(rng); let bi = gen_bin(rng);
               vec![V::B(gen_uid(rng)), opt(rng, V::B(r)), V::I(gen_date(rng)), V::I(gen_date(rng)), V::B(gen_str(rng, e1)), opt(rng, V::B(j)), opt(rng, V::B(bi)), k] }
        1 => {
            let (mut se, mut la) = (gen_str(rng, e2), gen_str(rng, e1));
            if rng.chance(1, 6) {   // around the size bound of Edge::verify: 16+se+label+16+8+33+64 vs 1024
                let total = 880 + rng.below(160) as usize;
                se = (0..total / 2).map(|_| b'a' + rng.below(26) as u8).collect();
                la = (0..total - total / 2).map(|_| b'a' + rng.below(26) as u8).collect();
            }
            vec![V::B(gen_uid(rng)), V::B(se), V::B(la), V::B(gen_uid(rng)), V::I(gen_date(rng)), k]
        }
        2 => vec![V::B(gen_uid(rng)), V::B(gen_uid(rng)), V::I(gen_date(rng)), V::B(gen_str(rng, true)), V::I(gen_date(rng)), k],
        3 => vec![V::B(gen_uid(rng)), V::B(gen_uid(rng)), V::B(gen_str(rng, true)), V::B(gen_str(rng, true)), V::B(gen_uid(rng)), V::I(gen_date(rng)), V::I(gen_date(rng)), k],
        4 => vec![V::B(gen_uid(rng)), V::B(gen_str(rng, true))],
        _ => vec![V::B(gen_uid(rng)), V::B((0..32).map(|_| rng.below(256) as u8).collect())],
    };
    Row { kind, f }
}

/// rows that encode to the same bytes as `r` but differ from it (moves across a boundary, optional
/// fields appearing/disappearing, another kind); None when the chosen move does not apply
fn reshape(rng: &mut Rng, r: &Row) -> Option<Row> {
    let mut q = r.clone();
    match (r.kind, rng.below(6)) {
        (1, 0..=2) | (3, 0..=2) => {   // src_entity | label
            let (a, c) = if r.kind == 1 { (1, 2) } else { (2, 3) };
            let (x, y) = (b(&r.f[a])?.clone(), b(&r.f[c])?.clone());
            let mut all = x.clone(); all.extend_from_slice(&y);
            if all.len() < 2 { return None; }
            let cut = 1 + rng.below(all.len() as u64 - 1) as usize;
            if !std::str::from_utf8(&all[..cut]).is_ok() || !std::str::from_utf8(&all[cut..]).is_ok() { return None; }
            q.f[a] = V::B(all[..cut].to_vec()); q.f[c] = V::B(all[cut..].to_vec());
        }
        (0, 0) => {   // entity swallows the quoted json
            let j = s(&r.f[5])?;
            let mut e = b(&r.f[4])?.clone(); e.extend_from_slice(serde_json::to_string(&j).unwrap().as_bytes());
            q.f[4] = V::B(e); q.f[5] = V::N;
        }
        (0, 1) => {   // binary None <-> Some(empty)
            match &r.f[6] { V::N => q.f[6] = V::B(vec![]), V::B(x) if x.is_empty() => q.f[6] = V::N, _ => return None }
        }
        (0, 2) => {   // room id becomes the two dates, the dates become the head of the entity
            let room = b(&r.f[1])?.clone();
            let mut e = i(&r.f[2])?.to_le_bytes().to_vec(); e.extend_from_slice(&i(&r.f[3])?.to_le_bytes()); e.extend_from_slice(b(&r.f[4])?);
            if std::str::from_utf8(&e).is_err() { return None; }
            q.f[1] = V::N;
            q.f[2] = V::I(i64::from_le_bytes(room[0..8].try_into().unwrap())); q.f[3] = V::I(i64::from_le_bytes(room[8..16].try_into().unwrap()));
            q.f[4] = V::B(e);
        }
        (0, 3) => {   // entity tail moves into the binary field
            let e = b(&r.f[4])?.clone();
            if e.len() < 2 || r.f[5] != V::N { return None; }
            let cut = 1 + rng.below(e.len() as u64 - 1) as usize;
            if std::str::from_utf8(&e[..cut]).is_err() { return None; }
            let mut bin = e[cut..].to_vec(); if let V::B(x) = &r.f[6] { bin.extend_from_slice(x); }
            q.f[4] = V::B(e[..cut].to_vec()); q.f[6] = V::B(bin);
        }
        (1, _) => {   // a reference read as a node: src=id, (entity,label,dest,cdate) -> cdate, mdate, entity, binary
            let mut rest = b(&r.f[1])?.clone(); rest.extend_from_slice(b(&r.f[2])?); rest.extend_from_slice(b(&r.f[3])?); rest.extend_from_slice(&i(&r.f[4])?.to_le_bytes());
            if rest.len() < 18 { return None; }
            let cut = 17 + rng.below((rest.len() - 17) as u64) as usize;
            if std::str::from_utf8(&rest[16..cut]).is_err() { return None; }
            q = Row { kind: 0, f: vec![r.f[0].clone(), V::N, V::I(i64::from_le_bytes(rest[0..8].try_into().unwrap())), V::I(i64::from_le_bytes(rest[8..16].try_into().unwrap())),
                                      V::B(rest[16..cut].to_vec()), V::N, V::B(rest[cut..].to_vec()), r.f[5].clone()] };
        }
        (2, _) => {   // a node deletion record read as a node: room=id, id=dates, ...
            let id = b(&r.f[1])?.clone();
            let mut rest = i(&r.f[2])?.to_le_bytes().to_vec(); rest.extend_from_slice(b(&r.f[3])?); rest.extend_from_slice(&i(&r.f[4])?.to_le_bytes());
            let cut = 1 + rng.below(rest.len() as u64 - 1) as usize;
            if std::str::from_utf8(&rest[..cut]).is_err() { return None; }
            q = Row { kind: 0, f: vec![r.f[0].clone(), V::N, V::I(i64::from_le_bytes(id[0..8].try_into().unwrap())), V::I(i64::from_le_bytes(id[8..16].try_into().unwrap())),
                                      V::B(rest[..cut].to_vec()), V::N, V::B(rest[cut..].to_vec()), r.f[5].clone()] };
        }
        _ => return None,
    }
    if q == *r { None } else { Some(q) }
}

/// one field changed (what the repository's own tests do)
fn mutate(rng: &mut Rng, r: &Row, other_key: &[u8]) -> Row {
    let mut q = r.clone();
    let idx = rng.below(r.f.len() as u64) as usize;
    q.f[idx] = match &r.f[idx] {
        V::I(z) => V::I(z.wrapping_add(1 + rng.below(3) as i64)),
        V::N => match (r.kind, idx) { (0, 1) => V::B(gen_uid(rng)), (0, 5) => V::B(b"{}".to_vec()), _ => V::B(vec![1, 2, 3]) },
        V::B(x) => {
            let is_key = (r.kind <= 3) && idx == r.f.len() - 1;
            if is_key { if rng.chance(1, 2) { V::B(other_key.to_vec()) } else { V::B(x[..32].to_vec()) } }
            else if x.is_empty() { V::B(b"x".to_vec()) }
            else if rng.chance(1, 4) && (r.kind == 0 && (idx == 1 || idx == 5 || idx == 6)) { V::N }
            else { let mut y = x.clone(); let p = rng.below(y.len() as u64) as usize; y[p] = if y[p] == b'a' { b'b' } else { b'a' }; V::B(y) }
        }
    };
    q
}

// ---------------------------------------------------------------- cases
struct Ctx { rec: Recorder, other_key: Vec<u8>, stats: BTreeMap<String, u64> }
impl Ctx { fn count(&mut self, k: &str) { *self.stats.entry(k.to_string()).or_insert(0) += 1; } }

fn case_row(ctx: &mut Ctx, r: &Row, kind: &str) -> Option<Case> {
    let real = to_real(r)?;
    let dg = digest(&real, &ctx.rec);
    let (sok, sig) = sign_real(&real, &ctx.rec);
    let vok = sok && verify_real(&real, &sig, &ctx.rec);
    let mut obs: Vec<i64> = dg.iter().map(|x| *x as i64).collect();
    obs.push(sok as i64); obs.push(vok as i64);
    ctx.count(&format!("row.kind{}.{}", r.kind, if vok { "verifies" } else if sok { "signed-but-refused" } else { "sign-refused" }));
    Some(Case { kind: kind.to_string(), coq: format!("CRow {} {} {}", gn(r.kind as u64), r.coq(), gb(json_is_object(r))), obs,
                meta: json!({"row_kind": r.kind, "sign_ok": sok, "verify_ok": vok, "digest": hexs(&dg)}) })
}
fn case_pair(ctx: &mut Ctx, r1: &Row, r2: &Row, kind: &str) -> Option<Case> {
    let (a, c) = (to_real(r1)?, to_real(r2)?);
    let (sok, sig) = sign_real(&a, &ctx.rec);
    let v1 = sok && verify_real(&a, &sig, &ctx.rec);
    let v2 = verify_real(&c, &sig, &ctx.rec);
    let same = digest(&a, &ctx.rec) == digest(&c, &ctx.rec);
    ctx.count(&format!("pair.{}.{}", kind, if v1 && v2 { if r1 == r2 { "same-row-both-verify" } else { "TWO-ROWS-ONE-SIGNATURE" } } else if v1 { "second-refused" } else { "first-refused" }));
    Some(Case { kind: kind.to_string(),
                coq: format!("CPair {} {} {} {} {} {}", gn(r1.kind as u64), r1.coq(), gb(json_is_object(r1)), gn(r2.kind as u64), r2.coq(), gb(json_is_object(r2))),
                obs: vec![v1 as i64, v2 as i64, same as i64],
                meta: json!({"kinds": [r1.kind, r2.kind], "both_verify": v1 && v2, "rows_equal": r1 == r2}) })
}

/// the witnesses of the model's `collide_all` for this key, computed by coqc
fn coq_witnesses(key: &[u8]) -> Result<Vec<(Row, Row)>, String> {
    let work = std::env::var("VERIF_WORK").unwrap_or("/verif/work".to_string());
    // the Coq development: the nearest ancestor of the work directory that holds coq/run/Run_C06.vo
    let coqdir = PathBuf::from(&work).ancestors().map(|a| a.join("coq")).find(|c| c.join("run").join("Run_C06.vo").exists())
        .unwrap_or(PathBuf::from("/verif/coq"));
    let dir = PathBuf::from(&work).join("C06");
    std::fs::create_dir_all(&dir).map_err(|e| e.to_string())?;
    let vfile = dir.join("witnesses.v");
    std::fs::write(&vfile, format!("From DV Require Import Run_C06.\nSet Printing Width 100000000.\nSet Printing Depth 100000000.\nEval vm_compute in dump_witnesses (hx \"{}\").\n", hexs(key))).map_err(|e| e.to_string())?;
    let out = std::process::Command::new("timeout").arg("300").arg("coqc").arg("-noglob")
        .args(["-Q", "model", "DV", "-Q", "proofs", "DV", "-Q", "props", "DV", "-Q", "run", "DV", "-Q", "gen", "DV"])
        .arg("-o").arg(dir.join("witnesses.vo")).arg(&vfile).current_dir(&coqdir).output().map_err(|e| e.to_string())?;
    if !out.status.success() { return Err(format!("coqc failed: {}", String::from_utf8_lossy(&out.stderr))); }
    let txt = String::from_utf8_lossy(&out.stdout).to_string();
    let txt = txt.split(": list (list Z)").next().unwrap_or("").to_string();
    let mut res = vec![];
    // inner lists: [ ints ; ... ]
    let bytes = txt.as_bytes();
    let mut depth = 0; let mut start = 0;
    for (p, ch) in bytes.iter().enumerate() {
        if *ch == b'[' { depth += 1; if depth == 2 { start = p + 1; } }
        if *ch == b']' { if depth == 2 {
            let nums: Vec<i64> = txt[start..p].split(';').filter_map(|t| t.trim().trim_matches(|c| c == '(' || c == ')').parse::<i64>().ok()).collect();
            if let Some(w) = parse_witness(&nums) { res.push(w); }
        } depth -= 1; }
    }
    Ok(res)
}
fn parse_fields(n: &[i64]) -> Vec<V> {
    let mut f = vec![]; let mut p = 0;
    while p + 1 < n.len() {
        let (tag, len) = (n[p], n[p + 1] as usize);
        match tag {
            0 => { f.push(V::B(n[p + 2..p + 2 + len].iter().map(|x| *x as u8).collect())); p += 2 + len; }
            1 => { f.push(V::I(n[p + 2])); p += 3; }
            _ => { f.push(V::N); p += 2; }
        }
    }
    f
}
fn parse_witness(n: &[i64]) -> Option<(Row, Row)> {
    if n.len() < 3 { return None; }
    let (k1, k2) = (n[0] as usize, n[1] as usize);
    let rest = &n[2..];
    // the separator -1 is the first -1 at a field boundary: walk the first row
    let mut p = 0;
    loop {
        if p >= rest.len() { return None; }
        if rest[p] == -1 { break; }
        match rest[p] { 0 => p += 2 + rest[p + 1] as usize, 1 => p += 3, _ => p += 2 }
    }
    Some((Row { kind: k1, f: parse_fields(&rest[..p]) }, Row { kind: k2, f: parse_fields(&rest[p + 1..]) }))
}

// ---------------------------------------------------------------- stored rows (real instances)
const STORE_MODEL: &str = "ns { Doc{ a:String, b:String nullable, refs:[ns.Doc] } Plain(no_full_text_index){ a:String } }";

async fn all_nodes(net: &sync_common::Net, p: usize, only_peers: bool) -> Vec<Node> {
    net.sql(p, move |c| {
        let q = if only_peers { "SELECT id, room_id, cdate, mdate, _entity, _json, _binary, verifying_key, _signature FROM _node WHERE _entity='0.4' AND room_id IS NULL ORDER BY id" }
                else { "SELECT id, room_id, cdate, mdate, _entity, _json, _binary, verifying_key, _signature FROM _node ORDER BY id" };
        let mut st = c.prepare(q)?;
        let rows = st.query_map([], |r| Ok(Node { id: r.get(0)?, room_id: r.get(1)?, cdate: r.get(2)?, mdate: r.get(3)?, _entity: r.get(4)?, _json: r.get(5)?,
                                                    _binary: r.get(6)?, verifying_key: r.get(7)?, _signature: r.get(8)?, _local_id: None }))?;
        rows.collect()
    }).await
}
async fn all_edges(net: &sync_common::Net, p: usize) -> Vec<Edge> {
    net.sql(p, |c| {
        let mut st = c.prepare("SELECT src, src_entity, label, dest, cdate, verifying_key, signature FROM _edge")?;
        let rows = st.query_map([], |r| Ok(Edge { src: r.get(0)?, src_entity: r.get(1)?, label: r.get(2)?, dest: r.get(3)?, cdate: r.get(4)?, verifying_key: r.get(5)?, signature: r.get(6)? }))?;
        rows.collect()
    }).await
}
async fn all_node_tombs(net: &sync_common::Net, p: usize) -> Vec<NodeDeletionEntry> {
    net.sql(p, |c| {
        let mut st = c.prepare("SELECT room_id, id, entity, mdate, deletion_date, verifying_key, signature FROM _node_deletion_log")?;
        let rows = st.query_map([], |r| Ok(NodeDeletionEntry { room_id: r.get(0)?, id: r.get(1)?, entity: r.get(2)?, mdate: r.get(3)?, deletion_date: r.get(4)?, verifying_key: r.get(5)?, signature: r.get(6)?, entity_name: None }))?;
        rows.collect()
    }).await
}
async fn all_edge_tombs(net: &sync_common::Net, p: usize) -> Vec<EdgeDeletionEntry> {
    net.sql(p, |c| {
        let mut st = c.prepare("SELECT room_id, src, src_entity, dest, label, cdate, deletion_date, verifying_key, signature FROM _edge_deletion_log")?;
        let rows = st.query_map([], |r| Ok(EdgeDeletionEntry { room_id: r.get(0)?, src: r.get(1)?, src_entity: r.get(2)?, dest: r.get(3)?, label: r.get(4)?, cdate: r.get(5)?, deletion_date: r.get(6)?,
                                                               verifying_key: r.get(7)?, signature: r.get(8)?, entity_name: None }))?;
        rows.collect()
    }).await
}
fn ok_or_panic<F: FnOnce() -> bool + std::panic::UnwindSafe>(f: F) -> bool { std::panic::catch_unwind(f).unwrap_or(false) }

/// a correctly signed sys.Peer row as a remote peer would present it
fn crafted_peer(id: [u8; 16], sk: &Ed25519SigningKey, mdate: i64, variant: u8) -> Node {
    let mut n = Peer::create(id, base64_encode(&[variant; 32]));
    n.mdate = mdate;
    n.sign(sk).unwrap();
    n
}

/// sys.Peer rows through the real add_peer_nodes, compared column by column
async fn case_peer_store(rng: &mut Rng, tag: usize, directed: Option<usize>, stats: &mut BTreeMap<String, u64>) -> Case {
    let root = sync_common::work_root(&format!("C06/peers_{}_{}", seed(), tag));
    let net = sync_common::Net::start(2, STORE_MODEL, root).await;
    let own: Vec<Node> = vec![all_nodes(&net, 0, true).await.remove(0), all_nodes(&net, 1, true).await.remove(0)];
    let signers: Vec<Ed25519SigningKey> = (0..4u8).map(|i| { let mut sd = [0x33u8; 32]; sd[0] = i; sd[1] = tag as u8; Ed25519SigningKey::create_from(&sd) }).collect();
    // index tables: ids 0,1 = the instances' own peer ids; keys 0,1 = the instances' keys
    let mut ids: Vec<[u8; 16]> = vec![own[0].id, own[1].id];
    for i in 0..3u64 { ids.push(uid_of(7000 + i)); }
    let mut keys: Vec<Vec<u8>> = vec![own[0].verifying_key.clone(), own[1].verifying_key.clone()];
    for s in &signers { keys.push(s.export_verifying_key()); }
    let mut rows: Vec<Node> = own.clone();
    let mut ops: Vec<(usize, usize)> = vec![];
    let mk = |rows: &mut Vec<Node>, id: usize, signer: usize, mdate: i64, variant: u8| -> usize { rows.push(crafted_peer(ids[id], &signers[signer], mdate, variant)); rows.len() - 1 };
    match directed {
        Some(0) => {   // the stored row of a known id is never mixed with a newer row of another signer
            let a = mk(&mut rows, 2, 0, 0, 1); let b = mk(&mut rows, 2, 1, 5000, 2); let c = mk(&mut rows, 2, 0, 9000, 3);
            ops = vec![(0, a), (0, b), (0, c), (1, b), (1, a)];
        }
        Some(1) => {   // rows that reuse the id of the instance's own sys.Peer row
            let a = mk(&mut rows, 0, 0, 5000, 1); let b = mk(&mut rows, 1, 1, 7000, 2);
            ops = vec![(0, a), (0, b), (1, a), (1, b), (0, 1), (1, 0)];
        }
        _ => {
            for _ in 0..(3 + rng.below(6)) {
                let r = if rows.len() > 2 && rng.chance(1, 4) { 2 + rng.below(rows.len() as u64 - 2) as usize }
                        else { let id = rng.below(5) as usize; let sg = rng.below(4) as usize; let md = rng.below(4) as i64 * 1000; mk(&mut rows, id, sg, md, rng.below(3) as u8) };
                ops.push((rng.below(2) as usize, r));
                if rng.chance(1, 6) { ops.push((rng.below(2) as usize, rng.below(2) as usize)); }   // an instance's own row sent to the other one
            }
        }
    }
    for (dst, r) in &ops { let copy: Node = bincode::deserialize(&bincode::serialize(&rows[*r]).unwrap()).unwrap(); net.peers[*dst].db.add_peer_nodes(vec![copy]).await.unwrap(); }
    let mut jsons: Vec<String> = vec![];
    for r in &rows { let j = r._json.clone().unwrap_or_default(); if !jsons.contains(&j) { jsons.push(j); } }
    let idx_id = |u: &[u8; 16]| ids.iter().position(|x| x == u).map(|x| x as i64).unwrap_or(99);
    let idx_key = |k: &Vec<u8>| keys.iter().position(|x| x == k).map(|x| x as i64).unwrap_or(99);
    let idx_json = |j: &Option<String>| jsons.iter().position(|x| Some(x) == j.as_ref()).map(|x| x as i64).unwrap_or(99);
    let idx_sig = |sg: &Vec<u8>| rows.iter().position(|x| &x._signature == sg).map(|x| x as i64).unwrap_or(99);
    let mut obs: Vec<i64> = vec![];
    let mut failures = 0i64;
    let mut checked = 0u64;
    for p in 0..2 {
        let mut st = all_nodes(&net, p, true).await;
        st.sort_by_key(|n| idx_id(&n.id));
        obs.push(st.len() as i64);
        for n in &st {
            obs.extend([idx_id(&n.id), idx_key(&n.verifying_key), n.mdate, idx_json(&n._json), idx_sig(&n._signature)]);
            checked += 1;
            let m = n.clone(); if !ok_or_panic(move || m.verify().is_ok()) { failures += 1; }
        }
        for k in &keys {
            match net.peers[p].db.get_peer_node(k.clone()).await.unwrap() {
                Some(n) => { obs.push(1); checked += 1; if !ok_or_panic(move || n.verify().is_ok() && Peer::validate(&n).is_ok()) { failures += 1; } }
                None => obs.push(0),
            }
        }
    }
    obs.push(failures);
    net.cleanup();
    *stats.entry(format!("stored.peers.{}", if failures == 0 { "all-verify" } else { "STORED-ROW-REFUSED" })).or_insert(0) += 1;
    let rows_t: Vec<String> = rows.iter().map(|r| format!("{{| pr_id := {}; pr_key := {}; pr_mdate := {}; pr_json := {} |}}", gn(idx_id(&r.id) as u64), gn(idx_key(&r.verifying_key) as u64), gz(r.mdate), gn(idx_json(&r._json) as u64))).collect();
    let ops_t: Vec<String> = ops.iter().map(|(d, r)| format!("({}%nat, {}%nat)", d, r)).collect();
    Case { kind: if directed.is_some() { "stored-peers-directed".to_string() } else { "stored-peers".to_string() },
           coq: format!("CPeerStore {} [[0%nat]; [1%nat]] {} {}%nat", glist(&rows_t), glist(&ops_t), keys.len()), obs,
           meta: json!({"rows_checked": checked, "refused_by_verify": failures, "ops": ops.len()}) }
}

/// local mutations, deletions, synchronisations: every stored / served row through the real verify()
async fn case_stored_all(rng: &mut Rng, tag: usize, stats: &mut BTreeMap<String, u64>) -> Case {
    let root = sync_common::work_root(&format!("C06/all_{}_{}", seed(), tag));
    let net = sync_common::Net::start(2, STORE_MODEL, root).await;
    let t0 = sync_common::T0;
    let room = net.create_room(t0 - 30 * DAY, &["ns.Doc", "ns.Plain"]).await;
    let b64 = |u: &[u8; 16]| sync_common::b64(u);
    let mut docs: Vec<[u8; 16]> = vec![];
    let mut refs: Vec<(usize, usize, usize)> = vec![];
    let mut codes: Vec<u64> = vec![];
    let mut t = t0;
    let n_ops = 12 + rng.below(8);
    for step in 0..n_ops {
        t += if rng.chance(1, 6) { DAY } else { 1000 + rng.below(5000) as i64 };
        verif_clock::set(t);
        // first some rows on both instances and one exchange, then a mix of every kind of write
        let (p, code) = if step < 4 { (step as usize % 2, 0) } else if step == 4 { (0, 7) } else if step == 5 { (1, 7) }
                        else if step == 6 { (0, 3) } else if step == 7 { (0, 8) } else if step == 8 { (1, 9) }
                        else { (rng.below(2) as usize, *rng.pick(&[0u64, 2, 2, 3, 3, 3, 4, 8, 8, 9, 5, 7, 7])) };
        codes.push(code);
        match code {
            0 | 1 => {
                let mut pa = Parameters::default(); pa.add("room_id", b64(&room)).unwrap(); pa.add("a", format!("text {}", step)).unwrap();
                if let Ok(r) = net.peers[p].db.mutate_raw("mutate { ns.Doc{ room_id:$room_id a:$a } }", Some(pa)).await { docs.push(r.mutate_entities[0].node_to_mutate.id); }
            }
            2 => {
                let x = rng.below(docs.len() as u64) as usize;
                let mut pa = Parameters::default(); pa.add("id", b64(&docs[x])).unwrap(); pa.add("a", format!("upd {}", step)).unwrap(); pa.add("b", "é\"\\\n".to_string()).unwrap();
                let _ = net.peers[p].db.mutate_raw("mutate { ns.Doc{ id:$id a:$a b:$b } }", Some(pa)).await;
            }
            3 => {
                let (x, y) = (rng.below(docs.len() as u64) as usize, rng.below(docs.len() as u64) as usize);
                let mut pa = Parameters::default(); pa.add("id", b64(&docs[x])).unwrap(); pa.add("other", b64(&docs[y])).unwrap();
                match net.peers[p].db.mutate_raw("mutate { ns.Doc{ id:$id refs:[{id:$other}] } }", Some(pa)).await { Ok(r) => { if std::env::var("C06_DEBUG").is_ok() { eprintln!("ref added: edges {}", r.mutate_entities[0].edge_insertions.len()); } refs.push((p, x, y)) } Err(e) => if std::env::var("C06_DEBUG").is_ok() { eprintln!("ref add: {}", e) } }
            }
            4 => {
                if let Some((p, x, y)) = refs.pop() {
                    let mut pa = Parameters::default(); pa.add("id", b64(&docs[x])).unwrap(); pa.add("other", b64(&docs[y])).unwrap();
                    match net.peers[p].db.delete("delete { ns.Doc{ $id refs[$other] } }", Some(pa)).await { Ok(d) => if std::env::var("C06_DEBUG").is_ok() { eprintln!("ref del: edges {} log {}", d.edges.len(), d.edge_log.len()) }, Err(e) => if std::env::var("C06_DEBUG").is_ok() { eprintln!("ref del: {}", e) } }
                }
            }
            8 => {
                // the OTHER identity (it holds mutate_all) removes a reference from a row it did not write
                if let Some((author, x, y)) = refs.pop() {
                    let q = 1 - author;
                    net.barrier(0).await; net.barrier(1).await;
                    let _ = net.pull(q, author, room, t).await;
                    t += 1000; verif_clock::set(t);
                    let mut pa = Parameters::default(); pa.add("id", b64(&docs[x])).unwrap(); pa.add("other", b64(&docs[y])).unwrap();
                    let _ = net.peers[q].db.delete("delete { ns.Doc{ $id refs[$other] } }", Some(pa)).await;
                }
            }
            9 => {
                // ... and a reference that does not exist, on a row of the other identity
                let (x, y) = (rng.below(docs.len() as u64) as usize, rng.below(docs.len() as u64) as usize);
                let mut pa = Parameters::default(); pa.add("id", b64(&docs[x])).unwrap(); pa.add("other", b64(&docs[y])).unwrap();
                let _ = net.peers[p].db.delete("delete { ns.Doc{ $id refs[$other] } }", Some(pa)).await;
            }
            5 => {
                let x = rng.below(docs.len() as u64) as usize;
                let mut pa = Parameters::default(); pa.add("id", b64(&docs[x])).unwrap();
                let _ = net.peers[p].db.delete("delete { ns.Doc{ $id } }", Some(pa)).await;
            }
            _ => { net.barrier(0).await; net.barrier(1).await; let _ = net.pull(p, 1 - p, room, t).await; }
        }
    }
    net.barrier(0).await; net.barrier(1).await;
    t += 1000; let _ = net.pull(0, 1, room, t).await; t += 1000; let _ = net.pull(1, 0, room, t).await;
    let mut failures = 0i64;
    let mut counts = [0u64; 5];
    for p in 0..2 {
        for n in all_nodes(&net, p, false).await { counts[0] += 1; if !ok_or_panic(move || n.verify().is_ok()) { failures += 1; } }
        for e in all_edges(&net, p).await { counts[1] += 1; if !ok_or_panic(move || e.verify().is_ok()) { failures += 1; } }
        for d in all_node_tombs(&net, p).await { counts[2] += 1; if !ok_or_panic(move || d.verify().is_ok()) { failures += 1; } }
        for d in all_edge_tombs(&net, p).await { counts[3] += 1; if !ok_or_panic(move || d.verify().is_ok()) { failures += 1; } }
        let mut rx = net.peers[p].db.peers_for_room(room).await;
        while let Some(Ok(v)) = rx.recv().await { for n in v { counts[4] += 1; if !ok_or_panic(move || n.verify().is_ok()) { failures += 1; } } }
    }
    net.cleanup();
    *stats.entry(format!("stored.all.{}", if failures == 0 { "all-verify" } else { "STORED-ROW-REFUSED" })).or_insert(0) += 1;
    for (i, name) in ["nodes", "edges", "node-tombstones", "edge-tombstones", "served-peers"].iter().enumerate() { *stats.entry(format!("stored.all.rows.{}", name)).or_insert(0) += counts[i]; }
    Case { kind: "stored-all".to_string(), coq: format!("CStoredAll {}", glist(&codes.iter().map(|c| gn(*c)).collect::<Vec<_>>())), obs: vec![failures],
           meta: json!({"nodes": counts[0], "edges": counts[1], "node_tombstones": counts[2], "edge_tombstones": counts[3], "served_peer_rows": counts[4], "refused_by_verify": failures}) }
}

// ---------------------------------------------------------------- the long-lived verification service
use discret::verif_hooks::signature_verification_service::SignatureVerificationService;
use discret::verif_hooks::database::room_node::RoomNode;

fn row_of_node(n: &Node) -> Row {
    Row { kind: 0, f: vec![V::B(n.id.to_vec()), match &n.room_id { Some(r) => V::B(r.to_vec()), None => V::N }, V::I(n.cdate), V::I(n.mdate), V::B(n._entity.as_bytes().to_vec()),
                           match &n._json { Some(j) => V::B(j.as_bytes().to_vec()), None => V::N }, match &n._binary { Some(b) => V::B(b.clone()), None => V::N }, V::B(n.verifying_key.clone())] }
}
fn row_of_edge(e: &Edge) -> Row {
    Row { kind: 1, f: vec![V::B(e.src.to_vec()), V::B(e.src_entity.as_bytes().to_vec()), V::B(e.label.as_bytes().to_vec()), V::B(e.dest.to_vec()), V::I(e.cdate), V::B(e.verifying_key.clone())] }
}
/// one field of the row changed, every other field (and, later, the signature) kept
fn tamper(r: &Row, idx: usize, rng: &mut Rng) -> Option<Row> {
    let mut q = r.clone();
    let is_key = r.kind <= 3 && idx == r.f.len() - 1;
    q.f[idx] = match &r.f[idx] {
        V::I(z) => V::I(z.wrapping_add(1 + rng.below(1000) as i64)),
        V::N => match (r.kind, idx) { (0, 1) => V::B(gen_uid(rng)), (0, 5) => V::B(b"{}".to_vec()), (0, 6) => V::B(vec![1, 2, 3]), _ => return None },
        V::B(x) => {
            if is_key { return None; }
            if x.is_empty() { V::B(b"x".to_vec()) }
            else if r.kind == 0 && (idx == 1 || idx == 5 || idx == 6) && rng.chance(1, 3) { V::N }
            else { let mut y = x.clone(); let p = rng.below(y.len() as u64) as usize; y[p] = if y[p] == b'a' { b'b' } else { b'a' }; V::B(y) }
        }
    };
    if q == *r { None } else { Some(q) }
}
#[derive(Clone)]
struct Item { row: Row, src: Row, sig: Vec<u8> }   // `row` carries the signature honestly made for `src`
fn item_coq(it: &Item) -> String {
    format!("({}, {}, {}, {}, {}, {})", gn(it.row.kind as u64), it.row.coq(), gb(json_is_object(&it.row)), gn(it.src.kind as u64), it.src.coq(), gb(json_is_object(&it.src)))
}
async fn submit(svc: &SignatureVerificationService, kind: usize, items: &[Item]) -> Option<bool> {
    match kind {
        0 => { let mut v = vec![]; for it in items { if let Real::Node(mut n) = to_real(&it.row)? { n._signature = it.sig.clone(); v.push(n); } } Some(svc.verify_nodes(v).await.is_ok()) }
        1 => { let mut v = vec![]; for it in items { if let Real::Edge(mut e) = to_real(&it.row)? { e.signature = it.sig.clone(); v.push(e); } } Some(svc.verify_edges(v).await.is_ok()) }
        2 => { let mut v = vec![]; for it in items { if let Real::NDel { room, id, mdate, entity, ddate, key } = to_real(&it.row)? {
                   v.push(NodeDeletionEntry { room_id: room, id, entity, mdate, deletion_date: ddate, verifying_key: key, signature: it.sig.clone(), entity_name: None }); } }
               Some(svc.verify_node_log(v).await.is_ok()) }
        _ => { let mut v = vec![]; for it in items { if let Real::EDel { room, src, se, label, dest, cdate, ddate, key } = to_real(&it.row)? {
                   v.push(EdgeDeletionEntry { room_id: room, src, src_entity: se, dest, label, cdate, deletion_date: ddate, verifying_key: key, signature: it.sig.clone(), entity_name: None }); } }
               Some(svc.verify_edge_log(v).await.is_ok()) }
    }
}

/// one genuine row and its tampered copies through the long-lived service: alone, mixed, repeatedly
async fn case_service_row(svc: &SignatureVerificationService, ctx: &mut Ctx, rng: &mut Rng, genuine: &Row) -> Option<Case> {
    let real = to_real(genuine)?;
    let (sok, sig) = sign_real(&real, &ctx.rec);
    if !sok { return None; }
    let g = Item { row: genuine.clone(), src: genuine.clone(), sig: sig.clone() };
    let mut tampered: Vec<Item> = vec![];
    for idx in 0..genuine.f.len() { if let Some(t) = tamper(genuine, idx, rng) { if to_real(&t).is_some() { tampered.push(Item { row: t, src: genuine.clone(), sig: sig.clone() }); } } }
    let mut batches: Vec<Vec<Item>> = vec![vec![g.clone()]];                       // the genuine row goes through first
    for t in &tampered { batches.push(vec![t.clone()]); }                          // every tampered copy alone
    for t in tampered.iter().take(3) { batches.push(vec![g.clone(), t.clone()]); batches.push(vec![t.clone(), g.clone()]); }   // mixed with the genuine one
    batches.push(vec![g.clone(), g.clone()]);
    for t in &tampered { batches.push(vec![t.clone()]); }                          // and again
    let mut obs = vec![];
    for b in &batches { let ok = submit(svc, genuine.kind, b).await?; ctx.count(&format!("service.kind{}.{}", genuine.kind, if b.iter().all(|i| i.row == i.src) { if ok { "genuine-accepted" } else { "genuine-refused" } } else if ok { "TAMPERED-ACCEPTED" } else { "tampered-refused" })); obs.push(ok as i64); }
    let terms: Vec<String> = batches.iter().map(|b| glist(&b.iter().map(item_coq).collect::<Vec<_>>())).collect();
    Some(Case { kind: "service".to_string(), coq: format!("CService {}", glist(&terms)), obs, meta: json!({"row_kind": genuine.kind, "batches": batches.len(), "tampered_copies": tampered.len()}) })
}

fn room_items(rn: &RoomNode) -> (Vec<Node>, Vec<Edge>) {
    let mut nodes = vec![rn.node.clone()];
    let mut edges = rn.admin_edges.clone();
    for u in &rn.admin_nodes { nodes.push(u.node.clone()); }
    edges.extend(rn.auth_edges.clone());
    for a in &rn.auth_nodes {
        nodes.push(a.node.clone());
        edges.extend(a.user_edges.clone()); for u in &a.user_nodes { nodes.push(u.node.clone()); }
        edges.extend(a.right_edges.clone()); for r in &a.right_nodes { nodes.push(r.node.clone()); }
        edges.extend(a.user_admin_edges.clone()); for u in &a.user_admin_nodes { nodes.push(u.node.clone()); }
    }
    (nodes, edges)
}
/// a real room definition through verify_room_node: genuine, then with one inner row / reference changed
async fn case_service_room(svc: &SignatureVerificationService, ctx: &mut Ctx, tag: usize) -> Option<Case> {
    let root = sync_common::work_root(&format!("C06/room_{}_{}", seed(), tag));
    let net = sync_common::Net::start(1, STORE_MODEL, root).await;
    let room = net.create_room(sync_common::T0 - DAY, &["ns.Doc"]).await;
    let genuine = net.peers[0].db.get_room_node(room).await.ok()??;
    net.cleanup();
    verif_clock::clear();
    let bytes = bincode::serialize(&genuine).ok()?;
    let copy = || -> RoomNode { bincode::deserialize(&bytes).unwrap() };
    let (gn_nodes, gn_edges) = room_items(&genuine);
    // variants: (description, tampered room)
    let mut variants: Vec<RoomNode> = vec![];
    { let mut r = copy(); r.node.mdate += 1; variants.push(r); }
    { let mut r = copy(); if let Some(a) = r.auth_nodes.get_mut(0) { a.node._json = a.node._json.clone().map(|j| j.replace("\"g\"", "\"h\"")); } variants.push(r); }
    { let mut r = copy(); if let Some(a) = r.auth_nodes.get_mut(0) { if let Some(x) = a.right_nodes.get_mut(0) { x.node._json = x.node._json.clone().map(|j| j.replace("false", "true").replace("ns.Doc", "ns.Dog")); } } variants.push(r); }
    { let mut r = copy(); if let Some(u) = r.admin_nodes.get_mut(0) { u.node.cdate += 5; } variants.push(r); }
    { let mut r = copy(); if let Some(e) = r.admin_edges.get_mut(0) { e.cdate += 1; } variants.push(r); }
    { let mut r = copy(); if let Some(e) = r.auth_edges.get_mut(0) { e.label.push('x'); } variants.push(r); }
    let mut submissions: Vec<RoomNode> = vec![copy()];
    for v in &variants { submissions.push(bincode::deserialize(&bincode::serialize(v).unwrap()).unwrap()); }
    submissions.push(copy());
    for v in &variants { submissions.push(bincode::deserialize(&bincode::serialize(v).unwrap()).unwrap()); }
    let mut obs = vec![]; let mut terms = vec![];
    for sub in submissions {
        let (ns, es) = room_items(&sub);
        let mut items: Vec<Item> = vec![];
        for (n, g) in ns.iter().zip(gn_nodes.iter()) { items.push(Item { row: row_of_node(n), src: row_of_node(g), sig: vec![] }); }
        for (e, g) in es.iter().zip(gn_edges.iter()) { items.push(Item { row: row_of_edge(e), src: row_of_edge(g), sig: vec![] }); }
        let genuine_all = items.iter().all(|i| i.row == i.src);
        let ok = svc.verify_room_node(sub).await.is_ok();
        ctx.count(&format!("service.room.{}", if genuine_all { if ok { "genuine-accepted" } else { "genuine-refused" } } else if ok { "TAMPERED-ACCEPTED" } else { "tampered-refused" }));
        obs.push(ok as i64);
        terms.push(glist(&items.iter().map(item_coq).collect::<Vec<_>>()));
    }
    Some(Case { kind: "service-room".to_string(), coq: format!("CService {}", glist(&terms)), obs, meta: json!({"rows_in_room": gn_nodes.len() + gn_edges.len()}) })
}

fn uid_a() -> Vec<u8> { vec![0x41; 16] }

#[tokio::main(flavor = "multi_thread", worker_threads = 2)]
async fn main() {
    let mut rng = Rng::from_env();
    let mut seedbytes = [0u8; 32];
    for ch in seedbytes.chunks_mut(8) { ch.copy_from_slice(&rng.next().to_le_bytes()); }
    let sk = Ed25519SigningKey::create_from(&seedbytes);
    let key = sk.export_verifying_key();
    let mut ob = seedbytes; ob[0] ^= 0x55;
    let other_key = Ed25519SigningKey::create_from(&ob).export_verifying_key();
    let mut ctx = Ctx { rec: Recorder { inner: sk, last: Mutex::new(vec![]) }, other_key, stats: BTreeMap::new() };
    std::panic::set_hook(Box::new(|_| {}));
    let mut cases: Vec<Case> = vec![];
    let kb = || V::B(key.clone());

    // ---------------- directed: the known findings first
    // K1 node: (entity "a", json "{}") / (entity a"{}", no json)
    let node_a = Row { kind: 0, f: vec![V::B(uid_a()), V::N, V::I(5), V::I(7), V::B(b"a".to_vec()), V::B(b"{}".to_vec()), V::N, kb()] };
    let node_b = Row { kind: 0, f: vec![V::B(uid_a()), V::N, V::I(5), V::I(7), V::B(b"a\"{}\"".to_vec()), V::N, V::N, kb()] };
    cases.extend(case_pair(&mut ctx, &node_a, &node_b, "K1-node-entity-json"));
    // K1 reference: ("ab","c") / ("a","bc")
    let edge_a = Row { kind: 1, f: vec![V::B(uid_a()), V::B(b"ab".to_vec()), V::B(b"c".to_vec()), V::B(uid_a()), V::I(9), kb()] };
    let edge_b = Row { kind: 1, f: vec![V::B(uid_a()), V::B(b"a".to_vec()), V::B(b"bc".to_vec()), V::B(uid_a()), V::I(9), kb()] };
    cases.extend(case_pair(&mut ctx, &edge_a, &edge_b, "K1-reference-entity-label"));
    // K1 optional field: binary None / Some(empty)
    let mut node_c = node_a.clone(); node_c.f[6] = V::B(vec![]);
    cases.extend(case_pair(&mut ctx, &node_a, &node_c, "K1-node-binary-none-empty"));
    // K1 optional room id against the two dates
    let node_d = Row { kind: 0, f: vec![V::B(uid_a()), V::B(b"0123456789abcdef".to_vec()), V::I(0x6161616161616161), V::I(0x6262626262626262), V::B(b"e".to_vec()), V::N, V::N, kb()] };
    let node_e = Row { kind: 0, f: vec![V::B(uid_a()), V::N, V::I(i64::from_le_bytes(*b"01234567")), V::I(i64::from_le_bytes(*b"89abcdef")), V::B(b"aaaaaaaabbbbbbbbe".to_vec()), V::N, V::N, kb()] };
    cases.extend(case_pair(&mut ctx, &node_d, &node_e, "K1-node-room-dates"));
    // K2 a reference read as a node, a node deletion record read as a node
    let edge_k2 = Row { kind: 1, f: vec![V::B(uid_a()), V::B(b"ns.Person".to_vec()), V::B(b"friends_x".to_vec()), V::B(b"0123456789abcdef".to_vec()), V::I(1_700_000_000_000), kb()] };
    { let mut r2 = rng.fork(); let mut found = None; for _ in 0..50 { if let Some(q) = reshape(&mut r2, &edge_k2) { if q.kind == 0 { found = Some(q); break; } } }
      if let Some(q) = found { cases.extend(case_pair(&mut ctx, &edge_k2, &q, "K2-reference-as-node")); } }
    let ndel_k2 = Row { kind: 2, f: vec![V::B(uid_a()), V::B(b"0123456789abcdef".to_vec()), V::I(0x4142434445464748), V::B(b"ns.Pet".to_vec()), V::I(0x0000018bcfe56800), kb()] };
    { let mut r2 = rng.fork(); let mut found = None; for _ in 0..50 { if let Some(q) = reshape(&mut r2, &ndel_k2) { found = Some(q); break; } }
      if let Some(q) = found { cases.extend(case_pair(&mut ctx, &ndel_k2, &q, "K2-node-deletion-as-node")); } }
    // class 4: a reference that sign() accepts and verify() refuses (fields <= 1024 < fields + signature)
    let big = |n: usize| Row { kind: 1, f: vec![V::B(uid_a()), V::B(vec![b'e'; n / 2]), V::B(vec![b'l'; n - n / 2]), V::B(uid_a()), V::I(1), kb()] };
    for n in [887usize, 888, 950, 951, 952] { cases.extend(case_row(&mut ctx, &big(n), "K4-reference-size-window")); }

    // what is signed is the STORED json text: a text that merely parses to the same value (spaces, escapes,
    // reordered or duplicate keys) must not verify under the signature of the canonical text
    { let canon = "{\"a\":1,\"b\":\"x\"}";
      let variants = ["{ \"a\" : 1, \"b\" : \"x\" }", "{\"a\":1,\"b\":\"\\u0078\"}", "{\"b\":\"x\",\"a\":1}", "{\"a\":0,\"a\":1,\"b\":\"x\"}",
                      "{\"a\":1,\"b\":\"x\"}\n", "{\"a\":1.0,\"b\":\"x\"}", "{\"\\u0061\":1,\"b\":\"x\"}"];
      let row = |t: &str| Row { kind: 0, f: vec![V::B(uid_a()), V::N, V::I(5), V::I(7), V::B(b"ns.E".to_vec()), V::B(t.as_bytes().to_vec()), V::N, kb()] };
      for v in variants { cases.extend(case_pair(&mut ctx, &row(canon), &row(v), "json-noncanonical")); cases.extend(case_pair(&mut ctx, &row(v), &row(canon), "json-noncanonical")); } }

    // the whole escape table of serde_json's string quoting (the digest is defined for any text, JSON or not)
    { let mut t: Vec<u8> = (0u8..128).collect(); t.extend_from_slice("é日😀\u{80}\u{7ff}\u{800}\u{ffff}\u{10000}".as_bytes());
      let r = Row { kind: 0, f: vec![V::B(uid_a()), V::N, V::I(1), V::I(2), V::B(b"e".to_vec()), V::B(t), V::N, kb()] };
      cases.extend(case_row(&mut ctx, &r, "json-escape-table")); }

    // the witnesses computed by the model's collide_all, replayed through the real sign()/verify()
    let mut wit_note = json!(null);
    match coq_witnesses(&key) {
        Ok(ws) => {
            let mut n_ok = 0;
            for (r1, r2) in &ws { if let Some(c) = case_pair(&mut ctx, r1, r2, "collide-witness") { if c.obs[0] == 1 && c.obs[1] == 1 { n_ok += 1; } cases.push(c); } }
            wit_note = json!({"witnesses_from_coq": ws.len(), "accepted_by_real_verify": n_ok});
        }
        Err(e) => { wit_note = json!({"witnesses_from_coq": "unavailable", "why": e.chars().take(300).collect::<String>()}); }
    }

    // K3: the identity-challenge service of a real instance, driven through process_inbound
    let work = std::env::var("VERIF_WORK").unwrap_or("/verif/work".to_string());
    let dbdir: PathBuf = PathBuf::from(&work).join("C06").join(format!("victim_{}", seed()));
    let _ = std::fs::remove_dir_all(&dbdir);
    std::fs::create_dir_all(&dbdir).unwrap();
    {
        let mut secret = [7u8; 32]; secret[0..8].copy_from_slice(&rng.next().to_le_bytes());
        let (db, vkey, _room) = GraphDatabaseService::start("c06", "ns { Person{ name:String } }", &secret, &[9u8; 32], dbdir.clone(), &Configuration::default(), EventService::new()).await.unwrap();
        let (reply, mut answers) = tokio::sync::mpsc::channel::<Answer>(8);
        let mut peer = RemotePeerHandle { allowed_room: HashSet::new(), db: db.clone(), verifying_key: vkey.clone(), reply };
        let conn_key = Arc::new(tokio::sync::Mutex::new(Vec::<u8>::new()));
        let ready = Arc::new(AtomicBool::new(true));
        let fp = HardwareFingerprint { id: [3u8; 16], name: "harness".to_string() };
        let n_oracle = scale(40, 400);
        for n in 0..n_oracle {
            let kind = [0usize, 1, 2, 3][n % 4];
            let mut row = if n < 4 {
                match kind {
                    0 => Row { kind: 0, f: vec![V::B(uid_a()), V::N, V::I(1), V::I(2), V::B(b"ns.Person".to_vec()), V::B(b"{\"32\":\"forged\"}".to_vec()), V::N, V::N] },
                    1 => Row { kind: 1, f: vec![V::B(uid_a()), V::B(b"ns.Person".to_vec()), V::B(b"friend".to_vec()), V::B(uid_a()), V::I(3), V::N] },
                    2 => Row { kind: 2, f: vec![V::B(uid_a()), V::B(uid_a()), V::I(4), V::B(b"ns.Person".to_vec()), V::I(5), V::N] },
                    _ => Row { kind: 3, f: vec![V::B(uid_a()), V::B(uid_a()), V::B(b"ns.Person".to_vec()), V::B(b"friend".to_vec()), V::B(uid_a()), V::I(6), V::I(7), V::N] },
                }
            } else { gen_row(&mut rng, kind, &vkey) };
            let last = row.f.len() - 1; row.f[last] = V::B(vkey.clone());
            let real = match to_real(&row) { Some(r) => r, None => continue };
            let dg = digest(&real, &ctx.rec);
            // which challenge: the digest of the forged row, or something else of the peer's choosing
            let (challenge, cterm, ckind) = if n < 4 || rng.chance(1, 2) { (dg.clone(), "None".to_string(), "digest") }
                else { match rng.below(3) {
                    0 => { let c: Vec<u8> = (0..32).map(|_| rng.below(256) as u8).collect(); (c.clone(), format!("(Some {})", gbytes(&c)), "random32") }
                    1 => { let mut c = dg.clone(); c[rng.below(32) as usize] ^= 1; (c.clone(), format!("(Some {})", gbytes(&c)), "digest-one-bit-off") }
                    _ => { let c: Vec<u8> = dg.iter().rev().cloned().collect(); (c.clone(), format!("(Some {})", gbytes(&c)), "digest-reversed") }
                } };
            InboundQueryService::process_inbound(QueryProtocol { id: n as u64, query: Query::ProveIdentity(challenge) }, &mut peer, &conn_key, &ready, &fp).await.unwrap();
            let ans = answers.recv().await.unwrap();
            let ident: IdentityAnswer = bincode::deserialize(&ans.serialized).unwrap();
            let v = verify_real(&real, &ident.chall_signature, &ctx.rec);
            ctx.count(&format!("oracle.{}.{}", ckind, if v { "FORGED-ROW-VERIFIES" } else { "refused" }));
            cases.push(Case { kind: if n < 4 { "K3-identity-challenge".to_string() } else { "oracle".to_string() },
                              coq: format!("COracle {} {} {} {}", gn(row.kind as u64), row.coq(), gb(json_is_object(&row)), cterm),
                              obs: vec![v as i64], meta: json!({"row_kind": row.kind, "challenge": ckind, "forged_row_verifies": v}) });
        }
    }
    let _ = std::fs::remove_dir_all(&dbdir);

    // ---------------- ONE verification service for the whole run: genuine rows first, then tampered copies
    {
        let svc = SignatureVerificationService::start(1);
        // directed: a node whose every field is changed in turn (the signature stays)
        let g0 = Row { kind: 0, f: vec![V::B(uid_a()), V::B(b"0123456789abcdef".to_vec()), V::I(5), V::I(7), V::B(b"ns.Doc".to_vec()), V::B(b"{\"a\":1}".to_vec()), V::B(vec![1, 2, 3]), kb()] };
        if let Some(c) = case_service_row(&svc, &mut ctx, &mut rng, &g0).await { cases.push(Case { kind: "service-directed".to_string(), ..c }); }
        let mut made = 0; let mut tries = 0;
        while made < scale(36, 360) && tries < 4000 {
            tries += 1;
            let kind = [0usize, 0, 1, 2, 3][tries % 5];
            let r = gen_row(&mut rng, kind, &key);
            if r.f.iter().any(|v| matches!(v, V::B(x) if x.len() > 48)) { continue; }
            if let Some(c) = case_service_row(&svc, &mut ctx, &mut rng, &r).await { cases.push(c); made += 1; }
        }
        for n in 0..scale(2, 10) { if let Some(c) = case_service_room(&svc, &mut ctx, n).await { cases.push(c); } }
    }

    // ---------------- stored rows on real instances (directed first)
    for n in 0..scale(14, 140) { let d = if n < 2 { Some(n) } else { None }; let c = case_peer_store(&mut rng, n, d, &mut ctx.stats).await; cases.push(c); }
    for n in 0..scale(8, 80) { let c = case_stored_all(&mut rng, n, &mut ctx.stats).await; cases.push(c); }
    verif_clock::clear();

    // ---------------- generated
    let n_rows = scale(500, 7000);
    for n in 0..n_rows {
        let kind = [0usize, 0, 0, 1, 1, 2, 3, 4, 5][n % 9];
        let r = gen_row(&mut rng, kind, &key);
        cases.extend(case_row(&mut ctx, &r, "row"));
    }
    let n_pairs = scale(500, 7000);
    let mut n = 0;
    let mut guard = 0;
    while n < n_pairs && guard < n_pairs * 20 {
        guard += 1;
        let kind = [0usize, 0, 1, 1, 2, 3][guard % 6];
        let r1 = {
            // mostly rows that verify
            let mut r = gen_row(&mut rng, kind, &key);
            for _ in 0..6 { let ok = to_real(&r).map(|x| { let (s, sig) = sign_real(&x, &ctx.rec); s && verify_real(&x, &sig, &ctx.rec) }).unwrap_or(false); if ok || rng.chance(1, 10) { break; } r = gen_row(&mut rng, kind, &key); }
            r
        };
        let (r2, tag) = match rng.below(10) {
            0 => (r1.clone(), "same-row"),
            1..=3 => (mutate(&mut rng, &r1, &ctx.other_key.clone()), "one-field-changed"),
            4 => { let k2 = rng.below(4) as usize; (gen_row(&mut rng, k2, &key), "unrelated") }
            _ => match reshape(&mut rng, &r1) { Some(q) => (q, "reshaped"), None => continue },
        };
        if let Some(c) = case_pair(&mut ctx, &r1, &r2, tag) { cases.push(c); n += 1; }
    }
    // UTF-8 validity (the string fields of well-formed rows)
    for _ in 0..scale(150, 1500) {
        let bs: Vec<u8> = match rng.below(6) {
            0 => gen_str(&mut rng, true),
            1 => { let mut x = gen_str(&mut rng, false); let p = rng.below(x.len() as u64) as usize; x[p] = rng.below(256) as u8; x }
            2 => { let heads = [0xc0u8, 0xc1, 0xc2, 0xdf, 0xe0, 0xe1, 0xec, 0xed, 0xee, 0xef, 0xf0, 0xf1, 0xf4, 0xf5, 0xff, 0x80, 0xbf, 0x7f];
                   let mut x = vec![*rng.pick(&heads)]; for _ in 0..rng.below(4) { x.push(*rng.pick(&[0x80u8, 0x8f, 0x90, 0x9f, 0xa0, 0xbf, 0xc0, 0x7f, 0x41])); } x }
            3 => { let mut x = "é日😀".as_bytes().to_vec(); x.truncate(1 + rng.below(8) as usize); x }
            _ => (0..rng.below(6)).map(|_| rng.below(256) as u8).collect(),
        };
        let ok = std::str::from_utf8(&bs).is_ok();
        ctx.count(if ok { "utf8.valid" } else { "utf8.invalid" });
        cases.push(Case { kind: "utf8".to_string(), coq: format!("CUtf8 {}", gbytes(&bs)), obs: vec![ok as i64], meta: json!({}) });
    }

    // measured distribution of the generator goes into the first case's meta (evidence samples)
    let dist: serde_json::Value = ctx.stats.iter().map(|(k, v)| (k.clone(), json!(v))).collect::<serde_json::Map<_, _>>().into();
    if let Some(c) = cases.first_mut() { c.meta = json!({"first_case": c.meta, "generator_distribution": dist, "collide": wit_note}); }
    println!("c06: {} cases; distribution {}", cases.len(), serde_json::to_string(&ctx.stats).unwrap());
    let mut out = Out::create();
    for c in cases { out.push(c); }
    out.finish();
}
