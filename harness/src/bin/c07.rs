//! C07 correspondence: RoomAuthorisations::prepare_room_node (+ RoomNode::parse of what it
//! accepts) on real, validly signed room definitions vs coq/model/RoomNode.v; the same through
//! GraphDatabaseService::add_room_node on real instances for the directed cases.
#[path = "../c07_roomnode.rs"]
mod rn;
use rn::*;

use discret::verif_hooks::configuration::Configuration;
use discret::verif_hooks::database::authorisation_service::RoomAuthorisations;
use discret::verif_hooks::database::graph_database::GraphDatabaseService;
use discret::verif_hooks::database::room_node::RoomNode;
use discret::verif_hooks::database::node::Node;
use discret::verif_hooks::database::edge::Edge;
use discret::verif_hooks::date_utils::verif_clock;
use discret::verif_hooks::event_service::{Event, EventService};
use discret::verif_hooks::security::{base64_encode, random32, Ed25519SigningKey};
use discret::verif_hooks::signature_verification_service::SignatureVerificationService;
use discret::{Parameters, ParametersAdd};
use serde_json::json;
use std::collections::HashMap;
use std::path::PathBuf;
use vharness::common::*;


// ------------------------------------------------------------------ adversarial recombination
fn pick_list<'a>(rng: &mut Rng, c: &'a mut RM) -> (u64, u64, &'a mut Vec<UN>, &'a mut Vec<ED>) {
    // (container id, label, nodes, edges) of a random user-shaped list
    let ng = c.gnodes.len() as u64;
    let w = rng.below(1 + 2 * ng);
    if w == 0 || ng == 0 { return (c.id, L_ADMIN, &mut c.anodes, &mut c.aedges); }
    let g = &mut c.gnodes[((w - 1) / 2) as usize];
    if (w - 1) % 2 == 0 { (g.id, L_USERS, &mut g.unodes, &mut g.uedges) } else { (g.id, L_UADMIN, &mut g.anodes, &mut g.aedges) }
}
fn shuffle<T>(rng: &mut Rng, v: &mut Vec<T>) { for i in (1..v.len()).rev() { let j = rng.below(i as u64 + 1) as usize; v.swap(i, j); } }

fn mutate(rng: &mut Rng, kind: u64, c: &mut RM, old: Option<&RM>, other: &RM, next: &mut u64, m: u64, now: i64) -> &'static str {
    let rid = c.id;
    match kind {
        0 => { // an admin-signed user entry is re-placed into the admin list with a self-signed reference
            let users: Vec<UN> = c.gnodes.iter().flat_map(|g| g.unodes.clone()).collect();
            if users.is_empty() { return "none"; }
            let mine: Vec<UN> = users.iter().filter(|u| u.key == m && u.enabled).cloned().collect();
            let u = if !mine.is_empty() { rng.pick(&mine).clone() } else { rng.pick(&users).clone() };
            c.aedges.push(ED { src: rid, label: L_ADMIN, dest: u.id, date: now, author: m });
            c.anodes.push(u);
            "user_entry_into_admin_list"
        }
        1 | 2 => { // a user entry is re-placed into the user-admin list of its group (old reference / own reference)
            let gs: Vec<usize> = (0..c.gnodes.len()).filter(|i| !c.gnodes[*i].unodes.is_empty()).collect();
            if gs.is_empty() { return "none"; }
            let g = &mut c.gnodes[*rng.pick(&gs)];
            let i = rng.below(g.unodes.len() as u64) as usize;
            let u = g.unodes[i].clone();
            let e = if kind == 1 { g.uedges.iter().find(|e| e.dest == u.id).cloned().unwrap_or(ED { src: g.id, label: L_USERS, dest: u.id, date: now, author: m }) }
                    else { ED { src: g.id, label: L_UADMIN, dest: u.id, date: now, author: m } };
            g.aedges.push(e); g.anodes.push(u);
            if kind == 1 { "user_entry_into_uadmin_list_old_ref" } else { "user_entry_into_uadmin_list_own_ref" }
        }
        3 => { // self-signed entry + self-signed reference
            let date = if rng.chance(1, 4) { c.cdate } else if rng.chance(1, 4) { c.cdate + rng.range(-2000, 2000) } else { now };
            let (src, label, nodes, edges) = pick_list(rng, c);
            add_u(nodes, edges, next, src, label, date, m, m, true);
            "self_signed_entry"
        }
        4 => { // self-signed right
            if c.gnodes.is_empty() { return "none"; }
            let i = rng.below(c.gnodes.len() as u64) as usize;
            add_r(&mut c.gnodes[i], next, now, m, rng.below(3), true, true);
            "self_signed_right"
        }
        5 | 6 => { // a second row with the id of an existing entry (after it / before it)
            let (_, _, nodes, edges) = pick_list(rng, c);
            if nodes.is_empty() { return "none"; }
            let x = rng.pick(nodes).clone();
            let twin = UN { id: x.id, date: now, author: m, key: m, enabled: true, cd: 0 };
            let e = edges.iter().find(|e| e.dest == x.id).cloned();
            let own = rng.chance(1, 2); // the twin's reference: its own (signed by the attacker) or the existing one listed twice
            if let Some(e) = e { edges.push(if own { ED { src: e.src, label: e.label, dest: e.dest, date: now, author: m } } else { e }); } else { return "none"; }
            if kind == 5 { nodes.push(twin); if own { "twin_id_after_own_ref" } else { "twin_id_after" } } else { nodes.insert(0, twin); "twin_id_before" }
        }
        7 => { // omission of an entry and its reference
            let (_, _, nodes, edges) = pick_list(rng, c);
            if nodes.is_empty() { return "none"; }
            let i = rng.below(nodes.len() as u64) as usize;
            let x = nodes.remove(i);
            if let Some(j) = edges.iter().position(|e| e.dest == x.id) { edges.remove(j); }
            "omission"
        }
        8 => { // re-ordering
            let mut r2 = rng.fork();
            shuffle(&mut r2, &mut c.anodes); shuffle(&mut r2, &mut c.aedges); shuffle(&mut r2, &mut c.gnodes); shuffle(&mut r2, &mut c.gedges);
            for g in c.gnodes.iter_mut() { shuffle(&mut r2, &mut g.unodes); shuffle(&mut r2, &mut g.uedges); shuffle(&mut r2, &mut g.anodes); shuffle(&mut r2, &mut g.rnodes); shuffle(&mut r2, &mut g.redges); }
            "reordering"
        }
        9 => { // replay across rooms: an admin entry of the other room, self-signed reference into this room
            if other.anodes.is_empty() { return "none"; }
            let mine: Vec<UN> = other.anodes.iter().filter(|u| u.key == m).cloned().collect();
            let u = if !mine.is_empty() { rng.pick(&mine).clone() } else { rng.pick(&other.anodes).clone() };
            c.aedges.push(ED { src: rid, label: L_ADMIN, dest: u.id, date: now, author: m });
            c.anodes.push(u);
            "replay_admin_entry_of_other_room"
        }
        10 => { // an existing row replaced by a row of the same id with other content
            let (_, _, nodes, _) = pick_list(rng, c);
            if nodes.is_empty() { return "none"; }
            let i = rng.below(nodes.len() as u64) as usize;
            nodes[i] = UN { id: nodes[i].id, date: nodes[i].date, author: m, key: nodes[i].key, enabled: !nodes[i].enabled, cd: 0 };
            "row_replaced"
        }
        11 => { // a group of the other room attached with a self-signed reference (optionally with own entries inside)
            if other.gnodes.is_empty() { return "none"; }
            let mut g = rng.pick(&other.gnodes).read_order();
            if rng.chance(1, 2) { let gid = g.id; add_u(&mut g.anodes, &mut g.aedges, next, gid, L_UADMIN, now, m, m, true); add_u(&mut g.unodes, &mut g.uedges, next, gid, L_USERS, now, m, m, true); }
            c.gedges.push(ED { src: rid, label: L_AUTHS, dest: g.id, date: now, author: m });
            c.gnodes.push(g);
            "replay_group_of_other_room"
        }
        12 => { // own user-admin entry (and then own user entry) inside a group that is new to the peer
            let olds: Vec<u64> = old.map(|o| o.gnodes.iter().map(|g| g.id).collect()).unwrap_or_default();
            let news: Vec<usize> = (0..c.gnodes.len()).filter(|i| !olds.contains(&c.gnodes[*i].id)).collect();
            if news.is_empty() { return "none"; }
            let g = &mut c.gnodes[*rng.pick(&news)];
            let gid = g.id;
            add_u(&mut g.anodes, &mut g.aedges, next, gid, L_UADMIN, now, m, m, true);
            if rng.chance(2, 3) { add_u(&mut g.unodes, &mut g.uedges, next, gid, L_USERS, now, m, m, true); }
            "own_uadmin_in_new_group"
        }
        13 => { // shape errors: reference without row, foreign source, dangling destination
            let w = rng.below(3);
            let (src, label, nodes, edges) = pick_list(rng, c);
            match w {
                0 => { if edges.is_empty() { return "none"; } edges.pop(); }
                1 => { if nodes.is_empty() { return "none"; } let id = nodes[0].id; edges.push(ED { src: src + 1, label, dest: id, date: now, author: m }); nodes.push(UN { id: *next, date: now, author: m, key: m, enabled: true, cd: 0 }); *next += 1; }
                _ => { edges.push(ED { src, label, dest: 9999, date: now, author: m }); nodes.push(UN { id: *next, date: now, author: m, key: m, enabled: true, cd: 0 }); *next += 1; }
            }
            "shape_error"
        }
        14 => { // group row re-signed by the attacker with a later date
            if c.gnodes.is_empty() { return "none"; }
            let i = rng.below(c.gnodes.len() as u64) as usize;
            c.gnodes[i].date = now; c.gnodes[i].author = m;
            "group_row_resigned"
        }
        15 => { // a row without any reference of its own: an existing reference is listed twice
            let (_, _, nodes, edges) = pick_list(rng, c);
            if edges.is_empty() { return "none"; }
            let e = rng.pick(edges).clone();
            edges.push(e);
            nodes.push(UN { id: *next, date: now, author: m, key: m, enabled: true, cd: 0 }); *next += 1;
            "row_without_reference"
        }
        16 => { // an admin-signed entry of the attacker's own key, reference signed by the admin but under another field
            let users: Vec<(u64, UN)> = c.gnodes.iter().flat_map(|g| g.unodes.iter().map(|u| (g.id, u.clone())).collect::<Vec<_>>()).collect();
            if users.is_empty() { return "none"; }
            let (gid, u) = rng.pick(&users).clone();
            let g = c.gnodes.iter_mut().find(|g| g.id == gid).unwrap();
            let e = g.uedges.iter().find(|e| e.dest == u.id).cloned();
            if let Some(e) = e { g.aedges.push(e); g.anodes.push(u); }
            "user_entry_into_uadmin_list_old_ref"
        }
        17 | 18 => { // a key whose entitlement ended signs an entry whose creation date lies inside its past validity
                     // while the entry takes effect (mdate) now; 18: the same for a former user admin adding a user
            if kind == 17 {
                let mut windows: Vec<(u64, i64)> = vec![];
                for dis in c.anodes.iter().filter(|u| !u.enabled) {
                    if let Some(en) = c.anodes.iter().filter(|u| u.key == dis.key && u.enabled && u.date < dis.date).max_by_key(|u| u.date) {
                        if !c.anodes.iter().any(|u| u.key == dis.key && u.enabled && u.date > dis.date) { windows.push((dis.key, en.date)); }
                    }
                }
                if windows.is_empty() { return "none"; }
                let (f, d_en) = *rng.pick(&windows);
                let cd = d_en + 1 - now;
                match rng.below(3) {
                    0 => { let id = *next; *next += 1; c.anodes.push(UN { id, date: now, author: f, key: m, enabled: true, cd }); c.aedges.push(ED { src: rid, label: L_ADMIN, dest: id, date: now, author: f }); }
                    1 => { if c.gnodes.is_empty() { return "none"; } let i = rng.below(c.gnodes.len() as u64) as usize; let g = &mut c.gnodes[i];
                           let id = *next; *next += 1; g.unodes.push(UN { id, date: now, author: f, key: m, enabled: true, cd }); g.uedges.push(ED { src: g.id, label: L_USERS, dest: id, date: now, author: f }); }
                    _ => { if c.gnodes.is_empty() { return "none"; } let i = rng.below(c.gnodes.len() as u64) as usize; let g = &mut c.gnodes[i];
                           let id = *next; *next += 1; g.rnodes.push(RN { id, date: now, author: f, ent: rng.below(3), s: true, a: true, cd }); g.redges.push(ED { src: g.id, label: L_RIGHTS, dest: id, date: now, author: f }); }
                }
                "former_admin_creation_date_in_past_validity"
            } else {
                for g in c.gnodes.iter_mut() {
                    let mut w = None;
                    for dis in g.anodes.iter().filter(|u| !u.enabled) {
                        if let Some(en) = g.anodes.iter().filter(|u| u.key == dis.key && u.enabled && u.date < dis.date).max_by_key(|u| u.date) {
                            if !g.anodes.iter().any(|u| u.key == dis.key && u.enabled && u.date > dis.date) { w = Some((dis.key, en.date)); }
                        }
                    }
                    if let Some((f, d_en)) = w {
                        let id = *next; *next += 1;
                        g.unodes.push(UN { id, date: now, author: f, key: m, enabled: true, cd: d_en + 1 - now });
                        g.uedges.push(ED { src: g.id, label: L_USERS, dest: id, date: now, author: f });
                        return "former_user_admin_creation_date_in_past_validity";
                    }
                }
                "none"
            }
        }
        19 => { // the converse: an entitled key signs an entry whose creation date lies before its own validity
            let ads: Vec<UN> = c.anodes.iter().filter(|u| u.enabled && !c.anodes.iter().any(|v| v.key == u.key && v.date > u.date)).cloned().collect();
            if ads.is_empty() || c.gnodes.is_empty() { return "none"; }
            let a = rng.pick(&ads).clone();
            let i = rng.below(c.gnodes.len() as u64) as usize; let g = &mut c.gnodes[i];
            let id = *next; *next += 1;
            g.unodes.push(UN { id, date: now, author: a.key, key: m, enabled: true, cd: a.date - 7777 - now });
            g.uedges.push(ED { src: g.id, label: L_USERS, dest: id, date: now, author: a.key });
            "admin_creation_date_before_own_validity"
        }
        20 => { // a self-signed row that carries the id of a row stored in ANOTHER list (or of a group / the room row)
            let mut ids: Vec<u64> = c.anodes.iter().map(|u| u.id).collect();
            for g in &c.gnodes { ids.push(g.id); ids.extend(g.unodes.iter().map(|u| u.id)); ids.extend(g.anodes.iter().map(|u| u.id)); ids.extend(g.rnodes.iter().map(|u| u.id)); }
            ids.push(c.id);
            let id = *rng.pick(&ids);
            let as_right = rng.chance(1, 4) && !c.gnodes.is_empty();
            if as_right {
                let i = rng.below(c.gnodes.len() as u64) as usize; let g = &mut c.gnodes[i];
                if g.rnodes.iter().any(|x| x.id == id) { return "none"; }
                g.rnodes.push(RN { id, date: now, author: m, ent: 0, s: true, a: true, cd: 0 });
                g.redges.push(ED { src: g.id, label: L_RIGHTS, dest: id, date: now, author: m });
            } else {
                let (src, label, nodes, edges) = pick_list(rng, c);
                if nodes.iter().any(|x| x.id == id) { return "none"; }
                nodes.push(UN { id, date: now, author: m, key: m, enabled: true, cd: 0 });
                edges.push(ED { src, label, dest: id, date: now, author: m });
            }
            "row_with_id_of_another_list"
        }
        21 | 22 => { // a revocation, and an entry authored by the revoked key after (22: at the very date of) the revocation,
                     // both new to the peer, listed in a random order
            let cur: Vec<u64> = c.anodes.iter().filter(|u| u.enabled && !c.anodes.iter().any(|v| v.key == u.key && v.date > u.date)).map(|u| u.key).collect();
            if cur.len() < 2 { return "none"; }
            let b = *rng.pick(&cur);
            let a = *cur.iter().find(|k| **k != b).unwrap();
            let (t1, t2) = (now, if kind == 21 { now + 1000 } else { now });
            let rev = UN { id: *next, date: t1, author: a, key: b, enabled: false, cd: 0 };
            let rev_e = ED { src: rid, label: L_ADMIN, dest: *next, date: t1, author: a };
            *next += 1;
            let what = rng.below(3);
            if what == 0 || c.gnodes.is_empty() {
                let x = UN { id: *next, date: t2, author: b, key: m, enabled: true, cd: 0 };
                let x_e = ED { src: rid, label: L_ADMIN, dest: *next, date: t2, author: b };
                *next += 1;
                if rng.chance(1, 2) { c.anodes.insert(0, x); c.aedges.insert(0, x_e); c.anodes.push(rev); c.aedges.push(rev_e); }
                else { c.anodes.insert(0, rev); c.aedges.insert(0, rev_e); c.anodes.push(x); c.aedges.push(x_e); }
            } else {
                if rng.chance(1, 2) { c.anodes.insert(0, rev); c.aedges.insert(0, rev_e); } else { c.anodes.push(rev); c.aedges.push(rev_e); }
                let i = rng.below(c.gnodes.len() as u64) as usize; let g = &mut c.gnodes[i];
                let id = *next; *next += 1;
                if what == 1 { g.unodes.insert(0, UN { id, date: t2, author: b, key: m, enabled: true, cd: 0 }); g.uedges.insert(0, ED { src: g.id, label: L_USERS, dest: id, date: t2, author: b }); }
                else { g.rnodes.insert(0, RN { id, date: t2, author: b, ent: 0, s: true, a: true, cd: 0 }); g.redges.insert(0, ED { src: g.id, label: L_RIGHTS, dest: id, date: t2, author: b }); }
            }
            if kind == 21 { "revocation_and_later_entry_by_the_revoked_key" } else { "revocation_and_same_date_entry_by_the_revoked_key" }
        }
        _ => "none",
    }
}

// ------------------------------------------------------------------ running the real code
fn run_prepare(ctx: &mut Ctx, old: Option<&RM>, cand: &RM, probes: &[(u64, u64, i64)], full: bool) -> (Vec<i64>, bool) {
    let cand_real = ctx.room_node(cand);
    let sig_ok = SignatureVerificationService::room_check(cand_real.clone()).is_ok();
    let mut ra = RoomAuthorisations { signing_key: Ed25519SigningKey::create_from(&[7u8; 32]), rooms: HashMap::new(), max_node_size: 2000 };
    let mut old_read = None;
    if let Some(o) = old {
        match ctx.room_node(o).parse() {
            Ok(room) => { ra.rooms.insert(room.id, room); }
            Err(_) => return (vec![-1], sig_ok),
        }
        old_read = Some(ctx.room_node(&o.read_order()));
    }
    let mut c = cand_real;
    let obs = match ra.prepare_room_node(old_read, &mut c) {
        Err(e) => vec![err_code(&e)],
        Ok(false) => vec![0],
        Ok(true) => {
            let mut v = vec![1];
            if full { let abs = ctx.rm_of(&c); v.extend(encode_result(&abs)); }
            if let Ok(room) = c.parse() { v.extend(decisions(ctx, &room, probes)); }
            v
        }
    };
    (obs, sig_ok)
}

fn gen_probes(rng: &mut Rng, dates: &[i64], now: i64, n: usize) -> Vec<(u64, u64, i64)> {
    let mut ds: Vec<i64> = dates.to_vec();
    ds.push(now);
    (0..n).map(|_| (1 + rng.below(6), rng.below(4), *rng.pick(&ds) + rng.range(-1, 1))).collect()
}

fn case_random(rng: &mut Rng, ctx: &mut Ctx, stats: &mut HashMap<String, u64>) -> Case {
    let creator = 1 + rng.below(2);
    let m = 3 + rng.below(3);
    let steps = rng.below(7) as usize;
    let also = if rng.chance(1, 3) { Some(3 - creator) } else { None };
    let h = honest(rng, ctx, 1, 100, 10, steps, creator, also, true);
    // the other room: same creator, the attacker is an administrator there
    let h2 = honest(rng, ctx, 2, 500, 20, 2, creator, Some(m), true);
    let other = h2.states.last().unwrap().clone();
    let n = h.states.len();
    let fresh = rng.chance(1, 5);
    let p = rng.below(n as u64) as usize;
    let q = if fresh { rng.below(n as u64) as usize } else { p + rng.below((n - p) as u64) as usize };
    let old = if fresh { None } else { Some(h.states[p].clone()) };
    let mut cand = h.states[q].read_order();
    let now = h.dates[n - 1] + 5000;
    let mut next = 800;
    let mut tags = vec![];
    if rng.chance(3, 5) {
        for _ in 0..(1 + rng.below(2)) {
            let kind = rng.below(23);
            let t = mutate(rng, kind, &mut cand, old.as_ref(), &other, &mut next, m, now);
            if t != "none" { tags.push(t); }
        }
    }
    if fresh && q > 2 && rng.chance(1, 2) { // make some never-seen rooms importable: keep them free of multi-entry keys
    }
    let mut dates = h.dates.clone(); dates.push(now);
    let np = 4 + rng.below(5) as usize;
    let probes = gen_probes(rng, &dates, now, np);
    let (obs, sig_ok) = run_prepare(ctx, old.as_ref(), &cand, &probes, true);
    assert!(sig_ok, "generated candidate does not pass the real room_check");
    let verdict = obs[0];
    let kind = if tags.is_empty() { if fresh { "honest_fresh" } else { "honest_update" } } else if fresh { "adversarial_fresh" } else { "adversarial_update" };
    *stats.entry(format!("{}:{}", kind, if verdict == 1 { "accepted" } else if verdict == 0 { "nothing_new" } else { "refused" })).or_insert(0) += 1;
    Case { kind: kind.into(),
           coq: format!("CPrep {} {} {}", gopt(&old.as_ref().map(|o| rm_coq(o))), rm_coq(&cand), probes_coq(&probes)),
           obs, meta: json!({"tags": tags, "verdict": verdict, "steps": steps, "old_prefix": if fresh { -1 } else { p as i64 }, "cand_prefix": q}) }
}

// ------------------------------------------------------------------ directed cases (prepare_room_node)
fn directed(ctx: &mut Ctx, out: &mut Out) {
    let d0 = BASE;
    let now = BASE + 60_000;
    let (a, m) = (1u64, 3u64);
    // the stored definition: A is administrator, group 10 with a wildcard right, M is a plain user of it
    let mut base = RM { id: 1, cdate: d0, date: d0, author: a, aedges: vec![], anodes: vec![], gedges: vec![], gnodes: vec![] };
    let mut next = 100;
    add_u(&mut base.anodes, &mut base.aedges, &mut next, 1, L_ADMIN, d0, a, a, true);
    let mut g = AN { id: 10, date: d0, author: a, cdate: d0, redges: vec![], rnodes: vec![], uedges: vec![], unodes: vec![], aedges: vec![], anodes: vec![] };
    add_r(&mut g, &mut next, d0, a, 0, true, false);
    add_u(&mut g.unodes, &mut g.uedges, &mut next, 10, L_USERS, d0, a, m, true);
    base.gedges.push(ED { src: 1, label: L_AUTHS, dest: 10, date: d0, author: a });
    base.gnodes.push(g);
    // an honest later state: A adds user 4, and a new (empty) group 11
    let d1 = d0 + 10_000;
    let mut later = base.clone();
    { let g = &mut later.gnodes[0]; add_u(&mut g.unodes, &mut g.uedges, &mut next, 10, L_USERS, d1, a, 4, true); }
    let mut later_g = later.clone();
    later_g.gnodes.push(AN { id: 11, date: d1, author: a, cdate: d1, redges: vec![], rnodes: vec![], uedges: vec![], unodes: vec![], aedges: vec![], anodes: vec![] });
    later_g.gedges.push(ED { src: 1, label: L_AUTHS, dest: 11, date: d1, author: a });
    later_g.date = d1;
    let probes: Vec<(u64, u64, i64)> = vec![(a, 1, now), (m, 1, now), (m, 1, d0 + 1), (4, 1, now), (5, 0, now), (6, 1, now + 1)];
    let m_user = base.gnodes[0].unodes[0].clone();
    let mut list: Vec<(&str, Option<RM>, RM)> = vec![];
    // K1: the admin-signed entry "M is a user" re-placed into the administrator list, reference signed by M
    let mut c = base.read_order();
    c.aedges.push(ED { src: 1, label: L_ADMIN, dest: m_user.id, date: now, author: m }); c.anodes.push(m_user.clone());
    list.push(("K1_user_entry_into_admin_list", Some(base.clone()), c));
    // K1: the same entry re-placed into the user-admin list of its group, with the admin's own reference (field users)
    let mut c = base.read_order();
    { let g = &mut c.gnodes[0]; let e = g.uedges[0].clone(); g.aedges.push(e); g.anodes.push(m_user.clone()); }
    list.push(("K1_user_entry_into_uadmin_list_old_reference", Some(base.clone()), c));
    // K1: a self-signed row rides on a reference listed twice... refused (author not entitled): control
    let mut c = base.read_order();
    { let e = c.aedges[0].clone(); c.aedges.push(e); c.anodes.push(UN { id: 900, date: now, author: m, key: m, enabled: true, cd: 0 }); }
    list.push(("self_signed_row_without_reference_refused", Some(base.clone()), c));
    // K2: a room never seen before, with a self-signed administrator entry of the relaying member
    let mut c = base.read_order();
    add_u(&mut c.anodes, &mut c.aedges, &mut next, 1, L_ADMIN, now, m, m, true);
    list.push(("K2_self_signed_admin_in_unseen_room", None, c));
    // K3: own user-admin entry, then own user entry, inside a group that is new to the peer
    let mut c = later_g.read_order();
    { let g = c.gnodes.iter_mut().find(|g| g.id == 11).unwrap();
      add_u(&mut g.anodes, &mut g.aedges, &mut next, 11, L_UADMIN, now, m, m, true);
      add_u(&mut g.unodes, &mut g.uedges, &mut next, 11, L_USERS, now, m, 5, true); }
    list.push(("K3_own_uadmin_entry_in_new_group", Some(base.clone()), c));
    // K4: a second row with the id of the administrator's entry, riding on an honest update
    let mut c = later.read_order();
    { let x = c.anodes[0].clone(); c.anodes.push(UN { id: x.id, date: now, author: m, key: m, enabled: true, cd: 0 });
      c.aedges.push(ED { src: 1, label: L_ADMIN, dest: x.id, date: now, author: m }); }
    list.push(("K4_twin_id_of_admin_entry", Some(base.clone()), c));
    // controls
    list.push(("honest_update", Some(base.clone()), later_g.read_order()));
    list.push(("honest_unseen_room", None, later_g.read_order()));
    let mut c = base.read_order();
    add_u(&mut c.anodes, &mut c.aedges, &mut next, 1, L_ADMIN, now, m, m, true);
    list.push(("self_signed_admin_refused", Some(base.clone()), c));
    // ---- creation date vs modification date: the author must be entitled at the date the entry takes effect (mdate)
    // key 2 was administrator from d0 to d0+5000, key 4 user admin of group 10 over the same period
    let mut base2 = base.clone();
    add_u(&mut base2.anodes, &mut base2.aedges, &mut next, 1, L_ADMIN, d0, a, 2, true);
    { let g = &mut base2.gnodes[0]; add_u(&mut g.anodes, &mut g.aedges, &mut next, 10, L_UADMIN, d0, a, 4, true); }
    add_u(&mut base2.anodes, &mut base2.aedges, &mut next, 1, L_ADMIN, d0 + 5000, a, 2, false);
    { let g = &mut base2.gnodes[0]; add_u(&mut g.anodes, &mut g.aedges, &mut next, 10, L_UADMIN, d0 + 5000, a, 4, false); }
    base2.date = d0 + 5000;
    let mut c = base2.read_order();
    c.anodes.push(UN { id: 910, date: now, author: 2, key: m, enabled: true, cd: d0 + 1000 - now });
    c.aedges.push(ED { src: 1, label: L_ADMIN, dest: 910, date: now, author: 2 });
    list.push(("former_admin_signs_admin_entry_created_in_its_validity_refused", Some(base2.clone()), c));
    let mut c = base2.read_order();
    { let g = &mut c.gnodes[0]; g.rnodes.push(RN { id: 911, date: now, author: 2, ent: 1, s: true, a: true, cd: d0 + 1000 - now });
      g.redges.push(ED { src: 10, label: L_RIGHTS, dest: 911, date: now, author: 2 }); }
    list.push(("former_admin_signs_right_created_in_its_validity_refused", Some(base2.clone()), c));
    let mut c = base2.read_order();
    { let g = &mut c.gnodes[0]; g.unodes.push(UN { id: 912, date: now, author: 4, key: 5, enabled: true, cd: d0 + 1000 - now });
      g.uedges.push(ED { src: 10, label: L_USERS, dest: 912, date: now, author: 4 }); }
    list.push(("former_user_admin_signs_user_created_in_its_validity_refused", Some(base2.clone()), c));
    let mut c = base2.read_order();
    add_u(&mut c.anodes, &mut c.aedges, &mut next, 1, L_ADMIN, now, 2, m, true);
    c.anodes.last_mut().unwrap().cd = d0 + 1000 - now;
    list.push(("former_admin_in_unseen_room_created_in_its_validity_refused", None, c));
    let mut c = base2.read_order();
    { let g = &mut c.gnodes[0]; g.unodes.push(UN { id: 913, date: now, author: a, key: 5, enabled: true, cd: d0 - 9000 - now });
      g.uedges.push(ED { src: 10, label: L_USERS, dest: 913, date: now, author: a }); }
    list.push(("admin_signs_user_created_before_its_validity_accepted", Some(base2.clone()), c));
    // ---- a row carrying the id of a row stored in another list, riding on an honest update
    let mut c = later.read_order();
    c.anodes.push(UN { id: m_user.id, date: now, author: m, key: m, enabled: true, cd: 0 });
    c.aedges.push(ED { src: 1, label: L_ADMIN, dest: m_user.id, date: now, author: m });
    list.push(("admin_row_with_id_of_stored_user_row_refused", Some(base.clone()), c));
    let mut c = later.read_order();
    { let aid = c.anodes[0].id; let g = &mut c.gnodes[0];
      g.anodes.push(UN { id: aid, date: now, author: m, key: m, enabled: true, cd: 0 });
      g.aedges.push(ED { src: 10, label: L_UADMIN, dest: aid, date: now, author: m }); }
    list.push(("uadmin_row_with_id_of_stored_admin_row_refused", Some(base.clone()), c));
    let mut c = later.read_order();
    { let g = &mut c.gnodes[0];
      g.rnodes.push(RN { id: 10, date: now, author: m, ent: 0, s: true, a: true, cd: 0 });
      g.redges.push(ED { src: 10, label: L_RIGHTS, dest: 10, date: now, author: m }); }
    list.push(("right_row_with_id_of_its_group_row_refused", Some(base.clone()), c));
    // an outsider signs a user-admin entry for itself that carries the id of the group's right row / of the group row
    for (name, id) in [("outsider_uadmin_row_with_id_of_the_groups_right_row_refused", base.gnodes[0].rnodes[0].id), ("outsider_uadmin_row_with_id_of_the_group_row_refused", 10u64)] {
        let mut c = later.read_order();
        { let g = &mut c.gnodes[0];
          g.anodes.push(UN { id, date: now, author: 6, key: 6, enabled: true, cd: 0 });
          g.aedges.push(ED { src: 10, label: L_UADMIN, dest: id, date: now, author: 6 }); }
        list.push((name, Some(base.clone()), c));
    }
    let mut c = later.read_order();
    c.anodes.push(UN { id: 10, date: now, author: 6, key: 6, enabled: true, cd: 0 });
    c.aedges.push(ED { src: 1, label: L_ADMIN, dest: 10, date: now, author: 6 });
    list.push(("outsider_admin_row_with_id_of_a_group_row_refused", Some(base.clone()), c));
    // ---- a revocation and an entry authored by the revoked key afterwards, both new to the peer, in every order
    // base3: keys 1 and 2 administrators, key 4 user admin of group 10
    let mut base3 = base.clone();
    add_u(&mut base3.anodes, &mut base3.aedges, &mut next, 1, L_ADMIN, d0, a, 2, true);
    { let g = &mut base3.gnodes[0]; add_u(&mut g.anodes, &mut g.aedges, &mut next, 10, L_UADMIN, d0, a, 4, true); }
    let (t1, t2) = (d0 + 20_000, d0 + 30_000);
    let rev = UN { id: 920, date: t1, author: a, key: 2, enabled: false, cd: 0 };
    let rev_e = ED { src: 1, label: L_ADMIN, dest: 920, date: t1, author: a };
    for (tag, later_date) in [("later", t2), ("same_date", t1)] {
        let x = UN { id: 921, date: later_date, author: 2, key: 5, enabled: true, cd: 0 };
        let x_e = ED { src: 1, label: L_ADMIN, dest: 921, date: later_date, author: 2 };
        for first in [true, false] {
            let mut c = base3.read_order();
            if first { c.anodes.insert(0, x.clone()); c.aedges.insert(0, x_e.clone()); c.anodes.push(rev.clone()); c.aedges.push(rev_e.clone()); }
            else { c.anodes.insert(0, rev.clone()); c.aedges.insert(0, rev_e.clone()); c.anodes.push(x.clone()); c.aedges.push(x_e.clone()); }
            let name: &'static str = match (tag, first) {
                ("later", true) => "admin_entry_by_revoked_key_listed_before_the_revocation",
                ("later", false) => "admin_entry_by_revoked_key_listed_after_the_revocation",
                (_, true) => "admin_entry_by_revoked_key_same_date_listed_before_the_revocation",
                _ => "admin_entry_by_revoked_key_same_date_listed_after_the_revocation" };
            list.push((name, Some(base3.clone()), c));
        }
        // a right and a user-admin entry by the revoked administrator (revocation listed last)
        let mut c = base3.read_order();
        { let g = &mut c.gnodes[0];
          g.rnodes.insert(0, RN { id: 922, date: later_date, author: 2, ent: 1, s: true, a: true, cd: 0 }); g.redges.insert(0, ED { src: 10, label: L_RIGHTS, dest: 922, date: later_date, author: 2 });
          g.anodes.insert(0, UN { id: 923, date: later_date, author: 2, key: 5, enabled: true, cd: 0 }); g.aedges.insert(0, ED { src: 10, label: L_UADMIN, dest: 923, date: later_date, author: 2 }); }
        c.anodes.push(rev.clone()); c.aedges.push(rev_e.clone());
        list.push((if tag == "later" { "right_and_uadmin_by_revoked_key_listed_before_the_revocation" } else { "right_and_uadmin_by_revoked_key_same_date_listed_before_the_revocation" }, Some(base3.clone()), c));
        // a user entry by the revoked user admin, listed before its revocation
        let mut c = base3.read_order();
        { let g = &mut c.gnodes[0];
          g.unodes.insert(0, UN { id: 924, date: later_date, author: 4, key: 5, enabled: true, cd: 0 }); g.uedges.insert(0, ED { src: 10, label: L_USERS, dest: 924, date: later_date, author: 4 });
          g.anodes.push(UN { id: 925, date: t1, author: a, key: 4, enabled: false, cd: 0 }); g.aedges.push(ED { src: 10, label: L_UADMIN, dest: 925, date: t1, author: a }); }
        list.push((if tag == "later" { "user_entry_by_revoked_user_admin_listed_before_the_revocation" } else { "user_entry_by_revoked_user_admin_same_date_listed_before_the_revocation" }, Some(base3.clone()), c));
    }
    for (name, old, cand) in list {
        let (obs, sig_ok) = run_prepare(ctx, old.as_ref(), &cand, &probes, true);
        assert!(sig_ok);
        out.push(Case { kind: format!("directed:{}", name),
            coq: format!("CPrep {} {} {}", gopt(&old.as_ref().map(|o| rm_coq(o))), rm_coq(&cand), probes_coq(&probes)),
            meta: json!({"verdict": obs[0], "attacker_is_admin_after": if obs[0] == 1 { obs[obs.len() - 5 * probes.len() + 5 + 2] } else { -1 }}), obs });
    }
}

// ------------------------------------------------------------------ directed cases through real instances
struct Inst { db: GraphDatabaseService, key: u64, rx: tokio::sync::broadcast::Receiver<Event> }
async fn start_inst(ctx: &mut Ctx, dir: &str) -> Inst {
    let path: PathBuf = format!("{}/C07/{}", std::env::var("VERIF_WORK").unwrap_or("/verif/work".into()), dir).into();
    let _ = std::fs::remove_dir_all(&path);
    std::fs::create_dir_all(&path).unwrap();
    let ev = EventService::new();
    let rx = ev.subcribe().await;
    let (db, vk, _) = GraphDatabaseService::start("c07", "ns { E1{ name:String } E2{ name:String } }", &random32(), &random32(), path, &Configuration::default(), ev).await.unwrap();
    let key = ctx.add_instance_key(&vk);
    Inst { db, key, rx }
}
fn strip(n: RoomNode) -> RoomNode { bincode::deserialize(&bincode::serialize(&n).unwrap()).unwrap() }
fn last_room(rx: &mut tokio::sync::broadcast::Receiver<Event>, rid: &[u8; 16]) -> Option<std::sync::Arc<discret::Room>> {
    let mut r = None;
    while let Ok(e) = rx.try_recv() { if let Event::RoomModified(room) = e { if &room.id == rid { r = Some(room); } } }
    r
}
fn asc(ctx: &mut Ctx, n: &RoomNode) -> RM { ctx.rm_of(n) }   // RoomNode::read returns the lists oldest first

async fn e2e(ctx: &mut Ctx, out: &mut Out) {
    verif_clock::set(BASE);
    let a = start_inst(ctx, "e2e_a").await;
    let mut v = start_inst(ctx, "e2e_v").await;
    let m = 3u64;
    let kinds = ["honest_unseen_room", "K2_self_signed_admin_in_unseen_room", "honest_update", "K1_user_entry_into_admin_list",
                 "K1_user_entry_into_uadmin_list_old_reference", "K3_own_uadmin_entry_in_new_group", "K4_twin_id_of_admin_entry", "self_signed_admin_refused",
                 "former_admin_signs_admin_entry_created_in_its_validity_refused",
                 "outsider_uadmin_row_with_id_of_the_groups_right_row_refused"];
    let mut t = BASE + 1000;
    for kind in kinds {
        t += 100_000;
        let (d0, d1, now) = (t, t + 10_000, t + 60_000);
        verif_clock::set(d0);
        let mut p = Parameters::default();
        p.add("a", base64_encode(&ctx.vkey(a.key))).unwrap();
        p.add("m", base64_encode(&ctx.vkey(m))).unwrap();
        let res = a.db.mutate_raw(r#"mutate { sys.Room{ admin:[{verif_key:$a}] authorisations:[{ name:"g" rights:[{entity:"*" mutate_self:true mutate_all:false}] users:[{verif_key:$m}] }] } }"#, Some(p)).await.unwrap();
        let ri = &res.mutate_entities[0];
        let rid = ri.node_to_mutate.id;
        let gid = ri.sub_nodes.get("authorisations").unwrap()[0].node_to_mutate.id;
        let n0 = strip(a.db.get_room_node(rid).await.unwrap().unwrap());
        let fresh = kind == "honest_unseen_room" || kind == "K2_self_signed_admin_in_unseen_room";
        let mut old: Option<RM> = None;
        if !fresh {
            v.db.add_room_node(n0.clone()).await.expect("the victim imports the honest definition");
            for _ in 0..40 { if last_room(&mut v.rx, &rid).is_some() { break; } tokio::time::sleep(std::time::Duration::from_millis(10)).await; }
            old = Some(asc(ctx, &strip(v.db.get_room_node(rid).await.unwrap().unwrap())));
        }
        let rix = ctx.uid_ix(&rid);
        let gix = ctx.uid_ix(&gid);
        let mut cand = n0.clone();
        match kind {
            "K2_self_signed_admin_in_unseen_room" | "self_signed_admin_refused" => {
                let u = UN { id: 800, date: now, author: m, key: m, enabled: true, cd: 0 };
                cand.admin_nodes.push(ctx.user_node(&u));
                cand.admin_edges.push(ctx.edge(&ED { src: rix, label: L_ADMIN, dest: 800, date: now, author: m }, "0.0"));
            }
            "K1_user_entry_into_admin_list" => {
                let u = cand.auth_nodes[0].user_nodes[0].clone();
                let uix = ctx.uid_ix(&u.node.id);
                cand.admin_nodes.push(u);
                cand.admin_edges.push(ctx.edge(&ED { src: rix, label: L_ADMIN, dest: uix, date: now, author: m }, "0.0"));
            }
            "K1_user_entry_into_uadmin_list_old_reference" => {
                let g = &mut cand.auth_nodes[0];
                let (u, e) = (g.user_nodes[0].clone(), g.user_edges[0].clone());
                g.user_admin_nodes.push(u); g.user_admin_edges.push(e);
            }
            "honest_update" | "K4_twin_id_of_admin_entry" | "outsider_uadmin_row_with_id_of_the_groups_right_row_refused" => {
                verif_clock::set(d1);
                let mut p = Parameters::default();
                p.add("room", base64_encode(&rid)).unwrap(); p.add("g", base64_encode(&gid)).unwrap();
                p.add("k", base64_encode(&ctx.vkey(4))).unwrap();
                a.db.mutate_raw(r#"mutate { sys.Room{ id:$room authorisations:[{ id:$g users:[{verif_key:$k}] }] } }"#, Some(p)).await.unwrap();
                cand = strip(a.db.get_room_node(rid).await.unwrap().unwrap());
                if kind == "outsider_uadmin_row_with_id_of_the_groups_right_row_refused" {
                    // relayed together with the honest new user entry the victim has not seen yet
                    let g = &mut cand.auth_nodes[0];
                    let xix = ctx.uid_ix(&g.right_nodes[0].node.id);
                    let gix2 = ctx.uid_ix(&g.node.id);
                    g.user_admin_nodes.push(ctx.user_node(&UN { id: xix, date: now, author: 6, key: 6, enabled: true, cd: 0 }));
                    g.user_admin_edges.push(ctx.edge(&ED { src: gix2, label: L_UADMIN, dest: xix, date: now, author: 6 }, "0.1"));
                }
                if kind == "K4_twin_id_of_admin_entry" {
                    let xix = ctx.uid_ix(&cand.admin_nodes[0].node.id);
                    cand.admin_nodes.push(ctx.user_node(&UN { id: xix, date: now, author: m, key: m, enabled: true, cd: 0 }));
                    cand.admin_edges.push(ctx.edge(&ED { src: rix, label: L_ADMIN, dest: xix, date: now, author: m }, "0.0"));
                }
            }
            "former_admin_signs_admin_entry_created_in_its_validity_refused" => {
                // A makes key 2 administrator, later disables it; key 2 then signs "M is administrator" with a creation
                // date inside its past validity and a modification date (the date the entry takes effect) now
                verif_clock::set(d0 + 2000);
                let mut p = Parameters::default();
                p.add("room", base64_encode(&rid)).unwrap(); p.add("k", base64_encode(&ctx.vkey(2))).unwrap();
                a.db.mutate_raw(r#"mutate { sys.Room{ id:$room admin:[{verif_key:$k}] } }"#, Some(p)).await.unwrap();
                let n1 = strip(a.db.get_room_node(rid).await.unwrap().unwrap());
                v.db.add_room_node(n1).await.expect("the victim imports the honest update");
                verif_clock::set(d1);
                let mut p = Parameters::default();
                p.add("room", base64_encode(&rid)).unwrap(); p.add("k", base64_encode(&ctx.vkey(2))).unwrap();
                a.db.mutate_raw(r#"mutate { sys.Room{ id:$room admin:[{verif_key:$k enabled:false}] } }"#, Some(p)).await.unwrap();
                cand = strip(a.db.get_room_node(rid).await.unwrap().unwrap());
                v.db.add_room_node(cand.clone()).await.expect("the victim imports the honest update");
                for _ in 0..40 { if last_room(&mut v.rx, &rid).is_some() { break; } tokio::time::sleep(std::time::Duration::from_millis(10)).await; }
                tokio::time::sleep(std::time::Duration::from_millis(30)).await;
                let _ = last_room(&mut v.rx, &rid);
                old = Some(asc(ctx, &strip(v.db.get_room_node(rid).await.unwrap().unwrap())));
                cand.admin_nodes.push(ctx.user_node(&UN { id: 803, date: now, author: 2, key: m, enabled: true, cd: d0 + 3000 - now }));
                cand.admin_edges.push(ctx.edge(&ED { src: rix, label: L_ADMIN, dest: 803, date: now, author: 2 }, "0.0"));
            }
            "K3_own_uadmin_entry_in_new_group" => {
                verif_clock::set(d1);
                let mut p = Parameters::default();
                p.add("room", base64_encode(&rid)).unwrap();
                let r2 = a.db.mutate_raw(r#"mutate { sys.Room{ id:$room authorisations:[{ name:"g2" rights:[{entity:"ns.E1" mutate_self:true mutate_all:true}] }] } }"#, Some(p)).await.unwrap();
                let g2 = r2.mutate_entities[0].sub_nodes.get("authorisations").unwrap()[0].node_to_mutate.id;
                let g2ix = ctx.uid_ix(&g2);
                cand = strip(a.db.get_room_node(rid).await.unwrap().unwrap());
                let g = cand.auth_nodes.iter_mut().find(|g| g.node.id == g2).unwrap();
                g.user_admin_nodes.push(ctx.user_node(&UN { id: 801, date: now, author: m, key: m, enabled: true, cd: 0 }));
                g.user_admin_edges.push(ctx.edge(&ED { src: g2ix, label: L_UADMIN, dest: 801, date: now, author: m }, "0.1"));
                g.user_nodes.push(ctx.user_node(&UN { id: 802, date: now, author: m, key: 5, enabled: true, cd: 0 }));
                g.user_edges.push(ctx.edge(&ED { src: g2ix, label: L_USERS, dest: 802, date: now, author: m }, "0.1"));
            }
            _ => {}
        }
        let _ = gix;
        assert!(SignatureVerificationService::room_check(cand.clone()).is_ok(), "e2e candidate does not pass room_check");
        let probes: Vec<(u64, u64, i64)> = vec![(a.key, 1, now), (m, 1, now), (m, 1, d0 + 1), (m, 2, now + 5), (4, 1, now), (5, 1, now + 1), (5, 0, now), (6, 1, now + 2)];
        let cand_abs = ctx.rm_of(&cand);
        verif_clock::set(now + 1000);
        let obs = match v.db.add_room_node(cand).await {
            Err(e) => vec![err_code(&e)],
            Ok(()) => {
                // the event is forwarded by the event service's own task: give it time to arrive
                let mut room = None;
                for _ in 0..40 { room = last_room(&mut v.rx, &rid); if room.is_some() { break; } tokio::time::sleep(std::time::Duration::from_millis(10)).await; }
                match room {
                    Some(room) => { let mut o = vec![1]; o.extend(decisions(ctx, &room, &probes)); o }
                    None => vec![0],
                }
            }
        };
        out.push(Case { kind: format!("e2e:{}", kind),
            coq: format!("CE2E {} {} {}", gopt(&old.as_ref().map(|o| rm_coq(o))), rm_coq(&cand_abs), probes_coq(&probes)),
            meta: json!({"verdict": obs[0], "attacker_is_admin_after": if obs[0] == 1 { obs[1 + 5 + 2] } else { -1 }}), obs });
    }
    verif_clock::clear();
    drop(a); drop(v);
    tokio::time::sleep(std::time::Duration::from_millis(200)).await;
    let w = std::env::var("VERIF_WORK").unwrap_or("/verif/work".into());
    let _ = std::fs::remove_dir_all(format!("{}/C07/e2e_a", w));
    let _ = std::fs::remove_dir_all(format!("{}/C07/e2e_v", w));
}


// ------------------------------------------------------------------ tampered rows: content that is not the signed one
fn nodes_mut(n: &mut RoomNode) -> Vec<&mut Node> {
    let mut v: Vec<&mut Node> = vec![&mut n.node];
    for u in n.admin_nodes.iter_mut() { v.push(&mut u.node); }
    for g in n.auth_nodes.iter_mut() {
        v.push(&mut g.node);
        for x in g.right_nodes.iter_mut() { v.push(&mut x.node); }
        for x in g.user_nodes.iter_mut() { v.push(&mut x.node); }
        for x in g.user_admin_nodes.iter_mut() { v.push(&mut x.node); }
    }
    v
}
fn edges_mut(n: &mut RoomNode) -> Vec<&mut Edge> {
    let mut v: Vec<&mut Edge> = vec![];
    for e in n.admin_edges.iter_mut() { v.push(e); }
    for e in n.auth_edges.iter_mut() { v.push(e); }
    for g in n.auth_nodes.iter_mut() {
        for e in g.right_edges.iter_mut() { v.push(e); }
        for e in g.user_edges.iter_mut() { v.push(e); }
        for e in g.user_admin_edges.iter_mut() { v.push(e); }
    }
    v
}
/// an honest definition is verified first (by the verification service and by room_check); then every copy in which
/// one field of one row / reference is changed while key and signature are kept, and rows with other content under a
/// key and signature copied from a genuine row, go through the same verification: refused, each time
async fn forged(ctx: &mut Ctx, out: &mut Out) {
    let d0 = BASE;
    let mut next = 100;
    let mut r = RM { id: 1, cdate: d0, date: d0, author: 1, aedges: vec![], anodes: vec![], gedges: vec![], gnodes: vec![] };
    add_u(&mut r.anodes, &mut r.aedges, &mut next, 1, L_ADMIN, d0, 1, 1, true);
    let mut g = AN { id: 10, date: d0, author: 1, cdate: d0, redges: vec![], rnodes: vec![], uedges: vec![], unodes: vec![], aedges: vec![], anodes: vec![] };
    add_r(&mut g, &mut next, d0, 1, 0, true, false);
    add_u(&mut g.unodes, &mut g.uedges, &mut next, 10, L_USERS, d0, 1, 3, true);
    add_u(&mut g.anodes, &mut g.aedges, &mut next, 10, L_UADMIN, d0, 1, 2, true);
    r.gedges.push(ED { src: 1, label: L_AUTHS, dest: 10, date: d0, author: 1 });
    r.gnodes.push(g);
    let honest = ctx.room_node(&r);
    let svc = SignatureVerificationService::start(2);
    svc.verify_room_node(honest.clone()).await.expect("the honest definition verifies");
    SignatureVerificationService::room_check(honest.clone()).expect("the honest definition verifies");
    let coq = rm_coq(&r);
    let other_key = ctx.vkey(3);
    let m_json = format!("{{\"32\":\"{}\",\"33\":true}}", base64_encode(&ctx.vkey(5)));   // key 5 has no row in the honest definition
    let nn = nodes_mut(&mut honest.clone()).len();
    let ne = edges_mut(&mut honest.clone()).len();
    let mut k = 0u64;
    let mut push = |out: &mut Out, name: String, c: RoomNode, k: &mut u64, svc: &SignatureVerificationService| {
        let by_check = SignatureVerificationService::room_check(c.clone()).is_ok();
        (name, c, by_check, *k, svc.clone())
    };
    let mut todo = vec![];
    for i in 0..nn { for f in 0..8 {
        let mut c = honest.clone();
        { let mut v = nodes_mut(&mut c); let n = &mut v[i];
          match f {
            0 => n.id[15] ^= 1,
            1 => n.room_id = Some(uid_of(77)),
            2 => n.cdate += 1,
            3 => n.mdate += 1,
            4 => n._entity.push('x'),
            5 => n._json = Some(if n._entity == "0.2" { m_json.clone() } else { "{\"32\":\"zz\"}".to_string() }),
            6 => n._binary = Some(vec![1]),
            _ => n.verifying_key = other_key.clone(),
          } }
        todo.push(push(out, format!("row_{}_field_{}", i, ["id", "room_id", "cdate", "mdate", "entity", "json", "binary", "verifying_key"][f]), c, &mut k, &svc));
        k += 1;
    } }
    for i in 0..ne { for f in 0..6 {
        let mut c = honest.clone();
        { let mut v = edges_mut(&mut c); let e = &mut v[i];
          match f {
            0 => e.src[15] ^= 1,
            1 => e.src_entity = "0.9".to_string(),
            2 => e.label = "36".to_string(),
            3 => e.dest[15] ^= 1,
            4 => e.cdate += 1,
            _ => e.verifying_key = other_key.clone(),
          } }
        todo.push(push(out, format!("reference_{}_field_{}", i, ["src", "src_entity", "label", "dest", "cdate", "verifying_key"][f]), c, &mut k, &svc));
        k += 1;
    } }
    // other content under a key and signature copied from a genuine row: "key 3 is administrator", attributed to key 1
    {
        let mut c = honest.clone();
        let mut fake = c.admin_nodes[0].clone();
        fake.node.id = uid_of(950); fake.node._json = Some(m_json.clone()); fake.node.mdate += 5000; fake.node.cdate += 5000;
        let mut fe = c.admin_edges[0].clone();
        fe.dest = uid_of(950); fe.cdate += 5000;
        c.admin_nodes.push(fake); c.admin_edges.push(fe);
        todo.push(push(out, "new_admin_row_and_reference_under_copied_key_and_signature".to_string(), c, &mut k, &svc));
        k += 1;
        let mut c = honest.clone();
        let g = &mut c.auth_nodes[0];
        let mut fake = g.right_nodes[0].clone();
        fake.node.id = uid_of(951); fake.node._json = Some("{\"32\":\"*\",\"33\":true,\"34\":true}".to_string()); fake.node.mdate += 5000; fake.node.cdate += 5000;
        let mut fe = g.right_edges[0].clone();
        fe.dest = uid_of(951); fe.cdate += 5000;
        g.right_nodes.push(fake); g.right_edges.push(fe);
        todo.push(push(out, "new_right_row_and_reference_under_copied_key_and_signature".to_string(), c, &mut k, &svc));
    }
    for (name, c, by_check, k, svc) in todo {
        let by_service = svc.verify_room_node(c).await.is_ok();
        let obs = vec![if by_check || by_service { 201 } else { 200 }];
        out.push(Case { kind: "forged".into(), coq: format!("CForged {} {}", coq, gn(k)),
            meta: json!({"tampered": name, "accepted_by_room_check": by_check, "accepted_by_verification_service": by_service}), obs });
    }
}

#[tokio::main(flavor = "multi_thread")]
async fn main() {
    let mut out = Out::create();
    let mut rng = Rng::from_env();
    let mut ctx = Ctx::new();
    let mut stats: HashMap<String, u64> = HashMap::new();
    directed(&mut ctx, &mut out);
    e2e(&mut ctx, &mut out).await;
    forged(&mut ctx, &mut out).await;
    let n = scale(600, 6000);
    for _ in 0..n {
        let mut r = rng.fork();
        let c = case_random(&mut r, &mut ctx, &mut stats);
        out.push(c);
    }
    let mut s: Vec<_> = stats.into_iter().collect();
    s.sort();
    eprintln!("c07 distribution: {:?}", s);
    out.finish();
}
