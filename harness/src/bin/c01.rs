//! C01 correspondence: room decisions (level A), validate_entity_mutation (level B),
//! validate_deletion (level B) of the real code vs the Gallina model.
use discret::verif_hooks::database::authorisation_service::RoomAuthorisations;
use discret::verif_hooks::database::deletion::{DeletionQuery, EdgeDelete, NodeDelete};
use discret::verif_hooks::database::edge::Edge;
use discret::verif_hooks::database::mutation_query::{InsertEntity, NodeToMutate};
use discret::verif_hooks::database::node::Node;
use discret::verif_hooks::database::room::{Authorisation, EntityRight, RightType, Room, User};
use discret::verif_hooks::database::Error as DbError;
use discret::verif_hooks::security::{Ed25519SigningKey, SigningKey};
use serde_json::json;
use std::collections::HashMap;
use vharness::common::*;

const BASE: i64 = 1_700_000_000_000;

#[derive(Clone, Debug)]
enum Ev { Group(u64), Admin(u64, i64, bool), User(u64, u64, i64, bool), UAdmin(u64, u64, i64, bool), Right(u64, u64, i64, bool, bool) }
impl Ev {
    fn coq(&self) -> String {
        match self {
            Ev::Group(g) => format!("EvGroup {}", gn(*g)),
            Ev::Admin(k, d, b) => format!("EvAdmin {} {} {}", gn(*k), gz(*d), gb(*b)),
            Ev::User(g, k, d, b) => format!("EvUser {} {} {} {}", gn(*g), gn(*k), gz(*d), gb(*b)),
            Ev::UAdmin(g, k, d, b) => format!("EvUAdmin {} {} {} {}", gn(*g), gn(*k), gz(*d), gb(*b)),
            Ev::Right(g, e, d, s, a) => format!("EvRight {} {} {} {} {}", gn(*g), gn(*e), gz(*d), gb(*s), gb(*a)),
        }
    }
}
fn evs_coq(evs: &[Ev]) -> String { glist(&evs.iter().map(|e| e.coq()).collect::<Vec<_>>()) }

struct Keys { me: Vec<u8> }
impl Keys {
    fn bytes(&self, k: u64) -> Vec<u8> { if k == 1 { self.me.clone() } else { vec![9, k as u8, 7, 7] } }
}

fn gen_date(rng: &mut Rng) -> i64 {
    match rng.below(10) {
        0..=5 => BASE + rng.range(0, 12) * 1000,
        6..=7 => BASE + rng.range(-2, 3) * DAY + rng.range(0, 3) * 1000,
        8 => BASE + rng.range(0, 12) * 1000 + rng.range(-1, 1),
        _ => BASE - rng.range(0, 400) * DAY,
    }
}

fn gen_events(rng: &mut Rng, n: usize, mostly_sorted: bool) -> Vec<Ev> {
    let mut evs = vec![];
    let ngroups = 1 + rng.below(3);
    for g in 1..=ngroups { evs.push(Ev::Group(g)); }
    let mut clock = BASE - 5 * DAY;
    for _ in 0..n {
        let d = if mostly_sorted && !rng.chance(1, 8) { clock += rng.range(0, 3) * 1000 * rng.range(0, 2) + rng.range(0, 1) * DAY; clock } else { gen_date(rng) };
        let extra = if rng.chance(1, 15) { 1 } else { 0 };
        let g = 1 + rng.below(ngroups + extra);
        let k = 1 + rng.below(4);
        let b = !rng.chance(1, 3);
        evs.push(match rng.below(12) {
            0..=1 => Ev::Admin(k, d, b),
            2..=5 => Ev::User(g, k, d, b),
            6..=7 => Ev::UAdmin(g, k, d, b),
            8 => Ev::Group(g),
            _ => Ev::Right(g, rng.below(4), d, rng.chance(1, 2), rng.chance(1, 3)),
        });
    }
    evs
}

/// applies the events with the real add_* functions; returns which were accepted
fn build_room(id: u64, evs: &[Ev], keys: &Keys) -> (Room, Vec<bool>) {
    let mut room = Room { id: uid_of(id), ..Default::default() };
    let mut oks = vec![];
    for ev in evs {
        let ok = match ev {
            Ev::Group(g) => room.add_auth(Authorisation { id: uid_of(*g), ..Default::default() }).is_ok(),
            Ev::Admin(k, d, b) => room.add_admin_user(User { verifying_key: keys.bytes(*k), date: *d, enabled: *b }).is_ok(),
            Ev::User(g, k, d, b) => match room.get_auth_mut(&uid_of(*g)) {
                Some(a) => a.add_user(User { verifying_key: keys.bytes(*k), date: *d, enabled: *b }).is_ok(),
                None => false,
            },
            Ev::UAdmin(g, k, d, b) => match room.get_auth_mut(&uid_of(*g)) {
                Some(a) => a.add_user_admin(User { verifying_key: keys.bytes(*k), date: *d, enabled: *b }).is_ok(),
                None => false,
            },
            Ev::Right(g, e, d, s, a) => match room.get_auth_mut(&uid_of(*g)) {
                Some(au) => au.add_right(EntityRight::new(*d, ent_name(*e), *s, *a)).is_ok(),
                None => false,
            },
        };
        oks.push(ok);
    }
    (room, oks)
}

fn ev_dates(evs: &[Ev]) -> Vec<i64> {
    evs.iter().filter_map(|e| match e { Ev::Group(_) => None, Ev::Admin(_, d, _) | Ev::User(_, _, d, _) | Ev::UAdmin(_, _, d, _) | Ev::Right(_, _, d, _, _) => Some(*d) }).collect()
}

fn case_matrix(rng: &mut Rng, keys: &Keys) -> Case {
    let n = rng.below(14) as usize;
    let sorted = rng.chance(3, 4);
    let evs = gen_events(rng, n, sorted);
    let (room, oks) = build_room(1, &evs, keys);
    let mut dates = ev_dates(&evs);
    dates.push(BASE);
    let mut probes = vec![];
    for _ in 0..(6 + rng.below(10)) {
        let d = *rng.pick(&dates) + rng.range(-1, 1) + if rng.chance(1, 10) { rng.range(-3, 3) * DAY } else { 0 };
        probes.push((1 + rng.below(5), rng.below(5), d));
    }
    let mut obs: Vec<i64> = oks.iter().map(|b| *b as i64).collect();
    for (k, e, d) in &probes {
        let kb = keys.bytes(*k);
        let en = ent_name(*e);
        obs.push(room.can(&kb, &en, *d, &RightType::MutateSelf) as i64);
        obs.push(room.can(&kb, &en, *d, &RightType::MutateAll) as i64);
        obs.push(room.is_admin(&kb, *d) as i64);
        obs.push(room.is_user_valid_at(&kb, *d) as i64);
        obs.push(room.has_user(&kb) as i64);
        obs.push(room.authorisations.values().any(|a| a.can_admin_users(&kb, *d)) as i64);
    }
    let pc: Vec<String> = probes.iter().map(|(k, e, d)| format!("({}, {}, {})", gn(*k), gn(*e), gz(*d))).collect();
    Case { kind: "matrix".into(), coq: format!("CMatrix {} {}", evs_coq(&evs), glist(&pc)), obs,
           meta: json!({"events": evs.len(), "accepted": oks.iter().filter(|b| **b).count(), "probes": probes.len()}) }
}

// ---- mutation trees ----
#[derive(Clone, Debug)]
struct Head { auth_like: bool, ent: u64, room: Option<u64>, date: i64, has_node: bool, too_big: bool, old: Option<(Option<u64>, u64)>, edge_dels: Vec<u64> }
#[derive(Clone, Debug)]
struct Tree { h: Head, subs: Vec<Tree> }

fn gen_head(rng: &mut Rng, nrooms: u64, dates: &[i64]) -> Head {
    let room = match rng.below(20) { 0 => None, 1 => Some(9), _ => Some(1 + rng.below(nrooms)) };
    let old = if rng.chance(1, 2) {
        // create_node_to_mutate: a row that is in a room keeps a room (new room = given or old one)
        let oroom = if room.is_none() { None } else { match rng.below(6) { 0 => None, 1..=2 => room, _ => Some(1 + rng.below(nrooms)) } };
        Some((oroom, 1 + rng.below(3)))
    } else { None };
    Head { auth_like: rng.chance(1, 40), ent: 1 + rng.below(3), room, date: *rng.pick(dates) + rng.range(-1, 1),
           has_node: !rng.chance(1, 6), too_big: rng.chance(1, 40), old, edge_dels: (0..[0, 0, 0, 1, 1, 2][rng.below(6) as usize]).map(|_| 1 + rng.below(3)).collect() }
}
fn gen_tree(rng: &mut Rng, depth: u32, nrooms: u64, dates: &[i64]) -> Tree {
    let h = gen_head(rng, nrooms, dates);
    let nsubs = if depth == 0 { 0 } else { [0, 0, 1, 1, 2][rng.below(5) as usize] };
    Tree { h, subs: (0..nsubs).map(|_| gen_tree(rng, depth - 1, nrooms, dates)).collect() }
}
fn head_coq(h: &Head) -> String {
    let old = h.old.map(|(r, a)| format!("{{| o_room := {}; o_author := {} |}}", gon(r), gn(a)));
    format!("{{| h_kind := {}; h_ent := {}; h_room := {}; h_date := {}; h_has_node := {}; h_too_big := {}; h_old := {}; h_edge_dels := {} |}}",
        if h.auth_like { "KAuthLike" } else { "KNormal" }, gn(h.ent), gon(h.room), gz(h.date), gb(h.has_node), gb(h.too_big), gopt(&old), glist(&h.edge_dels.iter().map(|a| gn(*a)).collect::<Vec<_>>()))
}
fn tree_coq(t: &Tree) -> String {
    format!("(MEnt {} {})", head_coq(&t.h), glist(&t.subs.iter().map(tree_coq).collect::<Vec<_>>()))
}
fn tree_size(t: &Tree) -> usize { 1 + t.subs.iter().map(tree_size).sum::<usize>() }

fn to_insert_entity(t: &Tree, me: &[u8], keys: &Keys) -> InsertEntity {
    let h = &t.h;
    let entity = if h.auth_like { "sys.UserAuth".to_string() } else { ent_name(h.ent) };
    let id = discret::verif_hooks::security::new_uid();
    let room_id = h.room.map(uid_of);
    let json = if h.too_big { format!("{{\"32\":\"{}\"}}", "x".repeat(4000)) } else { "{\"32\":\"v\"}".to_string() };
    let node = if h.has_node {
        Some(Node { id, room_id, cdate: h.date, mdate: h.date, _entity: "9".into(), _json: Some(json), verifying_key: me.to_vec(), ..Default::default() })
    } else { None };
    let old_node = h.old.map(|(r, a)| Node { id, room_id: r.map(uid_of), cdate: h.date - 5, mdate: h.date - 5, _entity: "9".into(),
        _json: Some("{}".into()), verifying_key: keys.bytes(a), ..Default::default() });
    let mut sub_nodes = HashMap::new();
    if !t.subs.is_empty() {
        sub_nodes.insert("sub".to_string(), t.subs.iter().map(|s| to_insert_entity(s, me, keys)).collect::<Vec<_>>());
    }
    InsertEntity {
        name: entity.clone(),
        node_to_mutate: NodeToMutate { id, date: h.date, entity, room_id, node, old_node, ..Default::default() },
        edge_deletions: h.edge_dels.iter().map(|a| Edge { src: id, src_entity: "9".into(), label: "33".into(), dest: uid_of(500), cdate: h.date, verifying_key: keys.bytes(*a), ..Default::default() }).collect(),
        sub_nodes,
        ..Default::default()
    }
}

fn verdict(e: &DbError) -> i64 {
    match e {
        DbError::AuthorisationRejected(_, _) => 1,
        DbError::UnknownRoom(_) => 2,
        DbError::NodeTooBig(_, _) => 3,
        DbError::InvalidAuthorisationMutation(_) => 4,
        DbError::DeleteNotAllowed() => 5,
        _ => 99,
    }
}

fn gen_defs(rng: &mut Rng, keys: &Keys, me: u64) -> (Vec<(u64, Vec<Ev>)>, HashMap<[u8; 16], Room>, Vec<i64>, u64) {
    let nrooms = 2 + rng.below(2);
    let mut defs = vec![];
    let mut rooms = HashMap::new();
    let mut dates = vec![BASE];
    for rid in 1..=nrooms {
        let n = 2 + rng.below(9) as usize;
        let mut evs = gen_events(rng, n, true);
        // mostly-valid scenarios: in most rooms the caller is an early member of a group with
        // an early wildcard right (own rows, sometimes all rows); later entries may revoke it
        if rng.chance(3, 4) {
            let d0 = BASE - 30 * DAY;
            let all = rng.chance(1, 2);
            let mut pre = vec![Ev::Group(1), Ev::User(1, me, d0, true), Ev::Right(1, 0, d0, true, all)];
            evs.retain(|e| !matches!(e, Ev::Group(1)));
            pre.append(&mut evs);
            evs = pre;
        }
        let (room, _) = build_room(rid, &evs, keys);
        dates.extend(ev_dates(&evs).into_iter().filter(|d| *d > BASE - 29 * DAY));
        rooms.insert(room.id, room);
        defs.push((rid, evs));
    }
    (defs, rooms, dates, nrooms)
}
fn defs_coq(defs: &[(u64, Vec<Ev>)]) -> String {
    glist(&defs.iter().map(|(r, e)| format!("({}, {})", gn(*r), evs_coq(e))).collect::<Vec<_>>())
}

fn case_mut(rng: &mut Rng, keys: &Keys, sk: &Ed25519SigningKey) -> Case {
    let me = 1 + rng.below(3);
    let (defs, rooms, dates, nrooms) = gen_defs(rng, keys, me);
    let meb = keys.bytes(me);
    let ntrees = 1 + rng.below(2) as usize;
    let trees: Vec<Tree> = (0..ntrees).map(|_| gen_tree(rng, 2, nrooms, &dates)).collect();
    let ra = RoomAuthorisations { signing_key: Ed25519SigningKey::create_from(&[7u8; 32]), rooms, max_node_size: 2000 };
    let _ = sk;
    let mut v = 0;
    let now = *rng.pick(&dates) + rng.range(-1, 1);
    discret::verif_hooks::date_utils::verif_clock::set(now);
    for t in &trees {
        let mut ie = to_insert_entity(t, &meb, keys);
        if let Err(e) = ra.validate_entity_mutation(&mut ie, &meb) { v = verdict(&e); break; }
    }
    discret::verif_hooks::date_utils::verif_clock::clear();
    let nodes: usize = trees.iter().map(tree_size).sum();
    Case { kind: "mutation".into(),
           coq: format!("CMut {} {} {} {}", defs_coq(&defs), gn(me), gz(now), glist(&trees.iter().map(tree_coq).collect::<Vec<_>>())),
           obs: vec![v], meta: json!({"nodes": nodes, "verdict": v, "rooms": nrooms}) }
}

fn case_del(rng: &mut Rng, keys: &Keys) -> Case {
    let (defs, rooms, dates, nrooms) = gen_defs(rng, keys, 1);
    let now = *rng.pick(&dates) + rng.range(0, 2) * 1000;
    let ra = RoomAuthorisations { signing_key: Ed25519SigningKey::create_from(&[7u8; 32]), rooms, max_node_size: 2000 };
    let mut dq = DeletionQuery { nodes: vec![], node_log: vec![], updated_nodes: vec![], updated_nodes_previous: vec![], edges: vec![], edge_log: vec![] };
    let mut ns = vec![];
    let mut es = vec![];
    for _ in 0..rng.below(3) {
        let auth_like = rng.chance(1, 20);
        let ent = 1 + rng.below(3);
        let room = match rng.below(10) { 0 => None, 1 => Some(9), _ => Some(1 + rng.below(nrooms)) };
        let author = 1 + rng.below(3);
        let date = *rng.pick(&dates) + rng.range(-1, 1);
        let name = if auth_like { "sys.EntityRight".to_string() } else { ent_name(ent) };
        dq.nodes.push(NodeDelete { node: Node { room_id: room.map(uid_of), verifying_key: keys.bytes(author), _entity: "9".into(), mdate: date, ..Default::default() }, name, date });
        ns.push(format!("{{| dn_kind := {}; dn_ent := {}; dn_room := {}; dn_author := {}; dn_date := {} |}}",
            if auth_like { "KAuthLike" } else { "KNormal" }, gn(ent), gon(room), gn(author), gz(date)));
    }
    for _ in 0..rng.below(3) {
        let auth_like = rng.chance(1, 20);
        let ent = 1 + rng.below(3);
        let room = match rng.below(10) { 0 => None, 1 => Some(9), _ => Some(1 + rng.below(nrooms)) };
        let author = 1 + rng.below(3);
        let date = *rng.pick(&dates) + rng.range(-1, 1);
        // the system check reads edge.src_entity, the right check reads src_name
        let src_entity = if auth_like { "sys.UserAuth".to_string() } else { "9".to_string() };
        dq.edges.push(EdgeDelete { edge: Edge { src_entity, label: "33".into(), verifying_key: keys.bytes(author), cdate: date, ..Default::default() },
            src_name: ent_name(ent), room_id: room.map(uid_of), date });
        es.push(format!("{{| de_kind := {}; de_ent := {}; de_room := {}; de_author := {}; de_date := {} |}}",
            if auth_like { "KAuthLike" } else { "KNormal" }, gn(ent), gon(room), gn(author), gz(date)));
    }
    // source rows of reference deletions (DeletionQuery.updated_nodes): checked like an update at `now`
    let mut us = vec![];
    for _ in 0..rng.below(3) {
        let auth_like = rng.chance(1, 20);
        let ent = 1 + rng.below(3);
        let room = match rng.below(10) { 0 => None, 1 => Some(9), _ => Some(1 + rng.below(nrooms)) };
        let author = 1 + rng.below(3);
        let name = if auth_like { "sys.Room".to_string() } else { ent_name(ent) };
        dq.updated_nodes.push(NodeDelete { node: Node { room_id: room.map(uid_of), verifying_key: keys.bytes(author), _entity: "9".into(), mdate: now, ..Default::default() }, name, date: now });
        us.push(format!("{{| dn_kind := {}; dn_ent := {}; dn_room := {}; dn_author := {}; dn_date := {} |}}",
            if auth_like { "KAuthLike" } else { "KNormal" }, gn(ent), gon(room), gn(author), gz(now)));
    }
    discret::verif_hooks::date_utils::verif_clock::set(now);
    let v = match ra.validate_deletion(&mut dq) { Ok(_) => 0, Err(e) => verdict(&e) };
    discret::verif_hooks::date_utils::verif_clock::clear();
    Case { kind: "deletion".into(), coq: format!("CDel {} {} {} {} {} {}", defs_coq(&defs), gn(1), gz(now), glist(&ns), glist(&es), glist(&us)),
           obs: vec![v], meta: json!({"nodes": ns.len(), "edges": es.len(), "updated": us.len(), "verdict": v}) }
}

fn main() {
    let mut out = Out::create();
    let mut rng = Rng::from_env();
    let sk = Ed25519SigningKey::create_from(&[7u8; 32]);
    let keys = Keys { me: sk.export_verifying_key() };
    let n = scale(1200, 12000);
    for i in 0..n {
        let mut r = rng.fork();
        let c = match i % 4 { 0 => case_matrix(&mut r, &keys), 1 | 2 => case_mut(&mut r, &keys, &sk), _ => case_del(&mut r, &keys) };
        out.push(c);
    }
    out.finish();
}
