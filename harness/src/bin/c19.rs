//! C19 correspondence: the real LocalPeerService::initialise_connection against a remote end played
//! by the harness over channels (honest answer, wrong key, replayed answer, valid key of another
//! peer, malformed peer row, no answer / error / garbage / timeout / late answer), the real
//! PeerManager (over a stub DiscretEndpoint: no socket) for create_invite / accept_invite /
//! get_token_type / invite_accepted, and the real MeetingSecret tokens — each compared with
//! coq/model/Handshake.v and judged by the property's oracle in Coq.
use discret::verif_hooks::configuration::Configuration;
use discret::verif_hooks::database::graph_database::GraphDatabaseService;
use discret::verif_hooks::database::node::Node;
use discret::verif_hooks::database::system_entities::{AllowedPeer, Invite, OwnedInvite, Peer};
use discret::verif_hooks::discret_mod::{DiscretParams, DiscretServices};
use discret::verif_hooks::event_service::EventService;
use discret::verif_hooks::network::endpoint::DiscretEndpoint;
use discret::verif_hooks::network::peer_manager::{PeerManager, TokenType};
use discret::verif_hooks::network::ConnectionInfo;
use discret::verif_hooks::peer_connection_service::{PeerConnectionMessage, PeerConnectionService};
use discret::verif_hooks::security::{base64_decode, base64_encode, Ed25519SigningKey, HardwareFingerprint, MeetingSecret, SigningKey};
use discret::verif_hooks::signature_verification_service::SignatureVerificationService;
use discret::verif_hooks::synchronisation::peer_inbound_service::{LocalPeerService, QueryService};
use discret::verif_hooks::synchronisation::{Answer, IdentityAnswer, Query, QueryProtocol, RemoteEvent};
use serde_json::json;
use std::collections::BTreeMap;
use std::path::PathBuf;
use std::sync::atomic::{AtomicBool, Ordering};
use std::sync::Arc;
use tokio::sync::mpsc;
use vharness::common::*;

const APP: &str = "c19app";

// ---------------------------------------------------------------- identities of the scenario
struct Ident { sk: Ed25519SigningKey, key: Vec<u8>, secret: [u8; 32], pubkey: Vec<u8>, uid: [u8; 16] }
fn ident(n: u64, salt: u64) -> Ident {
    let mut seed = [0u8; 32];
    seed[0..8].copy_from_slice(&n.to_le_bytes()); seed[8..16].copy_from_slice(&salt.to_le_bytes()); seed[16] = 0x19;
    let sk = Ed25519SigningKey::create_from(&seed);
    let mut secret = seed; secret[17] = 0x77; secret[0] = 0x40; secret[1] = n as u8;   // differ in bits the x25519 clamping keeps
    let ms = MeetingSecret::new(secret);
    let pubkey = bincode::serialize(&ms.public_key()).unwrap();
    Ident { key: sk.export_verifying_key(), sk, secret, pubkey, uid: uid_of(1000 + n) }
}
/// the peer row an identity presents (sys.Peer, signed by itself)
fn peer_row(id: &Ident) -> Node {
    let mut n = Peer::create(id.uid, base64_encode(&id.pubkey));
    n.sign(&id.sk).unwrap();
    n
}

// ---------------------------------------------------------------- handshake
#[derive(Clone, Debug)]
enum Tt { Allowed(u64), Owned(u64), Invite(u64, u64, Option<u64>) }
#[derive(Clone, Debug)]
struct Ans { key: u64, sig_by: Option<u64>, sig_over: u64, room: bool, entity_ok: bool, rowsig_ok: bool, pubkey_ok: bool }
#[derive(Clone, Debug)]
enum Remote { Closed, ErrorAnswer, Garbage, Timeout, Late, Ans(Ans) }

fn tt_coq(t: &Tt) -> String {
    match t { Tt::Allowed(k) => format!("(TAllowed {})", gn(*k)), Tt::Owned(i) => format!("(TOwned {})", gn(*i)),
              Tt::Invite(i, a, s) => format!("(TInvite {} {} {})", gn(*i), gn(*a), gon(*s)) }
}
fn remote_coq(r: &Remote) -> String {
    match r {
        Remote::Ans(a) => format!("(Ans {{| a_key := {}; a_sig_by := {}; a_sig_over := {}; a_room := {}; a_entity_ok := {}; a_rowsig_ok := {}; a_pubkey_ok := {} |}})",
                                  gn(a.key), gon(a.sig_by), gn(a.sig_over), gb(a.room), gb(a.entity_ok), gb(a.rowsig_ok), gb(a.pubkey_ok)),
        _ => "NoAnswer".to_string(),
    }
}
fn app_name(a: u64) -> String { if a == 1 { APP.to_string() } else { format!("otherapp{}", a) } }
fn invite_uid(i: u64) -> [u8; 16] { uid_of(5000 + i) }

fn make_invite(ids: &BTreeMap<u64, Ident>, i: u64, app: u64, signer: Option<u64>) -> Invite { make_invite_uid(ids, invite_uid(i), app, signer) }
fn make_invite_uid(ids: &BTreeMap<u64, Ident>, uid: [u8; 16], app: u64, signer: Option<u64>) -> Invite {
    let mut inv = Invite { invite_id: uid, application: app_name(app), invite_sign: vec![] };
    inv.invite_sign = match signer { Some(s) => ids[&s].sk.sign(&inv.hash()), None => vec![7u8; 64] };
    inv
}
fn token_type(ids: &BTreeMap<u64, Ident>, t: &Tt) -> TokenType {
    match t {
        Tt::Allowed(k) => TokenType::AllowedPeer(AllowedPeer { peer: Peer { id: base64_encode(&ids[k].uid), verifying_key: base64_encode(&ids[k].key) }, meeting_token: base64_encode(&[1u8; 7]) }),
        Tt::Owned(i) => TokenType::OwnedInvite(OwnedInvite { id: invite_uid(*i), room: None, authorisation: None }),
        Tt::Invite(i, a, s) => TokenType::Invite(make_invite(ids, *i, *a, *s)),
    }
}
fn answer_bytes(ids: &BTreeMap<u64, Ident>, a: &Ans, challenge: &[u8], old_challenge: &[u8]) -> Vec<u8> {
    let id = &ids[&a.key];
    let mut node = Peer::create(id.uid, base64_encode(&id.pubkey));
    if !a.pubkey_ok { node._json = Some("{\"33\":\"\"}".to_string()); }
    if a.room { node.room_id = Some(uid_of(77)); }
    if !a.entity_ok { node._entity = "0.5".to_string(); }
    node.sign(&id.sk).unwrap();
    if !a.rowsig_ok { node.mdate += 1; }
    let signed: Vec<u8> = if a.sig_over == 0 { challenge.to_vec() } else { old_challenge.to_vec() };
    let sig = match a.sig_by { Some(s) => ids[&s].sk.sign(&signed), None => vec![9u8; 64] };
    bincode::serialize(&IdentityAnswer { peer: node, chall_signature: sig }).unwrap()
}

async fn run_handshake(ids: Arc<BTreeMap<u64, Ident>>, local: u64, t: Tt, r: Remote, events_ok: bool) -> Vec<i64> {
    let (q_tx, mut q_rx) = mpsc::channel::<QueryProtocol>(4);
    let (a_tx, a_rx) = mpsc::channel::<Answer>(4);
    let qs = QueryService::start(q_tx, a_rx);
    let (ps_tx, mut ps_rx) = mpsc::channel::<PeerConnectionMessage>(8);
    let peer_service = PeerConnectionService { sender: ps_tx };
    let (ev_tx, mut ev_rx) = mpsc::channel::<RemoteEvent>(4);
    if !events_ok { ev_rx.close(); }
    let bound = Arc::new(tokio::sync::Mutex::new(Vec::<u8>::new()));
    let ready = Arc::new(AtomicBool::new(true));
    let info = ConnectionInfo { endpoint_id: uid_of(1), remote_id: uid_of(2), conn_id: uid_of(3), meeting_token: [1u8; 7], peer_verifying_key: vec![] };
    // the remote end
    let ids2 = ids.clone();
    let r2 = r.clone();
    let remote_task = tokio::spawn(async move {
        let old_challenge = [0x5au8; 32];     // the challenge of "another connection"
        let mut a_tx = Some(a_tx);
        while let Some(q) = q_rx.recv().await {
            if let Query::ProveIdentity(ch) = q.query {
                match &r2 {
                    Remote::Closed => { a_tx = None; }
                    Remote::ErrorAnswer => { let e = discret::verif_hooks::synchronisation::Error::Authorisation("no".to_string());
                                             let _ = a_tx.as_ref().unwrap().send(Answer { id: q.id, success: false, complete: true, serialized: bincode::serialize(&e).unwrap() }).await; }
                    Remote::Garbage => { let _ = a_tx.as_ref().unwrap().send(Answer { id: q.id, success: true, complete: true, serialized: vec![1, 2, 3] }).await; }
                    Remote::Timeout => {}
                    Remote::Late => { tokio::time::sleep(std::time::Duration::from_millis(10_400)).await;
                                      let a = Ans { key: 2, sig_by: Some(2), sig_over: 0, room: false, entity_ok: true, rowsig_ok: true, pubkey_ok: true };
                                      let _ = a_tx.as_ref().unwrap().send(Answer { id: q.id, success: true, complete: true, serialized: answer_bytes(&ids2, &a, &ch, &old_challenge) }).await; }
                    Remote::Ans(a) => { let _ = a_tx.as_ref().unwrap().send(Answer { id: q.id, success: true, complete: true, serialized: answer_bytes(&ids2, a, &ch, &old_challenge) }).await; }
                }
            }
        }
    });
    let tt = token_type(&ids, &t);
    let res = LocalPeerService::initialise_connection(&info, &ids[&local].key, tt, &ready, &qs, &bound, &peer_service, &ev_tx).await;
    if matches!(r, Remote::Late) { tokio::time::sleep(std::time::Duration::from_millis(800)).await; }
    let idx = |k: &[u8]| -> i64 { ids.iter().find(|(_, v)| v.key == k).map(|(n, _)| *n as i64).unwrap_or(-2) };
    let mut obs = vec![match res { Ok(false) => 0, Ok(true) => 1, Err(_) => 2 }];
    let b = bound.lock().await.clone();
    obs.push(if b.is_empty() { -1 } else { idx(&b) });
    obs.push(ready.load(Ordering::Relaxed) as i64);
    let mut evs = vec![];
    while let Ok(e) = ev_rx.try_recv() { evs.push(match e { RemoteEvent::Ready => 0, RemoteEvent::ReadyFingerprint => 1, _ => 9 }); }
    obs.push(evs.len() as i64); obs.extend(evs);
    while let Ok(m) = ps_rx.try_recv() {
        match m { PeerConnectionMessage::InviteAccepted(_, n) => { obs.push(1); obs.push(idx(&n.verifying_key)); }
                  PeerConnectionMessage::PeerConnected(k, _) => { obs.push(2); obs.push(idx(&k)); }
                  _ => { obs.push(9); obs.push(0); } }
    }
    remote_task.abort();
    obs
}

fn gen_handshake(rng: &mut Rng) -> (u64, Tt, Remote, bool) {
    let nk = 4u64;   // keys 1..4; 1 is the local instance
    let local = 1;
    let t = match rng.below(3) { 0 => Tt::Allowed(1 + rng.below(nk)), 1 => Tt::Owned(1 + rng.below(3)),
                                 _ => Tt::Invite(1 + rng.below(3), 1, if rng.chance(1, 8) { None } else { Some(1 + rng.below(nk)) }) };
    let r = match rng.below(14) {
        0 => Remote::Closed, 1 => Remote::ErrorAnswer, 2 => Remote::Garbage,
        _ => {
            // mostly honest; the expected key most of the time
            let expected = match &t { Tt::Allowed(k) => *k, Tt::Invite(_, _, Some(s)) => *s, _ => 1 + rng.below(nk) };
            let key = if rng.chance(3, 4) { expected } else { 1 + rng.below(nk) };
            let mut a = Ans { key, sig_by: Some(key), sig_over: 0, room: false, entity_ok: true, rowsig_ok: true, pubkey_ok: true };
            match rng.below(12) {
                0 => a.sig_by = Some(1 + rng.below(nk)),      // somebody else's valid signature of this challenge
                1 => a.sig_by = None,
                2 => a.sig_over = 1,                            // replayed from another connection
                3 => a.room = true,
                4 => a.entity_ok = false,
                5 => a.rowsig_ok = false,
                6 => a.pubkey_ok = false,
                _ => {}
            }
            Remote::Ans(a)
        }
    };
    (local, t, r, !rng.chance(1, 10))
}


// ---------------------------------------------------------------- several connections: freshness, replay
#[derive(Clone, Debug)]
enum SRemote { No, Ans(Ans), Replay(usize) }
#[derive(Clone, Debug)]
struct SConn { info: usize, tt: Tt, remote: SRemote, ev: bool }

fn conn_info(n: usize) -> ConnectionInfo {
    // what a connection announces about itself (on the accepting side all of it comes from the wire)
    ConnectionInfo { endpoint_id: uid_of(1), remote_id: uid_of(20 + n as u64), conn_id: uid_of(30 + n as u64), meeting_token: [1u8; 7], peer_verifying_key: vec![] }
}

/// one connection of a session: returns (challenge sent, answer bytes the remote sent, [result, bound key])
async fn session_conn(ids: Arc<BTreeMap<u64, Ident>>, c: &SConn, replay: Option<Vec<u8>>) -> (Vec<u8>, Option<Vec<u8>>, Vec<i64>) {
    let (q_tx, mut q_rx) = mpsc::channel::<QueryProtocol>(4);
    let (a_tx, a_rx) = mpsc::channel::<Answer>(4);
    let qs = QueryService::start(q_tx, a_rx);
    let (ps_tx, mut ps_rx) = mpsc::channel::<PeerConnectionMessage>(8);
    let peer_service = PeerConnectionService { sender: ps_tx };
    let (ev_tx, mut ev_rx) = mpsc::channel::<RemoteEvent>(4);
    if !c.ev { ev_rx.close(); }
    let bound = Arc::new(tokio::sync::Mutex::new(Vec::<u8>::new()));
    let ready = Arc::new(AtomicBool::new(true));
    let info = conn_info(c.info);
    let ids2 = ids.clone();
    let remote = c.remote.clone();
    let (rec_tx, mut rec_rx) = mpsc::channel::<(Vec<u8>, Option<Vec<u8>>)>(2);
    let remote_task = tokio::spawn(async move {
        let mut a_tx = Some(a_tx);
        while let Some(q) = q_rx.recv().await {
            if let Query::ProveIdentity(ch) = q.query {
                let bytes = match &remote {
                    SRemote::No => None,
                    SRemote::Ans(a) => Some(answer_bytes(&ids2, a, &ch, &[0x5au8; 32])),
                    SRemote::Replay(_) => replay.clone(),
                };
                let _ = rec_tx.send((ch.clone(), bytes.clone())).await;
                match bytes { Some(b) => { let _ = a_tx.as_ref().unwrap().send(Answer { id: q.id, success: true, complete: true, serialized: b }).await; }
                              None => { a_tx = None; } }
            }
        }
    });
    let res = LocalPeerService::initialise_connection(&info, &ids[&1].key, token_type(&ids, &c.tt), &ready, &qs, &bound, &peer_service, &ev_tx).await;
    let (challenge, sent) = rec_rx.recv().await.unwrap_or((vec![], None));
    let b = bound.lock().await.clone();
    let idx = |k: &[u8]| -> i64 { ids.iter().find(|(_, v)| v.key == k).map(|(n, _)| *n as i64).unwrap_or(-2) };
    let obs = vec![match res { Ok(false) => 0, Ok(true) => 1, Err(_) => 2 }, if b.is_empty() { -1 } else { idx(&b) }];
    while ps_rx.try_recv().is_ok() {}
    remote_task.abort();
    (challenge, sent, obs)
}

fn sremote_coq(r: &SRemote) -> String {
    match r {
        SRemote::No => "SNo".to_string(),
        SRemote::Replay(j) => format!("(SReplay {}%nat)", j),
        SRemote::Ans(a) => format!("(SAns {{| a_key := {}; a_sig_by := {}; a_sig_over := 0%N; a_room := {}; a_entity_ok := {}; a_rowsig_ok := {}; a_pubkey_ok := {} |}})",
                                   gn(a.key), gon(a.sig_by), gb(a.room), gb(a.entity_ok), gb(a.rowsig_ok), gb(a.pubkey_ok)),
    }
}

async fn case_session(ids: Arc<BTreeMap<u64, Ident>>, conns: Vec<SConn>, kind: &str, stats: &mut BTreeMap<String, u64>) -> Case {
    let mut challenges: Vec<Vec<u8>> = vec![];
    let mut sent: Vec<Option<Vec<u8>>> = vec![];
    let mut results: Vec<i64> = vec![];
    for c in &conns {
        let replay = match &c.remote { SRemote::Replay(j) => sent.get(*j).cloned().flatten(), _ => None };
        let (ch, bytes, obs) = session_conn(ids.clone(), c, replay).await;
        if let SRemote::Replay(_) = &c.remote { *stats.entry(format!("session.replay.{}", if obs[0] == 1 { "ACCEPTED" } else { "refused" })).or_insert(0) += 1; }
        challenges.push(ch); sent.push(bytes); results.extend(obs);
    }
    // challenges renamed by first occurrence (1, 2, ..)
    let mut seen: Vec<Vec<u8>> = vec![];
    let nonces: Vec<u64> = challenges.iter().map(|c| match seen.iter().position(|s| s == c) { Some(p) => p as u64 + 1, None => { seen.push(c.clone()); seen.len() as u64 } }).collect();
    *stats.entry(format!("session.challenges.{}", if seen.len() == challenges.len() { "all-distinct" } else { "REPEATED" })).or_insert(0) += 1;
    let mut obs: Vec<i64> = nonces.iter().map(|n| *n as i64).collect();
    obs.extend(results);
    let terms: Vec<String> = conns.iter().map(|c| format!("{{| sc_local := 1%N; sc_tt := {}; sc_remote := {}; sc_ev := {} |}}", tt_coq(&c.tt), sremote_coq(&c.remote), gb(c.ev))).collect();
    Case { kind: kind.to_string(), coq: format!("CSession {} {}", glist(&nonces.iter().map(|n| gn(*n)).collect::<Vec<_>>()), glist(&terms)), obs,
           meta: json!({"connections": conns.len(), "identical_connection_infos": conns.iter().enumerate().any(|(i, c)| conns[..i].iter().any(|d| d.info == c.info)), "distinct_challenges": seen.len()}) }
}


// ---------------------------------------------------------------- the running peer connection service
#[derive(Clone, Debug)]
enum CRemote { Honest(u64), None }
#[derive(Clone, Debug)]
struct CConn { circuit: u64, owned: bool, claimed: u64, remote: CRemote }

struct Live { _a_tx: mpsc::Sender<Answer>, _q_tx: mpsc::Sender<QueryProtocol>, _ev_tx: mpsc::Sender<RemoteEvent> }

/// connections sent to the real PeerConnectionService as PeerConnectionMessage::NewConnection(None, ..);
/// the harness plays the remote end of the six channels
async fn case_circuit(ids: Arc<BTreeMap<u64, Ident>>, conns: Vec<CConn>, tag: &str, kind: &str, stats: &mut BTreeMap<String, u64>) -> Option<Case> {
    let me = &ids[&1];
    let work = std::env::var("VERIF_WORK").unwrap_or("/verif/work".to_string());
    let dir: PathBuf = PathBuf::from(&work).join("C19").join(tag);
    let _ = std::fs::remove_dir_all(&dir);
    std::fs::create_dir_all(&dir).unwrap();
    let pk: [u8; 32] = me.pubkey.clone().try_into().unwrap();
    let mut km = [0u8; 32]; km[0..16].copy_from_slice(&me.uid); km[20] = 5;
    let mut conf = Configuration::default();
    conf.enable_multicast = false; conf.enable_beacons = false;
    let events = EventService::new();
    let (db, vkey, room) = GraphDatabaseService::start(APP, "ns { Person{ name:String } }", &km, &pk, dir.clone(), &conf, events.clone()).await.unwrap();
    let params = DiscretParams { app_key: APP.to_string(), verifying_key: vkey.clone(), private_room_id: room,
                                 hardware_fingerprint: HardwareFingerprint { id: [3u8; 16], name: "h".to_string() }, configuration: conf };
    let services = DiscretServices { events, database: db, signature_verification: SignatureVerificationService::start(1) };
    let service = match PeerConnectionService::start(&params, &services, MeetingSecret::new(me.secret)).await { Ok(s) => s, Err(_) => { let _ = std::fs::remove_dir_all(&dir); return None; } };
    let ms = MeetingSecret::new(me.secret);
    let wait = |ms: u64| std::time::Duration::from_millis(ms);
    let mut live: Vec<Live> = vec![];
    let mut obs: Vec<i64> = vec![];
    let mut terms: Vec<String> = vec![];
    let mut allowed: Vec<u64> = vec![];
    for (n, c) in conns.iter().enumerate() {
        // the token: a fresh invitation of this instance, or the pairwise token of an allowed peer
        let (token, tt) = if c.owned {
            let (tx, rx) = tokio::sync::oneshot::channel();
            let _ = service.sender.send(PeerConnectionMessage::CreateInvite(None, tx)).await;
            let inv: Invite = bincode::deserialize(&rx.await.unwrap().unwrap()).unwrap();
            (MeetingSecret::derive_token("P", &inv.invite_id), Tt::Owned(1 + n as u64))
        } else { (ms.token(&bincode::deserialize(&ids[&c.claimed].pubkey).unwrap()), Tt::Allowed(c.claimed)) };
        let info = ConnectionInfo { endpoint_id: uid_of(1), remote_id: uid_of(100 + c.circuit), conn_id: uid_of(500 + n as u64), meeting_token: token, peer_verifying_key: ids[&c.claimed].key.clone() };
        let (a_tx, mut a_rx) = mpsc::channel::<Answer>(8);            // answers of the service to our queries
        let (ra_tx, ra_rx) = mpsc::channel::<Answer>(8);              // our answers to its queries
        let (q_tx, mut q_rx) = mpsc::channel::<QueryProtocol>(8);     // its queries
        let (rq_tx, rq_rx) = mpsc::channel::<QueryProtocol>(8);       // our queries
        let (ev_tx, mut ev_rx) = mpsc::channel::<RemoteEvent>(8);     // its events
        let (rev_tx, rev_rx) = mpsc::channel::<RemoteEvent>(8);       // our events
        let _ = service.sender.send(PeerConnectionMessage::NewConnection(None, info, a_tx, ra_rx, q_tx, rq_rx, ev_tx, rev_rx)).await;
        // its identity challenge
        let challenge = match tokio::time::timeout(wait(2000), q_rx.recv()).await { Ok(Some(QueryProtocol { id, query: Query::ProveIdentity(ch) })) => Some((id, ch)), _ => None };
        // (a) the room list is asked for while the proof is pending
        let _ = rq_tx.send(QueryProtocol { id: 100, query: Query::RoomList }).await;
        let before = matches!(tokio::time::timeout(wait(150), a_rx.recv()).await, Ok(Some(_)));
        // the answer to the challenge
        let remote = match (&c.remote, &challenge) {
            (CRemote::Honest(k), Some((id, ch))) => {
                let a = Ans { key: *k, sig_by: Some(*k), sig_over: 0, room: false, entity_ok: true, rowsig_ok: true, pubkey_ok: true };
                let _ = ra_tx.send(Answer { id: *id, success: true, complete: true, serialized: answer_bytes(&ids, &a, ch, &[0x5au8; 32]) }).await;
                Remote::Ans(a)
            }
            _ => Remote::Closed,
        };
        let event = match tokio::time::timeout(wait(if matches!(remote, Remote::Ans(_)) { 1500 } else { 100 }), ev_rx.recv()).await { Ok(Some(RemoteEvent::Ready)) => 0, Ok(Some(RemoteEvent::ReadyFingerprint)) => 1, _ => -1 };
        // (b) and again afterwards
        while a_rx.try_recv().is_ok() {}
        let _ = rq_tx.send(QueryProtocol { id: 101, query: Query::RoomList }).await;
        let after = matches!(tokio::time::timeout(wait(if event >= 0 { 1500 } else { 150 }), a_rx.recv()).await, Ok(Some(_)));
        if event == 0 && c.owned { tokio::time::sleep(wait(150)).await; if let CRemote::Honest(k) = &c.remote { allowed.push(*k); } }   // InviteAccepted is processed by the service
        *stats.entry(format!("circuit.{}.{}", if before { "SERVED-BEFORE-PROOF" } else { "not-served-before-proof" }, if after { "served-after" } else { "not-served-after" })).or_insert(0) += 1;
        obs.extend([before as i64, event, after as i64]);
        terms.push(format!("({}, {}, {})", gn(c.circuit), tt_coq(&tt), remote_coq(&remote)));
        live.push(Live { _a_tx: ra_tx, _q_tx: rq_tx, _ev_tx: rev_tx });   // the connection stays registered
    }
    drop(live);
    let _ = std::fs::remove_dir_all(&dir);
    let _ = allowed;
    Some(Case { kind: kind.to_string(), coq: format!("CCircuit 1%N {}", glist(&terms)), obs, meta: json!({"connections": conns.len()}) })
}

// ---------------------------------------------------------------- invitations on a real PeerManager
#[derive(Clone, Debug)]
enum TokRef { Inv(u64), Peer(u64), Own }
#[derive(Clone, Debug)]
enum Op { Create, Accept(Option<(u64, u64, Option<u64>)>), Lookup(TokRef, u64), Consume(TokRef, u64) }

struct Instance { pm: PeerManager, ms: MeetingSecret, own_token: [u8; 7], vkey: Vec<u8>, params: DiscretParams, services: DiscretServices, secret: [u8; 32], dir: PathBuf, _ep_rx: mpsc::Receiver<discret::verif_hooks::network::endpoint::EndpointMessage> }
async fn instance(me: &Ident, tag: &str) -> Instance {
    let work = std::env::var("VERIF_WORK").unwrap_or("/verif/work".to_string());
    let dir: PathBuf = PathBuf::from(&work).join("C19").join(tag);
    let _ = std::fs::remove_dir_all(&dir);
    std::fs::create_dir_all(&dir).unwrap();
    let ms = MeetingSecret::new(me.secret);
    let pk: [u8; 32] = me.pubkey.clone().try_into().unwrap();
    let mut km = [0u8; 32]; km[0..16].copy_from_slice(&me.uid); km[20] = 3;
    let events = EventService::new();
    let (db, vkey, room) = GraphDatabaseService::start(APP, "ns { Person{ name:String } }", &km, &pk, dir.clone(), &Configuration::default(), events.clone()).await.unwrap();
    let params = DiscretParams { app_key: APP.to_string(), verifying_key: vkey.clone(), private_room_id: room,
                                 hardware_fingerprint: HardwareFingerprint { id: [3u8; 16], name: "h".to_string() }, configuration: Configuration::default() };
    let services = DiscretServices { events, database: db, signature_verification: SignatureVerificationService::start(1) };
    let (ep_tx, ep_rx) = mpsc::channel(64);
    let endpoint = DiscretEndpoint { id: uid_of(9), sender: ep_tx, ipv4_port: 0, ipv4_cert_hash: [0u8; 32] };
    let own = services.database.get_allowed_peers(room).await.unwrap();
    let own_token = MeetingSecret::decode_token(&own[0].meeting_token).unwrap();
    let pm = PeerManager::new(&params, &services, endpoint, None, MeetingSecret::new(me.secret)).await.unwrap();
    Instance { pm, ms, own_token, vkey, params, services, secret: me.secret, dir, _ep_rx: ep_rx }
}


// ---------------------------------------------------------------- the table and the database behind it
#[derive(Clone, Debug)]
enum DOp { Create(u8), Accept(Option<(u64, u64, Option<u64>)>), Lookup(TokRef, u64), Consume(TokRef, u64), Restart }

async fn run_dops(ids: &BTreeMap<u64, Ident>, inst: &mut Instance, ops: &[DOp]) -> (Vec<i64>, Vec<String>) {
    use discret::DefaultRoom;
    let mut inv_uid: BTreeMap<u64, [u8; 16]> = BTreeMap::new();
    for i in 20..30 { inv_uid.insert(i, invite_uid(i)); }
    let mut created = 0u64;
    let mut obs = vec![];
    let mut terms = vec![];
    let vkey = inst.vkey.clone();
    let key_idx = |k: &[u8]| -> i64 { if k == vkey.as_slice() { 1 } else { ids.iter().find(|(n, v)| **n != 1 && v.key == k).map(|(n, _)| *n as i64).unwrap_or(-2) } };
    let keyb = |k: u64| -> Vec<u8> { if k == 1 { vkey.clone() } else { ids[&k].key.clone() } };
    let peer_term = |p: u64| format!("{{| p_key := {}; p_pub := {} |}}", gn(p), gn(p));
    // a room of this instance in which new peers can be granted access
    let mut good_room: Option<(String, String)> = None;
    for op in ops {
        match op {
            DOp::Create(g) => {
                created += 1;
                let dr = match g {
                    0 => None,
                    1 => {
                        if good_room.is_none() {
                            let mut pa = discret::Parameters::default();
                            discret::ParametersAdd::add(&mut pa, "k", base64_encode(&vkey)).unwrap();
                            let r = inst.services.database.mutate_raw("mutate { sys.Room{ admin:[{verif_key:$k}] authorisations:[{ name:\"g\" rights:[{entity:\"ns.Person\" mutate_self:true mutate_all:false}] }] } }", Some(pa)).await.unwrap();
                            let ri = &r.mutate_entities[0];
                            good_room = Some((base64_encode(&ri.node_to_mutate.id), base64_encode(&ri.sub_nodes.get("authorisations").unwrap()[0].node_to_mutate.id)));
                        }
                        let (room, authorisation) = good_room.clone().unwrap();
                        Some(DefaultRoom { room, authorisation })
                    }
                    _ => Some(DefaultRoom { room: base64_encode(&uid_of(8800 + created)), authorisation: base64_encode(&uid_of(8900 + created)) }),   // create_invite does not check them
                };
                match inst.pm.create_invite(dr).await { Ok(b) => { let inv: Invite = bincode::deserialize(&b).unwrap(); inv_uid.insert(created, inv.invite_id); obs.push(1); } Err(_) => obs.push(0) }
                obs.push(created as i64);
                terms.push(format!("DCreate {}", gn(*g as u64)));
            }
            DOp::Accept(None) => { let r = inst.pm.accept_invite(&[1, 2, 3, 4, 5]).await; obs.push(r.is_ok() as i64); obs.push(0); terms.push("DAccept Garbage".to_string()); }
            DOp::Accept(Some((i, app, signer))) => {
                let inv = make_invite_uid(ids, *inv_uid.get(i).unwrap_or(&invite_uid(*i)), *app, *signer);
                let r = inst.pm.accept_invite(&bincode::serialize(&inv).unwrap()).await;
                obs.push(r.is_ok() as i64); obs.push(0);
                terms.push(format!("DAccept (InviteFor {} {} {})", gn(*i), gn(*app), gon(*signer)));
            }
            DOp::Restart => {
                // PeerManager::new reads the allowed peers and the invitations back from the database
                let (ep_tx, ep_rx) = mpsc::channel(64);
                let endpoint = DiscretEndpoint { id: uid_of(9), sender: ep_tx, ipv4_port: 0, ipv4_cert_hash: [0u8; 32] };
                inst.pm = PeerManager::new(&inst.params, &inst.services, endpoint, None, MeetingSecret::new(inst.secret)).await.unwrap();
                inst._ep_rx = ep_rx;
                obs.push(1); obs.push(0);
                terms.push("DRestart".to_string());
            }
            DOp::Lookup(tr, k) | DOp::Consume(tr, k) => {
                let (token, tkt) = match tr {
                    TokRef::Inv(i) => (MeetingSecret::derive_token("P", inv_uid.get(i).unwrap_or(&invite_uid(99))), format!("(TkInvite {})", gn(*i))),
                    TokRef::Peer(p) => (inst.ms.token(&bincode::deserialize(&ids[p].pubkey).unwrap()), if *p == 1 { "(TkSelf 1%N)".to_string() } else { format!("(TkPair 1%N {})", gn(*p)) }),
                    TokRef::Own => (inst.own_token, "TkOwn".to_string()),
                };
                let tt = inst.pm.get_token_type(&token, &keyb(*k));
                let rank = |u: &[u8; 16]| -> i64 { inv_uid.iter().find(|(_, v)| *v == u).map(|(n, _)| *n as i64).unwrap_or(-2) };
                let (a, b) = match &tt {
                    Err(_) => (0, 0),
                    Ok(TokenType::AllowedPeer(ap)) => (1, key_idx(&base64_decode(ap.peer.verifying_key.as_bytes()).unwrap())),
                    Ok(TokenType::OwnedInvite(o)) => (2, rank(&o.id)),
                    Ok(TokenType::Invite(i)) => (3, rank(&i.invite_id)),
                };
                if let DOp::Lookup(_, _) = op {
                    obs.push(a); obs.push(b);
                    terms.push(format!("DLookup {} {}", tkt, gn(*k)));
                } else {
                    // what initialise_connection does once the remote has proved key k on this token
                    let granted = match tt {
                        Ok(t @ TokenType::OwnedInvite(_)) => { let _ = inst.pm.invite_accepted(t, peer_row(&ids[k])).await; true }
                        Ok(TokenType::Invite(inv)) => {
                            let signer_ok = discret::verif_hooks::security::import_verifying_key(&ids[k].key).map(|vk| vk.verify(&inv.hash(), &inv.invite_sign).is_ok()).unwrap_or(false);
                            if signer_ok { let _ = inst.pm.invite_accepted(TokenType::Invite(inv), peer_row(&ids[k])).await; }
                            signer_ok
                        }
                        _ => false,
                    };
                    obs.push(a); obs.push(granted as i64);
                    terms.push(format!("DConsume {} {}", tkt, peer_term(*k)));
                }
            }
        }
    }
    (obs, terms)
}

fn gen_dops(rng: &mut Rng, directed: Option<usize>) -> Vec<DOp> {
    match directed {
        // an invitation with a default room that cannot be granted: used, presented again, restart, presented again
        Some(0) => return vec![DOp::Create(2), DOp::Consume(TokRef::Inv(1), 2), DOp::Lookup(TokRef::Inv(1), 3), DOp::Restart, DOp::Lookup(TokRef::Inv(1), 3), DOp::Consume(TokRef::Inv(1), 3), DOp::Lookup(TokRef::Peer(2), 2)],
        Some(1) => return vec![DOp::Create(2), DOp::Consume(TokRef::Inv(1), 2), DOp::Consume(TokRef::Inv(1), 3), DOp::Restart, DOp::Consume(TokRef::Inv(1), 4)],
        // ... used once, then only after a restart: must be unknown (the stored row is deleted before the grant)
        Some(4) => return vec![DOp::Create(2), DOp::Consume(TokRef::Inv(1), 2), DOp::Restart, DOp::Lookup(TokRef::Inv(1), 3), DOp::Consume(TokRef::Inv(1), 3), DOp::Lookup(TokRef::Peer(2), 2), DOp::Lookup(TokRef::Peer(3), 3)],
        // this instance accepts an invitation it created itself, restarts, and the invitation is used
        Some(5) => return vec![DOp::Create(0), DOp::Accept(Some((1, 1, Some(2)))), DOp::Restart, DOp::Lookup(TokRef::Inv(1), 3), DOp::Consume(TokRef::Inv(1), 3), DOp::Lookup(TokRef::Inv(1), 2), DOp::Consume(TokRef::Inv(1), 2), DOp::Lookup(TokRef::Inv(1), 2)],
        // a default room that can be granted, and none: consumed once, gone after a restart as well
        Some(2) => return vec![DOp::Create(1), DOp::Create(0), DOp::Consume(TokRef::Inv(1), 2), DOp::Restart, DOp::Consume(TokRef::Inv(1), 3), DOp::Consume(TokRef::Inv(2), 3), DOp::Restart, DOp::Consume(TokRef::Inv(2), 4), DOp::Lookup(TokRef::Peer(2), 2), DOp::Lookup(TokRef::Peer(3), 3)],
        // pending invitations survive a restart; a received one is consumed by its signer only
        Some(3) => return vec![DOp::Create(0), DOp::Accept(Some((27, 1, Some(2)))), DOp::Restart, DOp::Consume(TokRef::Inv(27), 3), DOp::Consume(TokRef::Inv(27), 2), DOp::Consume(TokRef::Inv(1), 3), DOp::Restart, DOp::Consume(TokRef::Inv(27), 2), DOp::Consume(TokRef::Inv(1), 4)],
        _ => {}
    }
    let n = 3 + rng.below(8) as usize;
    let mut ops = vec![];
    let mut created = 0u64;
    let allow_bad_reuse = rng.chance(1, 4);
    let mut used_bad: Vec<u64> = vec![];
    let mut grants: Vec<u8> = vec![];
    for _ in 0..n {
        let pick_inv = |rng: &mut Rng, created: u64| -> u64 { if created == 0 || rng.chance(1, 4) { 20 + rng.below(3) } else { 1 + rng.below(created) } };
        match rng.below(10) {
            0..=2 => { created += 1; let g = *rng.pick(&[0u8, 0, 1, 2, 2]); grants.push(g); ops.push(DOp::Create(g)); }
            3 => ops.push(DOp::Accept(if rng.chance(1, 8) { None } else { Some((if created > 0 && rng.chance(1, 8) { 1 + rng.below(created) } else { 20 + rng.below(3) }, if rng.chance(4, 5) { 1 } else { 2 }, Some(2 + rng.below(3)))) })),
            4 => ops.push(DOp::Lookup(match rng.below(4) { 0 | 1 => TokRef::Inv(pick_inv(rng, created)), 2 => TokRef::Own, _ => TokRef::Peer(1 + rng.below(4)) }, 1 + rng.below(4))),
            5 | 6 => { used_bad.clear(); ops.push(DOp::Restart); }
            _ => {
                let inv = pick_inv(rng, created);
                let bad = inv >= 1 && inv <= created && grants[inv as usize - 1] == 2;
                if bad && used_bad.contains(&inv) && !allow_bad_reuse { continue; }
                if bad { used_bad.push(inv); }
                ops.push(DOp::Consume(TokRef::Inv(inv), 2 + rng.below(3)));
            }
        }
    }
    ops
}

fn gen_ops(rng: &mut Rng, directed: Option<usize>) -> Vec<Op> {
    match directed {
        Some(0) => return vec![Op::Create, Op::Lookup(TokRef::Inv(1), 2), Op::Consume(TokRef::Inv(1), 2), Op::Lookup(TokRef::Inv(1), 3), Op::Consume(TokRef::Inv(1), 3), Op::Lookup(TokRef::Peer(2), 2), Op::Lookup(TokRef::Peer(3), 3)],
        Some(1) => return vec![Op::Accept(Some((27, 1, Some(2)))), Op::Consume(TokRef::Inv(27), 2), Op::Consume(TokRef::Inv(27), 2), Op::Lookup(TokRef::Inv(27), 4)],
        // the same invitation bytes accepted twice, then presented twice
        Some(3) => return vec![Op::Accept(Some((27, 1, Some(2)))), Op::Accept(Some((27, 1, Some(2)))), Op::Consume(TokRef::Inv(27), 2), Op::Lookup(TokRef::Inv(27), 2), Op::Consume(TokRef::Inv(27), 2), Op::Lookup(TokRef::Inv(27), 2), Op::Consume(TokRef::Inv(27), 2)],
        Some(2) => return vec![Op::Accept(Some((28, 2, Some(2)))), Op::Accept(None), Op::Lookup(TokRef::Inv(28), 2), Op::Consume(TokRef::Inv(29), 3), Op::Create, Op::Consume(TokRef::Inv(1), 2), Op::Lookup(TokRef::Peer(2), 3), Op::Lookup(TokRef::Peer(2), 2), Op::Lookup(TokRef::Peer(1), 1), Op::Lookup(TokRef::Own, 1), Op::Lookup(TokRef::Own, 2)],
        // accepted again after it was consumed: a new acceptance, a new (single) use
        Some(4) => return vec![Op::Accept(Some((27, 1, Some(2)))), Op::Consume(TokRef::Inv(27), 2), Op::Lookup(TokRef::Inv(27), 2), Op::Accept(Some((27, 1, Some(2)))), Op::Consume(TokRef::Inv(27), 2), Op::Consume(TokRef::Inv(27), 2)],
        // this instance accepts an invitation it created itself
        Some(5) => return vec![Op::Create, Op::Accept(Some((1, 1, Some(1)))), Op::Lookup(TokRef::Inv(1), 2), Op::Consume(TokRef::Inv(1), 2), Op::Lookup(TokRef::Inv(1), 3), Op::Consume(TokRef::Inv(1), 3)],
        _ => {}
    }
    let n = 2 + rng.below(7) as usize;
    let mut ops = vec![];
    let mut created = 0u64;
    let reuse = rng.chance(1, 2);     // most scenarios consume an invitation at most once
    let mut used: Vec<u64> = vec![];
    for _ in 0..n {
        let pick_inv = |rng: &mut Rng, created: u64| -> u64 { match rng.below(6) { 0 | 1 => 20 + rng.below(3), _ => if created == 0 { 1 } else { 1 + rng.below(created) } } };
        ops.push(match rng.below(10) {
            0..=2 => { created += 1; Op::Create }
            3 => Op::Accept(if rng.chance(1, 6) { None } else { Some((if created > 0 && rng.chance(1, 8) { 1 + rng.below(created) } else { 20 + rng.below(3) }, if rng.chance(3, 4) { 1 } else { 2 }, Some(2 + rng.below(3)))) }),
            4..=5 => Op::Lookup(match rng.below(5) { 0 | 1 => TokRef::Inv(pick_inv(rng, created)), 2 => TokRef::Own, _ => TokRef::Peer(1 + rng.below(4)) }, 1 + rng.below(4)),
            _ => {
                let mut inv = pick_inv(rng, created);
                if !reuse { let mut tries = 0; while used.contains(&inv) && tries < 6 { inv = pick_inv(rng, created); tries += 1; } if used.contains(&inv) { continue; } }
                used.push(inv);
                Op::Consume(TokRef::Inv(inv), 2 + rng.below(3))
            }
        });
    }
    ops
}

async fn run_ops(ids: &BTreeMap<u64, Ident>, inst: &mut Instance, ops: &[Op]) -> (Vec<i64>, Vec<String>) {
    // invitation rank -> uid; created ones get their real uid, foreign ones a fixed uid
    let mut inv_uid: BTreeMap<u64, [u8; 16]> = BTreeMap::new();
    for i in 20..30 { inv_uid.insert(i, invite_uid(i)); }
    let mut created = 0u64;
    let mut obs = vec![];
    let mut terms = vec![];
    let vkey = inst.vkey.clone();
    let key_idx = |k: &[u8]| -> i64 { if k == vkey.as_slice() { 1 } else { ids.iter().find(|(n, v)| **n != 1 && v.key == k).map(|(n, _)| *n as i64).unwrap_or(-2) } };
    let keyb = |k: u64| -> Vec<u8> { if k == 1 { vkey.clone() } else { ids[&k].key.clone() } };
    let peer_term = |p: u64| format!("{{| p_key := {}; p_pub := {} |}}", gn(p), gn(p));
    for op in ops {
        match op {
            Op::Create => {
                created += 1;
                let bytes = inst.pm.create_invite(None).await;
                match bytes { Ok(b) => { let inv: Invite = bincode::deserialize(&b).unwrap(); inv_uid.insert(created, inv.invite_id); obs.push(1); obs.push(created as i64); }
                              Err(_) => { obs.push(0); obs.push(created as i64); } }
                terms.push("OCreate".to_string());
            }
            Op::Accept(None) => {
                let r = inst.pm.accept_invite(&[1, 2, 3, 4, 5]).await;
                obs.push(r.is_ok() as i64); obs.push(0);
                terms.push("OAccept Garbage".to_string());
            }
            Op::Accept(Some((i, app, signer))) => {
                let inv = make_invite_uid(ids, *inv_uid.get(i).unwrap_or(&invite_uid(*i)), *app, *signer);
                let r = inst.pm.accept_invite(&bincode::serialize(&inv).unwrap()).await;
                obs.push(r.is_ok() as i64); obs.push(0);
                terms.push(format!("OAccept (InviteFor {} {} {})", gn(*i), gn(*app), gon(*signer)));
            }
            Op::Lookup(tr, k) | Op::Consume(tr, k) => {
                let token = match tr {
                    TokRef::Inv(i) => MeetingSecret::derive_token("P", inv_uid.get(i).unwrap_or(&invite_uid(99))),
                    TokRef::Peer(p) => inst.ms.token(&bincode::deserialize(&ids[p].pubkey).unwrap()),
                    TokRef::Own => inst.own_token,
                };
                let tt = inst.pm.get_token_type(&token, &keyb(*k));
                let rank = |u: &[u8; 16]| -> i64 { inv_uid.iter().find(|(_, v)| *v == u).map(|(n, _)| *n as i64).unwrap_or(-2) };
                let (a, b) = match &tt {
                    Err(_) => (0, 0),
                    Ok(TokenType::AllowedPeer(ap)) => (1, key_idx(&base64_decode(ap.peer.verifying_key.as_bytes()).unwrap())),
                    Ok(TokenType::OwnedInvite(o)) => (2, rank(&o.id)),
                    Ok(TokenType::Invite(i)) => (3, rank(&i.invite_id)),
                };
                let trt = match tr { TokRef::Inv(i) => format!("(RInv {})", gn(*i)), TokRef::Peer(p) => format!("(RPeer {})", peer_term(*p)), TokRef::Own => "ROwn".to_string() };
                if let Op::Lookup(_, _) = op {
                    obs.push(a); obs.push(b);
                    terms.push(format!("OLookup {} {}", trt, gn(*k)));
                } else {
                    let done = match tt {
                        Ok(t @ TokenType::OwnedInvite(_)) | Ok(t @ TokenType::Invite(_)) => inst.pm.invite_accepted(t, peer_row(&ids[k])).await.is_ok(),
                        _ => false,
                    };
                    obs.push(a); obs.push(done as i64);
                    terms.push(format!("OConsume {} {}", trt, peer_term(*k)));
                }
            }
        }
    }
    (obs, terms)
}

#[tokio::main(flavor = "multi_thread", worker_threads = 4)]
async fn main() {
    let mut rng = Rng::from_env();
    let salt = rng.next();
    let mut idmap = BTreeMap::new();
    for n in 1..=4u64 { idmap.insert(n, ident(n, salt)); }
    let ids = Arc::new(idmap);
    let mut stats: BTreeMap<String, u64> = BTreeMap::new();
    let mut cases: Vec<Case> = vec![];

    // the two slow remotes run in the background for the whole run (NETWORK_TIMEOUT_SEC = 10 s)
    let slow: Vec<_> = [(Tt::Owned(1), Remote::Timeout), (Tt::Allowed(2), Remote::Late)].into_iter()
        .map(|(t, r)| { let ids = ids.clone(); tokio::spawn(async move { let o = run_handshake(ids, 1, t.clone(), r.clone(), true).await; (t, r, o) }) }).collect();

    // ---------------- invitations: directed (known finding first), then generated
    let n_inv = scale(40, 400);
    for n in 0..n_inv {
        let ops = gen_ops(&mut rng, if n < 6 { Some(n) } else { None });
        let mut inst = instance(&ids[&1], &format!("pm_{}_{}", seed(), n)).await;
        let (obs, terms) = run_ops(&ids, &mut inst, &ops).await;
        let dir = inst.dir.clone();
        drop(inst);
        let _ = std::fs::remove_dir_all(&dir);
        // how many invitations were consumed more than once (measured on the real code)
        let mut succ: BTreeMap<u64, u64> = BTreeMap::new();
        for (i, op) in ops.iter().enumerate() { if let Op::Consume(TokRef::Inv(v), _) = op { if obs[2 * i + 1] == 1 { *succ.entry(*v).or_insert(0) += 1; } } }
        let twice = succ.values().any(|c| *c > 1);
        *stats.entry(format!("invites.{}", if twice { "CONSUMED-TWICE" } else if succ.is_empty() { "nothing-consumed" } else { "consumed-once" })).or_insert(0) += 1;
        cases.push(Case { kind: if n == 0 { "K1-owned-invite-twice".to_string() } else if n == 1 { "K1-received-invite-twice".to_string() } else if n == 3 { "K3-invite-registered-twice".to_string() } else if n < 6 { "invites-directed".to_string() } else { "invites".to_string() },
                          coq: format!("CInvites 1%N {{| s_bytes := 1%N; s_pub := 1%N |}} 1%N {}", glist(&terms)), obs,
                          meta: json!({"ops": ops.len(), "consumed_twice": twice}) });
    }


    // ---------------- the table with its database: default rooms, restarts
    for n in 0..scale(30, 300) {
        let ops = gen_dops(&mut rng, if n < 6 { Some(n) } else { None });
        let mut inst = instance(&ids[&1], &format!("db_{}_{}", seed(), n)).await;
        let (obs, terms) = run_dops(&ids, &mut inst, &ops).await;
        let dir = inst.dir.clone();
        drop(inst);
        let _ = std::fs::remove_dir_all(&dir);
        let mut grants: BTreeMap<u64, u64> = BTreeMap::new();
        for (i, op) in ops.iter().enumerate() { if let DOp::Consume(TokRef::Inv(v), _) = op { if obs[2 * i + 1] == 1 { *grants.entry(*v).or_insert(0) += 1; } } }
        let restarts = ops.iter().filter(|o| matches!(o, DOp::Restart)).count();
        *stats.entry(format!("invdb.{}", if grants.values().any(|c| *c > 1) { "granted-more-than-once" } else if grants.is_empty() { "nothing-consumed" } else { "consumed-once" })).or_insert(0) += 1;
        cases.push(Case { kind: if n < 2 { "K4-ungrantable-default-room".to_string() } else if n == 5 { "K5-own-invitation-accepted".to_string() } else if n < 6 { "invdb-directed".to_string() } else { "invdb".to_string() },
                          coq: format!("CInvDb 1%N {{| s_bytes := 1%N; s_pub := 1%N |}} 1%N {}", glist(&terms)), obs,
                          meta: json!({"ops": ops.len(), "restarts": restarts}) });
    }


    // ---------------- the running service: a connection is served only after its own proof
    {
        let h = |k: u64| CRemote::Honest(k);
        // peer 2 comes in with an invitation on circuit 7 and is served; then, announcing the SAME circuit:
        // a connection that never answers, one that proves another valid key, the honest peer again, and one on a new circuit
        let directed = vec![
            CConn { circuit: 7, owned: true, claimed: 2, remote: h(2) },
            CConn { circuit: 7, owned: false, claimed: 2, remote: CRemote::None },
            CConn { circuit: 7, owned: false, claimed: 2, remote: h(3) },
            CConn { circuit: 7, owned: false, claimed: 2, remote: h(2) },
            CConn { circuit: 8, owned: false, claimed: 2, remote: CRemote::None },
            CConn { circuit: 7, owned: true, claimed: 3, remote: CRemote::None },
        ];
        if let Some(c) = case_circuit(ids.clone(), directed, &format!("svc_{}_d", seed()), "circuit-directed", &mut stats).await { cases.push(c); }
        for n in 0..scale(6, 60) {
            let mut conns = vec![CConn { circuit: 1, owned: true, claimed: 2, remote: h(2) }];
            for _ in 0..(2 + rng.below(4)) {
                let circuit = if rng.chance(2, 3) { 1 } else { 1 + rng.below(3) };
                conns.push(match rng.below(5) {
                    0 => CConn { circuit, owned: true, claimed: 3, remote: if rng.chance(1, 2) { h(3) } else { CRemote::None } },
                    1 => CConn { circuit, owned: false, claimed: 2, remote: h(2) },
                    2 => CConn { circuit, owned: false, claimed: 2, remote: h(2 + rng.below(3)) },
                    _ => CConn { circuit, owned: false, claimed: 2, remote: CRemote::None },
                });
            }
            if let Some(c) = case_circuit(ids.clone(), conns, &format!("svc_{}_{}", seed(), n), "circuit", &mut stats).await { cases.push(c); }
        }
    }

    // ---------------- handshakes
    let directed: Vec<(u64, Tt, Remote, bool)> = {
        let ok = |k: u64| Ans { key: k, sig_by: Some(k), sig_over: 0, room: false, entity_ok: true, rowsig_ok: true, pubkey_ok: true };
        vec![
            (1, Tt::Allowed(2), Remote::Ans(ok(2)), true),                                         // honest
            (1, Tt::Allowed(2), Remote::Ans(ok(3)), true),                                         // valid key of another allowed peer
            (1, Tt::Allowed(2), Remote::Ans(Ans { sig_by: Some(3), ..ok(2) }), true),              // wrong key signs
            (1, Tt::Allowed(2), Remote::Ans(Ans { sig_over: 1, ..ok(2) }), true),                  // replayed answer
            (1, Tt::Allowed(2), Remote::Ans(Ans { rowsig_ok: false, ..ok(2) }), true),             // malformed peer row
            (1, Tt::Allowed(2), Remote::Ans(Ans { room: true, ..ok(2) }), true),
            (1, Tt::Allowed(2), Remote::Ans(Ans { pubkey_ok: false, ..ok(2) }), true),
            (1, Tt::Allowed(2), Remote::Closed, true),                                             // no answer
            (1, Tt::Allowed(2), Remote::ErrorAnswer, true),
            (1, Tt::Allowed(2), Remote::Garbage, true),
            (1, Tt::Allowed(1), Remote::Ans(ok(1)), true),                                         // own second device: fingerprint path
            (1, Tt::Owned(1), Remote::Ans(ok(3)), true),                                           // invitation consumed by whoever proves a key
            (1, Tt::Owned(1), Remote::Ans(Ans { sig_by: None, ..ok(3) }), true),
            (1, Tt::Invite(2, 1, Some(3)), Remote::Ans(ok(3)), true),                              // the inviter
            (1, Tt::Invite(2, 1, Some(3)), Remote::Ans(ok(4)), true),                              // somebody else holding the token
            (1, Tt::Invite(2, 1, None), Remote::Ans(ok(3)), true),
            (1, Tt::Owned(1), Remote::Ans(ok(3)), false),                                          // connection dies right after the proof
        ]
    };
    let n_hs = scale(400, 4000);
    for n in 0..(directed.len() + n_hs) {
        let (local, t, r, ev) = if n < directed.len() { directed[n].clone() } else { gen_handshake(&mut rng) };
        let obs = run_handshake(ids.clone(), local, t.clone(), r.clone(), ev).await;
        *stats.entry(format!("handshake.{}.{}", match &t { Tt::Allowed(_) => "allowed", Tt::Owned(_) => "owned", Tt::Invite(..) => "invite" },
                             match obs[0] { 1 => "accepted", 0 => "dropped", _ => "refused" })).or_insert(0) += 1;
        cases.push(Case { kind: if n < directed.len() { "handshake-directed".to_string() } else { "handshake".to_string() },
                          coq: format!("CHandshake 0%N {} {} {} {}", gn(local), tt_coq(&t), remote_coq(&r), gb(ev)), obs,
                          meta: json!({"remote": format!("{:?}", r)}) });
    }


    // ---------------- sessions: freshness of the challenge, replayed answers
    {
        let ok = |k: u64| Ans { key: k, sig_by: Some(k), sig_over: 0, room: false, entity_ok: true, rowsig_ok: true, pubkey_ok: true };
        // an honest answer recorded on connection 0 is replayed on a connection that announces the same
        // parameters, on one with new parameters, and the honest peer connects again with the same parameters
        let directed = vec![
            SConn { info: 0, tt: Tt::Allowed(2), remote: SRemote::Ans(ok(2)), ev: true },
            SConn { info: 0, tt: Tt::Allowed(2), remote: SRemote::Replay(0), ev: true },
            SConn { info: 1, tt: Tt::Allowed(2), remote: SRemote::Replay(0), ev: true },
            SConn { info: 0, tt: Tt::Allowed(2), remote: SRemote::Ans(ok(2)), ev: true },
            SConn { info: 0, tt: Tt::Owned(1), remote: SRemote::Replay(0), ev: true },
        ];
        cases.push(case_session(ids.clone(), directed, "session-replay-directed", &mut stats).await);
        for _ in 0..scale(40, 400) {
            let n = 3 + rng.below(5) as usize;
            let mut conns: Vec<SConn> = vec![];
            for i in 0..n {
                let answered: Vec<usize> = (0..i).filter(|j| matches!(conns[*j].remote, SRemote::Ans(_))).collect();
                let (tt, remote, info) = if !answered.is_empty() && rng.chance(2, 5) {
                    let j = *rng.pick(&answered);
                    // mostly the very same connection parameters and token type as the recorded connection
                    (if rng.chance(3, 4) { conns[j].tt.clone() } else { Tt::Owned(1) }, SRemote::Replay(j), if rng.chance(2, 3) { conns[j].info } else { rng.below(3) as usize })
                } else if rng.chance(1, 8) { (Tt::Allowed(2), SRemote::No, rng.below(3) as usize) }
                else {
                    let k = 2 + rng.below(3);
                    let tt = match rng.below(3) { 0 => Tt::Allowed(k), 1 => Tt::Owned(1), _ => Tt::Invite(2, 1, Some(k)) };
                    let mut a = ok(k); if rng.chance(1, 8) { a.sig_by = Some(2 + rng.below(3)); }
                    (tt, SRemote::Ans(a), rng.below(3) as usize)
                };
                conns.push(SConn { info, tt, remote, ev: !rng.chance(1, 12) });
            }
            cases.push(case_session(ids.clone(), conns, "session", &mut stats).await);
        }
    }

    // ---------------- meeting tokens
    for n in 0..scale(60, 600) {
        let ns = 2 + rng.below(4) as usize;
        let mut raw: Vec<[u8; 32]> = vec![];
        for _ in 0..ns {
            let fresh = raw.is_empty() || rng.chance(2, 3);
            let mut sct = [0u8; 32];
            if fresh { for ch in sct.chunks_mut(8) { ch.copy_from_slice(&rng.next().to_le_bytes()); } }
            else {
                sct = *rng.pick(&raw);
                match if n < 2 { 1 } else { rng.below(4) } { 0 => {}                               // the same secret (same user, other device)
                    1 => sct[0] ^= 1 + rng.below(7) as u8,                                          // bits cleared by the x25519 clamping
                    2 => sct[31] ^= 0x80,
                    _ => sct[5] ^= 0x10 }
            }
            raw.push(sct);
        }
        let secs: Vec<MeetingSecret> = raw.iter().map(|r| MeetingSecret::new(*r)).collect();
        let pubs: Vec<Vec<u8>> = secs.iter().map(|s| bincode::serialize(&s.public_key()).unwrap()).collect();
        let rank = |v: &Vec<Vec<u8>>, x: &Vec<u8>| v.iter().position(|y| y == x).unwrap() as u64 + 1;
        let rawv: Vec<Vec<u8>> = raw.iter().map(|r| r.to_vec()).collect();
        let mut probes = vec![];
        for i in 0..ns { for j in 0..ns { if rng.chance(3, 4) && probes.len() < 14 { probes.push((i, j)); } } }
        let toks: Vec<Vec<u8>> = probes.iter().map(|(i, j)| secs[*i].token(&secs[*j].public_key()).to_vec()).collect();
        let mut obs: Vec<i64> = vec![];
        for i in 0..toks.len() { for j in (i + 1)..toks.len() { obs.push((toks[i] == toks[j]) as i64); } }
        let clash = (0..ns).any(|i| (0..ns).any(|j| pubs[i] == pubs[j] && raw[i] != raw[j]));
        *stats.entry(format!("tokens.{}", if clash { "same-public-key-different-secret" } else { "plain" })).or_insert(0) += 1;
        cases.push(Case { kind: if n < 2 { "K2-token-clamping".to_string() } else { "tokens".to_string() },
                          coq: format!("CTokens {} {}", glist(&(0..ns).map(|i| format!("{{| s_bytes := {}; s_pub := {} |}}", gn(rank(&rawv, &rawv[i])), gn(rank(&pubs, &pubs[i])))).collect::<Vec<_>>()),
                                       glist(&probes.iter().map(|(i, j)| format!("({}%nat, {}%nat)", i, j)).collect::<Vec<_>>())),
                          obs, meta: json!({"secrets": ns, "probes": probes.len()}) });
    }

    for h in slow {
        let (t, r, obs) = h.await.unwrap();
        *stats.entry(format!("handshake.slow.{}", match obs[0] { 1 => "accepted", 0 => "dropped", _ => "refused" })).or_insert(0) += 1;
        cases.push(Case { kind: "handshake-timeout".to_string(), coq: format!("CHandshake 0%N 1%N {} {} true", tt_coq(&t), remote_coq(&r)), obs, meta: json!({"remote": format!("{:?}", r)}) });
    }

    let dist: serde_json::Value = stats.iter().map(|(k, v)| (k.clone(), json!(v))).collect::<serde_json::Map<_, _>>().into();
    if let Some(c) = cases.first_mut() { c.meta = json!({"first_case": c.meta, "generator_distribution": dist}); }
    println!("c19: {} cases; distribution {}", cases.len(), serde_json::to_string(&stats).unwrap());
    let work = std::env::var("VERIF_WORK").unwrap_or("/verif/work".to_string());
    let _ = std::fs::remove_dir_all(PathBuf::from(&work).join("C19").join("pm"));
    let mut out = Out::create();
    for c in cases { out.push(c); }
    out.finish();
}
