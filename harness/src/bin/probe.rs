//! scratch probe (not a registered check)
use discret::verif_hooks::configuration::Configuration;
use discret::verif_hooks::database::graph_database::GraphDatabaseService;
use discret::verif_hooks::event_service::EventService;
use discret::verif_hooks::security::{base64_encode, random32};
use discret::{Parameters, ParametersAdd};
use std::path::PathBuf;

#[tokio::main(flavor = "multi_thread")]
async fn main() {
    let path: PathBuf = "/verif/work/probe".into();
    let _ = std::fs::remove_dir_all(&path);
    std::fs::create_dir_all(&path).unwrap();
    let model = "ns { Person{ name:String, pets:[ns.Pet] } Pet{ name:String } }";
    let (app, vk, _) = GraphDatabaseService::start("probe", model, &random32(), &random32(), path, &Configuration::default(), EventService::new()).await.unwrap();
    let mut p = Parameters::default();
    p.add("user_id", base64_encode(&vk)).unwrap();
    let room = app.mutate_raw(r#"mutate { sys.Room{ admin:[{verif_key:$user_id}] authorisations:[{ name:"g" rights:[{entity:"ns.Person" mutate_self:true mutate_all:true},{entity:"ns.Pet" mutate_self:true mutate_all:true}] }] } }"#, Some(p)).await.unwrap();
    let ri = &room.mutate_entities[0];
    let room_id = base64_encode(&ri.node_to_mutate.id);
    let auth_id = base64_encode(&ri.sub_nodes.get("authorisations").unwrap()[0].node_to_mutate.id);
    let mut p = Parameters::default();
    p.add("room_id", room_id.clone()).unwrap();
    let r = app.mutate_raw(r#"mutate { ns.Person{ room_id:$room_id name:"p" pets:[{name:"kiki"}] } }"#, Some(p)).await.unwrap();
    let pe = &r.mutate_entities[0];
    let person_id = base64_encode(&pe.node_to_mutate.id);
    let pet = &pe.sub_nodes.get("pets").unwrap()[0];
    let pet_id = base64_encode(&pet.node_to_mutate.id);
    println!("pet room = {:?}", pet.node_to_mutate.room_id.map(|r| base64_encode(&r)));
    tokio::time::sleep(std::time::Duration::from_millis(20)).await;
    let mut p = Parameters::default();
    p.add("room_id", room_id.clone()).unwrap();
    p.add("auth_id", auth_id.clone()).unwrap();
    app.mutate_raw(r#"mutate { sys.Room{ id:$room_id authorisations:[{ id:$auth_id rights:[{entity:"ns.Pet" mutate_self:false mutate_all:false}] }] } }"#, Some(p)).await.unwrap();
    tokio::time::sleep(std::time::Duration::from_millis(20)).await;
    let mut p = Parameters::default();
    p.add("pet_id", pet_id.clone()).unwrap();
    let direct = app.mutate_raw(r#"mutate { ns.Pet{ id:$pet_id name:"direct" } }"#, Some(p)).await;
    println!("direct update of the pet after revocation: {}", if direct.is_ok() { "ACCEPTED" } else { "refused" });
    let mut p = Parameters::default();
    p.add("pet_id", pet_id.clone()).unwrap();
    p.add("person_id", person_id.clone()).unwrap();
    let via = app.mutate_raw(r#"mutate { ns.Person{ id:$person_id pets:[{ id:$pet_id name:"via parent" }] } }"#, Some(p)).await;
    println!("update of the pet through its unchanged parent: {}", if via.is_ok() { "ACCEPTED" } else { "refused" });
    let q = app.query("query { ns.Pet{ name } }", None).await.unwrap();
    println!("{}", q);
}
