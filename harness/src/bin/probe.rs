use discret::verif_hooks::configuration::Configuration;
use discret::verif_hooks::database::graph_database::GraphDatabaseService;
use discret::verif_hooks::event_service::EventService;
use discret::verif_hooks::security::random32;
use std::path::PathBuf;
#[tokio::main(flavor = "multi_thread")]
async fn main() {
    let path: PathBuf = "/verif/work/probe".into();
    let _ = std::fs::remove_dir_all(&path);
    std::fs::create_dir_all(&path).unwrap();
    let model = "ns { E1{ name:String, subs:[ns.E2] } E2{ name:String } E3{ name:String } }";
    let (app, _vk, _) = GraphDatabaseService::start("probe", model, &random32(), &random32(), path, &Configuration::default(), EventService::new()).await.unwrap();
    app.mutate_raw(r#"mutate { ns.E1{ name:"p" subs:[{name:"kiki"}] } ns.E3{name:"z"} }"#, None).await.unwrap();
    for q in ["query { ns.E1(order_by(id asc)){ id room_id mdate verifying_key name subs(order_by(id asc), nullable(subs)){ id } } }",
              "query { ns.E1(order_by(id asc), nullable(subs)){ id room_id mdate verifying_key name subs(order_by(id asc)){ id } } ns.E2(order_by(id asc)){ id room_id mdate verifying_key name } ns.E3(order_by(id asc)){ id room_id mdate verifying_key name } }"] {
        println!("{:?}", app.query(q, None).await);
    }
}
