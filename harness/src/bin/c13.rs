//! C13 — writes are atomic, durable once acknowledged, and leave the log repairable.
//! Fault enumeration against the REAL batch writer (hook H4, `verif_faults`):
//!   parent  : generates workloads, runs one child per (workload, mode, k), then a verifier
//!             process that reopens the folder with a normal GraphDatabaseService::start,
//!             and writes one correspondence case per run;
//!   child   : `c13 child <dir> <workload.json> <mode> <k> <out>` opens the folder, runs the
//!             workload with the k-th instrumentation point armed (abort / statement failure),
//!             writes every acknowledgement to <out> as it arrives;
//!   verify  : `c13 verify <dir> <workload.json> <out>` checks the log invariant on the raw
//!             file, restarts the service, waits for the start-up recompute, reads all tables.
use discret::verif_hooks::configuration::Configuration;
use discret::verif_hooks::database::graph_database::{DbMessage, GraphDatabaseService};
use discret::verif_hooks::database::edge::Edge;
use discret::verif_hooks::database::node::{Node, NodeToInsert};
use discret::verif_hooks::database::sqlite_database::{create_connection, WriteMessage, WriteStmt, Writeable};
use discret::verif_hooks::event_service::{Event, EventService};
use discret::verif_hooks::security::{base64_encode, derive_key, new_uid, Ed25519SigningKey, Uid};
use discret::verif_hooks::verif_faults as vf;
use discret::{Parameters, ParametersAdd};
use serde::{Deserialize, Serialize};
use serde_json::json;
use std::collections::{HashMap, HashSet};
use std::io::Write as IoWrite;
use std::path::{Path, PathBuf};
use std::sync::atomic::{AtomicUsize, Ordering};
use std::sync::{Arc, Mutex};
use std::time::Duration;
use vharness::common::*;

const APP: &str = "c13";
const MODEL: &str = "ns { Person{ name:String, pets:[ns.Pet] } Pet{ name:String } }";
const GRACE_MS: u64 = 120;

// ------------------------------------------------------------------ workload
#[derive(Serialize, Deserialize, Clone, Debug)]
enum Req {
    Mut { persons: Vec<(u64, Vec<u64>)>, stream: bool },
    Upd { target: usize, label: u64 },
    Del { target: usize },
    Nodes { labels: Vec<u64> },
    /// synchronised references (add_edges): (source set-up row, destination set-up row, model key) per reference
    Edges { links: Vec<(usize, usize, u64)> },
    Room { label: u64 },
    RoomUpd { label: u64, revoke_pet: bool, pet: Option<u64> },
    Compute,
    Write { key: u64 },
}
#[derive(Serialize, Deserialize, Clone, Debug)]
struct Workload {
    key: Vec<u8>,
    n_setup: usize,
    phases: Vec<Vec<Req>>,
    gate_ms: u64,
    buffer: usize,
}
impl Workload {
    /// all requests in submission order; every phase starts with its gate (a generic Write)
    fn flat(&self) -> Vec<(usize, Req)> {
        let mut v = vec![];
        for (p, ph) in self.phases.iter().enumerate() {
            v.push((p, Req::Write { key: 900 + p as u64 }));
            for r in ph { v.push((p, r.clone())); }
        }
        // the closing write: when it is answered every earlier message has been through the writer
        v.push((self.phases.len(), Req::Write { key: 999 }));
        v
    }
}
/// writer arm (hook numbering) a request is executed by, number of statement groups
fn arm_of(r: &Req) -> (u8, usize) {
    match r {
        Req::Mut { stream: true, .. } => (3, 1),
        Req::Mut { .. } | Req::Upd { .. } => (2, 1),
        Req::Del { .. } => (1, 1),
        Req::Nodes { labels } => (4, labels.len()),
        Req::Edges { links } => (5, links.len()),
        Req::Room { .. } | Req::RoomUpd { .. } => (6, 1),
        Req::Compute => (10, 1),
        Req::Write { .. } => (9, 1),
    }
}

// model vocabulary: keys of rows, cells of the daily log (1 = Person, 2 = Pet of the main room, 0 = not logged)
fn k_setup(i: usize) -> u64 { 20000 + i as u64 }
/// per statement group its statements (what runs between two H4 points), per statement the row operations.
/// The interior points: one behind the node write of every InsertEntity (site 1), two in DeletionQuery::delete
/// (behind the edge deletions, behind the node deletions), one between a room mutation and its room changelog entry
fn ops_of(r: &Req) -> Vec<Vec<Vec<String>>> {
    let put = |k: u64, v: u64, c: u64| format!("Put {} {} {}", gn(c), gn(k), gn(v));
    match r {
        Req::Mut { persons, .. } => {
            let mut stmts: Vec<Vec<String>> = vec![];
            let mut cur: Vec<String> = vec![];
            for (p, pets) in persons {
                cur.push(put(*p, *p, 1));
                stmts.push(std::mem::take(&mut cur)); // point behind the person's node
                for q in pets { cur.push(put(10000 + q, 1, 0)); } // the references are inserted before the sub entities
                for q in pets { cur.push(put(*q, *q, 2)); stmts.push(std::mem::take(&mut cur)); }
            }
            stmts.push(cur);
            vec![stmts]
        }
        Req::Upd { target, label } => vec![vec![vec![put(k_setup(*target), *label, 1)], vec![]]],
        Req::Del { target } => vec![vec![vec![], vec![format!("Del {} {}", gn(1), gn(k_setup(*target)))], vec![]]],
        Req::Nodes { labels } => labels.iter().map(|l| vec![vec![put(*l, *l, 1)]]).collect(),
        // one statement group per reference (Edge::write has no interior point); references are not logged (cell 0)
        Req::Edges { links } => links.iter().map(|l| vec![vec![put(50000 + l.2, 1, 0)]]).collect(),
        // room node, admin entry, authorisation, its right: four InsertEntity, then the point in front of the changelog
        Req::Room { label } => vec![vec![vec![], vec![put(40000 + label, 1, 0)], vec![], vec![], vec![], vec![put(45000 + label, 1, 0)]]],
        Req::RoomUpd { label, revoke_pet, pet } => {
            // room (reference) [, main authorisation (reference), its new right], new authorisation [, the pet], changelog
            let mut stmts: Vec<Vec<String>> = vec![vec![]];
            if *revoke_pet { stmts.push(vec![]); stmts.push(vec![]); }
            stmts.push(vec![put(40000 + label, 1, 0)]);
            if let Some(q) = pet { stmts.push(vec![put(*q, *q, 2)]); }
            stmts.push(vec![]); // between the last entity's point and the point in front of the changelog
            stmts.push(vec![]); // the changelog entry of the (existing) room
            vec![stmts]
        }
        Req::Compute => vec![vec![vec![]]],
        Req::Write { key } => vec![vec![vec![put(30000 + key, 1, 0)]]],
    }
}
fn marks_of(r: &Req) -> Vec<u64> {
    match r {
        Req::Mut { persons, .. } => { let mut m = vec![1]; if persons.iter().any(|(_, p)| !p.is_empty()) { m.push(2); } m }
        Req::Upd { .. } | Req::Del { .. } | Req::Nodes { .. } => vec![1],
        Req::RoomUpd { pet: Some(_), .. } => vec![2],
        _ => vec![],
    }
}
fn kind_of(r: &Req) -> &'static str {
    match r {
        Req::Mut { stream: true, .. } => "KMutationStream",
        Req::Mut { .. } | Req::Upd { .. } => "KMutation",
        Req::Del { .. } => "KDeletion",
        Req::Nodes { .. } => "KNodes",
        Req::Edges { .. } => "KEdges",
        Req::Room { .. } | Req::RoomUpd { .. } => "KRoomMutation",
        Req::Compute => "KCompute",
        Req::Write { .. } => "KWrite",
    }
}
fn auth_of(r: &Req) -> String {
    match r {
        Req::Room { .. } => "ACreate".to_string(),
        Req::RoomUpd { revoke_pet, pet, .. } => format!("(ANeeds {} {})", gb(pet.is_some()), gb(*revoke_pet)),
        _ => "ANone".to_string(),
    }
}
fn req_coq(r: &Req) -> String {
    let groups = glist(&ops_of(r).iter().map(|g| glist(&g.iter().map(|st| glist(st)).collect::<Vec<_>>())).collect::<Vec<_>>());
    let marks = glist(&marks_of(r).iter().map(|m| gn(*m)).collect::<Vec<_>>());
    format!("(mkReq {} {} {} {})", kind_of(r), groups, marks, auth_of(r))
}

/// trace entries that are instrumentation points (the others describe the batch about to be written)
fn is_point(t: &(u8, u8)) -> bool { t.0 <= vf::P_ACK || t.0 >= vf::P_STMT }

// ------------------------------------------------------------------ database access shared by child (live view) and verifier
fn db_location(dir: &Path, key: &[u8; 32]) -> (PathBuf, [u8; 32]) {
    let signature_key = derive_key(&format!("{} SIGNING_KEY", APP), key);
    let secret = derive_key("DATABASE_SECRET", &signature_key);
    let name = base64_encode(&derive_key("DATABASE_NAME", &secret));
    let mut p = dir.to_path_buf();
    p.push(&name[0..2]);
    p.push(&name);
    (p, secret)
}
fn signing_key(key: &[u8; 32]) -> Ed25519SigningKey {
    Ed25519SigningKey::create_from(&derive_key(&format!("{} SIGNING_KEY", APP), key))
}

#[derive(Default)]
struct State {
    nodes: Vec<(Vec<u8>, Option<Vec<u8>>, String, i64, Vec<String>, Vec<u8>)>, // id, room, entity, mdate, strings of the json, signature
    edges: HashSet<(Vec<u8>, Vec<u8>)>,
    node_tombs: Vec<(Vec<u8>, Vec<u8>, String, i64, Vec<u8>)>, // room, id, entity, deletion date, signature
    edge_tombs: Vec<(Vec<u8>, String, i64, Vec<u8>)>,
    log: Vec<(Vec<u8>, String, i64, i64, Option<Vec<u8>>, Option<i64>)>, // room, entity, date, entry_number, daily_hash, need_recompute
    config: HashSet<String>,
    changelog: HashSet<Vec<u8>>,
    journal_mode: String,
}
fn strings_of(json: &Option<String>) -> Vec<String> {
    let mut out = vec![];
    if let Some(j) = json {
        if let Ok(serde_json::Value::Object(m)) = serde_json::from_str::<serde_json::Value>(j) {
            for (_, v) in m { if let serde_json::Value::String(s) = v { out.push(s); } }
        }
    }
    out
}
fn dump(path: &PathBuf, secret: &[u8; 32]) -> Result<State, String> {
    let conn = create_connection(path, secret, 512, false).map_err(|e| e.to_string())?;
    let e = |e: rusqlite::Error| e.to_string();
    let mut st = State::default();
    st.journal_mode = conn.query_row("PRAGMA journal_mode", [], |r| r.get::<_, String>(0)).map_err(e)?;
    {
        let mut s = conn.prepare("SELECT id, room_id, _entity, mdate, _json, _signature FROM _node").map_err(e)?;
        let mut rows = s.query([]).map_err(e)?;
        while let Some(r) = rows.next().map_err(e)? {
            let j: Option<String> = r.get(4).map_err(e)?;
            st.nodes.push((r.get(0).map_err(e)?, r.get(1).map_err(e)?, r.get(2).map_err(e)?, r.get(3).map_err(e)?, strings_of(&j), r.get(5).map_err(e)?));
        }
        let mut s = conn.prepare("SELECT src, dest FROM _edge").map_err(e)?;
        let mut rows = s.query([]).map_err(e)?;
        while let Some(r) = rows.next().map_err(e)? { st.edges.insert((r.get(0).map_err(e)?, r.get(1).map_err(e)?)); }
        let mut s = conn.prepare("SELECT room_id, id, entity, deletion_date, signature FROM _node_deletion_log").map_err(e)?;
        let mut rows = s.query([]).map_err(e)?;
        while let Some(r) = rows.next().map_err(e)? {
            st.node_tombs.push((r.get(0).map_err(e)?, r.get(1).map_err(e)?, r.get(2).map_err(e)?, r.get(3).map_err(e)?, r.get(4).map_err(e)?));
        }
        let mut s = conn.prepare("SELECT room_id, src_entity, deletion_date, signature FROM _edge_deletion_log").map_err(e)?;
        let mut rows = s.query([]).map_err(e)?;
        while let Some(r) = rows.next().map_err(e)? { st.edge_tombs.push((r.get(0).map_err(e)?, r.get(1).map_err(e)?, r.get(2).map_err(e)?, r.get(3).map_err(e)?)); }
        let mut s = conn.prepare("SELECT room_id, entity, date, entry_number, daily_hash, need_recompute FROM _daily_log").map_err(e)?;
        let mut rows = s.query([]).map_err(e)?;
        while let Some(r) = rows.next().map_err(e)? {
            st.log.push((r.get(0).map_err(e)?, r.get(1).map_err(e)?, r.get(2).map_err(e)?, r.get(3).map_err(e)?, r.get(4).map_err(e)?, r.get(5).map_err(e)?));
        }
        let mut s = conn.prepare("SELECT key FROM _configuration").map_err(e)?;
        let mut rows = s.query([]).map_err(e)?;
        while let Some(r) = rows.next().map_err(e)? { st.config.insert(r.get(0).map_err(e)?); }
        let mut s = conn.prepare("SELECT room_id FROM _room_changelog").map_err(e)?;
        let mut rows = s.query([]).map_err(e)?;
        while let Some(r) = rows.next().map_err(e)? { st.changelog.insert(r.get(0).map_err(e)?); }
    }
    Ok(st)
}
struct Ids { room: Vec<u8>, setup: Vec<Vec<u8>>, ent_person: String, ent_pet: String }

/// visibility of one request in a database state: 0 = no effect, 1 = whole effect, 2 = partial
fn vis_of(r: &Req, st: &State, ids: &Ids) -> i64 {
    let by_name = |n: &str| -> Option<&(Vec<u8>, Option<Vec<u8>>, String, i64, Vec<String>, Vec<u8>)> { st.nodes.iter().find(|x| x.4.iter().any(|s| s == n)) };
    let by_id = |id: &Vec<u8>| st.nodes.iter().find(|x| &x.0 == id);
    let mut tot = 0; let mut ok = 0; let mut partial = false;
    let mut chk = |b: bool| { tot += 1; if b { ok += 1; } };
    match r {
        Req::Mut { persons, .. } => {
            for (p, pets) in persons {
                let pn = by_name(&format!("L{}", p));
                chk(pn.map(|x| x.2 == ids.ent_person && x.1.as_ref() == Some(&ids.room)).unwrap_or(false));
                for q in pets {
                    let qn = by_name(&format!("L{}", q));
                    chk(qn.map(|x| x.2 == ids.ent_pet && x.1.as_ref() == Some(&ids.room)).unwrap_or(false));
                    chk(match (pn, qn) { (Some(a), Some(b)) => st.edges.contains(&(a.0.clone(), b.0.clone())), _ => false });
                }
            }
        }
        Req::Upd { target, label } => chk(by_id(&ids.setup[*target]).map(|x| x.4.iter().any(|s| s == &format!("L{}", label))).unwrap_or(false)),
        Req::Del { target } => {
            let gone = by_id(&ids.setup[*target]).is_none();
            let tomb = st.node_tombs.iter().any(|t| t.1 == ids.setup[*target]);
            if gone != tomb { partial = true; }
            chk(gone && tomb);
        }
        Req::Nodes { labels } => for l in labels { chk(by_name(&format!("L{}", l)).map(|x| x.2 == ids.ent_person).unwrap_or(false)); },
        Req::Room { label } => {
            let a = by_name(&format!("A{}", label));
            chk(a.is_some());
            let room = a.and_then(|a| st.edges.iter().find(|e| e.1 == a.0).map(|e| e.0.clone()));
            chk(room.map(|rid| by_id(&rid).is_some() && st.changelog.contains(&rid)).unwrap_or(false));
        }
        Req::RoomUpd { label, pet, .. } => {
            let a = by_name(&format!("A{}", label));
            chk(a.map(|a| st.edges.contains(&(ids.room.clone(), a.0.clone()))).unwrap_or(false));
            if let Some(q) = pet { chk(by_name(&format!("L{}", q)).map(|x| x.2 == ids.ent_pet && x.1.as_ref() == Some(&ids.room)).unwrap_or(false)); }
        }
        Req::Edges { links } => for l in links { chk(st.edges.contains(&(ids.setup[l.0].clone(), ids.setup[l.1].clone()))); },
        Req::Compute => {}
        Req::Write { key } => chk(st.config.contains(&format!("verif_{}", key))),
    }
    if partial { 2 } else if ok == tot { 1 } else if ok == 0 { 0 } else { 2 }
}

/// (log invariant, log consistent) for the Person / Pet cells of the main room:
/// invariant  = every (entity, day) whose stored entry differs from the rows is marked for recompute;
/// consistent = every (entity, day) with rows has a clean entry with the right count and hash
fn log_check(st: &State, ids: &Ids) -> (bool, bool) {
    let mut cells: HashMap<(String, i64), Vec<Vec<u8>>> = HashMap::new();
    let day = |d: i64| d.div_euclid(DAY) * DAY;
    for n in &st.nodes {
        if n.1.as_ref() == Some(&ids.room) && (n.2 == ids.ent_person || n.2 == ids.ent_pet) { cells.entry((n.2.clone(), day(n.3))).or_default().push(n.5.clone()); }
    }
    for t in &st.node_tombs {
        if t.0 == ids.room && (t.2 == ids.ent_person || t.2 == ids.ent_pet) { cells.entry((t.2.clone(), day(t.3))).or_default().push(t.4.clone()); }
    }
    for t in &st.edge_tombs {
        if t.0 == ids.room && (t.1 == ids.ent_person || t.1 == ids.ent_pet) { cells.entry((t.1.clone(), day(t.2))).or_default().push(t.3.clone()); }
    }
    for l in &st.log {
        if l.0 == ids.room && (l.1 == ids.ent_person || l.1 == ids.ent_pet) { cells.entry((l.1.clone(), l.2)).or_default(); }
    }
    let (mut inv, mut cons) = (true, true);
    for ((ent, date), sigs) in cells.iter_mut() {
        sigs.sort();
        let hash = if sigs.is_empty() { None } else { let mut h = blake3::Hasher::new(); for s in sigs.iter() { h.update(s); } Some(h.finalize().as_bytes().to_vec()) };
        match st.log.iter().find(|l| l.0 == ids.room && &l.1 == ent && l.2 == *date) {
            None => { if !sigs.is_empty() { inv = false; cons = false; } }
            Some(l) => {
                let dirty = l.5 == Some(1);
                let right = l.3 == sigs.len() as i64 && l.4 == hash;
                if dirty { cons = false; } else if !right { inv = false; cons = false; }
            }
        }
    }
    (inv, cons)
}

fn ids_from(out: &str, st: &State) -> Ids {
    let mut room = vec![]; let mut setup = vec![]; let mut pet = vec![];
    for l in out.lines() {
        let f: Vec<&str> = l.split(' ').collect();
        match f[0] { "R" => room = hex::decode(f[1]).unwrap(), "S" => setup.push(hex::decode(f[2]).unwrap()), "P" => pet = hex::decode(f[1]).unwrap(), _ => {} }
    }
    let ent = |id: &Vec<u8>| st.nodes.iter().find(|x| &x.0 == id).map(|x| x.2.clone());
    // the entity codes are read from rows the (fault-free) set-up created; a deleted set-up row is replaced by another one
    let ent_person = setup.iter().filter_map(|i| ent(i)).next().unwrap_or_default();
    let ent_pet = ent(&pet).unwrap_or_default();
    Ids { room, setup, ent_person, ent_pet }
}

// ------------------------------------------------------------------ child
extern "C" { fn _exit(code: i32) -> !; }
/// leave without running exit handlers: the instance's threads are still using SQLCipher / OpenSSL
fn quit() -> ! {
    let _ = std::io::stdout().flush();
    unsafe { _exit(0) }
}
struct Gate { key: u64, entered: Option<tokio::sync::oneshot::Sender<()>>, release: std::sync::mpsc::Receiver<()> }
impl Writeable for Gate {
    fn write(&mut self, conn: &rusqlite::Connection) -> std::result::Result<(), rusqlite::Error> {
        if let Some(e) = self.entered.take() { let _ = e.send(()); }
        let _ = self.release.recv_timeout(Duration::from_millis(15000));
        conn.execute("INSERT OR REPLACE INTO _configuration(key, value) VALUES (?, 'x')", [format!("verif_{}", self.key)])?;
        Ok(())
    }
}
struct ConfWrite { key: u64 }
impl Writeable for ConfWrite {
    fn write(&mut self, conn: &rusqlite::Connection) -> std::result::Result<(), rusqlite::Error> {
        conn.execute("INSERT OR REPLACE INTO _configuration(key, value) VALUES (?, 'x')", [format!("verif_{}", self.key)])?;
        Ok(())
    }
}

#[derive(Clone)]
struct Log(Arc<Mutex<std::fs::File>>);
impl Log {
    fn line(&self, s: String) { let mut f = self.0.lock().unwrap(); let _ = f.write_all(format!("{}\n", s).as_bytes()); }
}

async fn wait_data_changed(ev: &mut tokio::sync::broadcast::Receiver<Event>, n: usize, ms: u64) -> bool {
    let mut got = 0;
    let deadline = tokio::time::Instant::now() + Duration::from_millis(ms);
    while got < n {
        match tokio::time::timeout_at(deadline, ev.recv()).await {
            Ok(Ok(Event::DataChanged(_))) => got += 1,
            Ok(Ok(_)) => {}
            Ok(Err(_)) => {}
            Err(_) => return false,
        }
    }
    true
}

fn key32(v: &[u8]) -> [u8; 32] { let mut k = [0u8; 32]; k.copy_from_slice(v); k }

async fn start(dir: &Path, key: &[u8; 32], buffer: usize, events: EventService) -> (GraphDatabaseService, Vec<u8>) {
    let conf = Configuration { parallelism: 1, write_buffer_length: buffer, ..Configuration::default() };
    let pubkey = derive_key("c13 public", key);
    let (svc, vk, _) = GraphDatabaseService::start(APP, MODEL, key, &pubkey, dir.to_path_buf(), &conf, events).await.expect("start");
    (svc, vk)
}

async fn child(dir: PathBuf, spec: PathBuf, mode: u8, k: u64, out: PathBuf) {
    let w: Workload = serde_json::from_str(&std::fs::read_to_string(spec).unwrap()).unwrap();
    let key = key32(&w.key);
    let log = Log(Arc::new(Mutex::new(std::fs::File::create(&out).unwrap())));
    let events = EventService::new();
    let mut ev = events.subcribe().await;
    let (svc, vk) = start(&dir, &key, w.buffer, events).await;
    // ---- set-up (not armed): the main room, the rows later requests update or delete
    let mut p = Parameters::default();
    p.add("me", base64_encode(&vk)).unwrap();
    let room = svc.mutate_raw(r#"mutate { sys.Room{ admin:[{verif_key:$me}] authorisations:[{ name:"main" rights:[{entity:"ns.Person" mutate_self:true mutate_all:true},{entity:"*" mutate_self:true mutate_all:true}] }] } }"#, Some(p)).await.expect("room");
    let room_id: Uid = room.mutate_entities[0].node_to_mutate.id;
    let room_b64 = base64_encode(&room_id);
    let auth_b64 = base64_encode(&room.mutate_entities[0].sub_nodes.get("authorisations").unwrap()[0].node_to_mutate.id);
    let mut text = String::from("mutate { ");
    for i in 0..w.n_setup { text += &format!("s{}: ns.Person{{ room_id:$room name:\"S{}\" }} ", i, i); }
    text += "sp: ns.Person{ room_id:$room name:\"SP\" pets:[{name:\"SPET\"}] } }";
    let mut p = Parameters::default();
    p.add("room", room_b64.clone()).unwrap();
    let setup = svc.mutate_raw(&text, Some(p)).await.expect("setup");
    let mut setup_ids: Vec<Uid> = vec![];
    for i in 0..w.n_setup { setup_ids.push(setup.mutate_entities[i].node_to_mutate.id); }
    let pet_id = setup.mutate_entities[w.n_setup].sub_nodes.get("pets").unwrap()[0].node_to_mutate.id;
    let sp_id = setup.mutate_entities[w.n_setup].node_to_mutate.id;
    // start-up recompute + one recompute per mutate_raw: wait until the writer is quiet
    let quiet = wait_data_changed(&mut ev, 3, 20000).await;
    log.line(format!("R {}", hex::encode(room_id)));
    for (i, id) in setup_ids.iter().enumerate() { log.line(format!("S {} {}", i, hex::encode(id))); }
    log.line(format!("P {}", hex::encode(pet_id)));
    log.line(format!("Q {}", quiet as u8));
    // a stored row as template of ingested rows
    let template: Node = {
        let mut rx = svc.get_nodes(room_id, vec![sp_id]).await;
        rx.recv().await.unwrap().unwrap().pop().unwrap()
    };
    let sk = signing_key(&key);

    let trace = std::fs::File::create(out.with_extension("trace")).unwrap();
    vf::arm(mode, k, GRACE_MS, Some(trace));

    let pending = Arc::new(AtomicUsize::new(0));
    let flat = w.flat();
    let mut idx = 0usize;
    for (pi, phase) in w.phases.iter().enumerate() {
        // gate: a generic write that keeps the writer thread busy while the phase's requests queue up
        let (etx, erx) = tokio::sync::oneshot::channel::<()>();
        let (rtx, rrx) = std::sync::mpsc::channel::<()>();
        {
            let (reply, recv) = tokio::sync::oneshot::channel();
            let stmt: WriteStmt = Box::new(Gate { key: 900 + pi as u64, entered: Some(etx), release: rrx });
            pending.fetch_add(1, Ordering::SeqCst);
            let _ = svc.db.writer.send(WriteMessage::Write(stmt, reply)).await;
            let (lg, pd, i) = (log.clone(), pending.clone(), idx);
            tokio::spawn(async move {
                let (code, msg) = match recv.await { Ok(Ok(_)) => (1, String::new()), Ok(Err(e)) => (2, e.to_string().replace('\n', " ")), Err(_) => (3, String::new()) };
                lg.line(format!("A {} {} {}", i, code, msg));
                pd.fetch_sub(1, Ordering::SeqCst);
            });
            idx += 1;
        }
        // entered, or answered without being entered (BEGIN failed)
        let before = pending.load(Ordering::SeqCst);
        tokio::select! {
            _ = erx => {}
            _ = async { loop { tokio::time::sleep(Duration::from_millis(2)).await; if pending.load(Ordering::SeqCst) < before { break; } } } => {}
            _ = tokio::time::sleep(Duration::from_millis(10000)) => {}
        }
        for r in phase {
            let i = idx;
            idx += 1;
            let (lg, pd) = (log.clone(), pending.clone());
            macro_rules! ack_task { ($recv:expr) => {{
                pending.fetch_add(1, Ordering::SeqCst);
                let recv = $recv;
                tokio::spawn(async move {
                    let (code, msg) = match recv.await { Ok(Ok(_)) => (1, String::new()), Ok(Err(e)) => (2, e.to_string().replace('\n', " ")), Err(_) => (3, String::new()) };
                    lg.line(format!("A {} {} {}", i, code, msg));
                    pd.fetch_sub(1, Ordering::SeqCst);
                });
            }}; }
            match r {
                Req::Mut { persons, stream } => {
                    let mut text = String::from("mutate { ");
                    for (j, (pl, pets)) in persons.iter().enumerate() {
                        text += &format!("p{}: ns.Person{{ room_id:$room name:\"L{}\" ", j, pl);
                        if !pets.is_empty() { text += &format!("pets:[{}] ", pets.iter().map(|q| format!("{{name:\"L{}\"}}", q)).collect::<Vec<_>>().join(",")); }
                        text += "} ";
                    }
                    text += "}";
                    let mut p = Parameters::default();
                    p.add("room", room_b64.clone()).unwrap();
                    if *stream {
                        // the streaming interface: answered on an mpsc channel
                        let (reply, mut recv) = tokio::sync::mpsc::channel(2);
                        let _ = svc.sender.send(DbMessage::MutateStream(text, p, reply)).await;
                        pending.fetch_add(1, Ordering::SeqCst);
                        tokio::spawn(async move {
                            let (code, msg) = match recv.recv().await { Some(Ok(_)) => (1, String::new()), Some(Err(e)) => (2, e.to_string().replace('\n', " ")), None => (3, String::new()) };
                            lg.line(format!("A {} {} {}", i, code, msg));
                            pd.fetch_sub(1, Ordering::SeqCst);
                        });
                    } else {
                        let (reply, recv) = tokio::sync::oneshot::channel();
                        let _ = svc.sender.send(DbMessage::Mutate(text, p, reply)).await;
                        ack_task!(recv);
                    }
                }
                Req::Upd { target, label } => {
                    let mut p = Parameters::default();
                    p.add("id", base64_encode(&setup_ids[*target])).unwrap();
                    let (reply, recv) = tokio::sync::oneshot::channel();
                    let _ = svc.sender.send(DbMessage::Mutate(format!("mutate {{ ns.Person{{ id:$id name:\"L{}\" }} }}", label), p, reply)).await;
                    ack_task!(recv);
                }
                Req::Del { target } => {
                    let mut p = Parameters::default();
                    p.add("id", base64_encode(&setup_ids[*target])).unwrap();
                    let (reply, recv) = tokio::sync::oneshot::channel();
                    let _ = svc.sender.send(DbMessage::Delete("delete { ns.Person{ $id } }".to_string(), p, reply)).await;
                    ack_task!(recv);
                }
                Req::Nodes { labels } => {
                    let mut nodes = vec![];
                    for l in labels {
                        let mut n = template.clone();
                        n.id = new_uid();
                        n._local_id = None;
                        n._json = n._json.map(|j| j.replace("\"SP\"", &format!("\"L{}\"", l)));
                        n.sign(&sk).unwrap();
                        nodes.push(NodeToInsert { id: n.id, node: Some(n), entity_name: None, index: true, old_room_id: None, old_entity: None, old_mdate: 0, old_verifying_key: None, old_local_id: None, old_fts_str: None, node_fts_str: None });
                    }
                    let (reply, recv) = tokio::sync::oneshot::channel();
                    let _ = svc.sender.send(DbMessage::AddNodes(room_id, nodes, reply)).await;
                    ack_task!(recv);
                }
                Req::Edges { links } => {
                    // validly signed references between two stored rows of the room, as the synchronisation delivers them
                    let mut edges = vec![];
                    for l in links {
                        let mut e = Edge { src: setup_ids[l.0], src_entity: template._entity.clone(), label: "pets".to_string(), dest: setup_ids[l.1], cdate: template.cdate, verifying_key: vec![], signature: vec![] };
                        e.sign(&sk).unwrap();
                        edges.push(e);
                    }
                    let (reply, recv) = tokio::sync::oneshot::channel();
                    let _ = svc.sender.send(DbMessage::AddEdges(room_id, edges, reply)).await;
                    ack_task!(recv);
                }
                Req::Room { label } => {
                    let mut p = Parameters::default();
                    p.add("me", base64_encode(&vk)).unwrap();
                    let (reply, recv) = tokio::sync::oneshot::channel();
                    let text = format!("mutate {{ sys.Room{{ admin:[{{verif_key:$me}}] authorisations:[{{ name:\"A{}\" rights:[{{entity:\"ns.Person\" mutate_self:true mutate_all:true}}] }}] }} }}", label);
                    let _ = svc.sender.send(DbMessage::Mutate(text, p, reply)).await;
                    ack_task!(recv);
                }
                Req::RoomUpd { label, revoke_pet, pet } => {
                    let mut p = Parameters::default();
                    p.add("room", room_b64.clone()).unwrap();
                    p.add("rid", room_b64.clone()).unwrap();
                    p.add("auth", auth_b64.clone()).unwrap();
                    let (reply, recv) = tokio::sync::oneshot::channel();
                    let revoke = if *revoke_pet { "{ id:$auth rights:[{entity:\"ns.Pet\" mutate_self:false mutate_all:false}] }, " } else { "" };
                    let petrow = match pet { Some(q) => format!(" q: ns.Pet{{ room_id:$rid name:\"L{}\" }}", q), None => String::new() };
                    let text = format!("mutate {{ sys.Room{{ id:$room authorisations:[{}{{ name:\"A{}\" }}] }}{} }}", revoke, label, petrow);
                    let _ = svc.sender.send(DbMessage::Mutate(text, p, reply)).await;
                    ack_task!(recv);
                }
                Req::Compute => { let _ = svc.sender.send(DbMessage::ComputeDailyLog()).await; }
                Req::Write { key } => {
                    let (reply, recv) = tokio::sync::oneshot::channel();
                    let stmt: WriteStmt = Box::new(ConfWrite { key: *key });
                    let _ = svc.db.writer.send(WriteMessage::Write(stmt, reply)).await;
                    ack_task!(recv);
                }
            }
        }
        tokio::time::sleep(Duration::from_millis(w.gate_ms)).await;
        let _ = rtx.send(());
        // every acknowledgement of the phase, before the next phase is submitted
        let deadline = tokio::time::Instant::now() + Duration::from_millis(20000);
        while pending.load(Ordering::SeqCst) > 0 && tokio::time::Instant::now() < deadline { tokio::time::sleep(Duration::from_millis(1)).await; }
        if pending.load(Ordering::SeqCst) > 0 { log.line(format!("T {}", pi)); }
    }
    // a recompute request has no acknowledgement. The database actor forwards messages in order, so once it has
    // answered a DataModel request every recompute is in the writer's queue; the closing write queues behind them
    {
        let (reply, recv) = tokio::sync::oneshot::channel();
        let _ = svc.sender.send(DbMessage::DataModel(reply)).await;
        let _ = tokio::time::timeout(Duration::from_millis(20000), recv).await;
        let (reply, recv) = tokio::sync::oneshot::channel();
        let stmt: WriteStmt = Box::new(ConfWrite { key: 999 });
        pending.fetch_add(1, Ordering::SeqCst);
        let _ = svc.db.writer.send(WriteMessage::Write(stmt, reply)).await;
        let (lg, pd, i) = (log.clone(), pending.clone(), idx);
        tokio::spawn(async move {
            let (code, msg) = match recv.await { Ok(Ok(_)) => (1, String::new()), Ok(Err(e)) => (2, e.to_string().replace('\n', " ")), Err(_) => (3, String::new()) };
            lg.line(format!("A {} {} {}", i, code, msg));
            pd.fetch_sub(1, Ordering::SeqCst);
        });
        let deadline = tokio::time::Instant::now() + Duration::from_millis(20000);
        while pending.load(Ordering::SeqCst) > 0 && tokio::time::Instant::now() < deadline { tokio::time::sleep(Duration::from_millis(1)).await; }
        if pending.load(Ordering::SeqCst) > 0 { log.line(format!("T {}", w.phases.len())); }
        // the writer thread is behind the acknowledgement loop of the closing batch
        tokio::time::sleep(Duration::from_millis(3)).await;
    }
    let (hits, fired) = (vf::hits(), vf::fired());
    vf::disarm();
    // live view: what a later query on another connection sees
    let (path, secret) = db_location(&dir, &key);
    match dump(&path, &secret) {
        Ok(st) => {
            let ids = ids_from(&std::fs::read_to_string(&out).unwrap(), &st);
            for (i, (_, r)) in flat.iter().enumerate() { log.line(format!("L {} {}", i, vis_of(r, &st, &ids))); }
        }
        Err(e) => log.line(format!("X dump {}", e.replace('\n', " "))),
    }
    log.line(format!("END {} {}", fired, hits));
    quit();
}

// ------------------------------------------------------------------ restart child
/// `c13 restart <dir> <workload.json> <mode> <k> <out>`: opens an existing folder with the points armed BEFORE
/// GraphDatabaseService::start, so that the k-th point hit by the start-up writes / the start-up recompute fires
async fn restart_child(dir: PathBuf, spec: PathBuf, mode: u8, k: u64, out: PathBuf) {
    let w: Workload = serde_json::from_str(&std::fs::read_to_string(spec).unwrap()).unwrap();
    let key = key32(&w.key);
    let log = Log(Arc::new(Mutex::new(std::fs::File::create(&out).unwrap())));
    let trace = std::fs::File::create(out.with_extension("trace")).unwrap();
    vf::arm(mode, k, GRACE_MS, Some(trace));
    let conf = Configuration { parallelism: 1, ..Configuration::default() };
    let pubkey = derive_key("c13 public", &key);
    match GraphDatabaseService::start(APP, MODEL, &key, &pubkey, dir.clone(), &conf, EventService::new()).await {
        Err(e) => { log.line(format!("SF {}", e.to_string().replace('\n', " "))); }
        Ok((svc, _, _)) => {
            log.line("SO".to_string());
            // the closing write behind the start-up recompute
            let (reply, recv) = tokio::sync::oneshot::channel();
            let _ = svc.sender.send(DbMessage::DataModel(reply)).await;
            let _ = tokio::time::timeout(Duration::from_millis(20000), recv).await;
            let (reply, recv) = tokio::sync::oneshot::channel();
            let stmt: WriteStmt = Box::new(ConfWrite { key: 998 });
            let _ = svc.db.writer.send(WriteMessage::Write(stmt, reply)).await;
            let code = match tokio::time::timeout(Duration::from_millis(20000), recv).await { Ok(Ok(Ok(_))) => 1, Ok(Ok(Err(_))) => 2, _ => 3 };
            log.line(format!("A 0 {}", code));
            tokio::time::sleep(Duration::from_millis(3)).await;
        }
    }
    log.line(format!("END {} {}", vf::fired(), vf::hits()));
    quit();
}

// ------------------------------------------------------------------ verifier
async fn verify(dir: PathBuf, spec: PathBuf, out: PathBuf) {
    let w: Workload = serde_json::from_str(&std::fs::read_to_string(spec).unwrap()).unwrap();
    let key = key32(&w.key);
    let outs = std::fs::read_to_string(&out).unwrap();
    let (path, secret) = db_location(&dir, &key);
    // 1. the file as the dead (or finished) process left it
    let st0 = dump(&path, &secret).expect("dump before restart");
    let ids = ids_from(&outs, &st0);
    let (inv0, _) = log_check(&st0, &ids);
    // 2. a normal start; the start-up recompute
    let events = EventService::new();
    let mut ev = events.subcribe().await;
    let (svc, _vk) = start(&dir, &key, 1024, events).await;
    let recomputed = wait_data_changed(&mut ev, 1, 20000).await;
    if !recomputed { eprintln!("the start-up recompute was not announced within 20 s"); std::process::exit(4); }
    let st1 = dump(&path, &secret).expect("dump after restart");
    let (inv1, cons1) = log_check(&st1, &ids);
    let flat = w.flat();
    let vis: Vec<i64> = flat.iter().map(|(_, r)| vis_of(r, &st1, &ids)).collect();
    let vis0: Vec<i64> = flat.iter().map(|(_, r)| vis_of(r, &st0, &ids)).collect();
    // 3. what the query interface answers
    let api = svc.query("query { ns.Person{ name } }", None).await.unwrap_or_default();
    let api_names: Vec<String> = serde_json::from_str::<serde_json::Value>(&api).ok()
        .and_then(|v| v.get("ns.Person").and_then(|a| a.as_array().cloned()))
        .map(|a| a.iter().filter_map(|x| x.get("name").and_then(|n| n.as_str()).map(|s| s.to_string())).collect()).unwrap_or_default();
    let sql_names: HashSet<String> = st1.nodes.iter().filter(|n| n.2 == ids.ent_person && n.1.as_ref() == Some(&ids.room)).flat_map(|n| n.4.clone()).collect();
    let api_ok = api_names.iter().cloned().collect::<HashSet<_>>() == sql_names;
    // 4. the writer works again after the restart
    let mut p = Parameters::default();
    p.add("room", base64_encode(&ids.room)).unwrap();
    let again = svc.mutate_raw(r#"mutate { ns.Person{ room_id:$room name:"AFTER" } }"#, Some(p)).await.is_ok();
    println!("{}", json!({"inv0": inv0, "inv1": inv1, "cons1": cons1, "recomputed": recomputed, "vis": vis, "vis0": vis0, "api_ok": api_ok, "again": again, "journal_mode": st1.journal_mode, "closing998": st1.config.contains("verif_998")}));
    quit();
}

// ------------------------------------------------------------------ parent
fn gen_workload(rng: &mut Rng, n_phases: usize, max_reqs: usize) -> Workload {
    let n_setup = 4;
    let mut free_targets: Vec<usize> = (0..n_setup).collect();
    let mut label = 100u64;
    let mut next = || { label += 1; label };
    let mut phases = vec![];
    for _ in 0..n_phases {
        let n = 1 + rng.below(max_reqs as u64) as usize;
        let mut ph = vec![];
        for _ in 0..n {
            let r = match rng.below(20) {
                0..=6 => {
                    let np = 1 + rng.below(2) as usize;
                    Req::Mut { persons: (0..np).map(|_| { let p = next(); let pets = (0..rng.below(3)).map(|_| next()).collect(); (p, pets) }).collect(), stream: rng.chance(1, 4) }
                }
                7..=9 if !free_targets.is_empty() => { let t = free_targets.remove(rng.below(free_targets.len() as u64) as usize); Req::Upd { target: t, label: next() } }
                10..=12 if !free_targets.is_empty() => { let t = free_targets.remove(rng.below(free_targets.len() as u64) as usize); Req::Del { target: t } }
                13..=14 => Req::Nodes { labels: (0..1 + rng.below(3)).map(|_| next()).collect() },
                15 => Req::Room { label: next() },
                16 => Req::RoomUpd { label: next(), revoke_pet: false, pet: if rng.chance(1, 2) { Some(next()) } else { None } },
                17..=18 => Req::Compute,
                _ => Req::Write { key: next() },
            };
            ph.push(r);
        }
        phases.push(ph);
    }
    let mut key = vec![0u8; 32];
    for b in key.iter_mut() { *b = rng.below(256) as u8; }
    Workload { key, n_setup, phases, gate_ms: 12, buffer: *rng.pick(&[1024usize, 1024, 1024, 2, 1]) }
}

struct RunResult { mode: u8, k: u64, alive: bool, out: String, trace: Vec<(u8, u8)>, ver: Option<serde_json::Value>, err: Option<String>, retries: usize }

fn run_one(exe: &Path, base: &Path, wid: usize, spec: &Path, mode: u8, k: u64) -> RunResult {
    // a run in which a phase was not answered within the (generous) time limit, or which broke, is repeated once
    let r = run_once(exe, base, wid, spec, mode, k);
    if r.err.is_some() || r.out.lines().any(|l| l.starts_with("T ") || l == "Q 0") { return run_once(exe, base, wid, spec, mode, k); }
    r
}
fn run_once(exe: &Path, base: &Path, wid: usize, spec: &Path, mode: u8, k: u64) -> RunResult {
    let dir = base.join(format!("w{}_{}_{}", wid, mode, k));
    let _ = std::fs::remove_dir_all(&dir);
    std::fs::create_dir_all(&dir).unwrap();
    let out = dir.join("acks.txt");
    let mut res = RunResult { mode, k, alive: false, out: String::new(), trace: vec![], ver: None, err: None, retries: 0 };
    let st = std::process::Command::new(exe).arg("child").arg(&dir).arg(spec).arg(mode.to_string()).arg(k.to_string()).arg(&out)
        .stdout(std::process::Stdio::null()).stderr(std::process::Stdio::piped()).output();
    match st {
        Ok(o) => {
            res.alive = o.status.success();
            res.out = std::fs::read_to_string(&out).unwrap_or_default();
            if !res.alive && !(mode == vf::MODE_KILL && o.status.code().is_none()) {
                res.err = Some(format!("child ended unexpectedly: {:?} {}", o.status, String::from_utf8_lossy(&o.stderr).chars().take(600).collect::<String>()));
            }
        }
        Err(e) => res.err = Some(format!("spawn: {}", e)),
    }
    let tr = std::fs::read(out.with_extension("trace")).unwrap_or_default();
    res.trace = tr.chunks(2).filter(|c| c.len() == 2).map(|c| (c[0], c[1])).collect();
    if res.err.is_none() {
        // the verifier is idempotent as far as the judged observations go; a crash of the verifier process itself
        // (seen twice in ~500 runs: glibc reports heap corruption while several SQLCipher connections are opened)
        // is retried and counted
        for attempt in 0..3 {
            let v = std::process::Command::new(exe).arg("verify").arg(&dir).arg(spec).arg(&out).stderr(std::process::Stdio::piped()).output();
            match v {
                Ok(o) if o.status.success() => {
                    res.ver = serde_json::from_slice(&o.stdout).ok();
                    res.err = if res.ver.is_none() { Some("verifier output unreadable".into()) } else { None };
                    res.retries = attempt;
                    break;
                }
                Ok(o) => res.err = Some(format!("verifier failed: {}", String::from_utf8_lossy(&o.stderr).chars().take(600).collect::<String>())),
                Err(e) => res.err = Some(format!("spawn verifier: {}", e)),
            }
        }
    }
    if std::env::var("VERIF_C13_KEEP").is_err() || res.err.is_none() { let _ = std::fs::remove_dir_all(&dir); }
    res
}

/// the batches the writer formed, from the trace: per batch the (arm, groups) of its messages and
/// the index in the trace where it starts
fn batches_of(trace: &[(u8, u8)]) -> Vec<Vec<(u8, usize)>> {
    let mut out: Vec<Vec<(u8, usize)>> = vec![];
    let mut cur: Vec<(u8, usize)> = vec![];
    let mut i = 0;
    while i < trace.len() {
        match trace[i].0 {
            vf::T_MSG => { let n = if i + 1 < trace.len() && trace[i + 1].0 == vf::T_LEN { trace[i + 1].1 as usize } else { 1 }; cur.push((trace[i].1, n)); i += 1; }
            vf::P_BEGIN => { out.push(std::mem::take(&mut cur)); }
            _ => {}
        }
        i += 1;
    }
    out
}

fn build_case(w: &Workload, wid: usize, r: &RunResult, hits_free: u64) -> Case {
    let flat = w.flat();
    let meta_base = json!({"workload": wid, "mode": r.mode, "k": r.k, "hits_fault_free": hits_free});
    let skip = |why: String| Case { kind: "unscheduled".into(), coq: "CSkip".into(), obs: vec![], meta: json!({"base": meta_base, "why": why}) };
    if let Some(e) = &r.err { return Case { kind: "broken-run".into(), coq: "CSkip".into(), obs: vec![-1], meta: json!({"base": meta_base, "error": e}) }; }
    let ver = r.ver.as_ref().unwrap();
    // assignment of requests to batches: first in first out per writer arm
    let batches = batches_of(&r.trace);
    let mut queues: HashMap<u8, Vec<usize>> = HashMap::new();
    for (i, (_, q)) in flat.iter().enumerate() { queues.entry(arm_of(q).0).or_default().push(i); }
    for q in queues.values_mut() { q.reverse(); }
    let mut assigned: Vec<Vec<usize>> = vec![];
    // a trace that cannot be attributed (the writer wrote a message the workload did not send, or wrote one twice) is
    // NOT skipped: the case is still judged by the oracle on acknowledgements and visibility (every request then
    // counts as "never reached a batch", so the model disagrees in any case and the check reports the run)
    let mut unattributable: Option<String> = None;
    'outer: for b in &batches {
        let mut reqs = vec![];
        for (arm, groups) in b {
            if *arm == 13 { continue; }
            match queues.get_mut(arm).and_then(|q| q.pop()) {
                Some(i) if arm_of(&flat[i].1).1 == *groups => reqs.push(i),
                _ => { unattributable = Some(format!("trace message arm {} groups {} matches no request (written twice or never sent)", arm, groups)); break 'outer; }
            }
        }
        assigned.push(reqs);
    }
    if unattributable.is_some() { assigned.clear(); }
    let sent: HashSet<usize> = assigned.iter().flatten().cloned().collect();
    let unsent: Vec<usize> = (0..flat.len()).filter(|i| !sent.contains(i)).collect();
    // acknowledgements and live view
    let mut ack = vec![0i64; flat.len()];
    let mut live = vec![if r.alive { 0 } else { -1 }; flat.len()];
    let (mut fired, mut hits, mut quiet, mut timeouts) = (0i64, 0i64, 1i64, 0);
    for l in r.out.lines() {
        let f: Vec<&str> = l.split(' ').collect();
        match f[0] {
            "A" => ack[f[1].parse::<usize>().unwrap()] = f[2].parse().unwrap(),
            "L" => live[f[1].parse::<usize>().unwrap()] = f[2].parse().unwrap(),
            "END" => { fired = f[1].parse().unwrap(); hits = f[2].parse().unwrap(); }
            "Q" => quiet = f[1].parse().unwrap(),
            "T" => timeouts += 1,
            "X" => return Case { kind: "broken-run".into(), coq: "CSkip".into(), obs: vec![-1], meta: json!({"base": meta_base, "error": l}) },
            _ => {}
        }
    }
    if quiet == 0 { return skip("writer not quiet when the points were armed".into()); }
    if timeouts > 0 { return skip("a phase was not answered within 20 s".into()); }
    let n_hits = r.trace.iter().filter(|t| is_point(t)).count() as i64;
    if r.alive && hits != n_hits { return skip(format!("hits {} but trace has {}", hits, n_hits)); }
    let last_point = r.trace.iter().filter(|t| is_point(t)).last().map(|t| t.0 as i64).unwrap_or(0);
    // the fault as it took effect
    let fault = match (r.mode, fired) {
        (m, _) if m == vf::MODE_KILL && !r.alive => format!("(FKill {})", r.k),
        (m, 1) if m == vf::MODE_FAIL => format!("(FFail {})", r.k),
        _ => "FNone".to_string(),
    };
    let kind = match (r.mode, r.alive, fired) {
        _ if unattributable.is_some() => "unattributable",
        (m, false, _) if m == vf::MODE_KILL => "kill",
        (m, true, _) if m == vf::MODE_KILL => "kill-not-reached",
        (m, _, 1) if m == vf::MODE_FAIL => "fail",
        (m, _, 2) if m == vf::MODE_FAIL => "fail-no-write-statement",
        (m, _, _) if m == vf::MODE_FAIL => "fail-not-reached",
        _ => "fault-free",
    };
    // a killed process: the acknowledgements of the batches that were completed before the fatal one must have
    // been logged during the grace period; if the machine was too busy for that the run cannot be compared
    if !r.alive && assigned.len() >= 2 {
        for b in &assigned[..assigned.len() - 1] {
            for i in b { if ack[*i] == 0 && !matches!(flat[*i].1, Req::Compute) { return skip(format!("acknowledgement of request {} not logged within the grace period", i)); } }
        }
    }
    let vis: Vec<i64> = ver["vis"].as_array().unwrap().iter().map(|v| v.as_i64().unwrap()).collect();
    let order: Vec<usize> = assigned.iter().flatten().cloned().chain(unsent.iter().cloned()).collect();
    let mut obs = vec![];
    for i in &order {
        // a recompute request has no acknowledgement the caller can observe
        obs.push(ack[*i]); obs.push(live[*i]); obs.push(vis[*i]);
    }
    let b = |k: &str| ver[k].as_bool().unwrap_or(false) as i64;
    obs.push(r.alive as i64);
    obs.push(if r.alive { n_hits } else { last_point });
    obs.push(b("inv0")); obs.push(b("inv1") & b("cons1") & b("recomputed")); obs.push(b("again")); obs.push(b("api_ok"));
    // the writer stays in service: behind the first batch that was reported failed no batch is reported failed
    // (K1, repaired by d89b357: before, every batch behind a failed daily_log.write / COMMIT failed at BEGIN)
    // (a failed batch: reported failed and nothing of it stored; an Err answer for a committed room mutation is class 1, not this)
    let failed = |b: &Vec<usize>| b.iter().any(|i| ack[*i] == 2) && b.iter().all(|i| ack[*i] != 1 && (vis[*i] == 0 || matches!(flat[*i].1, Req::Compute)));
    let in_service = match assigned.iter().position(|b| failed(b)) {
        Some(p) => !assigned[p + 1..].iter().any(|b| failed(b)),
        None => true,
    };
    obs.push(in_service as i64);
    obs.push(1); // the case has the shape the theorems assume (wf_case, evaluated by the model side)
    let mut init: Vec<String> = (0..w.n_setup).map(|i| format!("({}, {}, {})", gn(k_setup(i)), gn(k_setup(i)), gn(1))).collect();
    init.push(format!("({}, {}, {})", gn(20100), gn(20100), gn(1))); // the set-up's person with a pet
    init.push(format!("({}, {}, {})", gn(20101), gn(20101), gn(2)));
    let coq = format!("(CRun {} {} {} {})",
        glist(&init),
        glist(&assigned.iter().map(|b| glist(&b.iter().map(|i| req_coq(&flat[*i].1)).collect::<Vec<_>>())).collect::<Vec<_>>()),
        glist(&unsent.iter().map(|i| format!("({}, {})", req_coq(&flat[*i].1), gb(ack[*i] == 2))).collect::<Vec<_>>()),
        fault);
    let mut by_kind: HashMap<&str, usize> = HashMap::new();
    for (_, q) in &flat { *by_kind.entry(match q { Req::Mut { stream: true, .. } => "mutation-stream", Req::Mut { .. } => "mutation", Req::Upd { .. } => "update", Req::Del { .. } => "deletion",
        Req::Nodes { .. } => "ingested-nodes", Req::Edges { .. } => "ingested-edges", Req::Room { .. } => "room-creation", Req::RoomUpd { .. } => "room-change", Req::Compute => "recompute", Req::Write { .. } => "generic-write" }).or_default() += 1; }
    let n_ok = ack.iter().filter(|a| **a == 1).count();
    let n_err = ack.iter().filter(|a| **a == 2).count();
    let n_vis = vis.iter().filter(|v| **v == 1).count();
    Case { kind: kind.into(), coq, obs, meta: json!({"base": meta_base, "batches": assigned, "unsent": unsent, "timeouts": timeouts, "verifier_retries": r.retries, "unattributable": unattributable,
        "write_buffer_length": w.buffer, "requests_by_kind": by_kind, "batch_sizes": assigned.iter().map(|b| b.len()).collect::<Vec<_>>(),
        "acknowledged_ok": n_ok, "reported_failed": n_err, "visible_after_restart": n_vis, "fatal_point": if r.alive { 0 } else { last_point },
        "vis_before_restart": ver["vis0"], "journal_mode": ver["journal_mode"], "requests": flat.iter().map(|(_, q)| format!("{:?}", q)).collect::<Vec<_>>() }) }
}

// ------------------------------------------------------------------ faults during start
fn copy_dir(from: &Path, to: &Path) {
    std::fs::create_dir_all(to).unwrap();
    for e in std::fs::read_dir(from).unwrap() {
        let e = e.unwrap();
        let t = to.join(e.file_name());
        if e.file_type().unwrap().is_dir() { copy_dir(&e.path(), &t); } else { std::fs::copy(e.path(), &t).unwrap(); }
    }
}
/// one start of a copy of the template folder with the k-th point armed, then the verifier
fn run_restart(exe: &Path, base: &Path, template: &Path, wid: usize, spec: &Path, mode: u8, k: u64) -> RunResult {
    let dir = base.join(format!("r{}_{}_{}", wid, mode, k));
    let _ = std::fs::remove_dir_all(&dir);
    copy_dir(template, &dir);
    let out = dir.join("re.txt");
    let mut res = RunResult { mode, k, alive: false, out: String::new(), trace: vec![], ver: None, err: None, retries: 0 };
    match std::process::Command::new(exe).arg("restart").arg(&dir).arg(spec).arg(mode.to_string()).arg(k.to_string()).arg(&out)
        .stdout(std::process::Stdio::null()).stderr(std::process::Stdio::piped()).output() {
        Ok(o) => {
            res.out = std::fs::read_to_string(&out).unwrap_or_default();
            res.alive = res.out.lines().any(|l| l.starts_with("END "));
            if !res.alive && !(mode == vf::MODE_KILL && o.status.code().is_none()) {
                res.err = Some(format!("restart child ended unexpectedly: {:?} {}", o.status, String::from_utf8_lossy(&o.stderr).chars().take(600).collect::<String>()));
            }
        }
        Err(e) => res.err = Some(format!("spawn: {}", e)),
    }
    let tr = std::fs::read(out.with_extension("trace")).unwrap_or_default();
    res.trace = tr.chunks(2).filter(|c| c.len() == 2).map(|c| (c[0], c[1])).collect();
    if res.err.is_none() {
        for attempt in 0..3 {
            match std::process::Command::new(exe).arg("verify").arg(&dir).arg(spec).arg(dir.join("acks.txt")).stderr(std::process::Stdio::piped()).output() {
                Ok(o) if o.status.success() => { res.ver = serde_json::from_slice(&o.stdout).ok(); res.err = if res.ver.is_none() { Some("verifier output unreadable".into()) } else { None }; res.retries = attempt; break; }
                Ok(o) => res.err = Some(format!("verifier failed: {}", String::from_utf8_lossy(&o.stderr).chars().take(600).collect::<String>())),
                Err(e) => res.err = Some(format!("spawn verifier: {}", e)),
            }
        }
    }
    if std::env::var("VERIF_C13_KEEP").is_err() || res.err.is_none() { let _ = std::fs::remove_dir_all(&dir); }
    res
}
/// what the writer sees of a start, from the trace of a fault-free one: the Gallina script
fn script_of(trace: &[(u8, u8)]) -> Option<String> {
    let mut steps: Vec<String> = vec![];
    let mut msgs: Vec<u8> = vec![];
    let mut started = false;
    for t in trace {
        match t.0 {
            vf::T_MSG => msgs.push(t.1),
            vf::P_BEGIN => {
                let mut reqs = vec![];
                let mut awaited = false;
                for m in &msgs {
                    reqs.push(match *m {
                        13 => "(mkReq KOptimize [] [] ANone)".to_string(),
                        10 => "(mkReq KCompute [[[]]] [] ANone)".to_string(),
                        9 if !started => { awaited = true; "(mkReq KWrite [[[]]] [] ANone)".to_string() }
                        9 => format!("(mkReq KWrite [[[Put {} {} {}]]] [] ANone)", gn(0), gn(30998), gn(1)),
                        _ => return None,
                    });
                }
                msgs.clear();
                steps.push(format!("{} {}", if awaited { "SAwait" } else { "SFree" }, glist(&reqs)));
            }
            vf::P_START => { started = true; steps.push("SStartPoint".to_string()); }
            vf::P_START_DONE => steps.push("SDonePoint".to_string()),
            _ => {}
        }
    }
    Some(glist(&steps))
}
fn build_restart_case(w: &Workload, wid: usize, tpl: &RunResult, canon: &[(u8, u8)], script: &str, r: &RunResult) -> Case {
    let flat = w.flat();
    let meta_base = json!({"workload": wid, "mode": r.mode, "k": r.k, "phase": "restart"});
    let skip = |why: String| Case { kind: "unscheduled".into(), coq: "CSkip".into(), obs: vec![], meta: json!({"base": meta_base, "why": why}) };
    if let Some(e) = &r.err { return Case { kind: "broken-run".into(), coq: "CSkip".into(), obs: vec![-1], meta: json!({"base": meta_base, "error": e}) }; }
    let ver = r.ver.as_ref().unwrap();
    // the batches of the workload (template run)
    let batches = batches_of(&tpl.trace);
    let mut queues: HashMap<u8, Vec<usize>> = HashMap::new();
    for (i, (_, q)) in flat.iter().enumerate() { queues.entry(arm_of(q).0).or_default().push(i); }
    for q in queues.values_mut() { q.reverse(); }
    let mut assigned: Vec<Vec<usize>> = vec![];
    for b in &batches {
        let mut reqs = vec![];
        for (arm, groups) in b {
            if *arm == 13 { continue; }
            match queues.get_mut(arm).and_then(|q| q.pop()) { Some(i) if arm_of(&flat[i].1).1 == *groups => reqs.push(i), _ => return skip("template trace not attributable".into()) }
        }
        assigned.push(reqs);
    }
    // this start must have seen the same messages as the fault-free start, up to the armed point
    let mut hits = 0u64;
    for (i, t) in r.trace.iter().enumerate() {
        if canon.get(i) != Some(t) { return skip(format!("start differs from the fault-free start at trace entry {}", i)); }
        if is_point(t) { hits += 1; if r.mode != vf::MODE_RECORD && hits == r.k { break; } }
    }
    let (mut fired, mut started, mut closing_ack) = (0i64, 0i64, None);
    for l in r.out.lines() {
        let f: Vec<&str> = l.split(' ').collect();
        match f[0] { "END" => fired = f[1].parse().unwrap(), "SO" => started = 1, "A" => closing_ack = Some(f[2].parse::<i64>().unwrap()), _ => {} }
    }
    let fault = match (r.mode, fired) {
        (m, _) if m == vf::MODE_KILL && !r.alive => format!("(FKill {})", r.k),
        (m, 1) if m == vf::MODE_FAIL => format!("(FFail {})", r.k),
        _ => "FNone".to_string(),
    };
    let kind = match (r.mode, r.alive, fired) {
        (m, false, _) if m == vf::MODE_KILL => "restart-kill",
        (m, _, 1) if m == vf::MODE_FAIL => "restart-fail",
        (m, _, _) if m == vf::MODE_RECORD => "restart-fault-free",
        _ => "restart-fault-not-effective",
    };
    let vis: Vec<i64> = ver["vis"].as_array().unwrap().iter().map(|v| v.as_i64().unwrap()).collect();
    let order: Vec<usize> = assigned.iter().flatten().cloned().collect();
    if order.len() != flat.len() { return skip("template run did not write every request".into()); }
    let mut obs: Vec<i64> = order.iter().map(|i| vis[*i]).collect();
    // the closing write: was its batch begun (a batch behind the start point that holds a generic write)
    let mut seen_start = false; let mut pending9 = false; let mut closing_begun = false;
    for t in &r.trace {
        match t.0 { vf::P_START => seen_start = true, vf::T_MSG if seen_start && t.1 == 9 => pending9 = true, vf::P_BEGIN => { if pending9 { closing_begun = true; } pending9 = false; }, _ => {} }
    }
    if closing_begun { obs.push(closing_ack.unwrap_or(0)); obs.push(ver["closing998"].as_bool().unwrap_or(false) as i64); }
    let n_hits = r.trace.iter().filter(|t| is_point(t)).count() as i64;
    let last_point = r.trace.iter().filter(|t| is_point(t)).last().map(|t| t.0 as i64).unwrap_or(0);
    let b = |k: &str| ver[k].as_bool().unwrap_or(false) as i64;
    // started: start() returned Ok (logged by the child at once; a failed start leaves the process alive without service)
    obs.push(r.alive as i64); obs.push(if r.alive { n_hits } else { last_point }); obs.push(started);
    obs.push(b("inv0")); obs.push(b("inv1") & b("cons1") & b("recomputed")); obs.push(b("again")); obs.push(b("api_ok")); obs.push(1);
    let mut init: Vec<String> = (0..w.n_setup).map(|i| format!("({}, {}, {})", gn(k_setup(i)), gn(k_setup(i)), gn(1))).collect();
    init.push(format!("({}, {}, {})", gn(20100), gn(20100), gn(1)));
    init.push(format!("({}, {}, {})", gn(20101), gn(20101), gn(2)));
    let coq = format!("(CRestart {} {} {} {})", glist(&init),
        glist(&assigned.iter().map(|b| glist(&b.iter().map(|i| req_coq(&flat[*i].1)).collect::<Vec<_>>())).collect::<Vec<_>>()), script, fault);
    Case { kind: kind.into(), coq, obs, meta: json!({"base": meta_base, "fatal_point": if r.alive { 0 } else { last_point }, "started": started, "closing_ack": closing_ack, "verifier_retries": r.retries}) }
}

fn parent() {
    let mut out = Out::create();
    let mut rng = Rng::from_env();
    let exe = std::env::current_exe().unwrap();
    let base = PathBuf::from(std::env::var("VERIF_WORK").unwrap_or("/verif/work".into())).join("C13").join(format!("runs_{}", std::process::id()));
    let _ = std::fs::remove_dir_all(&base);
    std::fs::create_dir_all(&base).unwrap();
    // directed workloads first
    let fixed_key = |b: u8| vec![b; 32];
    let mut workloads: Vec<Workload> = vec![
        // K2: two definition changes of one room in flight, the first removes the caller's admin right
        Workload { key: fixed_key(7), n_setup: 2, gate_ms: 12, buffer: 1024, phases: vec![vec![Req::RoomUpd { label: 61, revoke_pet: true, pet: None }, Req::RoomUpd { label: 62, revoke_pet: false, pet: Some(63) }]] },
        // multi-row mutation + deletion + ingested rows + recompute in one batch, then a second batch
        Workload { key: fixed_key(8), n_setup: 3, gate_ms: 12, buffer: 1024, phases: vec![
            vec![Req::Mut { persons: vec![(101, vec![102, 103]), (104, vec![])], stream: false }, Req::Del { target: 0 }, Req::Nodes { labels: vec![105, 106] }, Req::Compute],
            vec![Req::Upd { target: 1, label: 107 }, Req::Room { label: 108 }, Req::Write { key: 109 }]] },
    ];
    // write_buffer_length 1 and 2: every request its own batch / batches of two
    workloads.push(Workload { key: fixed_key(9), n_setup: 2, gate_ms: 12, buffer: 1, phases: vec![
        vec![Req::Mut { persons: vec![(111, vec![112])], stream: true }, Req::Del { target: 1 }]] });
    workloads.push(Workload { key: fixed_key(10), n_setup: 2, gate_ms: 12, buffer: 2, phases: vec![
        vec![Req::Upd { target: 0, label: 121 }, Req::Nodes { labels: vec![122, 123] }, Req::Compute]] });
    let n_random = scale(1, 40);
    for _ in 0..n_random { let np = 1 + rng.below(scale(2, 3) as u64) as usize; workloads.push(gen_workload(&mut rng, np, scale(3, 4))); }
    // directed, behind the generated ones (their numbering is unchanged): a synchronised reference request (add_edges,
    // writer arm Edges) in a batch that fails — in its own statement group, at the marks point, at COMMIT — alone and
    // together with mutations / ingested rows / a deletion; every point of these workloads is armed below like any other
    workloads.push(Workload { key: fixed_key(11), n_setup: 2, gate_ms: 12, buffer: 1024, phases: vec![vec![Req::Edges { links: vec![(0, 1, 131)] }]] });
    workloads.push(Workload { key: fixed_key(12), n_setup: 3, gate_ms: 12, buffer: 1024, phases: vec![vec![Req::Edges { links: vec![(0, 1, 141), (1, 2, 142)] }]] });
    workloads.push(Workload { key: fixed_key(13), n_setup: 2, gate_ms: 12, buffer: 1024, phases: vec![vec![Req::Upd { target: 0, label: 151 }, Req::Edges { links: vec![(0, 1, 152)] }]] });
    workloads.push(Workload { key: fixed_key(14), n_setup: 3, gate_ms: 12, buffer: 1024, phases: vec![
        vec![Req::Edges { links: vec![(1, 0, 161)] }, Req::Mut { persons: vec![(162, vec![163])], stream: false }, Req::Nodes { labels: vec![164] }, Req::Del { target: 2 }]] });
    workloads.push(Workload { key: fixed_key(15), n_setup: 2, gate_ms: 12, buffer: 2, phases: vec![
        vec![Req::Edges { links: vec![(0, 1, 171)] }], vec![Req::Upd { target: 1, label: 172 }, Req::Edges { links: vec![(1, 0, 173)] }]] });
    let par: usize = std::env::var("VERIF_C13_PAR").ok().and_then(|s| s.parse().ok()).unwrap_or(12);

    // fault-free runs: the number of hits and the kind of every point
    let mut jobs: Vec<(usize, u8, u64)> = vec![];
    let mut specs = vec![];
    for (wid, w) in workloads.iter().enumerate() {
        let spec = base.join(format!("w{}.json", wid));
        std::fs::write(&spec, serde_json::to_string(w).unwrap()).unwrap();
        specs.push(spec);
        jobs.push((wid, vf::MODE_RECORD, 0));
    }
    let run_jobs = |jobs: Vec<(usize, u8, u64)>| -> Vec<(usize, RunResult)> {
        let queue = Arc::new(Mutex::new(jobs.into_iter().enumerate().collect::<Vec<_>>()));
        let results = Arc::new(Mutex::new(vec![]));
        let mut hs = vec![];
        for _ in 0..par {
            let (queue, results, exe, base, specs) = (queue.clone(), results.clone(), exe.clone(), base.clone(), specs.clone());
            hs.push(std::thread::spawn(move || loop {
                let job = queue.lock().unwrap().pop();
                match job {
                    Some((n, (wid, mode, k))) => { let r = run_one(&exe, &base, wid, &specs[wid], mode, k); results.lock().unwrap().push((n, wid, r)); }
                    None => break,
                }
            }));
        }
        for h in hs { h.join().unwrap(); }
        let mut v = std::mem::take(&mut *results.lock().unwrap());
        v.sort_by_key(|x| x.0);
        v.into_iter().map(|(_, wid, r)| (wid, r)).collect()
    };
    let free = run_jobs(jobs);
    let mut hits_free = vec![0u64; workloads.len()];
    let mut jobs = vec![];
    for (wid, r) in &free {
        let points: Vec<u8> = r.trace.iter().filter(|t| is_point(t)).map(|t| t.0).collect();
        hits_free[*wid] = points.len() as u64;
        // quick tier: the batches that hold nothing but a gate / the closing write are harness machinery and all alike:
        // only the first of them is enumerated (thorough: all)
        let comp = batches_of(&r.trace);
        let mut batch_of_hit = vec![];
        let mut b = 0usize;
        for p in &points { if *p == vf::P_BEGIN { b += 1; } batch_of_hit.push(b.saturating_sub(1)); }
        let gate_only = |bi: usize| comp.get(bi).map(|m| m.len() == 1 && m[0] == (9u8, 1usize)).unwrap_or(false);
        let first_gate = (0..comp.len()).find(|bi| gate_only(*bi));
        for (i, p) in points.iter().enumerate() {
            let bi = batch_of_hit[i];
            if !tier_thorough() && gate_only(bi) && Some(bi) != first_gate { continue; }
            jobs.push((*wid, vf::MODE_KILL, i as u64 + 1));
            if [vf::P_BEGIN, vf::P_GROUP, vf::P_STMT, vf::P_MARKS, vf::P_COMMIT].contains(p) { jobs.push((*wid, vf::MODE_FAIL, i as u64 + 1)); }
        }
    }
    let faulty = run_jobs(jobs);
    let mut counts: HashMap<String, usize> = HashMap::new();
    let mut retried = 0;
    for (wid, r) in free.iter().chain(faulty.iter()) {
        let mut c = build_case(&workloads[*wid], *wid, r, hits_free[*wid]);
        if c.kind == "unscheduled" || c.kind == "broken-run" || c.kind == "unattributable" {
            // once more, alone
            retried += 1;
            let r2 = run_one(&exe, &base, *wid, &specs[*wid], r.mode, r.k);
            c = build_case(&workloads[*wid], *wid, &r2, hits_free[*wid]);
        }
        *counts.entry(c.kind.clone()).or_default() += 1;
        out.push(c);
    }

    // ---- faults during GraphDatabaseService::start: a finished, fault-free workload is the template; every point a
    // fault-free start of it hits is armed once with kill and, in front of a statement, once with failure
    let restart_workloads: Vec<usize> = if tier_thorough() { (1..workloads.len()).filter(|w| *w == 1 || (*w >= 4 && *w % 5 == 0)).collect() } else { vec![1] };
    for wid in restart_workloads {
        let w = &workloads[wid];
        if w.phases.iter().flatten().any(|r| matches!(r, Req::RoomUpd { .. })) { continue; }
        let tdir = base.join(format!("template{}", wid));
        let _ = std::fs::remove_dir_all(&tdir);
        std::fs::create_dir_all(&tdir).unwrap();
        let tout = tdir.join("acks.txt");
        let ok = std::process::Command::new(&exe).arg("child").arg(&tdir).arg(&specs[wid]).arg("0").arg("0").arg(&tout)
            .stdout(std::process::Stdio::null()).stderr(std::process::Stdio::null()).status().map(|s| s.success()).unwrap_or(false);
        let touts = std::fs::read_to_string(&tout).unwrap_or_default();
        let all_ok = ok && touts.lines().filter(|l| l.starts_with("A ")).all(|l| l.split(' ').nth(2) == Some("1")) && !touts.lines().any(|l| l.starts_with("T "));
        if !all_ok { eprintln!("c13: template run of workload {} unusable", wid); continue; }
        let ttrace: Vec<(u8, u8)> = std::fs::read(tout.with_extension("trace")).unwrap_or_default().chunks(2).filter(|c| c.len() == 2).map(|c| (c[0], c[1])).collect();
        let tpl = RunResult { mode: 0, k: 0, alive: true, out: touts, trace: ttrace, ver: None, err: None, retries: 0 };
        let canon = run_restart(&exe, &base, &tdir, wid, &specs[wid], vf::MODE_RECORD, 0);
        let script = match script_of(&canon.trace) { Some(s) => s, None => { eprintln!("c13: start of workload {} not recognised", wid); continue; } };
        let points: Vec<u8> = canon.trace.iter().filter(|t| is_point(t)).map(|t| t.0).collect();
        let mut rjobs: Vec<(u8, u64)> = vec![];
        for (i, p) in points.iter().enumerate() {
            rjobs.push((vf::MODE_KILL, i as u64 + 1));
            if [vf::P_BEGIN, vf::P_GROUP, vf::P_STMT, vf::P_MARKS, vf::P_COMMIT].contains(p) { rjobs.push((vf::MODE_FAIL, i as u64 + 1)); }
        }
        let queue = Arc::new(Mutex::new(rjobs.into_iter().enumerate().collect::<Vec<_>>()));
        let results = Arc::new(Mutex::new(vec![]));
        let mut hs = vec![];
        for _ in 0..par {
            let (queue, results, exe, base, tdir, spec) = (queue.clone(), results.clone(), exe.clone(), base.clone(), tdir.clone(), specs[wid].clone());
            hs.push(std::thread::spawn(move || loop {
                let job = queue.lock().unwrap().pop();
                match job { Some((n, (mode, k))) => { let r = run_restart(&exe, &base, &tdir, wid, &spec, mode, k); results.lock().unwrap().push((n, r)); } None => break }
            }));
        }
        for h in hs { h.join().unwrap(); }
        let mut v = std::mem::take(&mut *results.lock().unwrap());
        v.sort_by_key(|x| x.0);
        for r in std::iter::once(&canon).chain(v.iter().map(|x| &x.1)) {
            let mut c = build_restart_case(w, wid, &tpl, &canon.trace, &script, r);
            if c.kind == "unscheduled" || c.kind == "broken-run" {
                retried += 1;
                let r2 = run_restart(&exe, &base, &tdir, wid, &specs[wid], r.mode, r.k);
                c = build_restart_case(w, wid, &tpl, &canon.trace, &script, &r2);
            }
            *counts.entry(c.kind.clone()).or_default() += 1;
            out.push(c);
        }
    }
    let n = out.n;
    out.finish();
    if std::env::var("VERIF_C13_KEEP").is_err() { let _ = std::fs::remove_dir_all(&base); }
    eprintln!("c13: {} runs {:?}, {} repeated", n, counts, retried);
    let bad = counts.get("unscheduled").cloned().unwrap_or(0) + counts.get("broken-run").cloned().unwrap_or(0);
    // only runs that were too slow for the time limits may be left out (after one repetition), and only a few
    if bad * 33 > n { eprintln!("c13: too many runs could not be used ({} of {})", bad, n); std::process::exit(3); }
}

fn main() {
    let a: Vec<String> = std::env::args().collect();
    if a.len() >= 2 && (a[1] == "child" || a[1] == "verify" || a[1] == "restart") {
        let rt = tokio::runtime::Builder::new_multi_thread().worker_threads(2).enable_all().build().unwrap();
        if a[1] == "restart" {
            rt.block_on(restart_child(PathBuf::from(&a[2]), PathBuf::from(&a[3]), a[4].parse().unwrap(), a[5].parse().unwrap(), PathBuf::from(&a[6])));
        } else if a[1] == "child" {
            rt.block_on(child(PathBuf::from(&a[2]), PathBuf::from(&a[3]), a[4].parse().unwrap(), a[5].parse().unwrap(), PathBuf::from(&a[6])));
        } else {
            rt.block_on(verify(PathBuf::from(&a[2]), PathBuf::from(&a[3]), PathBuf::from(&a[4])));
        }
        return;
    }
    parent();
}
