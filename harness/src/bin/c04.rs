//! C04 correspondence: values written through the real mutation path (MutationParser + MutationQuery::execute +
//! write on an in-memory SQLite connection) as parameter or as literal, read back through the real query path
//! (by id, by equality filter with a parameter, by equality filter with a literal), with a snapshot of every row
//! before and after (frame condition); and the SQL text of the real compiler under arbitrary default values
//! (CDefault) and under replacement of every string literal (CShape).
use discret::verif_hooks::database::mutation_query::MutationQuery;
use discret::verif_hooks::database::query::{PreparedQueries, Query};
use discret::verif_hooks::database::query_language::data_model_parser::DataModel;
use discret::verif_hooks::database::query_language::mutation_parser::MutationParser;
use discret::verif_hooks::database::query_language::parameter::{Parameters, ParametersAdd};
use discret::verif_hooks::database::query_language::query_parser::QueryParser;
use discret::verif_hooks::database::sqlite_database::{prepare_connection, Writeable};
use discret::verif_hooks::security::uid_encode;
use rusqlite::Connection;
use serde_json::json;
use std::sync::Arc;
use vharness::common::*;

/// cases are buffered so that the generator statistics can be attached to the first case
struct Buf { v: Vec<Case>, n: usize }
impl Buf { fn push(&mut self, c: Case) { self.v.push(c); self.n += 1; } }

fn gstr(s: &str) -> String { glist(&s.chars().map(|c| gn(c as u64)).collect::<Vec<_>>()) }
fn enc_str(s: &str, o: &mut Vec<i64>) { let cs: Vec<char> = s.chars().collect(); o.push(cs.len() as i64); for c in cs { o.push(c as i64) } }

// ---------------------------------------------------------------- the value table
struct World { dm: DataModel, conn: Connection, s_short: String }

const MODEL: &str = "{ V { s: String, i: Integer, f: Float, b: Boolean, other: Integer default 7, sn: String nullable } }";

fn new_world() -> World {
    let mut dm = DataModel::new();
    dm.update(MODEL).unwrap();
    let conn = Connection::open_in_memory().unwrap();
    prepare_connection(&conn).unwrap();
    let s_short = dm.get_entity("V").unwrap().get_field("s").unwrap().short_name.clone();
    let w = World { dm, conn, s_short };
    // the other rows
    for (k, s) in ["plain", "it's", "a\\b", "\"q\"", "", "né\u{10000}"].iter().enumerate() {
        let mut p = Parameters::new();
        p.add("s", s.to_string()).unwrap();
        p.add("i", k as i64 - 2).unwrap();
        mutate(&w, "mutate { V { s: $s i: $i f: 0.5 b: false sn: null } }", p).unwrap();
    }
    w
}
fn mutate(w: &World, text: &str, mut p: Parameters) -> Result<[u8; 16], String> {
    let mutation = MutationParser::parse(text, &w.dm).map_err(|e| format!("parse: {}", e))?;
    let mut mq = MutationQuery::execute(&mut p, Arc::new(mutation), &w.conn).map_err(|e| format!("execute: {}", e))?;
    mq.write(&w.conn).map_err(|e| format!("write: {}", e))?;
    Ok(mq.mutate_entities[0].node_to_mutate.id)
}
fn query(w: &World, dm: &DataModel, text: &str, p: Parameters) -> Result<String, String> {
    let qp = QueryParser::parse(text, dm).map_err(|e| format!("parse: {}", e))?;
    let pq = PreparedQueries::build(&qp).map_err(|e| format!("build: {}", e))?;
    let mut sql = Query { parameters: p, parser: Arc::new(qp), sql_queries: Arc::new(pq) };
    sql.read(&w.conn).map_err(|e| format!("read: {}", e))
}
fn snapshot(w: &World) -> Vec<(i64, Vec<u8>, Option<String>, i64, i64)> {
    let mut st = w.conn.prepare("SELECT rowid, id, _json, cdate, mdate FROM _node ORDER BY rowid").unwrap();
    let rows = st.query_map([], |r| Ok((r.get(0)?, r.get(1)?, r.get(2)?, r.get(3)?, r.get(4)?))).unwrap().map(|x| x.unwrap()).collect();
    rows
}
/// raw JSON text of the value of `key` in a JSON object text (scanner; no re-serialisation)
fn raw_member(json: &str, key: &str) -> Option<String> {
    let pat = format!("\"{}\":", key);
    let start = json.find(&pat)? + pat.len();
    let b: Vec<char> = json[start..].chars().collect();
    let mut out = String::new();
    if b[0] == '"' {
        let mut i = 1;
        while i < b.len() {
            if b[i] == '\\' { out.push(b[i]); out.push(b[i + 1]); i += 2; continue; }
            if b[i] == '"' { return Some(out); }
            out.push(b[i]); i += 1;
        }
        None
    } else {
        for c in b { if c == ',' || c == '}' || c == ']' { break; } out.push(c); }
        Some(out)
    }
}

enum How { Param, Literal }
impl How { fn coq(&self) -> &'static str { match self { How::Param => "HParam", How::Literal => "HLiteral" } } }

/// serde-independent JSON string escaping used to write the literal for a parameter-style value
fn json_esc(s: &str) -> String {
    let mut o = String::new();
    for c in s.chars() {
        match c {
            '"' => o.push_str("\\\""), '\\' => o.push_str("\\\\"), '\u{8}' => o.push_str("\\b"), '\u{c}' => o.push_str("\\f"),
            '\n' => o.push_str("\\n"), '\r' => o.push_str("\\r"), '\t' => o.push_str("\\t"),
            c if (c as u32) < 32 => o.push_str(&format!("\\u{:04x}", c as u32)),
            c => o.push(c),
        }
    }
    o
}

struct RoundTrip { status: i64, raw: String, back: Option<serde_json::Value>, back_raw: String, by_param: i64, by_literal: i64, frame: i64, note: String }

/// write `field := value` into a fresh row (update by id), read it back in the three ways, check the frame
fn round_trip(w: &World, field: &str, assign: &str, mut wp: Parameters, fp: Box<dyn Fn(&mut Parameters)>, filter_literal: &str) -> RoundTrip {
    let mut rt = RoundTrip { status: 0, raw: String::new(), back: None, back_raw: String::new(), by_param: 0, by_literal: 0, frame: 0, note: String::new() };
    let id = mutate(w, "mutate { V { s: \"init\" i: 1 f: 1.5 b: true sn: \"keep\" } }", Parameters::new()).unwrap();
    let id64 = uid_encode(&id);
    let before = snapshot(w);
    wp.add("id", id64.clone()).unwrap();
    if let Err(e) = mutate(w, &format!("mutate {{ V {{ id: $id {}: {} }} }}", field, assign), wp) {
        rt.status = if e.starts_with("parse") { 1 } else { 2 }; rt.note = e; return rt;
    }
    let after = snapshot(w);
    // frame: every other row identical; this row: same rowid/id/cdate, the other fields unchanged
    let mut frame_ok = before.len() == after.len();
    if frame_ok {
        for (b, a) in before.iter().zip(after.iter()) {
            if b.1 != id.to_vec() { if b != a { frame_ok = false; } }
            else {
                if b.0 != a.0 || b.1 != a.1 || b.3 != a.3 { frame_ok = false; }
                let jb: serde_json::Value = serde_json::from_str(b.2.as_ref().unwrap()).unwrap();
                let ja: serde_json::Value = serde_json::from_str(a.2.as_ref().unwrap()).unwrap();
                let fshort = w.dm.get_entity("V").unwrap().get_field(field).unwrap().short_name.clone();
                for (k, v) in jb.as_object().unwrap() { if *k != fshort && ja.get(k) != Some(v) { frame_ok = false; } }
                if ja.as_object().unwrap().len() != jb.as_object().unwrap().len() { frame_ok = false; }
                let fshort2 = fshort.clone();
                rt.raw = raw_member(a.2.as_ref().unwrap(), &fshort2).unwrap_or_default();
            }
        }
    }
    rt.frame = frame_ok as i64;
    let mut p = Parameters::new(); p.add("id", id64.clone()).unwrap();
    match query(w, &w.dm, &format!("query {{ V (id = $id) {{ {} }} }}", field), p) {
        Ok(s) => {
            let v: serde_json::Value = serde_json::from_str(&s).unwrap_or(json!(null));
            rt.back = v.get("V").and_then(|a| a.get(0)).and_then(|o| o.get(field)).cloned();
            rt.back_raw = raw_member(&s, field).unwrap_or_default();
        }
        Err(e) => { rt.status = 3; rt.note = e; return rt; }
    }
    let count = |s: &str| -> i64 { let v: serde_json::Value = serde_json::from_str(s).unwrap_or(json!(null)); v.get("V").and_then(|a| a.as_array()).map(|a| a.len() as i64).unwrap_or(-1) };
    let mut p = Parameters::new(); p.add("id", id64.clone()).unwrap(); fp(&mut p);
    rt.by_param = match query(w, &w.dm, &format!("query {{ V (id = $id, {} = $p) {{ id }} }}", field), p) { Ok(s) => count(&s), Err(e) => { rt.note = e; -2 } };
    let mut p = Parameters::new(); p.add("id", id64.clone()).unwrap();
    rt.by_literal = match query(w, &w.dm, &format!("query {{ V (id = $id, {} = {}) {{ id }} }}", field, filter_literal), p) { Ok(s) => count(&s), Err(e) => { rt.note = e; -2 } };
    rt
}

// ---------------------------------------------------------------- literal tokens (what the grammar accepts)
#[derive(Clone)]
enum Tok { Ch(char), Esc(char), U(String) }
fn render(ts: &[Tok]) -> String {
    let mut o = String::new();
    for t in ts { match t { Tok::Ch(c) => o.push(*c), Tok::Esc(c) => { o.push('\\'); o.push(*c) } Tok::U(h) => { o.push_str("\\u"); o.push_str(h) } } }
    o
}
fn gen_scalar(rng: &mut Rng) -> char {
    loop {
        let c = match rng.below(10) {
            0..=3 => rng.below(128) as u32,
            4 => 0x80 + rng.below(0x780) as u32,
            5..=6 => rng.below(0x10000) as u32,
            7 => 0x10000 + rng.below(0x100000) as u32,
            8 => *rng.pick(&[0x7f, 0x80, 0xff, 0x2028, 0xfffd, 0xffff, 0x10ffff, 0xd7ff, 0xe000]),
            _ => *rng.pick(&[0x27, 0x22, 0x5c, 0x2f, 0x25, 0x5f, 0x3b, 0x2d, 0x24, 0x7b, 0x5b]),
        };
        if let Some(ch) = char::from_u32(c) { return ch; }
    }
}
fn gen_string(rng: &mut Rng) -> String {
    match rng.below(12) {
        0 => String::new(),
        1 => (0..rng.range(100, 300)).map(|_| gen_scalar(rng)).collect(),
        2 => rng.pick(&["'; DROP TABLE _node; --", "' OR '1'='1", "{\"a\":[1,2,{\"b\":null}]}", "%_%", "null", "NULL", "?1", "$p", "\\\"", "\\u0041", "a\\\\b", "--", "/* */", "\u{0}", "a\u{0}b"]).to_string(),
        _ => (0..rng.range(1, 6)).map(|_| gen_scalar(rng)).collect(),
    }
}
fn gen_tokens(rng: &mut Rng, only_quote: bool) -> Vec<Tok> {
    let n = rng.range(0, 6);
    (0..n).map(|_| {
        match rng.below(if only_quote { 6 } else { 12 }) {
            0..=3 => loop { let c = gen_scalar(rng); if c != '"' && c != '\\' { break Tok::Ch(c); } },
            4..=5 => Tok::Esc('"'),
            6..=9 => Tok::Esc(*rng.pick(&['\\', '/', 'b', 'f', 'n', 'r', 't', '"'])),
            _ => {
                // any code unit, surrogates included (a pair is written as two consecutive escapes by the caller's luck or below)
                let u = match rng.below(8) { 0 => 0xd800 + rng.below(0x400) as u32, 1 => 0xdc00 + rng.below(0x400) as u32, _ => rng.below(0x10000) as u32 };
                Tok::U(if rng.chance(1, 2) { format!("{:04x}", u) } else { format!("{:04X}", u) })
            }
        }
    }).collect()
}

fn str_case(out: &mut Buf, w: &World, how: How, text: &str, kind: &str) {
    // Param: text is the value; Literal: text is what stands between the quotes
    let rt = match how {
        How::Param => {
            let mut wp = Parameters::new(); wp.add("v", text.to_string()).unwrap();
            let t = text.to_string();
            round_trip(w, "s", "$v", wp, Box::new(move |p| p.add("p", t.clone()).unwrap()), &format!("\"{}\"", json_esc(text)))
        }
        How::Literal => {
            // the value the literal denotes, computed independently of the implementation, for the parameter filter
            let intended: String = literal_meaning(text);
            round_trip(w, "s", &format!("\"{}\"", text), Parameters::new(), Box::new(move |p| p.add("p", intended.clone()).unwrap()), &format!("\"{}\"", text))
        }
    };
    let mut obs = vec![rt.status];
    if rt.status == 0 {
        enc_str(&rt.raw, &mut obs);
        match &rt.back { Some(serde_json::Value::String(s)) => enc_str(s, &mut obs), other => { obs.push(-1); let _ = other; } }
        obs.push(rt.by_param); obs.push(rt.by_literal); obs.push(rt.frame);
    }
    out.push(Case { kind: kind.into(), coq: format!("CStr {} {}", how.coq(), gstr(text)), obs,
        meta: json!({"text": text, "stored_raw": rt.raw, "read_back": rt.back, "by_param": rt.by_param, "by_literal": rt.by_literal, "frame": rt.frame, "note": rt.note}) });
}
/// what a literal denotes: characters themselves, escapes their JSON meaning as UTF-16 code units; units are then
/// read as UTF-16 (a surrogate pair is one scalar, a surrogate left alone becomes U+FFFD)
fn literal_meaning(lit: &str) -> String {
    let cs: Vec<char> = lit.chars().collect();
    let mut units: Vec<u16> = vec![];
    let mut i = 0;
    while i < cs.len() {
        if cs[i] != '\\' { let mut b = [0u16; 2]; units.extend_from_slice(cs[i].encode_utf16(&mut b)); i += 1; continue; }
        let e = cs[i + 1];
        match e {
            'u' => { let h: String = cs[i + 2..i + 6].iter().collect(); units.push(u16::from_str_radix(&h, 16).unwrap()); i += 6; }
            _ => { units.push(match e { '"' => 34, '\\' => 92, '/' => 47, 'b' => 8, 'f' => 12, 'n' => 10, 'r' => 13, 't' => 9, o => o as u16 }); i += 2; }
        }
    }
    String::from_utf16_lossy(&units)
}

// ---------------------------------------------------------------- numbers
fn float_text(f: f64) -> String {
    // grammar: -? digits . digits* (e [+-]? digits)?  — shortest round-trip digits from {:e}
    let s = format!("{:e}", f);
    let (m, e) = s.split_once('e').unwrap();
    let m = if m.contains('.') { m.to_string() } else { format!("{}.0", m) };
    if e == "0" { m } else { format!("{}e{}", m, e) }
}
fn raw_number_bits(raw: &str) -> i64 { raw.trim().parse::<f64>().map(|f| f.to_bits() as i64).unwrap_or(-1) }

fn flt_case(out: &mut Buf, w: &World, how: How, f: f64, kind: &str) {
    let text = float_text(f);
    let tb = text.parse::<f64>().unwrap().to_bits() as i64;
    let rt = match how {
        How::Param => { let mut wp = Parameters::new(); wp.add("v", f).unwrap(); round_trip(w, "f", "$v", wp, Box::new(move |p| p.add("p", f).unwrap()), &text) }
        How::Literal => round_trip(w, "f", &text, Parameters::new(), Box::new(move |p| p.add("p", f).unwrap()), &text),
    };
    let back_bits = raw_number_bits(&rt.back_raw);
    let obs = if rt.status == 0 { vec![0, back_bits, rt.by_param, rt.by_literal, rt.frame] } else { vec![rt.status] };
    let digits = format!("{:e}", f).split('e').next().unwrap().chars().filter(|c| c.is_ascii_digit()).count();
    out.push(Case { kind: kind.into(), coq: format!("CFlt {} {} {}", how.coq(), gz(f.to_bits() as i64), gz(tb)), obs,
        meta: json!({"value": format!("{:e}", f), "literal": text, "digits": digits, "stored_raw": rt.raw, "read_back_raw": rt.back_raw, "by_param": rt.by_param, "by_literal": rt.by_literal, "note": rt.note}) });
}
fn int_case(out: &mut Buf, w: &World, how: How, z: i64) {
    let rt = match how {
        How::Param => { let mut wp = Parameters::new(); wp.add("v", z).unwrap(); round_trip(w, "i", "$v", wp, Box::new(move |p| p.add("p", z).unwrap()), &z.to_string()) }
        How::Literal => round_trip(w, "i", &z.to_string(), Parameters::new(), Box::new(move |p| p.add("p", z).unwrap()), &z.to_string()),
    };
    let back = rt.back_raw.trim().parse::<i64>().unwrap_or(i64::MIN + 5);
    let obs = if rt.status == 0 { vec![0, back, rt.by_param, rt.by_literal, rt.frame] } else { vec![rt.status] };
    out.push(Case { kind: "int".into(), coq: format!("CInt {} {}", how.coq(), gz(z)), obs, meta: json!({"value": z, "read_back_raw": rt.back_raw, "note": rt.note}) });
}
fn bool_case(out: &mut Buf, w: &World, how: How, b: bool) {
    let rt = match how {
        How::Param => { let mut wp = Parameters::new(); wp.add("v", b).unwrap(); round_trip(w, "b", "$v", wp, Box::new(move |p| p.add("p", b).unwrap()), &b.to_string()) }
        How::Literal => round_trip(w, "b", &b.to_string(), Parameters::new(), Box::new(move |p| p.add("p", b).unwrap()), &b.to_string()),
    };
    let back = match rt.back { Some(serde_json::Value::Bool(x)) => x as i64, _ => -1 };
    let obs = if rt.status == 0 { vec![0, back, rt.by_param, rt.by_literal, rt.frame] } else { vec![rt.status] };
    out.push(Case { kind: "bool".into(), coq: format!("CBool {} {}", how.coq(), gb(b)), obs, meta: json!({"value": b, "note": rt.note}) });
}

// ---------------------------------------------------------------- statements
#[derive(Clone)]
enum Opnd { Str(String), Int(i64), Var(String) }
impl Opnd {
    fn coq(&self) -> String { match self { Opnd::Str(s) => format!("(OLit (VStr {}))", gstr(s)), Opnd::Int(z) => format!("(OLit (VInt {}))", gz(*z)), Opnd::Var(n) => format!("(OVar {})", gstr(n)) } }
    fn text(&self) -> String { match self { Opnd::Str(s) => format!("\"{}\"", s.replace('"', "\\\"")), Opnd::Int(z) => z.to_string(), Opnd::Var(n) => format!("${}", n) } }
    fn neutral(&self) -> Opnd { match self { Opnd::Str(_) => Opnd::Str("x".into()), o => o.clone() } }
}
struct SField { name: &'static str, ty: &'static str, coq_ty: &'static str, nullable: bool, default: Option<String> }
struct SModel { fields: Vec<SField> }
impl SModel {
    fn text(&self) -> String {
        let fs: Vec<String> = self.fields.iter().map(|f| format!("{}: {}{}", f.name, f.ty,
            if f.nullable { " nullable".to_string() } else if let Some(d) = &f.default { if f.ty == "String" { format!(" default \"{}\"", d.replace('"', "\\\"")) } else { format!(" default {}", d) } } else { String::new() })).collect();
        format!("{{ S {{ {} }} }}", fs.join(", "))
    }
    fn coq(&self, dm: &DataModel) -> String {
        let ent = dm.get_entity("S").unwrap();
        let fs: Vec<String> = self.fields.iter().map(|f| {
            let d = match &f.default { None => "None".to_string(), Some(d) => if f.ty == "String" { format!("(Some (VStr {}))", gstr(d)) } else { format!("(Some (VInt {}))", d) } };
            format!("(Build_fdef {} {} {} {} {})", gstr(f.name), gstr(&ent.get_field(f.name).unwrap().short_name), f.coq_ty, gb(f.nullable), d)
        }).collect();
        format!("(Build_emodel {} {} {})", gstr("S"), gstr(&ent.short_name), glist(&fs))
    }
}
#[derive(Clone)]
struct SQuery { sel: Vec<(usize, Option<String>)>, filters: Vec<(bool, usize, usize, Opnd)>, order: Vec<(bool, usize, bool)>, after: Vec<Opnd> }
const OPS: [&str; 6] = ["=", "!=", "<", "<=", ">", ">="];
const OPS_COQ: [&str; 6] = ["OEq", "ONe", "OLt", "OLe", "OGt", "OGe"];
impl SQuery {
    fn rname(&self, m: &SModel, alias: bool, i: usize) -> String { if alias { self.sel[i].1.clone().unwrap() } else { m.fields[i].name.to_string() } }
    fn text(&self, m: &SModel) -> String {
        let mut ps: Vec<String> = self.filters.iter().map(|(a, i, op, v)| format!("{} {} {}", self.rname(m, *a, *i), OPS[*op], v.text())).collect();
        if !self.order.is_empty() { ps.push(format!("order_by({})", self.order.iter().map(|(a, i, d)| format!("{} {}", self.rname(m, *a, *i), if *d { "desc" } else { "asc" })).collect::<Vec<_>>().join(", "))); }
        if !self.after.is_empty() { ps.push(format!("after({})", self.after.iter().map(|v| v.text()).collect::<Vec<_>>().join(", "))); }
        let fields: Vec<String> = self.sel.iter().map(|(f, a)| match a { Some(a) => format!("{}: {}", a, m.fields[*f].name), None => m.fields[*f].name.to_string() }).collect();
        format!("query {{ S {} {{ {} }} }}", if ps.is_empty() { String::new() } else { format!("({})", ps.join(", ")) }, fields.join(" "))
    }
    fn coq(&self) -> String {
        let r = |a: bool, i: usize| if a { format!("(FByAlias {})", i) } else { format!("(FByName {})", i) };
        let sel: Vec<String> = self.sel.iter().map(|(f, a)| format!("(Build_selfield {} {})", f, gopt(&a.as_ref().map(|x| gstr(x))))).collect();
        let fl: Vec<String> = self.filters.iter().map(|(a, i, op, v)| format!("(Build_qfilter {} {} {})", r(*a, *i), OPS_COQ[*op], v.coq())).collect();
        let ord: Vec<String> = self.order.iter().map(|(a, i, d)| format!("(Build_okey {} {})", r(*a, *i), if *d { "Desc" } else { "Asc" })).collect();
        let pg = if self.after.is_empty() { "PNone".to_string() } else { format!("(PAfter {})", glist(&self.after.iter().map(|v| v.coq()).collect::<Vec<_>>())) };
        format!("(Build_query None {} {} {} (OLit (VInt 0)) None {})", glist(&sel), glist(&fl), glist(&ord), pg)
    }
    fn neutral(&self) -> SQuery { let mut q = self.clone(); for f in q.filters.iter_mut() { f.3 = f.3.neutral(); } for v in q.after.iter_mut() { *v = v.neutral(); } q }
}
fn norm_ws(s: &str) -> String {
    let mut out = String::new();
    let (mut pending, mut prev_punct) = (false, true);
    for c in s.chars() {
        if c == ' ' || c == '\t' || c == '\n' || c == '\r' { pending = true; }
        else if c == '(' || c == ')' || c == ',' { out.push(c); pending = false; prev_punct = true; }
        else { if pending && !prev_punct { out.push(' '); } out.push(c); pending = false; prev_punct = false; }
    }
    out
}
fn real_sql(dm: &DataModel, text: &str) -> Result<String, String> {
    let qp = QueryParser::parse(text, dm).map_err(|e| format!("parse: {}", e))?;
    let pq = PreparedQueries::build(&qp).map_err(|e| format!("build: {}", e))?;
    Ok(norm_ws(&pq.sql_queries[0].sql_query))
}

const IDENT_POOL: [&str; 8] = ["v1", "x", "dd", "a", "p", "v2", "B", "q0"];
fn gen_squery(rng: &mut Rng, m: &SModel, string_fields: &[usize]) -> SQuery {
    // selection: name + a random subset, some aliased
    let mut sel: Vec<(usize, Option<String>)> = vec![(0, None)];
    for i in 1..m.fields.len() { if rng.chance(1, 2) { sel.push((i, if rng.chance(1, 3) { Some(format!("al{}", i)) } else { None })); } }
    let mut q = SQuery { sel, filters: vec![], order: vec![], after: vec![] };
    let pick_ref = |rng: &mut Rng, q: &SQuery| -> (bool, usize) {
        let aliased: Vec<usize> = (0..q.sel.len()).filter(|k| q.sel[*k].1.is_some() && string_fields.contains(&q.sel[*k].0)).collect();
        if !aliased.is_empty() && rng.chance(1, 3) { (true, *rng.pick(&aliased)) } else { (false, *rng.pick(string_fields)) }
    };
    // variables are typed by the field they are compared with: one pool per nullability
    let gen_opnd = |rng: &mut Rng, nullable: bool| -> Opnd {
        match rng.below(10) {
            0..=3 => Opnd::Var(if nullable { rng.pick(&["p", "v2", "B", "q0"]).to_string() } else { rng.pick(&["v1", "x", "dd", "a"]).to_string() }),
            4..=6 => Opnd::Str(rng.pick(&IDENT_POOL).to_string()),
            _ => Opnd::Str(gen_string(rng).chars().filter(|c| *c != '\\' && *c != '\n' && *c != '\r' && *c != '\0').take(12).collect()),
        }
    };
    let field_of = |q: &SQuery, a: bool, i: usize| -> usize { if a { q.sel[i].0 } else { i } };
    for _ in 0..rng.range(1, 3) { let (a, i) = pick_ref(rng, &q); let nl = m.fields[field_of(&q, a, i)].nullable; q.filters.push((a, i, rng.below(6) as usize, gen_opnd(rng, nl))); }
    if rng.chance(1, 3) {
        let (a, i) = pick_ref(rng, &q);
        q.order.push((a, i, rng.chance(1, 2)));
        q.after.push(gen_opnd(rng, false));
    }
    q
}

fn statements(out: &mut Buf, rng: &mut Rng) {
    // CDefault: arbitrary text as the default of a String field
    let defaults = ["dd", "it's", "a''b", "' OR '1'='1", "x' --", "", "a b", "%", "é\u{10000}", "a\"b", "'", "''", "a,b(c)", "?1", "null"];
    let n_random = scale(25, 300);
    let mut all: Vec<String> = defaults.iter().map(|s| s.to_string()).collect();
    for _ in 0..n_random { all.push(gen_string(rng).chars().filter(|c| *c != '\\' && *c != '\n' && *c != '\r' && *c != '\0').take(10).collect()); }
    for d in all {
        let m = SModel { fields: vec![
            SField { name: "name", ty: "String", coq_ty: "TStr", nullable: false, default: None },
            SField { name: "t", ty: "String", coq_ty: "TStr", nullable: false, default: Some(d.clone()) },
            SField { name: "n", ty: "Integer", coq_ty: "TInt", nullable: false, default: Some("3".into()) } ] };
        let mut dm = DataModel::new();
        if let Err(e) = dm.update(&m.text()) { eprintln!("model refused: {} : {}", m.text(), e); continue; }
        let conn = Connection::open_in_memory().unwrap();
        prepare_connection(&conn).unwrap();
        let w = World { dm, conn, s_short: String::new() };
        for text in ["mutate { S { name: \"r0\" t: \"given\" } }", "mutate { S { name: \"r1\" } }"] {
            let mutation = MutationParser::parse(text, &w.dm).unwrap();
            let mut p = Parameters::new();
            let mut mq = MutationQuery::execute(&mut p, Arc::new(mutation), &w.conn).unwrap();
            mq.write(&w.conn).unwrap();
        }
        // the same model with the neutral default "x": what the implementation compiles then
        let mn = SModel { fields: vec![
            SField { name: "name", ty: "String", coq_ty: "TStr", nullable: false, default: None },
            SField { name: "t", ty: "String", coq_ty: "TStr", nullable: false, default: Some("x".into()) },
            SField { name: "n", ty: "Integer", coq_ty: "TInt", nullable: false, default: Some("3".into()) } ] };
        let mut dmn = DataModel::new();
        dmn.update(&mn.text()).unwrap();
        let queries = [
            SQuery { sel: vec![(0, None), (1, None)], filters: vec![(false, 1, 0, Opnd::Str("given".into()))], order: vec![], after: vec![] },
            SQuery { sel: vec![(0, None)], filters: vec![(false, 1, 1, Opnd::Var("v".into()))], order: vec![], after: vec![] },
            SQuery { sel: vec![(0, None), (1, Some("tt".into()))], filters: vec![(true, 1, 4, Opnd::Str("a".into())), (false, 2, 5, Opnd::Int(3))], order: vec![], after: vec![] },
        ];
        for q in queries.iter() {
            let text = q.text(&m);
            let (sql, ok, note) = match real_sql(&w.dm, &text) {
                Err(e) => (String::new(), 0, e),
                Ok(sql) => {
                    let mut p = Parameters::new();
                    if text.contains("$v") { p.add("v", String::from("given")).unwrap(); }
                    match query(&w, &w.dm, &text, p) { Ok(_) => (sql, 1, String::new()), Err(e) => (sql, 0, e) }
                }
            };
            let mut obs = vec![ok];
            enc_str(&sql, &mut obs);
            let neutral_sql = real_sql(&dmn, &text).unwrap_or_default();
            enc_str(&neutral_sql, &mut obs);
            out.push(Case { kind: "default".into(), coq: format!("CDefault {} {}", m.coq(&w.dm), q.coq()), obs, meta: json!({"default": d, "query": text, "sql": sql, "note": note}) });
        }
    }
    // CShape: the same query with every string literal replaced
    let m = SModel { fields: vec![
        SField { name: "name", ty: "String", coq_ty: "TStr", nullable: false, default: None },
        SField { name: "b", ty: "String", coq_ty: "TStr", nullable: true, default: None },
        SField { name: "c", ty: "String", coq_ty: "TStr", nullable: false, default: Some("dd".into()) },
        SField { name: "n", ty: "Integer", coq_ty: "TInt", nullable: false, default: None } ] };
    let mut dm = DataModel::new();
    dm.update(&m.text()).unwrap();
    let mut directed = vec![
        SQuery { sel: vec![(0, None), (1, None)], filters: vec![(false, 1, 0, Opnd::Str("dd".into())), (false, 0, 0, Opnd::Var("dd".into()))], order: vec![], after: vec![] },
        SQuery { sel: vec![(0, None), (1, None)], filters: vec![(false, 0, 0, Opnd::Var("dd".into())), (false, 1, 0, Opnd::Str("dd".into()))], order: vec![], after: vec![] },
        SQuery { sel: vec![(0, None)], filters: vec![(false, 0, 0, Opnd::Str("'; DROP TABLE _node; --".into()))], order: vec![], after: vec![] },
    ];
    for _ in 0..scale(220, 4000) { directed.push(gen_squery(rng, &m, &[0, 1, 2])); }
    for q in directed {
        let (t1, t2) = (q.text(&m), q.neutral().text(&m));
        let (s1, s2) = (real_sql(&dm, &t1), real_sql(&dm, &t2));
        let obs = match (&s1, &s2) { (Ok(a), Ok(b)) => vec![(a == b) as i64], _ => vec![-1] };
        out.push(Case { kind: "shape".into(), coq: format!("CShape {} {}", m.coq(&dm), q.coq()), obs,
            meta: json!({"query": t1, "neutral": t2, "sql": s1.unwrap_or_else(|e| e), "sql_neutral": s2.unwrap_or_else(|e| e)}) });
    }
}

fn main() {
    let mut rng = Rng::from_env();
    let mut real_out = Out::create();
    let mut out = Buf { v: vec![], n: 0 };
    let w = new_world();
    // directed: the known finding and its neighbours
    str_case(&mut out, &w, How::Literal, "a\\\\b", "directed-K1-literal-backslash");
    str_case(&mut out, &w, How::Param, "a\\b", "directed-K1-param-backslash-literal-filter");
    str_case(&mut out, &w, How::Literal, "line\\nbreak", "directed-K1-literal-newline-escape");
    str_case(&mut out, &w, How::Literal, "\\u0041", "directed-K1-literal-unicode-escape");
    str_case(&mut out, &w, How::Literal, "say \\\"hi\\\"", "directed-literal-escaped-quote-ok");
    str_case(&mut out, &w, How::Literal, "\\ud83d\\ude00", "directed-literal-surrogate-pair");
    str_case(&mut out, &w, How::Literal, "a\\ud83db", "directed-literal-lone-high-surrogate");
    str_case(&mut out, &w, How::Literal, "\\ude00\\ud83d", "directed-literal-reversed-surrogates");
    str_case(&mut out, &w, How::Param, "it's \"quoted\"", "directed-param-quotes-ok");
    str_case(&mut out, &w, How::Param, "'; DROP TABLE _node; --", "directed-param-sql");
    str_case(&mut out, &w, How::Literal, "'; DROP TABLE _node; --", "directed-literal-sql");
    // every ASCII character alone and next to a quote / a backslash, as a parameter
    for c in 0u8..128 {
        let ch = c as char;
        str_case(&mut out, &w, How::Param, &ch.to_string(), "ascii-param");
        if tier_thorough() || c % 4 == 0 || c < 36 || ch == '\\' || ch == '\'' {
            for pair in [format!("{}\"", ch), format!("\"{}", ch), format!("{}\\", ch), format!("\\{}", ch), format!("{}'", ch)] { str_case(&mut out, &w, How::Param, &pair, "ascii-pair-param"); }
        }
        // as a literal: the character itself where the grammar allows it raw
        if ch != '"' && ch != '\\' { str_case(&mut out, &w, How::Literal, &ch.to_string(), "ascii-literal"); }
    }
    for _ in 0..scale(400, 6000) { let s = gen_string(&mut rng); str_case(&mut out, &w, How::Param, &s, "string-param"); }
    for _ in 0..scale(300, 4000) { let only_q = rng.chance(1, 2); let ts = gen_tokens(&mut rng, only_q); str_case(&mut out, &w, How::Literal, &render(&ts), if only_q { "string-literal-quote-escapes" } else { "string-literal-any-escape" }); }
    // integers
    for z in [0i64, 1, -1, i64::MAX, i64::MIN, i64::MIN + 1, 9007199254740992, 9007199254740993, -9007199254740993, 4294967296, 1000000000000000000] {
        int_case(&mut out, &w, How::Param, z); int_case(&mut out, &w, How::Literal, z);
    }
    for _ in 0..scale(60, 600) { let z = rng.next() as i64 >> rng.below(64); int_case(&mut out, &w, if rng.chance(1, 2) { How::Param } else { How::Literal }, z); }
    // floats
    for f in [0.0f64, -0.0, 1.0, 0.1, 0.2, 0.1 + 0.2, 1.0 / 3.0, 2.5e-8, 1e21, 1e22, 1e300, f64::MAX, f64::MIN_POSITIVE, 5e-324, 4.9406564584124654e-324, 1.7976931348623157e308,
              123456789.12345678, 9007199254740993.0, 8.407903850944054e17, 1.2345678901234567e17, -1.2698320800958502e18, 9007199254740994.0, 1e17, 0.30000000000000004, 1e15, 1e16, 123456789012345680.0, 2.2250738585072014e-308, 1.5, -2.75] {
        flt_case(&mut out, &w, How::Param, f, "float-directed"); flt_case(&mut out, &w, How::Literal, f, "float-directed");
    }
    for _ in 0..scale(150, 2000) {
        let f = loop { let f = match rng.below(3) { 0 => f64::from_bits(rng.next()), 1 => (rng.next() as f64 / u64::MAX as f64) * 10f64.powi(rng.range(-5, 20) as i32), _ => (rng.range(-100000, 100000) as f64) / 100.0 }; if f.is_finite() { break f; } };
        flt_case(&mut out, &w, if rng.chance(1, 2) { How::Param } else { How::Literal }, f, "float");
    }
    for b in [true, false] { bool_case(&mut out, &w, How::Param, b); bool_case(&mut out, &w, How::Literal, b); }
    let _ = &w.s_short;
    statements(&mut out, &mut rng);
    eprintln!("c04: {} cases", out.n);
    let mut kinds: std::collections::BTreeMap<String, (usize, usize, usize)> = Default::default();   // kind -> (cases, write refused, frame violated)
    for c in &out.v {
        let e = kinds.entry(c.kind.split('-').next().unwrap().to_string()).or_default();
        e.0 += 1;
        if c.kind != "shape" && c.obs.first().map(|s| *s != 0 && c.obs.len() == 1).unwrap_or(false) { e.1 += 1; }
        if c.meta.get("frame").and_then(|f| f.as_i64()) == Some(0) { e.2 += 1; }
    }
    out.v[0].meta["generator"] = json!(kinds.iter().map(|(k, v)| format!("{}: {} cases, {} refused, {} frame violations", k, v.0, v.1, v.2)).collect::<Vec<_>>());
    for c in out.v { real_out.push(c); }
    real_out.finish();
}
