//! C04 correspondence: values written through the real mutation path (MutationParser + MutationQuery::execute +
//! write on an in-memory SQLite connection) as parameter or as literal, read back through the real query path
//! (by id, by equality filter with a parameter, by equality filter with a literal), with a snapshot of every row
//! before and after (frame condition); and the SQL text of the real compiler under arbitrary default values
//! (CDefault) and under replacement of every string literal (CShape).
use discret::verif_hooks::configuration::Configuration;
use discret::verif_hooks::database::graph_database::GraphDatabaseService;
use discret::verif_hooks::event_service::EventService;
use discret::verif_hooks::security::random32;
use discret::verif_hooks::database::mutation_query::MutationQuery;
use discret::verif_hooks::database::query::{PreparedQueries, Query};
use discret::verif_hooks::database::query_language::data_model_parser::DataModel;
use discret::verif_hooks::database::query_language::mutation_parser::MutationParser;
use discret::verif_hooks::database::query_language::parameter::{Parameters, ParametersAdd};
use discret::verif_hooks::database::query_language::query_parser::QueryParser;
use discret::verif_hooks::database::sqlite_database::{prepare_connection, Writeable};
use discret::verif_hooks::security::uid_encode;
use rusqlite::Connection;
use serde_json::json;
use std::sync::Arc;
use vharness::common::*;

/// cases are buffered so that the generator statistics can be attached to the first case
struct Buf { v: Vec<Case>, n: usize }
impl Buf { fn push(&mut self, c: Case) { self.v.push(c); self.n += 1; } }

fn gstr(s: &str) -> String { glist(&s.chars().map(|c| gn(c as u64)).collect::<Vec<_>>()) }
fn enc_str(s: &str, o: &mut Vec<i64>) { let cs: Vec<char> = s.chars().collect(); o.push(cs.len() as i64); for c in cs { o.push(c as i64) } }

// ---------------------------------------------------------------- the value table
struct World { dm: DataModel, conn: Connection, s_short: String }

const MODEL: &str = "{ V { s: String, i: Integer, f: Float, b: Boolean, other: Integer default 7, sn: String nullable } }";

fn new_world() -> World {
    let mut dm = DataModel::new();
    dm.update(MODEL).unwrap();
    let conn = Connection::open_in_memory().unwrap();
    prepare_connection(&conn).unwrap();
    let s_short = dm.get_entity("V").unwrap().get_field("s").unwrap().short_name.clone();
    let w = World { dm, conn, s_short };
    // the other rows
    for (k, s) in ["plain", "it's", "a\\b", "\"q\"", "", "né\u{10000}"].iter().enumerate() {
        let mut p = Parameters::new();
        p.add("s", s.to_string()).unwrap();
        p.add("i", k as i64 - 2).unwrap();
        mutate(&w, "mutate { V { s: $s i: $i f: 0.5 b: false sn: null } }", p).unwrap();
    }
    w
}
fn mutate(w: &World, text: &str, mut p: Parameters) -> Result<[u8; 16], String> {
    let mutation = MutationParser::parse(text, &w.dm).map_err(|e| format!("parse: {}", e))?;
    let mut mq = MutationQuery::execute(&mut p, Arc::new(mutation), &w.conn).map_err(|e| format!("execute: {}", e))?;
    mq.write(&w.conn).map_err(|e| format!("write: {}", e))?;
    Ok(mq.mutate_entities[0].node_to_mutate.id)
}
fn query(w: &World, dm: &DataModel, text: &str, p: Parameters) -> Result<String, String> {
    let qp = QueryParser::parse(text, dm).map_err(|e| format!("parse: {}", e))?;
    let pq = PreparedQueries::build(&qp).map_err(|e| format!("build: {}", e))?;
    let mut sql = Query { parameters: p, parser: Arc::new(qp), sql_queries: Arc::new(pq) };
    sql.read(&w.conn).map_err(|e| format!("read: {}", e))
}
fn snapshot(w: &World) -> Vec<(i64, Vec<u8>, Option<String>, i64, i64)> {
    let mut st = w.conn.prepare("SELECT rowid, id, _json, cdate, mdate FROM _node ORDER BY rowid").unwrap();
    let rows = st.query_map([], |r| Ok((r.get(0)?, r.get(1)?, r.get(2)?, r.get(3)?, r.get(4)?))).unwrap().map(|x| x.unwrap()).collect();
    rows
}
/// raw JSON text of the value of `key` in a JSON object text (scanner; no re-serialisation)
fn raw_member(json: &str, key: &str) -> Option<String> {
    let pat = format!("\"{}\":", key);
    let start = json.find(&pat)? + pat.len();
    let b: Vec<char> = json[start..].chars().collect();
    let mut out = String::new();
    if b[0] == '"' {
        let mut i = 1;
        while i < b.len() {
            if b[i] == '\\' { out.push(b[i]); out.push(b[i + 1]); i += 2; continue; }
            if b[i] == '"' { return Some(out); }
            out.push(b[i]); i += 1;
        }
        None
    } else {
        for c in b { if c == ',' || c == '}' || c == ']' { break; } out.push(c); }
        Some(out)
    }
}

enum How { Param, Literal }
impl How { fn coq(&self) -> &'static str { match self { How::Param => "HParam", How::Literal => "HLiteral" } } }

/// serde-independent JSON string escaping used to write the literal for a parameter-style value
fn json_esc(s: &str) -> String {
    let mut o = String::new();
    for c in s.chars() {
        match c {
            '"' => o.push_str("\\\""), '\\' => o.push_str("\\\\"), '\u{8}' => o.push_str("\\b"), '\u{c}' => o.push_str("\\f"),
            '\n' => o.push_str("\\n"), '\r' => o.push_str("\\r"), '\t' => o.push_str("\\t"),
            c if (c as u32) < 32 => o.push_str(&format!("\\u{:04x}", c as u32)),
            c => o.push(c),
        }
    }
    o
}

struct RoundTrip { status: i64, raw: String, back: Option<serde_json::Value>, back_raw: String, by_param: i64, by_literal: i64, frame: i64, note: String }

/// write `field := value` into a fresh row (update by id), read it back in the three ways, check the frame
fn round_trip(w: &World, field: &str, assign: &str, mut wp: Parameters, fp: Box<dyn Fn(&mut Parameters)>, filter_literal: &str) -> RoundTrip {
    let mut rt = RoundTrip { status: 0, raw: String::new(), back: None, back_raw: String::new(), by_param: 0, by_literal: 0, frame: 0, note: String::new() };
    let id = mutate(w, "mutate { V { s: \"init\" i: 1 f: 1.5 b: true sn: \"keep\" } }", Parameters::new()).unwrap();
    let id64 = uid_encode(&id);
    let before = snapshot(w);
    wp.add("id", id64.clone()).unwrap();
    if let Err(e) = mutate(w, &format!("mutate {{ V {{ id: $id {}: {} }} }}", field, assign), wp) {
        rt.status = if e.starts_with("parse") { 1 } else { 2 }; rt.note = e; return rt;
    }
    let after = snapshot(w);
    // frame: every other row identical; this row: same rowid/id/cdate, the other fields unchanged
    let mut frame_ok = before.len() == after.len();
    if frame_ok {
        for (b, a) in before.iter().zip(after.iter()) {
            if b.1 != id.to_vec() { if b != a { frame_ok = false; } }
            else {
                if b.0 != a.0 || b.1 != a.1 || b.3 != a.3 { frame_ok = false; }
                let jb: serde_json::Value = serde_json::from_str(b.2.as_ref().unwrap()).unwrap();
                let ja: serde_json::Value = serde_json::from_str(a.2.as_ref().unwrap()).unwrap();
                let fshort = w.dm.get_entity("V").unwrap().get_field(field).unwrap().short_name.clone();
                for (k, v) in jb.as_object().unwrap() { if *k != fshort && ja.get(k) != Some(v) { frame_ok = false; } }
                if ja.as_object().unwrap().len() != jb.as_object().unwrap().len() { frame_ok = false; }
                let fshort2 = fshort.clone();
                rt.raw = raw_member(a.2.as_ref().unwrap(), &fshort2).unwrap_or_default();
            }
        }
    }
    rt.frame = frame_ok as i64;
    let mut p = Parameters::new(); p.add("id", id64.clone()).unwrap();
    match query(w, &w.dm, &format!("query {{ V (id = $id) {{ {} }} }}", field), p) {
        Ok(s) => {
            let v: serde_json::Value = serde_json::from_str(&s).unwrap_or(json!(null));
            rt.back = v.get("V").and_then(|a| a.get(0)).and_then(|o| o.get(field)).cloned();
            rt.back_raw = raw_member(&s, field).unwrap_or_default();
        }
        Err(e) => { rt.status = 3; rt.note = e; return rt; }
    }
    let count = |s: &str| -> i64 { let v: serde_json::Value = serde_json::from_str(s).unwrap_or(json!(null)); v.get("V").and_then(|a| a.as_array()).map(|a| a.len() as i64).unwrap_or(-1) };
    let mut p = Parameters::new(); p.add("id", id64.clone()).unwrap(); fp(&mut p);
    rt.by_param = match query(w, &w.dm, &format!("query {{ V (id = $id, {} = $p) {{ id }} }}", field), p) { Ok(s) => count(&s), Err(e) => { rt.note = e; -2 } };
    let mut p = Parameters::new(); p.add("id", id64.clone()).unwrap();
    rt.by_literal = match query(w, &w.dm, &format!("query {{ V (id = $id, {} = {}) {{ id }} }}", field, filter_literal), p) { Ok(s) => count(&s), Err(e) => { rt.note = e; -2 } };
    rt
}

// ---------------------------------------------------------------- literal tokens (what the grammar accepts)
#[derive(Clone)]
enum Tok { Ch(char), Esc(char), U(String) }
fn render(ts: &[Tok]) -> String {
    let mut o = String::new();
    for t in ts { match t { Tok::Ch(c) => o.push(*c), Tok::Esc(c) => { o.push('\\'); o.push(*c) } Tok::U(h) => { o.push_str("\\u"); o.push_str(h) } } }
    o
}
fn gen_scalar(rng: &mut Rng) -> char {
    loop {
        let c = match rng.below(10) {
            0..=3 => rng.below(128) as u32,
            4 => 0x80 + rng.below(0x780) as u32,
            5..=6 => rng.below(0x10000) as u32,
            7 => 0x10000 + rng.below(0x100000) as u32,
            8 => *rng.pick(&[0x7f, 0x80, 0xff, 0x2028, 0xfffd, 0xffff, 0x10ffff, 0xd7ff, 0xe000]),
            _ => *rng.pick(&[0x27, 0x22, 0x5c, 0x2f, 0x25, 0x5f, 0x3b, 0x2d, 0x24, 0x7b, 0x5b]),
        };
        if let Some(ch) = char::from_u32(c) { return ch; }
    }
}
fn gen_string(rng: &mut Rng) -> String {
    match rng.below(12) {
        0 => String::new(),
        1 => (0..rng.range(100, 300)).map(|_| gen_scalar(rng)).collect(),
        2 => rng.pick(&["'; DROP TABLE _node; --", "' OR '1'='1", "{\"a\":[1,2,{\"b\":null}]}", "%_%", "null", "NULL", "?1", "$p", "\\\"", "\\u0041", "a\\\\b", "--", "/* */", "\u{0}", "a\u{0}b"]).to_string(),
        _ => (0..rng.range(1, 6)).map(|_| gen_scalar(rng)).collect(),
    }
}
fn gen_tokens(rng: &mut Rng, only_quote: bool) -> Vec<Tok> {
    let n = rng.range(0, 6);
    (0..n).map(|_| {
        match rng.below(if only_quote { 6 } else { 12 }) {
            0..=3 => loop { let c = gen_scalar(rng); if c != '"' && c != '\\' { break Tok::Ch(c); } },
            4..=5 => Tok::Esc('"'),
            6..=9 => Tok::Esc(*rng.pick(&['\\', '/', 'b', 'f', 'n', 'r', 't', '"'])),
            _ => {
                // any code unit, surrogates included (a pair is written as two consecutive escapes by the caller's luck or below)
                let u = match rng.below(8) { 0 => 0xd800 + rng.below(0x400) as u32, 1 => 0xdc00 + rng.below(0x400) as u32, _ => rng.below(0x10000) as u32 };
                Tok::U(if rng.chance(1, 2) { format!("{:04x}", u) } else { format!("{:04X}", u) })
            }
        }
    }).collect()
}

fn str_case(out: &mut Buf, w: &World, how: How, text: &str, kind: &str) {
    // Param: text is the value; Literal: text is what stands between the quotes
    let rt = match how {
        How::Param => {
            let mut wp = Parameters::new(); wp.add("v", text.to_string()).unwrap();
            let t = text.to_string();
            round_trip(w, "s", "$v", wp, Box::new(move |p| p.add("p", t.clone()).unwrap()), &format!("\"{}\"", json_esc(text)))
        }
        How::Literal => {
            // the value the literal denotes, computed independently of the implementation, for the parameter filter
            let intended: String = literal_meaning(text);
            round_trip(w, "s", &format!("\"{}\"", text), Parameters::new(), Box::new(move |p| p.add("p", intended.clone()).unwrap()), &format!("\"{}\"", text))
        }
    };
    let mut obs = vec![rt.status];
    if rt.status == 0 {
        enc_str(&rt.raw, &mut obs);
        match &rt.back { Some(serde_json::Value::String(s)) => enc_str(s, &mut obs), other => { obs.push(-1); let _ = other; } }
        obs.push(rt.by_param); obs.push(rt.by_literal); obs.push(rt.frame);
    }
    out.push(Case { kind: kind.into(), coq: format!("CStr {} {}", how.coq(), gstr(text)), obs,
        meta: json!({"text": text, "stored_raw": rt.raw, "read_back": rt.back, "by_param": rt.by_param, "by_literal": rt.by_literal, "frame": rt.frame, "note": rt.note}) });
}
/// what a literal denotes: characters themselves, escapes their JSON meaning as UTF-16 code units; units are then
/// read as UTF-16 (a surrogate pair is one scalar, a surrogate left alone becomes U+FFFD)
fn literal_meaning(lit: &str) -> String {
    let cs: Vec<char> = lit.chars().collect();
    let mut units: Vec<u16> = vec![];
    let mut i = 0;
    while i < cs.len() {
        if cs[i] != '\\' { let mut b = [0u16; 2]; units.extend_from_slice(cs[i].encode_utf16(&mut b)); i += 1; continue; }
        let e = cs[i + 1];
        match e {
            'u' => { let h: String = cs[i + 2..i + 6].iter().collect(); units.push(u16::from_str_radix(&h, 16).unwrap()); i += 6; }
            _ => { units.push(match e { '"' => 34, '\\' => 92, '/' => 47, 'b' => 8, 'f' => 12, 'n' => 10, 'r' => 13, 't' => 9, o => o as u16 }); i += 2; }
        }
    }
    String::from_utf16_lossy(&units)
}

// ---------------------------------------------------------------- numbers
fn float_text(f: f64) -> String {
    // grammar: -? digits . digits* (e [+-]? digits)?  — shortest round-trip digits from {:e}
    let s = format!("{:e}", f);
    let (m, e) = s.split_once('e').unwrap();
    let m = if m.contains('.') { m.to_string() } else { format!("{}.0", m) };
    if e == "0" { m } else { format!("{}e{}", m, e) }
}
fn raw_number_bits(raw: &str) -> i64 { raw.trim().parse::<f64>().map(|f| f.to_bits() as i64).unwrap_or(-1) }

fn flt_case(out: &mut Buf, w: &World, how: How, f: f64, kind: &str) {
    let text = float_text(f);
    let tb = text.parse::<f64>().unwrap().to_bits() as i64;
    let rt = match how {
        How::Param => { let mut wp = Parameters::new(); wp.add("v", f).unwrap(); round_trip(w, "f", "$v", wp, Box::new(move |p| p.add("p", f).unwrap()), &text) }
        How::Literal => round_trip(w, "f", &text, Parameters::new(), Box::new(move |p| p.add("p", f).unwrap()), &text),
    };
    let back_bits = raw_number_bits(&rt.back_raw);
    let obs = if rt.status == 0 { vec![0, back_bits, rt.by_param, rt.by_literal, rt.frame] } else { vec![rt.status] };
    let digits = format!("{:e}", f).split('e').next().unwrap().chars().filter(|c| c.is_ascii_digit()).count();
    out.push(Case { kind: kind.into(), coq: format!("CFlt {} {} {}", how.coq(), gz(f.to_bits() as i64), gz(tb)), obs,
        meta: json!({"value": format!("{:e}", f), "literal": text, "digits": digits, "stored_raw": rt.raw, "read_back_raw": rt.back_raw, "by_param": rt.by_param, "by_literal": rt.by_literal, "note": rt.note}) });
}
fn int_case(out: &mut Buf, w: &World, how: How, z: i64) {
    let rt = match how {
        How::Param => { let mut wp = Parameters::new(); wp.add("v", z).unwrap(); round_trip(w, "i", "$v", wp, Box::new(move |p| p.add("p", z).unwrap()), &z.to_string()) }
        How::Literal => round_trip(w, "i", &z.to_string(), Parameters::new(), Box::new(move |p| p.add("p", z).unwrap()), &z.to_string()),
    };
    let back = rt.back_raw.trim().parse::<i64>().unwrap_or(i64::MIN + 5);
    let obs = if rt.status == 0 { vec![0, back, rt.by_param, rt.by_literal, rt.frame] } else { vec![rt.status] };
    out.push(Case { kind: "int".into(), coq: format!("CInt {} {}", how.coq(), gz(z)), obs, meta: json!({"value": z, "read_back_raw": rt.back_raw, "note": rt.note}) });
}
fn bool_case(out: &mut Buf, w: &World, how: How, b: bool) {
    let rt = match how {
        How::Param => { let mut wp = Parameters::new(); wp.add("v", b).unwrap(); round_trip(w, "b", "$v", wp, Box::new(move |p| p.add("p", b).unwrap()), &b.to_string()) }
        How::Literal => round_trip(w, "b", &b.to_string(), Parameters::new(), Box::new(move |p| p.add("p", b).unwrap()), &b.to_string()),
    };
    let back = match rt.back { Some(serde_json::Value::Bool(x)) => x as i64, _ => -1 };
    let obs = if rt.status == 0 { vec![0, back, rt.by_param, rt.by_literal, rt.frame] } else { vec![rt.status] };
    out.push(Case { kind: "bool".into(), coq: format!("CBool {} {}", how.coq(), gb(b)), obs, meta: json!({"value": b, "note": rt.note}) });
}

// ---------------------------------------------------------------- statements
#[derive(Clone)]
enum Opnd { Str(String), Int(i64), Var(String) }
impl Opnd {
    fn coq(&self) -> String { match self { Opnd::Str(s) => format!("(OLit (VStr {}))", gstr(s)), Opnd::Int(z) => format!("(OLit (VInt {}))", gz(*z)), Opnd::Var(n) => format!("(OVar {})", gstr(n)) } }
    fn text(&self) -> String { match self { Opnd::Str(s) => format!("\"{}\"", s.replace('"', "\\\"")), Opnd::Int(z) => z.to_string(), Opnd::Var(n) => format!("${}", n) } }
    fn neutral(&self) -> Opnd { match self { Opnd::Str(_) => Opnd::Str("x".into()), o => o.clone() } }
}
struct SField { name: &'static str, ty: &'static str, coq_ty: &'static str, nullable: bool, default: Option<String> }
struct SModel { fields: Vec<SField> }
impl SModel {
    fn text(&self) -> String {
        let fs: Vec<String> = self.fields.iter().map(|f| format!("{}: {}{}", f.name, f.ty,
            if f.nullable { " nullable".to_string() } else if let Some(d) = &f.default { if f.ty == "String" { format!(" default \"{}\"", d.replace('"', "\\\"")) } else { format!(" default {}", d) } } else { String::new() })).collect();
        format!("{{ S {{ {} }} }}", fs.join(", "))
    }
    fn coq(&self, dm: &DataModel) -> String {
        let ent = dm.get_entity("S").unwrap();
        let fs: Vec<String> = self.fields.iter().map(|f| {
            let d = match &f.default { None => "None".to_string(), Some(d) => if f.ty == "String" { format!("(Some (VStr {}))", gstr(d)) } else { format!("(Some (VInt {}))", d) } };
            format!("(Build_fdef {} {} {} {} {})", gstr(f.name), gstr(&ent.get_field(f.name).unwrap().short_name), f.coq_ty, gb(f.nullable), d)
        }).collect();
        format!("(Build_emodel {} {} {})", gstr("S"), gstr(&ent.short_name), glist(&fs))
    }
}
#[derive(Clone)]
struct SQuery { sel: Vec<(usize, Option<String>)>, filters: Vec<(bool, usize, usize, Opnd)>, order: Vec<(bool, usize, bool)>, after: Vec<Opnd> }
const OPS: [&str; 6] = ["=", "!=", "<", "<=", ">", ">="];
const OPS_COQ: [&str; 6] = ["OEq", "ONe", "OLt", "OLe", "OGt", "OGe"];
impl SQuery {
    fn rname(&self, m: &SModel, alias: bool, i: usize) -> String { if alias { self.sel[i].1.clone().unwrap() } else { m.fields[i].name.to_string() } }
    fn text(&self, m: &SModel) -> String {
        let mut ps: Vec<String> = self.filters.iter().map(|(a, i, op, v)| format!("{} {} {}", self.rname(m, *a, *i), OPS[*op], v.text())).collect();
        if !self.order.is_empty() { ps.push(format!("order_by({})", self.order.iter().map(|(a, i, d)| format!("{} {}", self.rname(m, *a, *i), if *d { "desc" } else { "asc" })).collect::<Vec<_>>().join(", "))); }
        if !self.after.is_empty() { ps.push(format!("after({})", self.after.iter().map(|v| v.text()).collect::<Vec<_>>().join(", "))); }
        let fields: Vec<String> = self.sel.iter().map(|(f, a)| match a { Some(a) => format!("{}: {}", a, m.fields[*f].name), None => m.fields[*f].name.to_string() }).collect();
        format!("query {{ S {} {{ {} }} }}", if ps.is_empty() { String::new() } else { format!("({})", ps.join(", ")) }, fields.join(" "))
    }
    fn coq(&self) -> String {
        let r = |a: bool, i: usize| if a { format!("(FByAlias {})", i) } else { format!("(FByName {})", i) };
        let sel: Vec<String> = self.sel.iter().map(|(f, a)| format!("(Build_selfield {} {})", f, gopt(&a.as_ref().map(|x| gstr(x))))).collect();
        let fl: Vec<String> = self.filters.iter().map(|(a, i, op, v)| format!("(Build_qfilter {} {} {})", r(*a, *i), OPS_COQ[*op], v.coq())).collect();
        let ord: Vec<String> = self.order.iter().map(|(a, i, d)| format!("(Build_okey {} {})", r(*a, *i), if *d { "Desc" } else { "Asc" })).collect();
        let pg = if self.after.is_empty() { "PNone".to_string() } else { format!("(PAfter {})", glist(&self.after.iter().map(|v| v.coq()).collect::<Vec<_>>())) };
        format!("(Build_query None {} {} {} (OLit (VInt 0)) None {})", glist(&sel), glist(&fl), glist(&ord), pg)
    }
    fn neutral(&self) -> SQuery { let mut q = self.clone(); for f in q.filters.iter_mut() { f.3 = f.3.neutral(); } for v in q.after.iter_mut() { *v = v.neutral(); } q }
}
fn norm_ws(s: &str) -> String {
    let mut out = String::new();
    let (mut pending, mut prev_punct) = (false, true);
    for c in s.chars() {
        if c == ' ' || c == '\t' || c == '\n' || c == '\r' { pending = true; }
        else if c == '(' || c == ')' || c == ',' { out.push(c); pending = false; prev_punct = true; }
        else { if pending && !prev_punct { out.push(' '); } out.push(c); pending = false; prev_punct = false; }
    }
    out
}
fn real_sql(dm: &DataModel, text: &str) -> Result<String, String> {
    let qp = QueryParser::parse(text, dm).map_err(|e| format!("parse: {}", e))?;
    let pq = PreparedQueries::build(&qp).map_err(|e| format!("build: {}", e))?;
    Ok(norm_ws(&pq.sql_queries[0].sql_query))
}

const IDENT_POOL: [&str; 8] = ["v1", "x", "dd", "a", "p", "v2", "B", "q0"];
fn gen_squery(rng: &mut Rng, m: &SModel, string_fields: &[usize]) -> SQuery {
    // selection: name + a random subset, some aliased
    let mut sel: Vec<(usize, Option<String>)> = vec![(0, None)];
    for i in 1..m.fields.len() { if rng.chance(1, 2) { sel.push((i, if rng.chance(1, 3) { Some(format!("al{}", i)) } else { None })); } }
    let mut q = SQuery { sel, filters: vec![], order: vec![], after: vec![] };
    let pick_ref = |rng: &mut Rng, q: &SQuery| -> (bool, usize) {
        let aliased: Vec<usize> = (0..q.sel.len()).filter(|k| q.sel[*k].1.is_some() && string_fields.contains(&q.sel[*k].0)).collect();
        if !aliased.is_empty() && rng.chance(1, 3) { (true, *rng.pick(&aliased)) } else { (false, *rng.pick(string_fields)) }
    };
    // variables are typed by the field they are compared with: one pool per nullability
    let gen_opnd = |rng: &mut Rng, nullable: bool| -> Opnd {
        match rng.below(10) {
            0..=3 => Opnd::Var(if nullable { rng.pick(&["p", "v2", "B", "q0"]).to_string() } else { rng.pick(&["v1", "x", "dd", "a"]).to_string() }),
            4..=6 => Opnd::Str(rng.pick(&IDENT_POOL).to_string()),
            _ => Opnd::Str(gen_string(rng).chars().filter(|c| *c != '\\' && *c != '\n' && *c != '\r' && *c != '\0').take(12).collect()),
        }
    };
    let field_of = |q: &SQuery, a: bool, i: usize| -> usize { if a { q.sel[i].0 } else { i } };
    for _ in 0..rng.range(1, 3) { let (a, i) = pick_ref(rng, &q); let nl = m.fields[field_of(&q, a, i)].nullable; q.filters.push((a, i, rng.below(6) as usize, gen_opnd(rng, nl))); }
    if rng.chance(1, 3) {
        let (a, i) = pick_ref(rng, &q);
        q.order.push((a, i, rng.chance(1, 2)));
        q.after.push(gen_opnd(rng, false));
    }
    q
}

fn statements(out: &mut Buf, rng: &mut Rng) {
    // CDefault: arbitrary text as the default of a String field
    let defaults = ["dd", "it's", "a''b", "' OR '1'='1", "x' --", "", "a b", "%", "é\u{10000}", "a\"b", "'", "''", "a,b(c)", "?1", "null"];
    let n_random = scale(25, 300);
    let mut all: Vec<String> = defaults.iter().map(|s| s.to_string()).collect();
    for _ in 0..n_random { all.push(gen_string(rng).chars().filter(|c| *c != '\\' && *c != '\n' && *c != '\r' && *c != '\0').take(10).collect()); }
    for d in all {
        let m = SModel { fields: vec![
            SField { name: "name", ty: "String", coq_ty: "TStr", nullable: false, default: None },
            SField { name: "t", ty: "String", coq_ty: "TStr", nullable: false, default: Some(d.clone()) },
            SField { name: "n", ty: "Integer", coq_ty: "TInt", nullable: false, default: Some("3".into()) } ] };
        let mut dm = DataModel::new();
        if let Err(e) = dm.update(&m.text()) { eprintln!("model refused: {} : {}", m.text(), e); continue; }
        let conn = Connection::open_in_memory().unwrap();
        prepare_connection(&conn).unwrap();
        let w = World { dm, conn, s_short: String::new() };
        for text in ["mutate { S { name: \"r0\" t: \"given\" } }", "mutate { S { name: \"r1\" } }"] {
            let mutation = MutationParser::parse(text, &w.dm).unwrap();
            let mut p = Parameters::new();
            let mut mq = MutationQuery::execute(&mut p, Arc::new(mutation), &w.conn).unwrap();
            mq.write(&w.conn).unwrap();
        }
        // the same model with the neutral default "x": what the implementation compiles then
        let mn = SModel { fields: vec![
            SField { name: "name", ty: "String", coq_ty: "TStr", nullable: false, default: None },
            SField { name: "t", ty: "String", coq_ty: "TStr", nullable: false, default: Some("x".into()) },
            SField { name: "n", ty: "Integer", coq_ty: "TInt", nullable: false, default: Some("3".into()) } ] };
        let mut dmn = DataModel::new();
        dmn.update(&mn.text()).unwrap();
        let queries = [
            SQuery { sel: vec![(0, None), (1, None)], filters: vec![(false, 1, 0, Opnd::Str("given".into()))], order: vec![], after: vec![] },
            SQuery { sel: vec![(0, None)], filters: vec![(false, 1, 1, Opnd::Var("v".into()))], order: vec![], after: vec![] },
            SQuery { sel: vec![(0, None), (1, Some("tt".into()))], filters: vec![(true, 1, 4, Opnd::Str("a".into())), (false, 2, 5, Opnd::Int(3))], order: vec![], after: vec![] },
        ];
        for q in queries.iter() {
            let text = q.text(&m);
            let (sql, ok, note) = match real_sql(&w.dm, &text) {
                Err(e) => (String::new(), 0, e),
                Ok(sql) => {
                    let mut p = Parameters::new();
                    if text.contains("$v") { p.add("v", String::from("given")).unwrap(); }
                    match query(&w, &w.dm, &text, p) { Ok(_) => (sql, 1, String::new()), Err(e) => (sql, 0, e) }
                }
            };
            let mut obs = vec![ok];
            enc_str(&sql, &mut obs);
            let neutral_sql = real_sql(&dmn, &text).unwrap_or_default();
            enc_str(&neutral_sql, &mut obs);
            out.push(Case { kind: "default".into(), coq: format!("CDefault {} {}", m.coq(&w.dm), q.coq()), obs, meta: json!({"default": d, "query": text, "sql": sql, "note": note}) });
        }
    }
    // CShape: the same query with every string literal replaced
    let m = SModel { fields: vec![
        SField { name: "name", ty: "String", coq_ty: "TStr", nullable: false, default: None },
        SField { name: "b", ty: "String", coq_ty: "TStr", nullable: true, default: None },
        SField { name: "c", ty: "String", coq_ty: "TStr", nullable: false, default: Some("dd".into()) },
        SField { name: "n", ty: "Integer", coq_ty: "TInt", nullable: false, default: None } ] };
    let mut dm = DataModel::new();
    dm.update(&m.text()).unwrap();
    let mut directed = vec![
        SQuery { sel: vec![(0, None), (1, None)], filters: vec![(false, 1, 0, Opnd::Str("dd".into())), (false, 0, 0, Opnd::Var("dd".into()))], order: vec![], after: vec![] },
        SQuery { sel: vec![(0, None), (1, None)], filters: vec![(false, 0, 0, Opnd::Var("dd".into())), (false, 1, 0, Opnd::Str("dd".into()))], order: vec![], after: vec![] },
        SQuery { sel: vec![(0, None)], filters: vec![(false, 0, 0, Opnd::Str("'; DROP TABLE _node; --".into()))], order: vec![], after: vec![] },
    ];
    for _ in 0..scale(220, 4000) { directed.push(gen_squery(rng, &m, &[0, 1, 2])); }
    for q in directed {
        let (t1, t2) = (q.text(&m), q.neutral().text(&m));
        let (s1, s2) = (real_sql(&dm, &t1), real_sql(&dm, &t2));
        let obs = match (&s1, &s2) { (Ok(a), Ok(b)) => vec![(a == b) as i64], _ => vec![-1] };
        out.push(Case { kind: "shape".into(), coq: format!("CShape {} {}", m.coq(&dm), q.coq()), obs,
            meta: json!({"query": t1, "neutral": t2, "sql": s1.unwrap_or_else(|e| e), "sql_neutral": s2.unwrap_or_else(|e| e)}) });
    }
}


// ---------------------------------------------------------------- Json and Base64 fields
#[derive(Clone, Debug, PartialEq)]
enum Jv { Null, Bool(bool), Int(i64), Str(String), Arr(Vec<Jv>), Obj(Vec<(String, Jv)>) }
impl Jv {
    fn coq(&self) -> String {
        match self {
            Jv::Null => "JNull".into(), Jv::Bool(b) => format!("(JBool {})", gb(*b)), Jv::Int(z) => format!("(JInt {})", gz(*z)),
            Jv::Str(s) => format!("(JString {})", gstr(s)),
            Jv::Arr(l) => format!("(JArray {})", glist(&l.iter().map(|x| x.coq()).collect::<Vec<_>>())),
            Jv::Obj(l) => format!("(JObject {})", glist(&l.iter().map(|(k, v)| format!("({}, {})", gstr(k), v.coq())).collect::<Vec<_>>())),
        }
    }
    /// JSON text with the members in the given order and some whitespace
    fn text(&self, rng: &mut Rng) -> String {
        let sp = |rng: &mut Rng| if rng.chance(1, 3) { " " } else { "" };
        match self {
            Jv::Null => "null".into(), Jv::Bool(b) => b.to_string(), Jv::Int(z) => z.to_string(),
            Jv::Str(s) => format!("\"{}\"", json_esc(s)),
            Jv::Arr(l) => { let items: Vec<String> = l.iter().map(|x| x.text(rng)).collect(); format!("[{}{}]", sp(rng), items.join(&format!("{},{}", sp(rng), sp(rng)))) }
            Jv::Obj(l) => { let items: Vec<String> = l.iter().map(|(k, v)| format!("\"{}\"{}:{}{}", json_esc(k), sp(rng), sp(rng), v.text(rng))).collect(); format!("{{{}{}}}", sp(rng), items.join(&format!("{},", sp(rng)))) }
        }
    }
    fn canon(&self) -> Jv {
        match self {
            Jv::Arr(l) => Jv::Arr(l.iter().map(|x| x.canon()).collect()),
            Jv::Obj(l) => { let mut m: Vec<(String, Jv)> = l.iter().map(|(k, v)| (k.clone(), v.canon())).collect(); m.sort_by(|a, b| a.0.chars().map(|c| c as u32).collect::<Vec<_>>().cmp(&b.0.chars().map(|c| c as u32).collect::<Vec<_>>())); Jv::Obj(m) }
            x => x.clone(),
        }
    }
    fn canon_text(&self) -> String { let mut r = Rng(1); let c = self.canon(); c.text_min(&mut r) }
    fn text_min(&self, _r: &mut Rng) -> String {
        match self {
            Jv::Null => "null".into(), Jv::Bool(b) => b.to_string(), Jv::Int(z) => z.to_string(), Jv::Str(s) => format!("\"{}\"", json_esc(s)),
            Jv::Arr(l) => format!("[{}]", l.iter().map(|x| x.text_min(_r)).collect::<Vec<_>>().join(",")),
            Jv::Obj(l) => format!("{{{}}}", l.iter().map(|(k, v)| format!("\"{}\":{}", json_esc(k), v.text_min(_r))).collect::<Vec<_>>().join(",")),
        }
    }
}
/// what the engine returned, in the order it returned it
fn enc_serde(v: &serde_json::Value, o: &mut Vec<i64>) {
    match v {
        serde_json::Value::Null => o.push(0),
        serde_json::Value::Bool(b) => { o.push(1); o.push(*b as i64) }
        serde_json::Value::Number(n) => match n.as_i64() { Some(i) => { o.push(2); o.push(i) } None => { o.push(-3); } },
        serde_json::Value::String(s) => { o.push(4); enc_str(s, o) }
        serde_json::Value::Array(a) => { o.push(6); o.push(a.len() as i64); for x in a { enc_serde(x, o) } }
        serde_json::Value::Object(m) => { o.push(7); o.push(m.len() as i64); for (k, x) in m { enc_str(k, o); enc_serde(x, o) } }
    }
}
fn gen_jv(rng: &mut Rng, depth: usize) -> Jv {
    let keys = ["a", "b", "k", "z", "é", "a b", "\"q\"", "", "A", "id", "\\", "null"];
    match rng.below(if depth >= 3 { 5 } else { 9 }) {
        0 => Jv::Null,
        1 => Jv::Bool(rng.chance(1, 2)),
        2 => Jv::Int(match rng.below(6) { 0 => i64::MAX, 1 => i64::MIN, 2 => 9007199254740993, _ => rng.range(-5, 50) }),
        3 | 4 => Jv::Str(gen_string(rng).chars().take(8).collect()),
        5 | 6 => { let n = rng.below(4) as usize; Jv::Arr((0..n).map(|_| gen_jv(rng, depth + 1)).collect()) }
        _ => { let n = rng.below(4) as usize; let mut ks: Vec<&str> = vec![]; while ks.len() < n { let k = *rng.pick(&keys); if !ks.contains(&k) { ks.push(k); } }
               Jv::Obj(ks.iter().map(|k| (k.to_string(), gen_jv(rng, depth + 1))).collect()) }
    }
}
/// a stored value related to v: an object that shares keys with it (what a merge would mix up)
fn gen_prev(rng: &mut Rng, v: &Jv) -> Jv {
    match v {
        Jv::Obj(l) if rng.chance(3, 4) => {
            let mut m: Vec<(String, Jv)> = vec![];
            for (k, _) in l { if rng.chance(2, 3) { m.push((k.clone(), gen_jv(rng, 2))); } }
            for k in ["old", "z", "k"] { if !m.iter().any(|(x, _)| x == k) && rng.chance(1, 2) { m.push((k.to_string(), gen_jv(rng, 2))); } }
            Jv::Obj(m)
        }
        _ => gen_jv(rng, 1),
    }
}
const JMODEL: &str = "{ J { s: String, jp: Json, j: Json nullable, jd: Json default \"{\\\"d\\\":[1]}\", o: Integer default 7, b: Base64 nullable, bp: Base64, bd: Base64 default \"AAEC\" } }";
fn new_jworld() -> World {
    let mut dm = DataModel::new();
    dm.update(JMODEL).unwrap();
    let conn = Connection::open_in_memory().unwrap();
    prepare_connection(&conn).unwrap();
    let w = World { dm, conn, s_short: String::new() };
    for (k, j) in ["{\"a\":1}", "[1,2]", "null", "\"x\"", "{\"a\":{\"b\":null}}"].iter().enumerate() {
        let mut p = Parameters::new(); p.add("j", j.to_string()).unwrap(); p.add("j2", j.to_string()).unwrap(); p.add("s", format!("row{}", k)).unwrap();
        mutate(&w, "mutate { J { s: $s jp: $j2 j: $j bp: \"AAEC\" b: \"\" } }", p).unwrap();
    }
    w
}
fn jquery(w: &World, text: &str, p: Parameters) -> Result<serde_json::Value, String> { query(w, &w.dm, text, p).map(|s| serde_json::from_str(&s).unwrap_or(json!(null))) }

/// set `field` (on creation or over an existing value) and observe
fn field_case(w: &World, rng: &mut Rng, field: &str, upd: bool, init: Option<String>, assign: String, wp: Parameters) -> (i64, Option<serde_json::Value>, i64, String, Vec<u8>) {
    let fshort = w.dm.get_entity("J").unwrap().get_field(field).unwrap().short_name.clone();
    let base = |extra: &str| format!("mutate {{ J {{ s: \"t\" jp: \"0\" bp: \"AA\" {} }} }}", extra);
    let _ = rng;
    let (status, id, frame, note);
    if upd {
        // jp / bp are given at creation: when they are the field under test the initial value replaces them
        let create = match (&init, field) {
            (Some(i), "jp") => format!("mutate {{ J {{ s: \"t\" jp: {} bp: \"AA\" }} }}", i),
            (Some(i), "bp") => format!("mutate {{ J {{ s: \"t\" jp: \"0\" bp: {} }} }}", i),
            (Some(i), f) => base(&format!("{}: {}", f, i)),
            (None, _) => base(""),
        };
        let rid = mutate(w, &create, Parameters::new()).unwrap();
        let before = snapshot(w);
        let mut wp = wp; wp.add("id", uid_encode(&rid)).unwrap();
        match mutate(w, &format!("mutate {{ J {{ id: $id {}: {} }} }}", field, assign), wp) {
            Err(e) => return (if e.starts_with("parse") { 1 } else { 2 }, None, 0, e, rid.to_vec()),
            Ok(_) => {}
        }
        let after = snapshot(w);
        let mut ok = before.len() == after.len();
        if ok { for (b, a) in before.iter().zip(after.iter()) {
            if b.1 != rid.to_vec() { if b != a { ok = false; } }
            else {
                if b.0 != a.0 || b.3 != a.3 { ok = false; }
                let jb: serde_json::Value = serde_json::from_str(b.2.as_ref().unwrap()).unwrap();
                let ja: serde_json::Value = serde_json::from_str(a.2.as_ref().unwrap()).unwrap();
                for (k, v) in jb.as_object().unwrap() { if *k != fshort && ja.get(k) != Some(v) { ok = false; } }
                for (k, _) in ja.as_object().unwrap() { if *k != fshort && jb.get(k).is_none() { ok = false; } }
            }
        } }
        status = 0; id = rid; frame = ok as i64; note = String::new();
    } else {
        let before = snapshot(w);
        let create = match field { "jp" => format!("mutate {{ J {{ s: \"t\" jp: {} bp: \"AA\" }} }}", assign), "bp" => format!("mutate {{ J {{ s: \"t\" jp: \"0\" bp: {} }} }}", assign), f => base(&format!("{}: {}", f, assign)) };
        let rid = match mutate(w, &create, wp) { Ok(r) => r, Err(e) => return (if e.starts_with("parse") { 1 } else { 2 }, None, 0, e, vec![]) };
        let after = snapshot(w);
        let ok = after.len() == before.len() + 1 && before.iter().zip(after.iter()).all(|(b, a)| b == a);
        status = 0; id = rid; frame = ok as i64; note = String::new();
    }
    let mut p = Parameters::new(); p.add("id", uid_encode(&id)).unwrap();
    let back = match jquery(w, &format!("query {{ J (id = $id) {{ {} o }} }}", field), p) {
        Ok(v) => { let row = v.get("J").and_then(|a| a.get(0)).cloned().unwrap_or(json!(null)); if row.get("o") != Some(&json!(7)) { return (status, row.get(field).cloned(), 0, "neighbour changed".into(), id.to_vec()); } row.get(field).cloned() }
        Err(e) => return (3, None, frame, e, id.to_vec()),
    };
    (status, back, frame, note, id.to_vec())
}

fn json_case(out: &mut Buf, w: &World, rng: &mut Rng, how: How, upd: bool, field: &str, prev: Option<Jv>, v: &Jv, kind: &str) {
    let text = v.text(rng);
    let nullable_field = field == "j";
    let (assign, wp) = match (&how, v) {
        (How::Literal, Jv::Null) => ("null".to_string(), Parameters::new()),
        (How::Literal, _) => (format!("\"{}\"", json_esc(&text)), Parameters::new()),
        (How::Param, Jv::Null) => { let mut p = Parameters::new(); p.add_null("v").unwrap(); ("$v".to_string(), p) }
        (How::Param, _) => { let mut p = Parameters::new(); p.add("v", text.clone()).unwrap(); ("$v".to_string(), p) }
    };
    let init = prev.as_ref().map(|p| format!("\"{}\"", json_esc(&p.text(rng))));
    let (status, back, frame, note, id) = field_case(w, rng, field, upd, init, assign, wp);
    let mut obs = vec![status];
    let mut by_param = -1;
    if status == 0 {
        match &back { Some(b) => enc_serde(b, &mut obs), None => obs.push(-1) }
        // equality filter with the canonical text as parameter
        let mut p = Parameters::new(); p.add("id", discret::verif_hooks::security::base64_encode(&id)).unwrap();
        if *v == Jv::Null { p.add_null("p").unwrap(); } else { p.add("p", v.canon_text()).unwrap(); }
        by_param = match v {
            Jv::Obj(_) | Jv::Arr(_) => match jquery(w, &format!("query {{ J (id = $id, {} = $p) {{ id }} }}", field), p) { Ok(r) => r.get("J").and_then(|a| a.as_array()).map(|a| a.len() as i64).unwrap_or(-1), Err(_) => -2 },
            _ => 2,   // scalar JSON values: the filter compares the extracted SQL value, not exercised
        };
        obs.push(by_param); obs.push(frame);
    }
    // prev for the model: absent fields are None (a default field holds its default when not given)
    let prev_model = match (&prev, field) { (Some(p), _) => Some(p.clone()), (None, "jd") if upd => Some(Jv::Obj(vec![("d".into(), Jv::Arr(vec![Jv::Int(1)]))])), (None, "jp") if upd => Some(Jv::Int(0)), _ => None };
    out.push(Case { kind: kind.into(), coq: format!("CJson {} {} {} {} {}", how.coq(), gb(upd), gb(nullable_field), gopt(&prev_model.map(|p| p.coq())), v.coq()), obs,
        meta: json!({"field": field, "update": upd, "assigned_text": text, "previous": prev.map(|p| p.canon_text()), "read_back": back, "by_param": by_param, "frame": frame, "note": note}) });
}

fn b64_case(out: &mut Buf, w: &World, rng: &mut Rng, how: How, upd: bool, field: &str, text: &str, kind: &str) {
    let (assign, wp) = match how { How::Literal => (format!("\"{}\"", text), Parameters::new()), How::Param => { let mut p = Parameters::new(); p.add("v", text.to_string()).unwrap(); ("$v".to_string(), p) } };
    let init = if upd && rng.chance(1, 2) { Some("\"QUJD\"".to_string()) } else { None };
    let (status, back, frame, note, id) = field_case(w, rng, field, upd, init, assign, wp);
    let mut obs = vec![status];
    if status == 0 {
        match &back { Some(serde_json::Value::String(s)) => enc_str(s, &mut obs), _ => obs.push(-1) }
        let idp = discret::verif_hooks::security::base64_encode(&id);
        let mut p = Parameters::new(); p.add("id", idp.clone()).unwrap(); p.add("p", text.to_string()).unwrap();
        let cnt = |r: Result<serde_json::Value, String>| r.map(|v| v.get("J").and_then(|a| a.as_array()).map(|a| a.len() as i64).unwrap_or(-1)).unwrap_or(-2);
        obs.push(cnt(jquery(w, &format!("query {{ J (id = $id, {} = $p) {{ id }} }}", field), p)));
        let mut p = Parameters::new(); p.add("id", idp).unwrap();
        obs.push(cnt(jquery(w, &format!("query {{ J (id = $id, {} = \"{}\") {{ id }} }}", field, text), p)));
        obs.push(frame);
    }
    out.push(Case { kind: kind.into(), coq: format!("CB64 {} {} {}", how.coq(), gb(upd), gstr(text)), obs, meta: json!({"field": field, "update": upd, "text": text, "read_back": back, "note": note}) });
}

fn json_b64_cases(out: &mut Buf, rng: &mut Rng) {
    let w = new_jworld();
    let o = |l: Vec<(&str, Jv)>| Jv::Obj(l.into_iter().map(|(k, v)| (k.to_string(), v)).collect());
    // directed: what a merge instead of a replacement would get wrong
    let prev = o(vec![("a", Jv::Int(1)), ("b", o(vec![("x", Jv::Int(1)), ("y", Jv::Int(2))])), ("c", Jv::Arr(vec![Jv::Int(1), Jv::Int(2)]))]);
    json_case(out, &w, rng, How::Param, true, "j", Some(prev.clone()), &o(vec![("a", Jv::Int(2))]), "directed-json-object-over-object");
    json_case(out, &w, rng, How::Literal, true, "j", Some(prev.clone()), &o(vec![("b", o(vec![("x", Jv::Null)]))]), "directed-json-null-member");
    json_case(out, &w, rng, How::Param, true, "jp", Some(prev.clone()), &o(vec![]), "directed-json-empty-object-over-object");
    json_case(out, &w, rng, How::Param, true, "j", Some(prev.clone()), &Jv::Arr(vec![o(vec![("a", Jv::Null)])]), "directed-json-array-over-object");
    json_case(out, &w, rng, How::Literal, true, "j", Some(prev.clone()), &Jv::Null, "directed-json-null-over-object");
    json_case(out, &w, rng, How::Param, true, "jd", None, &o(vec![("e", Jv::Int(1))]), "directed-json-over-default");
    json_case(out, &w, rng, How::Param, false, "jp", None, &Jv::Null, "directed-json-null-refused");
    for _ in 0..scale(260, 4000) {
        let v = gen_jv(rng, 0);
        let field = *rng.pick(&["j", "j", "jp", "jd"]);
        let v = if v == Jv::Null && field != "j" { Jv::Int(0) } else { v };
        let upd = rng.chance(2, 3);
        let prev = if upd && rng.chance(3, 4) { Some(gen_prev(rng, &v)) } else { None };
        let prev = match prev { Some(Jv::Null) if field != "j" => Some(Jv::Int(1)), p => p };
        let how = if rng.chance(1, 2) { How::Param } else { How::Literal };
        json_case(out, &w, rng, how, upd, field, prev, &v, if upd { "json-update" } else { "json-create" });
    }
    // base64
    let long: String = (0..400).map(|i| "ABCDEFGHIJKLMNOPQRSTUVWXYZabcdefghijklmnopqrstuvwxyz0123456789-_".chars().nth((i * 7) % 64).unwrap()).collect();
    let mut texts: Vec<String> = ["", "AA", "AB", "A", "AA==", "AAE", "AAF", "-_8", "+/8", "QUJD", "QUJ DRA", "AAEC", "____", "AAA", "AQ", "AQ=", "QQ", "QR"].iter().map(|s| s.to_string()).collect();
    texts.push(long);
    for _ in 0..scale(60, 600) {
        let n = rng.below(12) as usize;
        let t: String = (0..n).map(|_| "ABCDEFGHIJKLMNOPQRSTUVWXYZabcdefghijklmnopqrstuvwxyz0123456789-_".chars().nth(rng.below(64) as usize).unwrap()).collect();
        texts.push(t);
    }
    for t in texts {
        for how in [How::Param, How::Literal] {
            let upd = rng.chance(1, 2);
            let field = *rng.pick(&["b", "bp", "bd"]);
            b64_case(out, &w, rng, how, upd, field, &t, "base64");
        }
    }
}

// ---------------------------------------------------------------- aliases and search terms
fn skeleton2(s: &str) -> String {
    let cs: Vec<char> = s.chars().collect();
    let mut out = String::new();
    let mut inside: Option<char> = None;
    let mut i = 0;
    while i < cs.len() {
        let c = cs[i];
        match inside {
            None => { out.push(c); if c == '\'' || c == '"' { inside = Some(c); } }
            Some(q) => if c == q { if i + 1 < cs.len() && cs[i + 1] == q { i += 1; } else { out.push(c); inside = None; } }
        }
        i += 1;
    }
    out
}
/// a Json default on a row written before the field existed (the row lacks the member): what a query returns for it
fn json_default_cases(out: &mut Buf) {
    let o = |l: Vec<(&str, Jv)>| Jv::Obj(l.into_iter().map(|(k, v)| (k.to_string(), v)).collect());
    for (n, d) in [o(vec![("d", Jv::Arr(vec![Jv::Int(1)]))]), Jv::Arr(vec![Jv::Int(1), o(vec![("q", Jv::Int(2))])]), o(vec![])].iter().enumerate() {
        let txt = d.canon_text();
        let mut dm = DataModel::new();
        dm.update("{ D { s: String } }").unwrap();
        let conn = Connection::open_in_memory().unwrap();
        prepare_connection(&conn).unwrap();
        let mut w = World { dm, conn, s_short: String::new() };
        if let Err(e) = mutate(&w, "mutate { D { s: \"old\" } }", Parameters::new()) { eprintln!("json default: {}", e); continue; }
        let m2 = format!("{{ D {{ s: String, jd: Json default \"{}\" }} }}", txt.replace('\\', "\\\\").replace('"', "\\\""));
        if let Err(e) = w.dm.update(&m2) { eprintln!("json default model refused: {} : {}", m2, e); continue; }
        let (obs, note) = match jquery(&w, "query { D { s jd } }", Parameters::new()) {
            Ok(v) => { let mut ob = vec![0]; let jd = v["D"][0]["jd"].clone(); enc_serde(&jd, &mut ob); (ob, jd.to_string()) }
            Err(e) => (vec![1], e),
        };
        out.push(Case { kind: if n == 0 { "directed-json-default-old-row".into() } else { "json-default-old-row".into() }, coq: format!("CJsonDefault {} {}", gstr(&txt), d.coq()), obs,
            meta: json!({"default": txt, "returned": note}) });
    }
}
fn alias_search_cases(out: &mut Buf, rng: &mut Rng) {
    let m = SModel { fields: vec![
        SField { name: "name", ty: "String", coq_ty: "TStr", nullable: false, default: None },
        SField { name: "n", ty: "Integer", coq_ty: "TInt", nullable: false, default: Some("3".into()) } ] };
    let mut dm = DataModel::new();
    dm.update(&m.text()).unwrap();
    let conn = Connection::open_in_memory().unwrap();
    prepare_connection(&conn).unwrap();
    let w = World { dm, conn, s_short: String::new() };
    for t in ["mutate { S { name: \"hello world\" n: 1 } }", "mutate { S { name: \"abcdef\" } }", "mutate { S { name: \"AND\" n: 5 } }"] { mutate(&w, t, Parameters::new()).unwrap(); }
    // identifiers: every ASCII character inside an alias, SQL keywords, digits first, the listed non-ASCII characters
    let mut aliases: Vec<String> = (0u8..128).map(|c| format!("a{}b", c as char)).collect();
    for c in 0u8..128 { aliases.push((c as char).to_string()); }
    for a in ["order", "select", "group", "where", "1abc", "123", "_x", "x_", "é", "ß中", "Ω١", "a\"b", "a'b", "a b", "a;b", "a--b", "a)b", "", "table", "from", "null", "true", "value", "_json", "rowid"] { aliases.push(a.to_string()); }
    for _ in 0..scale(40, 400) { let n = 1 + rng.below(5) as usize; aliases.push((0..n).map(|_| *rng.pick(&['a', 'Z', '0', '9', '_', 'é', 'ß', '中', 'Ω', '١', 'q'])).collect()); }
    let mk = |al: &str| -> (String, String) {
        // q: the alias for the entity and for a field, with a filter and an order on the aliased field
        (format!("query {{ {}: S (order_by({} asc)) {{ {}: n name }} }}", al, al, al),
         format!("(Build_query (Some {}) [Build_selfield 1 (Some {}); Build_selfield 0 None] [] [Build_okey (FByAlias 0) Asc] (OLit (VInt 0)) None PNone)", gstr(al), gstr(al)))
    };
    let (ntext, ncoq) = mk("x1");
    let nsql = real_sql(&w.dm, &ntext).unwrap();
    let nres: serde_json::Value = serde_json::from_str(&query(&w, &w.dm, &ntext, Parameters::new()).unwrap()).unwrap();
    for a in aliases {
        if a == "name" || a == "n" || a == "S" { continue; }
        let (text, coq) = mk(&a);
        let obs = match real_sql(&w.dm, &text) {
            Err(_) => vec![0],
            Ok(sql) => {
                let sk = (skeleton2(&sql) == skeleton2(&nsql)) as i64;
                match query(&w, &w.dm, &text, Parameters::new()) {
                    Ok(r) => {
                        // same rows, the alias where the neutral alias stood
                        let v: serde_json::Value = serde_json::from_str(&r).unwrap_or(json!(null));
                        let rows: Vec<serde_json::Value> = v.get(&a).and_then(|x| x.as_array()).cloned().unwrap_or_default().iter().map(|o| json!({"x1": o.get(&a), "name": o.get("name")})).collect();
                        vec![1, sk, 1, (json!({"x1": rows}) == nres) as i64]
                    }
                    Err(_) => vec![1, sk, 0, 0],
                }
            }
        };
        out.push(Case { kind: "alias".into(), coq: format!("CAlias {} {} {} {}", gstr(&a), m.coq(&w.dm), coq, ncoq), obs, meta: json!({"alias": a, "query": text}) });
    }
    // search terms: the statement does not depend on the term
    let neutral_lit = real_sql(&w.dm, "query { S (search(\"abc\")) { name } }").unwrap();
    let neutral_var = real_sql(&w.dm, "query { S (search($t)) { name } }").unwrap();
    let mut terms: Vec<String> = ["hello", "hello world", "wor", "a", "", "\"", "hello\"", "\"hello world\"", "hello AND world", "AND", "OR", "NOT hello", "NEAR(hello world)", "hel*", "name:hello", "^hello", "hello OR", "(hello", "hello)", "'; DROP TABLE _node; --", "a-b", "a+b", "é中", "hello, world", "col : x", "{a b}: x", "-hello"].iter().map(|s| s.to_string()).collect();
    for _ in 0..scale(60, 600) { terms.push(gen_string(rng).chars().filter(|c| *c != '\\' && *c != '\n' && *c != '\r' && *c != '\0').take(10).collect()); }
    for t in terms {
        let lit_sql = real_sql(&w.dm, &format!("query {{ S (search(\"{}\")) {{ name }} }}", t.replace('"', "\\\"")));
        let same = match &lit_sql { Ok(s) => (*s == neutral_lit) as i64, Err(_) => -1 };
        let mut p = Parameters::new(); p.add("t", t.clone()).unwrap();
        let (acc, note) = match query(&w, &w.dm, "query { S (search($t)) { name } }", p) { Ok(_) => (1, String::new()), Err(e) => (0, e.lines().next().unwrap_or("").to_string()) };
        let acc_lit = query(&w, &w.dm, &format!("query {{ S (search(\"{}\")) {{ name }} }}", t.replace('"', "\\\"")), Parameters::new()).is_ok() as i64;
        let same = if same == 1 && real_sql(&w.dm, "query { S (search($t)) { name } }").map(|s| s == neutral_var).unwrap_or(false) && acc == acc_lit { 1 } else { 0 };
        out.push(Case { kind: "search".into(), coq: format!("CSearch {} {}", gstr(&t), gb(acc == 1)), obs: vec![same, acc], meta: json!({"term": t, "fts5": note}) });
    }
}

// ---------------------------------------------------------------- updates of an existing value (old -> new)
#[derive(Clone, Debug, PartialEq)]
enum Uv { Int(i64), Flt(f64), Bool(bool), Str(String), JNum(String) }
impl Uv {
    fn ty(&self) -> i64 { match self { Uv::Int(_) => 0, Uv::Flt(_) => 1, Uv::Bool(_) => 2, Uv::Str(_) => 3, Uv::JNum(_) => 4 } }
    fn field(&self) -> &'static str { match self { Uv::Int(_) => "i", Uv::Flt(_) => "f", Uv::Bool(_) => "b", Uv::Str(_) => "s", Uv::JNum(_) => "j" } }
    fn enc(&self) -> Vec<i64> {
        match self { Uv::Int(z) => vec![*z], Uv::Flt(f) => vec![f.to_bits() as i64], Uv::Bool(b) => vec![*b as i64], Uv::Str(s) | Uv::JNum(s) => s.chars().map(|c| c as i64).collect() }
    }
    fn add(&self, p: &mut Parameters, name: &str) {
        match self { Uv::Int(z) => p.add(name, *z).unwrap(), Uv::Flt(f) => p.add(name, *f).unwrap(), Uv::Bool(b) => p.add(name, *b).unwrap(), Uv::Str(s) | Uv::JNum(s) => p.add(name, s.clone()).unwrap() }
    }
    fn literal(&self) -> String {
        match self { Uv::Int(z) => z.to_string(), Uv::Flt(f) => float_text(*f), Uv::Bool(b) => b.to_string(), Uv::Str(s) | Uv::JNum(s) => format!("\"{}\"", json_esc(s)) }
    }
    /// equal as values of the language (0.0 = -0.0): the filter with the old value is only required to miss then
    fn same_value(&self, o: &Uv) -> bool { match (self, o) { (Uv::Flt(a), Uv::Flt(b)) => a == b, (a, b) => a == b } }
    fn show(&self) -> String { match self { Uv::Flt(f) => format!("{:e} [{:016x}]", f, f.to_bits()), Uv::Str(s) => format!("{:?}", s), o => format!("{:?}", o) } }
}
/// a row holding `old` in the field is updated by id to `new`; the value read back, the equality filters with the new
/// value (parameter, literal), the filter with the old value (must not find the row any more), the frame
fn upd_case(out: &mut Buf, w: &World, jw: &World, how: How, old: &Uv, new: &Uv, kind: &str) {
    let (w, ent, create) = match old { Uv::JNum(_) => (jw, "J", "mutate { J { s: \"t\" jp: \"0\" bp: \"AA\" j: $o } }".to_string()),
        _ => (w, "V", format!("mutate {{ V {{ s: {} i: {} f: {} b: {} sn: \"keep\" }} }}", if old.ty() == 3 { "$o" } else { "\"init\"" }, if old.ty() == 0 { "$o" } else { "1" }, if old.ty() == 1 { "$o" } else { "1.5" }, if old.ty() == 2 { "$o" } else { "true" })) };
    let field = old.field();
    let mut p = Parameters::new(); old.add(&mut p, "o");
    let id = mutate(w, &create, p).unwrap();
    let id64 = uid_encode(&id);
    let before = snapshot(w);
    let mut wp = Parameters::new(); wp.add("id", id64.clone()).unwrap();
    let assign = match how { How::Param => { new.add(&mut wp, "v"); "$v".to_string() } How::Literal => new.literal() };
    let mut note = String::new();
    let obs = match mutate(w, &format!("mutate {{ {} {{ id: $id {}: {} }} }}", ent, field, assign), wp) {
        Err(e) => { note = e.clone(); vec![if e.starts_with("parse") { 1 } else { 2 }] }
        Ok(_) => {
            let after = snapshot(w);
            let fshort = w.dm.get_entity(ent).unwrap().get_field(field).unwrap().short_name.clone();
            let mut frame = before.len() == after.len();
            if frame { for (b, a) in before.iter().zip(after.iter()) {
                if b.1 != id.to_vec() { if b != a { frame = false; } }
                else {
                    if b.0 != a.0 || b.3 != a.3 { frame = false; }
                    let jb: serde_json::Value = serde_json::from_str(b.2.as_ref().unwrap()).unwrap();
                    let ja: serde_json::Value = serde_json::from_str(a.2.as_ref().unwrap()).unwrap();
                    for (k, v) in jb.as_object().unwrap() { if *k != fshort && ja.get(k) != Some(v) { frame = false; } }
                    if ja.as_object().unwrap().len() != jb.as_object().unwrap().len() { frame = false; }
                }
            } }
            let mut p = Parameters::new(); p.add("id", id64.clone()).unwrap();
            let res = query(w, &w.dm, &format!("query {{ {} (id = $id) {{ {} }} }}", ent, field), p).unwrap_or_else(|e| { note = e; String::new() });
            let v: serde_json::Value = serde_json::from_str(&res).unwrap_or(json!(null));
            let back = v.get(ent).and_then(|a| a.get(0)).and_then(|o| o.get(field)).cloned().unwrap_or(json!(null));
            let raw = raw_member(&res, field).unwrap_or_default();
            let back_enc: Vec<i64> = match new {
                Uv::Int(_) => vec![raw.trim().parse::<i64>().unwrap_or(i64::MIN + 5)],
                Uv::Flt(_) => vec![raw_number_bits(&raw)],
                Uv::Bool(_) => vec![match back { serde_json::Value::Bool(x) => x as i64, _ => -1 }],
                Uv::Str(_) => match &back { serde_json::Value::String(x) => x.chars().map(|c| c as i64).collect(), _ => vec![-1] },
                Uv::JNum(_) => raw.trim().chars().map(|c| c as i64).collect(),
            };
            note = format!("read back {}", raw);
            let count = |r: Result<String, String>| -> i64 { match r { Ok(s) => { let v: serde_json::Value = serde_json::from_str(&s).unwrap_or(json!(null)); v.get(ent).and_then(|a| a.as_array()).map(|a| a.len() as i64).unwrap_or(-1) } Err(_) => -2 } };
            let (by_param, by_literal, old_gone) = if let Uv::JNum(_) = new { (2, 2, 2) } else {
                let mut p = Parameters::new(); p.add("id", id64.clone()).unwrap(); new.add(&mut p, "p");
                let bp = count(query(w, &w.dm, &format!("query {{ {} (id = $id, {} = $p) {{ id }} }}", ent, field), p));
                let mut p = Parameters::new(); p.add("id", id64.clone()).unwrap();
                let bl = count(query(w, &w.dm, &format!("query {{ {} (id = $id, {} = {}) {{ id }} }}", ent, field, new.literal()), p));
                let og = if old.same_value(new) { 1 } else {
                    let mut p = Parameters::new(); p.add("id", id64.clone()).unwrap(); old.add(&mut p, "p");
                    let c = count(query(w, &w.dm, &format!("query {{ {} (id = $id, {} = $p) {{ id }} }}", ent, field), p));
                    if c == 0 { 1 } else { 0 }
                };
                (bp, bl, og)
            };
            let mut ob = vec![0, back_enc.len() as i64]; ob.extend(back_enc); ob.extend([by_param, by_literal, old_gone, frame as i64]);
            ob
        }
    };
    out.push(Case { kind: kind.into(), coq: format!("CUpd {} {} {} {}", how.coq(), old.ty(), glist(&old.enc().iter().map(|z| gz(*z)).collect::<Vec<_>>()), glist(&new.enc().iter().map(|z| gz(*z)).collect::<Vec<_>>())), obs,
        meta: json!({"old": old.show(), "new": new.show(), "note": note}) });
}
fn next_up(f: f64) -> f64 { let b = f.to_bits(); f64::from_bits(if f >= 0.0 { b + 1 } else { b - 1 }) }
fn update_cases(out: &mut Buf, rng: &mut Rng, w: &World) {
    let jw = new_jworld();
    let mut pairs: Vec<(Uv, Uv)> = vec![];
    let p53 = 1i64 << 53; let p62 = 1i64 << 62;
    for (a, b) in [(p53, p53 + 1), (p53 + 1, p53), (p53 - 1, p53), (p53 + 1, p53 + 2), (-p53, -p53 - 1), (-p53 - 1, -p53), (p62, p62 + 1), (p62 + 1, p62), (i64::MAX, i64::MAX - 1), (i64::MAX - 1, i64::MAX),
                   (i64::MIN, i64::MIN + 1), (i64::MIN + 1, i64::MIN), (0, 1), (1, 0), (-1, 1), (5, 5), (p53 + 1, p53 + 1), (1i64 << 32, (1i64 << 32) + 1), (1_000_000_000_000_000_000, 1_000_000_000_000_000_001)] { pairs.push((Uv::Int(a), Uv::Int(b))); }
    for _ in 0..scale(12, 200) { let x = p53 + (rng.next() >> 2) as i64 % (i64::MAX - p53 - 4); let d = if rng.chance(1, 2) { 1 } else { -1 }; pairs.push((Uv::Int(x), Uv::Int(x + d))); }
    for x in [1.0f64, 0.1, 1e308, 5e-324, 9007199254740992.0, -1.5, 1e-7, 0.30000000000000004, 123456.789, -2.2250738585072014e-308] { pairs.push((Uv::Flt(x), Uv::Flt(next_up(x)))); pairs.push((Uv::Flt(next_up(x)), Uv::Flt(x))); }
    for (a, b) in [(0.0f64, 1.0), (1.5, 1.5), (2.0, 2.5), (1e16, 1e16 + 2.0)] { pairs.push((Uv::Flt(a), Uv::Flt(b))); }
    for _ in 0..scale(8, 150) { let x = f64::from_bits(rng.next()); if x.is_finite() && x != 0.0 { pairs.push((Uv::Flt(x), Uv::Flt(next_up(x)))); } }
    for (a, b) in [(true, false), (false, true), (true, true), (false, false)] { pairs.push((Uv::Bool(a), Uv::Bool(b))); }
    for (a, b) in [("abc", "abd"), ("abc", "abC"), ("abc", "abc "), ("abc ", "abc"), ("\u{e9}", "e\u{301}"), ("e\u{301}", "\u{e9}"), ("a", "a\u{0}"), ("", "  "), (" ", ""), ("x", "x"), ("stra\u{df}e", "strasse"), ("I", "\u{131}"),
                   ("a\nb", "a\n b"), ("a\nb", "a\r\nb"), ("\u{212b}", "\u{c5}"), ("1", "1.0"), ("null", "NULL"), ("tab\there", "tab here"), ("\u{feff}a", "a"), ("a\u{200b}", "a")] { pairs.push((Uv::Str(a.into()), Uv::Str(b.into()))); }
    for _ in 0..scale(10, 200) { let a = gen_string(rng); let mut b: Vec<char> = a.chars().collect(); if b.is_empty() || rng.chance(1, 3) { b.push(gen_scalar(rng)); } else { let k = b.len() - 1; b[k] = gen_scalar(rng); } pairs.push((Uv::Str(a), Uv::Str(b.into_iter().collect()))); }
    for (a, b) in [("1", "1.0"), ("1.0", "1"), ("0", "0.0"), ("100", "100.0"), ("9007199254740992", "9007199254740993"), ("9007199254740993", "9007199254740992"), ("-1", "-1.0"), ("2.5", "2.5")] { pairs.push((Uv::JNum(a.into()), Uv::JNum(b.into()))); }
    for (k, (a, b)) in pairs.iter().enumerate() {
        let kind = match a { Uv::Int(_) => "update-int", Uv::Flt(_) => "update-float", Uv::Bool(_) => "update-bool", Uv::Str(_) => "update-string", Uv::JNum(_) => "update-json-number" };
        let kind = if k == 0 { "directed-update-int-above-2p53".to_string() } else { kind.to_string() };
        upd_case(out, w, &jw, How::Param, a, b, &kind);
        if !matches!(a, Uv::JNum(_)) { upd_case(out, w, &jw, How::Literal, a, b, &kind); }
    }
}

// ---------------------------------------------------------------- the service: one long-lived instance, near-identical requests
fn svc_request(kind: usize, lit: &str, pad: &str) -> String {
    // the literal stands on its own lines of the request: line breaks inside it are line breaks of the request text
    match kind { 0 => format!("mutate {{\n{}S {{\n  name: \"{}\"\n  }}\n}}", pad, lit), _ => format!("query {{\n{}S (name = \"{}\") {{\n  id\n  }}\n}}", pad, lit) }
}
async fn service_family(svc: &GraphDatabaseService, fam: &[String], kind: &str) -> Case {
    let mut obs: Vec<i64> = vec![];
    let mut ids: Vec<String> = vec![];
    let mut log: Vec<String> = vec![];
    // each request writes its own literal ...
    for lit in fam {
        match svc.mutate(&svc_request(0, lit, "  "), None).await {
            Err(e) => { obs.push(-1); obs.push(0); ids.push(String::new()); log.push(format!("mutate: {}", e)); }
            Ok(r) => {
                let v: serde_json::Value = serde_json::from_str(&r).unwrap_or(json!(null));
                let id = v["S"]["id"].as_str().unwrap_or("").to_string();
                let mut p = Parameters::new(); p.add("id", id.clone()).unwrap();
                let back = svc.query("query { S (id = $id) { name } }", Some(p)).await.unwrap_or_default();
                let bv: serde_json::Value = serde_json::from_str(&back).unwrap_or(json!(null));
                match bv["S"][0]["name"].as_str() { Some(s) => enc_str(s, &mut obs), None => { obs.push(-1); log.push(format!("read back: {}", back)); } }
                ids.push(id);
            }
        }
    }
    // ... and each filter finds the row written with the same literal, no other row of the family
    for (k, lit) in fam.iter().enumerate() {
        let found: Vec<String> = match svc.query(&svc_request(1, lit, "  "), None).await {
            Ok(r) => { let v: serde_json::Value = serde_json::from_str(&r).unwrap_or(json!(null)); v["S"].as_array().map(|a| a.iter().filter_map(|o| o["id"].as_str().map(|s| s.to_string())).collect()).unwrap_or_default() }
            Err(e) => { log.push(format!("query: {}", e)); vec![] }
        };
        let fam_found: Vec<&String> = found.iter().filter(|i| ids.contains(i)).collect();
        obs.push((fam_found.len() == 1 && *fam_found[0] == ids[k]) as i64);
    }
    // deletions: two spellings of the same request, each with its own id
    let dels = ["delete {\n  S {\n    $id\n  }\n}", "delete {\n\n S {\n$id\n}\n   }"];
    for (k, d) in dels.iter().enumerate() {
        if k >= ids.len() { obs.push(1); continue; }
        let mut p = Parameters::new(); p.add("id", ids[k].clone()).unwrap();
        let ok = svc.delete(d, Some(p)).await.is_ok();
        let mut p = Parameters::new(); p.add("id", ids[k].clone()).unwrap();
        let back = svc.query("query { S (id = $id) { name } }", Some(p)).await.unwrap_or_default();
        let bv: serde_json::Value = serde_json::from_str(&back).unwrap_or(json!(null));
        let gone = bv["S"].as_array().map(|a| a.is_empty()).unwrap_or(false);
        let others = if ids.len() > 2 { let mut p = Parameters::new(); p.add("id", ids[2].clone()).unwrap(); let b = svc.query("query { S (id = $id) { name } }", Some(p)).await.unwrap_or_default(); let v: serde_json::Value = serde_json::from_str(&b).unwrap_or(json!(null)); v["S"].as_array().map(|a| a.len() == 1).unwrap_or(false) } else { true };
        obs.push((ok && gone && others) as i64);
    }
    Case { kind: kind.into(), coq: format!("CSvc {}", glist(&fam.iter().map(|l| gstr(l)).collect::<Vec<_>>())), obs, meta: json!({"literals": fam, "log": log}) }
}
async fn service_cases(out: &mut Buf, rng: &mut Rng) {
    let work = std::env::var("VERIF_WORK").unwrap_or("/verif/work".into());
    let path: std::path::PathBuf = format!("{}/C04/svc", work).into();
    let _ = std::fs::remove_dir_all(&path);
    std::fs::create_dir_all(&path).unwrap();
    let (svc, _, _) = GraphDatabaseService::start("c04", "{ S { name: String } }", &random32(), &random32(), path.clone(), &Configuration::default(), EventService::new()).await.expect("service starts");
    let fam = |v: &[&str]| -> Vec<String> { v.iter().map(|s| s.to_string()).collect() };
    let mut fams: Vec<(Vec<String>, &str)> = vec![
        (fam(&["def f(x):\n    return x", "def f(x):\nreturn x", "def f(x):\n\treturn x", "def f(x):\r\n    return x", "def f(x):  \n    return x", "def f(x):\n\n    return x", "def f(x):\n    return x  ", "  def f(x):\n    return x"]), "directed-service-multiline-literal"),
        (fam(&["a\nb", "a\n b", "a \nb", "a\n\nb", "a\r\nb", "a\n\tb", "a\n\n\nb", "a\nb\n", "a\nb\n ", "\na\nb"]), "service-multiline"),
        (fam(&["one line", "one  line", " one line", "one line "]), "service-single-line"),
        (fam(&["x\n  }\n}", "x\n}\n}", "x\n  }\n  }"]), "service-multiline-braces"),
        (fam(&["l1\n// not a comment\nl3", "l1\n  // not a comment\nl3", "l1\n//not a comment\nl3"]), "service-multiline-comment-like"),
    ];
    for _ in 0..scale(12, 150) {
        // random lines, then variants that only differ in blanks around the line breaks
        let nl = rng.range(2, 4) as usize;
        let lines: Vec<String> = (0..nl).map(|_| (0..rng.range(0, 5)).map(|_| *rng.pick(&['a', 'b', 'z', '0', '{', '}', ':', '$', '/', '\'', '(', ','])).collect()).collect();
        let mut vs: Vec<String> = vec![];
        for _ in 0..rng.range(3, 6) {
            let mut t = String::new();
            for (k, l) in lines.iter().enumerate() {
                if k > 0 { let sep: &str = *rng.pick(&["\n", "\n", "\r\n", "\n\n", " \n", "\n ", "\t\n", "\n\t", "  \n  "]); t.push_str(sep); }
                t.push_str(l);
            }
            if rng.chance(1, 4) { let e: &str = *rng.pick(&[" ", "\n", "\n "]); t.push_str(e); }
            if !vs.contains(&t) { vs.push(t); }
        }
        fams.push((vs, "service-multiline-random"));
    }
    for (f, kind) in &fams { let c = service_family(&svc, f, kind).await; out.push(c); }
    drop(svc);
    tokio::time::sleep(std::time::Duration::from_millis(50)).await;
    let _ = std::fs::remove_dir_all(&path);
}

fn main() {
    let mut rng = Rng::from_env();
    let mut real_out = Out::create();
    let mut out = Buf { v: vec![], n: 0 };
    let w = new_world();
    // directed: the known finding and its neighbours
    str_case(&mut out, &w, How::Literal, "a\\\\b", "directed-K1-literal-backslash");
    str_case(&mut out, &w, How::Param, "a\\b", "directed-K1-param-backslash-literal-filter");
    str_case(&mut out, &w, How::Literal, "line\\nbreak", "directed-K1-literal-newline-escape");
    str_case(&mut out, &w, How::Literal, "\\u0041", "directed-K1-literal-unicode-escape");
    str_case(&mut out, &w, How::Literal, "say \\\"hi\\\"", "directed-literal-escaped-quote-ok");
    str_case(&mut out, &w, How::Literal, "\\ud83d\\ude00", "directed-literal-surrogate-pair");
    str_case(&mut out, &w, How::Literal, "a\\ud83db", "directed-literal-lone-high-surrogate");
    str_case(&mut out, &w, How::Literal, "\\ude00\\ud83d", "directed-literal-reversed-surrogates");
    str_case(&mut out, &w, How::Param, "it's \"quoted\"", "directed-param-quotes-ok");
    str_case(&mut out, &w, How::Param, "'; DROP TABLE _node; --", "directed-param-sql");
    str_case(&mut out, &w, How::Literal, "'; DROP TABLE _node; --", "directed-literal-sql");
    // every ASCII character alone and next to a quote / a backslash, as a parameter
    for c in 0u8..128 {
        let ch = c as char;
        str_case(&mut out, &w, How::Param, &ch.to_string(), "ascii-param");
        if tier_thorough() || c % 4 == 0 || c < 36 || ch == '\\' || ch == '\'' {
            for pair in [format!("{}\"", ch), format!("\"{}", ch), format!("{}\\", ch), format!("\\{}", ch), format!("{}'", ch)] { str_case(&mut out, &w, How::Param, &pair, "ascii-pair-param"); }
        }
        // as a literal: the character itself where the grammar allows it raw
        if ch != '"' && ch != '\\' { str_case(&mut out, &w, How::Literal, &ch.to_string(), "ascii-literal"); }
    }
    for _ in 0..scale(400, 6000) { let s = gen_string(&mut rng); str_case(&mut out, &w, How::Param, &s, "string-param"); }
    for _ in 0..scale(300, 4000) { let only_q = rng.chance(1, 2); let ts = gen_tokens(&mut rng, only_q); str_case(&mut out, &w, How::Literal, &render(&ts), if only_q { "string-literal-quote-escapes" } else { "string-literal-any-escape" }); }
    // integers
    for z in [0i64, 1, -1, i64::MAX, i64::MIN, i64::MIN + 1, 9007199254740992, 9007199254740993, -9007199254740993, 4294967296, 1000000000000000000] {
        int_case(&mut out, &w, How::Param, z); int_case(&mut out, &w, How::Literal, z);
    }
    for _ in 0..scale(60, 600) { let z = rng.next() as i64 >> rng.below(64); int_case(&mut out, &w, if rng.chance(1, 2) { How::Param } else { How::Literal }, z); }
    // floats
    for f in [0.0f64, -0.0, 1.0, 0.1, 0.2, 0.1 + 0.2, 1.0 / 3.0, 2.5e-8, 1e21, 1e22, 1e300, f64::MAX, f64::MIN_POSITIVE, 5e-324, 4.9406564584124654e-324, 1.7976931348623157e308,
              123456789.12345678, 9007199254740993.0, 8.407903850944054e17, 1.2345678901234567e17, -1.2698320800958502e18, 9007199254740994.0, 1e17, 0.30000000000000004, 1e15, 1e16, 123456789012345680.0, 2.2250738585072014e-308, 1.5, -2.75] {
        flt_case(&mut out, &w, How::Param, f, "float-directed"); flt_case(&mut out, &w, How::Literal, f, "float-directed");
    }
    for _ in 0..scale(150, 2000) {
        let f = loop { let f = match rng.below(3) { 0 => f64::from_bits(rng.next()), 1 => (rng.next() as f64 / u64::MAX as f64) * 10f64.powi(rng.range(-5, 20) as i32), _ => (rng.range(-100000, 100000) as f64) / 100.0 }; if f.is_finite() { break f; } };
        flt_case(&mut out, &w, if rng.chance(1, 2) { How::Param } else { How::Literal }, f, "float");
    }
    for b in [true, false] { bool_case(&mut out, &w, How::Param, b); bool_case(&mut out, &w, How::Literal, b); }
    let _ = &w.s_short;
    json_b64_cases(&mut out, &mut rng);
    json_default_cases(&mut out);
    alias_search_cases(&mut out, &mut rng);
    update_cases(&mut out, &mut rng, &w);
    tokio::runtime::Runtime::new().unwrap().block_on(service_cases(&mut out, &mut rng));
    statements(&mut out, &mut rng);
    eprintln!("c04: {} cases", out.n);
    let mut kinds: std::collections::BTreeMap<String, (usize, usize, usize)> = Default::default();   // kind -> (cases, write refused, frame violated)
    for c in &out.v {
        let e = kinds.entry(c.kind.split('-').next().unwrap().to_string()).or_default();
        e.0 += 1;
        if c.kind != "shape" && c.obs.first().map(|s| *s != 0 && c.obs.len() == 1).unwrap_or(false) { e.1 += 1; }
        if c.meta.get("frame").and_then(|f| f.as_i64()) == Some(0) { e.2 += 1; }
    }
    out.v[0].meta["generator"] = json!(kinds.iter().map(|(k, v)| format!("{}: {} cases, {} refused, {} frame violations", k, v.0, v.1, v.2)).collect::<Vec<_>>());
    for c in out.v { real_out.push(c); }
    real_out.finish();
}
