//! C03 correspondence: synchronisation converges.  Histories of creations, updates (same
//! millisecond on different peers, across days, with skewed clocks), deletions and directed pulls on
//! 2-4 real instances, then round-robin pulls until a round requests nothing, and one more round.
//! Model: coq/model/Sync.v (run_C03); oracle: spec_C03 on what the implementation showed.
#[path = "sync_common/mod.rs"]
mod sync_common;
use serde_json::json;
use sync_common::*;
use vharness::common::*;

/// two peers update one row in the same millisecond; a third peer receives the versions in both orders
async fn same_ms(net: &Net, first: usize) -> Case {
    let mut r = Runner::new(net, 4).await;
    let t = T0 + 7000;
    r.exec(Op::Create { p: 0, x: 1, t }).await;
    for d in 1..4 { r.exec(Op::Pull { dst: d, src: 0, t: t + 1 }).await; }
    r.exec(Op::Update { p: 0, x: 1, t: t + 500 }).await;
    r.exec(Op::Update { p: 1, x: 1, t: t + 500 }).await;
    // peers 2 and 3 receive the two concurrent versions in opposite orders
    let (a, b) = if first == 0 { (0, 1) } else { (1, 0) };
    r.exec(Op::Pull { dst: 2, src: a, t: t + 600 }).await;
    r.exec(Op::Pull { dst: 2, src: b, t: t + 601 }).await;
    r.exec(Op::Pull { dst: 3, src: b, t: t + 602 }).await;
    r.exec(Op::Pull { dst: 3, src: a, t: t + 603 }).await;
    let f = r.settle(t + 1000, 5).await;
    r.case("C03Case", "same_ms", f, json!({"first": first}))
}

/// a row updated on a later day by another peer while a third peer still holds the old version
async fn cross_day(net: &Net) -> Case {
    let mut r = Runner::new(net, 3).await;
    let t = T0 + 9000;
    r.exec(Op::Create { p: 0, x: 1, t }).await;
    r.exec(Op::Create { p: 0, x: 2, t: t + 5 }).await;
    r.exec(Op::Pull { dst: 1, src: 0, t: t + 10 }).await;
    r.exec(Op::Pull { dst: 2, src: 0, t: t + 11 }).await;
    r.exec(Op::Update { p: 1, x: 1, t: t + 2 * DAY }).await;
    r.exec(Op::Pull { dst: 2, src: 1, t: t + 2 * DAY + 5 }).await;
    r.exec(Op::Pull { dst: 2, src: 0, t: t + 2 * DAY + 6 }).await;
    r.exec(Op::Pull { dst: 0, src: 2, t: t + 2 * DAY + 7 }).await;
    let f = r.settle(t + 3 * DAY, 5).await;
    r.case("C03Case", "cross_day", f, json!({}))
}

/// both peers delete one row on the same day: two deletion records of one row in one answer
async fn double_delete(net: &Net) -> Case {
    let mut r = Runner::new(net, 3).await;
    let t = T0 + 4000;
    r.exec(Op::Create { p: 0, x: 1, t }).await;
    r.exec(Op::Pull { dst: 1, src: 0, t: t + 1 }).await;
    r.exec(Op::Pull { dst: 2, src: 0, t: t + 2 }).await;
    r.exec(Op::Delete { p: 0, x: 1, t: t + 1000 }).await;
    r.exec(Op::Delete { p: 1, x: 1, t: t + 2000 }).await;
    let f = r.settle(t + 5000, 5).await;
    r.case("C03Case", "double_delete", f, json!({}))
}

/// a deletion racing with an update of the same row on another peer (the deletion record names the old version)
async fn delete_vs_update(net: &Net, same_day: bool, first: usize) -> Case {
    let mut r = Runner::new(net, 3).await;
    let t = T0 + 4000;
    r.exec(Op::Create { p: 0, x: 1, t }).await;
    r.exec(Op::Pull { dst: 1, src: 0, t: t + 1 }).await;
    r.exec(Op::Pull { dst: 2, src: 0, t: t + 2 }).await;
    let t2 = if same_day { t + 60_000 } else { t + DAY };
    r.exec(Op::Update { p: 1, x: 1, t: t2 }).await;
    r.exec(Op::Delete { p: 0, x: 1, t: t2 + 500 }).await;
    if first == 0 {
        r.exec(Op::Pull { dst: 2, src: 0, t: t2 + 600 }).await;
        r.exec(Op::Pull { dst: 2, src: 1, t: t2 + 601 }).await;
    } else {
        r.exec(Op::Pull { dst: 2, src: 1, t: t2 + 600 }).await;
        r.exec(Op::Pull { dst: 2, src: 0, t: t2 + 601 }).await;
    }
    let f = r.settle(t2 + 5000, 5).await;
    r.case("C03Case", "delete_vs_update", f, json!({"same_day": same_day, "first": first}))
}

/// history-hash shortcut: B and C took the same three days from A in one pull each (equal history
/// hashes); B then receives a row for the middle day from D; C pulling B compares only the last day
async fn shortcut(net: &Net) -> Case {
    let mut r = Runner::new(net, 4).await;
    let t = T0 + 3000;
    r.exec(Op::Create { p: 0, x: 1, t }).await;
    r.exec(Op::Create { p: 0, x: 2, t: t + DAY }).await;
    r.exec(Op::Create { p: 0, x: 3, t: t + 2 * DAY }).await;
    r.exec(Op::Pull { dst: 1, src: 0, t: t + 2 * DAY + 10 }).await;
    r.exec(Op::Pull { dst: 2, src: 0, t: t + 2 * DAY + 11 }).await;
    r.exec(Op::Create { p: 3, x: 4, t: t + DAY + 500 }).await;
    r.exec(Op::Pull { dst: 1, src: 3, t: t + 2 * DAY + 20 }).await;
    r.exec(Op::Pull { dst: 2, src: 1, t: t + 2 * DAY + 30 }).await;
    let skipped = r.steps.last().unwrap().days.is_empty();
    let f = r.settle(t + 3 * DAY, 5).await;
    r.case("C03Case", "shortcut", f, json!({"last_pull_skipped_all_days": skipped}))
}

/// stale daily hash: a deletion record that names the old version removes the new one on peer 1 and
/// leaves the new version's day unmarked; peer 1 then never takes the new version back from peer 3
async fn stale_log(net: &Net) -> Case {
    let mut r = Runner::new(net, 4).await;
    let t = T0 + 3000;
    r.exec(Op::Create { p: 1, x: 1, t }).await;
    for d in [0, 2, 3] { r.exec(Op::Pull { dst: d, src: 1, t: t + 10 }).await; }
    r.exec(Op::Update { p: 1, x: 1, t: t + DAY }).await;
    r.exec(Op::Pull { dst: 3, src: 1, t: t + DAY + 10 }).await;
    r.exec(Op::Delete { p: 0, x: 1, t: t + 3 * DAY }).await;
    r.exec(Op::Pull { dst: 1, src: 0, t: t + 3 * DAY + 10 }).await;
    r.exec(Op::Pull { dst: 1, src: 3, t: t + 3 * DAY + 20 }).await;
    let f = r.settle(t + 4 * DAY, 6).await;
    r.case("C03Case", "stale_log", f, json!({}))
}

/// a deletion record removes another version than the one it names — here even the version the same
/// pull has just fetched: B updates the row, A and C delete the old version on two different days;
/// A holds both records and B's version; B pulling A ends without the row although A shows it
async fn tomb_other_version(net: &Net) -> Case {
    let mut r = Runner::new(net, 3).await;
    let t = T0 + 3000;
    r.exec(Op::Create { p: 0, x: 1, t }).await;
    r.exec(Op::Pull { dst: 1, src: 0, t: t + 1 }).await;
    r.exec(Op::Pull { dst: 2, src: 0, t: t + 2 }).await;
    r.exec(Op::Update { p: 1, x: 1, t: t + 60_000 }).await;
    r.exec(Op::Delete { p: 0, x: 1, t: t + 120_000 }).await;
    r.exec(Op::Delete { p: 2, x: 1, t: t + DAY }).await;
    r.exec(Op::Pull { dst: 0, src: 2, t: t + DAY + 10 }).await;
    r.exec(Op::Pull { dst: 0, src: 1, t: t + DAY + 20 }).await;
    r.exec(Op::Pull { dst: 1, src: 0, t: t + DAY + 30 }).await;
    let f = r.settle(t + 2 * DAY, 6).await;
    r.case("C03Case", "tomb_other_version", f, json!({}))
}

/// two deletion records of one row naming different versions (the more recent one names the older
/// version), then the pulls that let a peer holding both records meet the newer version again
async fn two_versions(net: &Net) -> Case {
    let mut r = Runner::new(net, 3).await;
    two_versions_history(&mut r, &[1], 1, 0, true, false, &[(1, 0), (1, 2)]).await;
    let f = r.settle(T0 + 2 * DAY, 6).await;
    r.case("C03Case", "two_versions", f, json!({}))
}

/// generated: deletions of different versions of one row on different peers (the update was seen by
/// only some peers), either record the more recent one, same day or next day, then a random pull order
async fn two_versions_case(net: &Net, rng: &mut Rng) -> Case {
    let n = 3 + rng.below(2) as usize;
    let mut r = Runner::new(net, n).await;
    let updater = n - 1;
    // who has seen the update (besides the updater): a non-empty proper subset of the others
    let others: Vec<usize> = (0..updater).collect();
    let k = 1 + rng.below(others.len() as u64 - 1) as usize;
    let mut seen: Vec<usize> = others.clone();
    while seen.len() > k { let i = rng.below(seen.len() as u64) as usize; seen.remove(i); }
    let unseen: Vec<usize> = others.iter().cloned().filter(|p| !seen.contains(p)).collect();
    let del_new = if rng.chance(1, 3) { updater } else { *rng.pick(&seen) };
    let del_old = *rng.pick(&unseen);
    let old_later = rng.chance(2, 3);
    let next_day = rng.chance(1, 3);
    let mut order = vec![];
    for _ in 0..(2 + rng.below(6)) {
        let dst = rng.below(n as u64) as usize;
        let src = (dst + 1 + rng.below(n as u64 - 1) as usize) % n;
        order.push((dst, src));
    }
    two_versions_history(&mut r, &seen, del_new, del_old, old_later, next_day, &order).await;
    let f = r.settle(T0 + 3 * DAY, 6).await;
    r.case("C03Case", "two_versions_gen", f, json!({"seen": seen, "del_new": del_new, "del_old": del_old, "old_later": old_later, "next_day": next_day, "order": order}))
}

/// many rows and deletion records on one day served in small answers (several batches per query)
async fn batching(net: &Net) -> Case {
    let mut r = Runner::new(net, 3).await;
    batching_history(&mut r, 60, 55).await;
    let f = r.settle(T0 + DAY, 4).await;
    net.serve_buffer.store(0, std::sync::atomic::Ordering::SeqCst);
    r.case("C03Case", "batching", f, json!({}))
}

/// references: concurrent additions of different references to one row on two peers
async fn concurrent_refs(net: &Net, same_ms: bool) -> Case {
    let mut r = Runner::new(net, 2).await;
    concurrent_refs_history(&mut r, same_ms).await;
    let f = r.settle(T0 + DAY, 5).await;
    r.case("C03Case", "concurrent_refs", f, json!({"same_ms": same_ms}))
}
/// references: add, remove, add again on one day, then the day is exchanged again (old record replayed)
async fn ref_readd(net: &Net) -> Case {
    let mut r = Runner::new(net, 3).await;
    ref_readd_history(&mut r).await;
    let f = r.settle(T0 + DAY, 5).await;
    r.case("C03Case", "ref_readd", f, json!({}))
}
/// references: the same reference added on two peers (two creation dates), the later one removed
async fn same_ref(net: &Net) -> Case {
    let mut r = Runner::new(net, 2).await;
    same_ref_history(&mut r).await;
    let f = r.settle(T0 + DAY, 5).await;
    r.case("C03Case", "same_ref_two_dates", f, json!({}))
}
/// generated histories with reference additions / removals / re-additions next to row writes and pulls
async fn refs_case(net: &Net, rng: &mut Rng) -> Case {
    let n = 2 + rng.below(2) as usize;
    let mut r = Runner::new(net, n).await;
    let mut t = T0 + 1000 * rng.range(1, 50);
    for _ in 0..(3 + rng.below(2)) { advance(rng, &mut t); let x = r.next_id(); r.exec(Op::Create { p: 0, x, t }).await; }
    for d in 1..n { r.exec(Op::Pull { dst: d, src: 0, t }).await; }
    let concurrent = rng.chance(1, 3); // otherwise reference changes are made where the newest version of the row is
    for _ in 0..(6 + rng.below(10)) {
        advance(rng, &mut t);
        let p = if concurrent { rng.below(n as u64) as usize } else { 0 };
        match rng.below(10) {
            0..=4 => gen_ref_step(&mut r, p, t, rng).await,
            5 => { let known: Vec<u64> = r.last_dump(p).nodes.iter().map(|x| x.0).collect(); if !known.is_empty() { let x = *rng.pick(&known); r.exec(Op::Update { p, x, t }).await; } }
            6 => { let x = r.next_id(); r.exec(Op::Create { p, x, t }).await; }
            _ => { let dst = rng.below(n as u64) as usize; let src = (dst + 1 + rng.below(n as u64 - 1) as usize) % n; r.exec(Op::Pull { dst, src, t }).await; }
        }
    }
    let f = r.settle(t + DAY, 6).await;
    r.case("C03Case", if concurrent { "refs_concurrent" } else { "refs" }, f, json!({}))
}

/// exactly 2048 (or 2047 / 2049 / 4096) rows of one day fetched in one pull, one with a reference
async fn batch_boundary(net: &Net, k: u64) -> Case {
    let mut r = Runner::new(net, 2).await;
    let t0 = std::time::Instant::now();
    let f = batch_boundary_history(&mut r, k).await;
    r.case("C03Case", "batch_boundary", f, json!({"rows_of_the_day": k, "harness_seconds": t0.elapsed().as_secs_f64()}))
}

/// a removed reference and a later version of its source row fetched together with new rows
async fn removed_ref(net: &Net) -> Case {
    let mut r = Runner::new(net, 2).await;
    removed_ref_history(&mut r, 1, false, false).await;
    let f = r.settle(T0 + 3 * DAY, 5).await;
    r.case("C03Case", "removed_ref", f, json!({}))
}

async fn random_case(net: &Net, rng: &mut Rng, deletions: bool) -> Case {
    let n = 2 + rng.below(3) as usize;
    let mut r = Runner::new(net, n).await;
    let mut t = T0 + 1000 * rng.range(1, 50);
    // per-peer clock skew (ms): a peer's clock may be behind or ahead
    let skew: Vec<i64> = (0..n).map(|_| *rng.pick(&[0, 0, -700, 350, -DAY / 2, 2000])).collect();
    let nops = 8 + rng.below(16);
    let mut last_write: Option<(u64, i64)> = None;
    for _ in 0..nops {
        advance(rng, &mut t);
        let p = rng.below(n as u64) as usize;
        let tp = t + skew[p];
        let have = r.last_dump(p);
        let known: Vec<u64> = have.nodes.iter().map(|x| x.0).collect();
        match rng.below(20) {
            0..=3 => { let x = r.next_id(); r.exec(Op::Create { p, x, t: tp }).await; last_write = Some((x, tp)); }
            4..=8 if !known.is_empty() => {
                let x = *rng.pick(&known);
                // sometimes exactly the millisecond of the previous write of that row on another peer
                let tu = match last_write { Some((lx, lt)) if lx == x && rng.chance(1, 2) => lt, _ => tp };
                r.exec(Op::Update { p, x, t: tu }).await;
                last_write = Some((x, tu));
            }
            9..=10 if deletions && !known.is_empty() => { let x = *rng.pick(&known); r.exec(Op::Delete { p, x, t: tp }).await; }
            11 if r.next_id() > 1 => { let x = 1 + rng.below(r.next_id() - 1); r.exec(Op::Update { p, x, t: tp }).await; }
            _ => { let src = (p + 1 + rng.below(n as u64 - 1) as usize) % n; r.exec(Op::Pull { dst: p, src, t: tp }).await; }
        }
    }
    let f = r.settle(t + DAY, 6).await;
    r.case("C03Case", if deletions { "random_del" } else { "random" }, f, json!({"skew": skew}))
}

#[tokio::main(flavor = "multi_thread")]
async fn main() {
    let mut out = Out::create();
    let mut rng = Rng::from_env();
    let net = Net::start(4, MODEL, work_root("C03")).await;
    out.push(same_ms(&net, 0).await);
    out.push(same_ms(&net, 1).await);
    out.push(cross_day(&net).await);
    out.push(double_delete(&net).await);
    out.push(shortcut(&net).await);
    out.push(stale_log(&net).await);
    out.push(tomb_other_version(&net).await);
    out.push(two_versions(&net).await);
    out.push(batching(&net).await);
    out.push(batch_boundary(&net, 2048).await);
    if tier_thorough() { for k in [2047, 2049] { out.push(batch_boundary(&net, k).await); } }
    out.push(concurrent_refs(&net, false).await);
    out.push(concurrent_refs(&net, true).await);
    out.push(ref_readd(&net).await);
    out.push(same_ref(&net).await);
    out.push(removed_ref(&net).await);
    for _ in 0..scale(14, 300) {
        let mut r = rng.fork();
        out.push(refs_case(&net, &mut r).await);
    }
    for _ in 0..scale(6, 150) {
        let mut r = rng.fork();
        out.push(two_versions_case(&net, &mut r).await);
    }
    for sd in [false, true] { for first in [0, 1] { out.push(delete_vs_update(&net, sd, first).await); } }
    for i in 0..scale(36, 700) {
        let mut r = rng.fork();
        out.push(random_case(&net, &mut r, i % 3 == 2).await);
    }
    out.finish();
    net.cleanup();
}
