//! C05 correspondence (tier T1): the real query compiler and engine (QueryParser::parse +
//! PreparedQueries::build + Query::read on an in-memory SQLite connection) against the Gallina
//! model (Sql.compile / Sql.print / Sql.run_sql) and the reference evaluator (Eval.eval).
//!  * CQuery: SQL text (whitespace-normalised), parameter list, name-resolution flags, answer
//!  * CPages: a client paging with first n + after(keys of the last row) until an empty page
//! Rows are read back from _node after the mutations, so the model sees what is stored.
use discret::verif_hooks::database::mutation_query::MutationQuery;
use discret::verif_hooks::database::query::{PreparedQueries, Query};
use discret::verif_hooks::database::query_language::data_model_parser::DataModel;
use discret::verif_hooks::database::query_language::mutation_parser::MutationParser;
use discret::verif_hooks::database::query_language::parameter::{Parameters, ParametersAdd};
use discret::verif_hooks::database::query_language::query_parser::QueryParser;
use discret::verif_hooks::database::sqlite_database::{prepare_connection, Writeable};
use rusqlite::Connection;
use serde_json::json;
use std::collections::BTreeMap;
use std::sync::Arc;
use vharness::common::*;

// ---------------------------------------------------------------- values
#[derive(Clone, Debug, PartialEq)]
enum Val { Null, Bool(bool), Int(i64), Flt(i64), Str(String) } // Flt(q) = q/4
#[derive(Clone, Copy, Debug, PartialEq)]
enum FT { Bool, Int, Flt, Str }

fn gstr(s: &str) -> String { glist(&s.chars().map(|c| gn(c as u64)).collect::<Vec<_>>()) }
impl Val {
    fn coq(&self) -> String {
        match self {
            Val::Null => "VNull".into(),
            Val::Bool(b) => format!("(VBool {})", gb(*b)),
            Val::Int(z) => format!("(VInt {})", gz(*z)),
            Val::Flt(q) => format!("(VFlt {})", gz(*q)),
            Val::Str(s) => format!("(VStr {})", gstr(s)),
        }
    }
    /// text of the value in the query / mutation / data model language
    fn text(&self) -> String {
        match self {
            Val::Null => "null".into(),
            Val::Bool(b) => b.to_string(),
            Val::Int(z) => z.to_string(),
            Val::Flt(q) => {
                let a = q.abs();
                let fr = match a % 4 { 0 => "0", 1 => "25", 2 => "5", _ => "75" };
                format!("{}{}.{}", if *q < 0 { "-" } else { "" }, a / 4, fr)
            }
            Val::Str(s) => format!("\"{}\"", s.replace('"', "\\\"")),
        }
    }
    fn enc(&self, o: &mut Vec<i64>) {
        match self {
            Val::Null => o.push(0),
            Val::Bool(b) => { o.push(1); o.push(*b as i64) }
            Val::Int(z) => { o.push(2); o.push(*z) }
            Val::Flt(q) => { o.push(3); o.push(*q) }
            Val::Str(s) => { o.push(4); enc_str(s, o) }
        }
    }
    fn add_to(&self, p: &mut Parameters, name: &str) {
        match self {
            Val::Null => p.add_null(name).unwrap(),
            Val::Bool(b) => p.add(name, *b).unwrap(),
            Val::Int(z) => p.add(name, *z).unwrap(),
            Val::Flt(q) => p.add(name, *q as f64 / 4.0).unwrap(),
            Val::Str(s) => p.add(name, s.clone()).unwrap(),
        }
    }
}
fn enc_str(s: &str, o: &mut Vec<i64>) {
    let cs: Vec<char> = s.chars().collect();
    o.push(cs.len() as i64);
    for c in cs { o.push(c as i64) }
}
/// JSON value -> model value. JSON has one number type: a number of a Float field is read as a float
/// (`2` and `2.0` are the same value), any other integral number as an integer.
fn json_to_val(v: &serde_json::Value, ty: FT) -> Val {
    match v {
        serde_json::Value::Null => Val::Null,
        serde_json::Value::Bool(b) => Val::Bool(*b),
        serde_json::Value::Number(n) => {
            if ty != FT::Flt && n.as_i64().is_some() { Val::Int(n.as_i64().unwrap()) }
            else {
                let f = n.as_f64().unwrap();
                let q = f * 4.0;
                // not an exact multiple of 0.25: never equal to a model value
                if q.fract() == 0.0 && q.abs() < 1e15 { Val::Flt(q as i64) } else { Val::Flt(i64::MIN + 7) }
            }
        }
        serde_json::Value::String(s) => Val::Str(s.clone()),
        other => Val::Str(format!("<<{}>>", other)),
    }
}

// ---------------------------------------------------------------- data model
#[derive(Clone, Debug)]
struct FDef { name: String, ty: FT, nullable: bool, default: Option<Val>, phase2: bool, short: String }
#[derive(Clone, Debug)]
struct Model { ns: Option<String>, fields: Vec<FDef>, eshort: String, uniq0: bool, name: Option<String> } // uniq0: field 0 is an Integer with a different value on every row
impl Model {
    fn ename(&self) -> String { if let Some(n) = &self.name { return n.clone(); } match &self.ns { Some(n) => format!("{}.P", n), None => "P".into() } }
    fn text(&self, phase2: bool) -> String {
        let mut fs = vec![];
        for f in &self.fields {
            if f.phase2 && !phase2 { continue; }
            let ty = match f.ty { FT::Bool => "Boolean", FT::Int => "Integer", FT::Flt => "Float", FT::Str => "String" };
            let suffix = if f.nullable { " nullable".to_string() } else if let Some(d) = &f.default { format!(" default {}", d.text()) } else { String::new() };
            fs.push(format!("{}: {}{}", f.name, ty, suffix));
        }
        format!("{} {{ P {{ {} }} }}", self.ns.clone().unwrap_or_default(), fs.join(", "))
    }
    fn coq(&self) -> String {
        let fs: Vec<String> = self.fields.iter().map(|f| format!(
            "(Build_fdef {} {} {} {} {})", gstr(&f.name), gstr(&f.short),
            match f.ty { FT::Bool => "TBool", FT::Int => "TInt", FT::Flt => "TFlt", FT::Str => "TStr" },
            gb(f.nullable), gopt(&f.default.as_ref().map(|d| d.coq())))).collect();
        format!("(Build_emodel {} {} {})", gstr(&self.ename()), gstr(&self.eshort), glist(&fs))
    }
}

// ---------------------------------------------------------------- queries
#[derive(Clone, Debug)]
enum Opnd { Lit(Val), Var(String) }
impl Opnd {
    fn coq(&self) -> String { match self { Opnd::Lit(v) => format!("(OLit {})", v.coq()), Opnd::Var(n) => format!("(OVar {})", gstr(n)) } }
    fn text(&self) -> String { match self { Opnd::Lit(v) => v.text(), Opnd::Var(n) => format!("${}", n) } }
}
#[derive(Clone, Debug, PartialEq)]
enum FRef { Name(usize), Alias(usize) }
impl FRef { fn coq(&self) -> String { match self { FRef::Name(i) => format!("(FByName {})", i), FRef::Alias(k) => format!("(FByAlias {})", k) } } }
#[derive(Clone, Debug)]
struct Sel { field: usize, alias: Option<String> }
#[derive(Clone, Debug)]
struct Filt { r: FRef, op: usize, v: Opnd }
#[derive(Clone, Debug)]
struct OKey { r: FRef, desc: bool }
#[derive(Clone, Debug)]
enum Paging { None, After(Vec<Opnd>), Before(Vec<Opnd>) }
#[derive(Clone, Debug)]
struct QSpec { alias: Option<String>, sel: Vec<Sel>, filters: Vec<Filt>, order: Vec<OKey>, first: Opnd, skip: Option<Opnd>, paging: Paging, shuffle: u64 }
const OPS: [&str; 6] = ["=", "!=", "<", "<=", ">", ">="];
const OPS_COQ: [&str; 6] = ["OEq", "ONe", "OLt", "OLe", "OGt", "OGe"];

impl QSpec {
    fn ref_name(&self, m: &Model, r: &FRef) -> String {
        match r { FRef::Name(i) => m.fields[*i].name.clone(), FRef::Alias(k) => self.sel[*k].alias.clone().unwrap() }
    }
    fn ref_field(&self, r: &FRef) -> usize { match r { FRef::Name(i) => *i, FRef::Alias(k) => self.sel[*k].field } }
    fn sel_name(&self, m: &Model, k: usize) -> String { self.sel[k].alias.clone().unwrap_or(m.fields[self.sel[k].field].name.clone()) }
    /// the parameters between ( ) and the selected fields, as text
    fn parts(&self, m: &Model) -> (Vec<String>, Vec<String>) {
        let mut ps: Vec<String> = self.filters.iter().map(|f| format!("{} {} {}", self.ref_name(m, &f.r), OPS[f.op], f.v.text())).collect();
        let mut extra = vec![];
        if !self.order.is_empty() {
            extra.push(format!("order_by({})", self.order.iter().map(|k| format!("{} {}", self.ref_name(m, &k.r), if k.desc { "desc" } else { "asc" })).collect::<Vec<_>>().join(", ")));
        }
        match &self.paging {
            Paging::None => {}
            Paging::After(vs) => extra.push(format!("after({})", vs.iter().map(|v| v.text()).collect::<Vec<_>>().join(", "))),
            Paging::Before(vs) => extra.push(format!("before({})", vs.iter().map(|v| v.text()).collect::<Vec<_>>().join(", "))),
        }
        match &self.first { Opnd::Lit(Val::Int(0)) => {}, f => extra.push(format!("first {}", f.text())) }
        if let Some(s) = &self.skip { extra.push(format!("skip {}", s.text())) }
        let mut sh = self.shuffle;
        for e in extra { let pos = (sh % (ps.len() as u64 + 1)) as usize; sh /= 7; ps.insert(pos, e); }
        let fields: Vec<String> = self.sel.iter().map(|s| match &s.alias { Some(a) => format!("{}: {}", a, m.fields[s.field].name), None => m.fields[s.field].name.clone() }).collect();
        (ps, fields)
    }
    fn text(&self, m: &Model) -> String {
        let (ps, fields) = self.parts(m);
        format!("query {{ {}{} {} {{ {} }} }}",
            match &self.alias { Some(a) => format!("{}: ", a), None => String::new() }, m.ename(),
            if ps.is_empty() { String::new() } else { format!("({})", ps.join(", ")) }, fields.join(" "))
    }
    fn coq(&self) -> String {
        let sel: Vec<String> = self.sel.iter().map(|s| format!("(Build_selfield {} {})", s.field, gopt(&s.alias.as_ref().map(|a| gstr(a))))).collect();
        let fl: Vec<String> = self.filters.iter().map(|f| format!("(Build_qfilter {} {} {})", f.r.coq(), OPS_COQ[f.op], f.v.coq())).collect();
        let ord: Vec<String> = self.order.iter().map(|k| format!("(Build_okey {} {})", k.r.coq(), if k.desc { "Desc" } else { "Asc" })).collect();
        let pg = match &self.paging {
            Paging::None => "PNone".to_string(),
            Paging::After(vs) => format!("(PAfter {})", glist(&vs.iter().map(|v| v.coq()).collect::<Vec<_>>())),
            Paging::Before(vs) => format!("(PBefore {})", glist(&vs.iter().map(|v| v.coq()).collect::<Vec<_>>())),
        };
        format!("(Build_query {} {} {} {} {} {} {})", gopt(&self.alias.as_ref().map(|a| gstr(a))), glist(&sel), glist(&fl), glist(&ord),
            self.first.coq(), gopt(&self.skip.as_ref().map(|s| s.coq())), pg)
    }
    fn result_name(&self, m: &Model) -> String { self.alias.clone().unwrap_or(m.ename()) }
}
fn params_coq(ps: &[(String, Val)]) -> String { glist(&ps.iter().map(|(n, v)| format!("({}, {})", gstr(n), v.coq())).collect::<Vec<_>>()) }
fn rows_coq(rows: &[Vec<Val>]) -> String { glist(&rows.iter().map(|r| glist(&r.iter().map(|v| v.coq()).collect::<Vec<_>>())).collect::<Vec<_>>()) }

// ---------------------------------------------------------------- the real engine
struct World { dm: DataModel, conn: Connection, model: Model, rows: Vec<Vec<Val>> }

fn mutate(conn: &Connection, dm: &DataModel, text: &str, mut p: Parameters) {
    let mutation = MutationParser::parse(text, dm).unwrap_or_else(|e| panic!("mutation does not parse: {} : {}", text, e));
    let mut mq = MutationQuery::execute(&mut p, Arc::new(mutation), conn).unwrap();
    mq.write(conn).unwrap();
}

/// whitespace runs -> one space, trimmed; spaces next to ( ) , dropped   (= Sql.norm_ws)
fn norm_ws(s: &str) -> String {
    let mut out = String::new();
    let (mut pending, mut prev_punct) = (false, true);
    for c in s.chars() {
        if c == ' ' || c == '\t' || c == '\n' || c == '\r' { pending = true; }
        else if c == '(' || c == ')' || c == ',' { out.push(c); pending = false; prev_punct = true; }
        else { if pending && !prev_punct { out.push(' '); } out.push(c); pending = false; prev_punct = false; }
    }
    out
}
/// Param has private fields: read them from its Debug text `Param { internal: true, value: "…" }`
fn parse_param_debug(d: &str) -> (bool, String) {
    let internal = d.contains("internal: true");
    let start = d.find("value: \"").expect("param debug") + 8;
    let body: Vec<char> = d[start..].chars().collect();
    let mut s = String::new();
    let mut i = 0;
    while i < body.len() {
        let c = body[i];
        if c == '"' { break; }
        if c == '\\' {
            i += 1;
            match body[i] {
                'n' => s.push('\n'), 'r' => s.push('\r'), 't' => s.push('\t'), '0' => s.push('\0'),
                'u' => { let mut j = i + 2; let mut h = String::new(); while body[j] != '}' { h.push(body[j]); j += 1; } s.push(char::from_u32(u32::from_str_radix(&h, 16).unwrap()).unwrap()); i = j; }
                other => s.push(other),
            }
        } else { s.push(c); }
        i += 1;
    }
    (internal, s)
}

struct Answer { parse_ok: bool, sql: String, vo: Vec<(bool, String)>, flags: Vec<i64>, result: Option<Vec<Vec<Val>>>, err: String }

fn run_real(w: &World, q: &QSpec, text: &str, ps: &[(String, Val)]) -> Answer {
    let mut a = Answer { parse_ok: false, sql: String::new(), vo: vec![], flags: vec![], result: None, err: String::new() };
    let qp = match QueryParser::parse(text, &w.dm) { Ok(q) => q, Err(e) => { a.err = format!("parse: {}", e); return a; } };
    a.parse_ok = true;
    let pq = PreparedQueries::build(&qp).unwrap();
    a.sql = norm_ws(&pq.sql_queries[0].sql_query);
    a.vo = pq.sql_queries[0].var_order.iter().map(|p| parse_param_debug(&format!("{:?}", p))).collect();
    for f in &qp.queries[0].params.filters { a.flags.push(f.is_selected as i64); }
    for o in &qp.queries[0].params.order_by { a.flags.push(o.is_selected as i64); }
    let mut p = Parameters::new();
    for (n, v) in ps { v.add_to(&mut p, n); }
    let mut sql = Query { parameters: p, parser: Arc::new(qp), sql_queries: Arc::new(pq) };
    match sql.read(&w.conn) {
        Err(e) => { a.err = format!("read: {}", e); }
        Ok(s) => {
            let v: serde_json::Value = serde_json::from_str(&s).expect("result is JSON");
            let arr = v.get(q.result_name(&w.model)).and_then(|x| x.as_array()).expect("result array").clone();
            let mut rows = vec![];
            for o in arr {
                let obj = o.as_object().expect("row object");
                let mut r = vec![];
                for k in 0..q.sel.len() {
                    match obj.get(&q.sel_name(&w.model, k)) { Some(x) => r.push(json_to_val(x, w.model.fields[q.sel[k].field].ty)), None => r.push(Val::Str("<<missing key>>".into())) }
                }
                if obj.len() != q.sel.len() { r.push(Val::Str("<<extra keys>>".into())); }
                rows.push(r);
            }
            a.result = Some(rows);
        }
    }
    a
}
fn enc_result(rows: &[Vec<Val>], o: &mut Vec<i64>) {
    o.push(rows.len() as i64);
    for r in rows { o.push(r.len() as i64); for v in r { v.enc(o); } }
}
/// length and two 61-bit polynomial hashes of the text (= Run_C05.hash_text)
fn hash_text(s: &str, o: &mut Vec<i64>) {
    let cs: Vec<char> = s.chars().collect();
    o.push(cs.len() as i64);
    for (mul, md, init) in [(1000003u128, 2305843009213693951u128, 7u128), (998244353u128, 2305843009213693921u128, 11u128)] {
        let mut h = init;
        for c in &cs { h = (h * mul + (*c as u128) + 1) % md; }
        o.push(h as i64);
    }
}
fn obs_query(a: &Answer) -> Vec<i64> {
    if !a.parse_ok { return vec![1]; }
    let mut o = vec![];
    hash_text(&a.sql, &mut o);
    o.push(a.vo.len() as i64);
    for (i, s) in &a.vo { o.push(*i as i64); enc_str(s, &mut o); }
    o.extend(&a.flags);
    match &a.result { Some(rows) => { o.push(0); enc_result(rows, &mut o); } None => o.push(2) }
    o
}

/// the paging client: first n + after(keys of the last row) until an empty page
fn run_pages(w: &World, q: &QSpec, ps: &[(String, Val)], n: i64, fuel: usize) -> (Vec<i64>, Vec<String>) {
    let mut pages: Vec<Vec<Vec<Val>>> = vec![];
    let mut cursor: Option<Vec<Val>> = None;
    let mut status = 4;
    let mut texts = vec![];
    for _ in 0..fuel {
        let mut qq = q.clone();
        qq.first = Opnd::Lit(Val::Int(n));
        qq.skip = None;
        let mut pp: Vec<(String, Val)> = vec![];
        if let Some(c) = &cursor {
            let cname = |j: usize| format!("c{}", "0".repeat(j));   // c, c0, c00 (= Run_C05.cursor_name)
            qq.paging = Paging::After((0..c.len()).map(|j| Opnd::Var(cname(j))).collect());
            for (j, v) in c.iter().enumerate() { pp.push((cname(j), v.clone())); }
        }
        pp.extend_from_slice(ps);
        let text = qq.text(&w.model);
        let a = run_real(w, &qq, &text, &pp);
        texts.push(text);
        let page = match a.result { None => { status = 2; break; } Some(p) => p };
        if page.is_empty() { status = 0; break; }
        let last = page.last().unwrap().clone();
        pages.push(page);
        let mut c = vec![];
        for k in &q.order {
            let pos = match &k.r { FRef::Alias(j) => Some(*j), FRef::Name(i) => q.sel.iter().position(|s| s.field == *i) };
            match pos.map(|p| last[p].clone()) { Some(Val::Null) | None => { c.clear(); break; } Some(v) => c.push(v) }
        }
        if c.len() != q.order.len() { status = 3; break; }
        cursor = Some(c);
    }
    let mut o = vec![status, pages.len() as i64];
    for p in &pages { enc_result(p, &mut o); }
    (o, texts)
}

// ---------------------------------------------------------------- generators
const STR_POOL: [&str; 18] = ["", "a", "b", "ab", "B", "aa", "é", "z", "\u{10000}", "a b", "A", "0", "10", "9", "null", "dd", "\u{ffff}", "a\"b"];
const STR_PARAM_POOL: [&str; 8] = ["it's", "a\\b", "x'; --", "\"", "%", "\n", "a,b(c)", "\u{0}"];
fn needs_param(s: &str) -> bool { s.contains('\\') || s.contains('\n') || s.contains('\0') }
fn gen_val(rng: &mut Rng, ty: FT, via_param: bool) -> Val {
    match ty {
        FT::Bool => Val::Bool(rng.chance(1, 2)),
        FT::Int => match rng.below(12) { 0 => Val::Int(9007199254740993), 1 => Val::Int(i64::MAX), 2 => Val::Int(i64::MIN + 1), 3 => Val::Int(100), _ => Val::Int(rng.range(-2, 3)) },
        FT::Flt => match rng.below(10) { 0 => Val::Flt(4_000_001), 1 => Val::Flt(-4_000_003), _ => Val::Flt(rng.range(-6, 9)) },
        FT::Str => if via_param && rng.chance(1, 6) { Val::Str(rng.pick(&STR_PARAM_POOL).to_string()) } else { Val::Str(rng.pick(&STR_POOL).to_string()) },
    }
}
fn gen_model(rng: &mut Rng) -> Model {
    let n = 3 + rng.below(4) as usize;
    let phase1 = 1 + rng.below(n as u64 - 1) as usize;
    let mut fields = vec![];
    for i in 0..n {
        let ty = *rng.pick(&[FT::Bool, FT::Int, FT::Int, FT::Flt, FT::Str, FT::Str]);
        let phase2 = i >= phase1;
        let kind = if phase2 { 1 + rng.below(2) } else { rng.below(3) }; // 0 plain, 1 nullable, 2 default
        let default = if kind == 2 { let mut d = gen_val(rng, ty, false); if let Val::Str(s) = &d { if s.contains('"') { d = Val::Str("dd".into()); } } Some(d) } else { None };
        fields.push(FDef { name: format!("f{}", i), ty, nullable: kind == 1, default, phase2, short: String::new() });
    }
    let uniq0 = rng.chance(1, 2);
    if uniq0 { fields[0] = FDef { name: "f0".into(), ty: FT::Int, nullable: false, default: None, phase2: false, short: String::new() }; }
    Model { ns: if rng.chance(1, 3) { Some("ns".into()) } else { None }, fields, eshort: String::new(), uniq0, name: None }
}

fn build_world(rng: &mut Rng, mut model: Model, nrows: usize, explicit: Option<Vec<(bool, Vec<Option<Val>>)>>) -> World {
    let mut dm = DataModel::new();
    let conn = Connection::open_in_memory().unwrap();
    prepare_connection(&conn).unwrap();
    let has_phase2 = model.fields.iter().any(|f| f.phase2);
    dm.update(&model.text(false)).unwrap_or_else(|e| panic!("model: {} : {}", model.text(false), e));
    // rows: (phase2?, per field: None = not mentioned, Some(v) = written)
    let plan: Vec<(bool, Vec<Option<Val>>)> = match explicit {
        Some(p) => p,
        None => (0..nrows).map(|i| {
            let p2 = has_phase2 && i * 2 >= nrows;
            let vals = model.fields.iter().enumerate().map(|(fi, f)| {
                if fi == 0 && model.uniq0 { return Some(Val::Int(((i * 7 + 3) % 11) as i64 - 4)); }
                if f.phase2 && !p2 { return None; }
                let optional = f.nullable || f.default.is_some();
                if optional && rng.chance(1, 4) { None }
                else if f.nullable && rng.chance(1, 4) { Some(Val::Null) }
                else if f.default.is_some() && rng.chance(1, 4) { f.default.clone() }
                else { Some(gen_val(rng, f.ty, true)) }
            }).collect();
            (p2, vals)
        }).collect(),
    };
    let mut updated = false;
    for (p2, vals) in &plan {
        if *p2 && !updated { dm.update(&model.text(true)).unwrap_or_else(|e| panic!("model update: {} : {}", model.text(true), e)); updated = true; }
        let mut p = Parameters::new();
        let mut fs = vec![];
        for (i, v) in vals.iter().enumerate() {
            if let Some(v) = v {
                let by_param = match v { Val::Str(s) => needs_param(s) || rng.chance(1, 2), _ => rng.chance(1, 3) };
                if by_param { let name = format!("p{}", i); v.add_to(&mut p, &name); fs.push(format!("{}: ${}", model.fields[i].name, name)); }
                else { fs.push(format!("{}: {}", model.fields[i].name, v.text())); }
            }
        }
        mutate(&conn, &dm, &format!("mutate {{ {} {{ {} }} }}", model.ename(), fs.join(" ")), p);
    }
    if has_phase2 && !updated { dm.update(&model.text(true)).unwrap(); }
    let ent = dm.get_entity(&model.ename()).unwrap();
    model.eshort = ent.short_name.clone();
    for f in model.fields.iter_mut() { f.short = ent.get_field(&f.name).unwrap().short_name.clone(); }
    // read the rows back
    let mut st = conn.prepare("SELECT _json FROM _node WHERE _entity = ?1 ORDER BY mdate, rowid").unwrap();
    let raw: Vec<Option<String>> = st.query_map([&model.eshort], |r| r.get(0)).unwrap().map(|x| x.unwrap()).collect();
    drop(st);
    let mut rows = vec![];
    for j in raw {
        let v: serde_json::Value = serde_json::from_str(&j.unwrap_or("{}".into())).unwrap();
        let obj = v.as_object().unwrap();
        let known: Vec<&String> = model.fields.iter().map(|f| &f.short).collect();
        for k in obj.keys() { assert!(known.contains(&k), "stored key {} is not a field short name", k); }
        rows.push(model.fields.iter().map(|f| obj.get(&f.short).map(|x| json_to_val(x, f.ty)).unwrap_or(Val::Null)).collect::<Vec<_>>());
    }
    World { dm, conn, model, rows }
}

struct VarGen { params: Vec<(String, Val)>, by_type: BTreeMap<(u8, bool), Vec<String>>, n: usize }
impl VarGen {
    fn var(&mut self, rng: &mut Rng, ty: FT, nullable: bool, v: Val, name_hint: Option<String>) -> Opnd {
        let key = (ty as u8, nullable);
        if name_hint.is_none() {
            if let Some(names) = self.by_type.get(&key) { if rng.chance(1, 4) { return Opnd::Var(rng.pick(names).clone()); } }
        }
        let name = name_hint.unwrap_or_else(|| { self.n += 1; format!("v{}", self.n) });
        if self.params.iter().any(|(n, _)| *n == name) { return Opnd::Var(name); }
        self.params.push((name.clone(), v));
        self.by_type.entry(key).or_default().push(name.clone());
        Opnd::Var(name)
    }
}

fn is_ident(s: &str) -> bool { !s.is_empty() && s.chars().all(|c| c.is_alphanumeric() || c == '_') }

fn gen_query(rng: &mut Rng, w: &World, for_pages: bool) -> (QSpec, Vec<(String, Val)>) {
    let m = &w.model;
    let nf = m.fields.len();
    let mut vg = VarGen { params: vec![], by_type: BTreeMap::new(), n: 0 };
    // selection
    let mut sel: Vec<Sel> = vec![];
    let mut order_idx: Vec<usize> = (0..nf).collect();
    for i in (1..nf).rev() { let j = rng.below(i as u64 + 1) as usize; order_idx.swap(i, j); }
    let nsel = 1 + rng.below(nf as u64) as usize;
    for &f in order_idx.iter().take(nsel) {
        let alias = if rng.chance(1, 3) { Some(format!("a{}", sel.len())) } else { None };
        sel.push(Sel { field: f, alias });
    }
    if rng.chance(1, 8) { let f = sel[0].field; if sel[0].alias.is_none() { sel.push(Sel { field: f, alias: Some(format!("a{}", sel.len())) }); } }
    let mut q = QSpec { alias: if rng.chance(1, 4) { Some("res".into()) } else { None }, sel, filters: vec![], order: vec![], first: Opnd::Lit(Val::Int(0)), skip: None, paging: Paging::None, shuffle: rng.next() };
    let pick_ref = |rng: &mut Rng, q: &QSpec, only_selected: bool| -> FRef {
        let aliased: Vec<usize> = (0..q.sel.len()).filter(|k| q.sel[*k].alias.is_some()).collect();
        if !aliased.is_empty() && rng.chance(2, 5) { FRef::Alias(*rng.pick(&aliased)) }
        else if only_selected {
            let plain: Vec<usize> = q.sel.iter().map(|s| s.field).collect();
            FRef::Name(*rng.pick(&plain))
        } else { FRef::Name(rng.below(nf as u64) as usize) }
    };
    let mut literal_strings: Vec<String> = vec![];
    for s in &q.sel { if let Some(Val::Str(d)) = &m.fields[s.field].default { literal_strings.push(d.clone()); } }
    // a value that is likely to occur in the data
    let likely = |rng: &mut Rng, w: &World, f: usize, via_param: bool| -> Val {
        if rng.chance(2, 3) && !w.rows.is_empty() {
            let v = w.rows[rng.below(w.rows.len() as u64) as usize][f].clone();
            if v != Val::Null {
                if let Val::Str(s) = &v { if !via_param && needs_param(s) { return gen_val(rng, w.model.fields[f].ty, false); } }
                return v;
            }
            if let Some(d) = &w.model.fields[f].default { if rng.chance(1, 2) { return d.clone(); } }
        }
        gen_val(rng, w.model.fields[f].ty, via_param)
    };
    // filters
    let nfl = if for_pages { if rng.chance(2, 3) { 0 } else { 1 } } else { match rng.below(10) { 0..=2 => 0, 3..=6 => 1, 7..=8 => 2, _ => 3 } };
    for _ in 0..nfl {
        let r = pick_ref(rng, &q, false);
        let f = q.ref_field(&r);
        let fd = &m.fields[f];
        let mut op = rng.below(6) as usize;
        let by_var = rng.chance(2, 5);
        let v = if fd.nullable && rng.chance(1, 5) { if rng.chance(2, 3) { op = rng.below(2) as usize; } Val::Null } else { likely(rng, w, f, by_var) };
        let o = if by_var {
            // rarely: name the variable like a string literal used earlier (add_param collision)
            let hint = if fd.ty == FT::Str && rng.chance(1, 12) { literal_strings.iter().filter(|s| is_ident(s)).next().cloned() } else { None };
            vg.var(rng, fd.ty, fd.nullable, v, hint)
        } else {
            if let Val::Str(s) = &v { literal_strings.push(s.clone()); }
            Opnd::Lit(v)
        };
        q.filters.push(Filt { r, op, v: o });
    }
    // order
    let nord = if for_pages { 1 + rng.below(2) as usize } else { match rng.below(10) { 0..=3 => 0, 4..=6 => 1, 7..=8 => 2, _ => 3 } };
    for _ in 0..nord {
        let r = pick_ref(rng, &q, for_pages);
        if q.order.iter().any(|k| k.r == r) { continue; }
        if for_pages && m.fields[q.ref_field(&r)].ty == FT::Bool { continue; }
        q.order.push(OKey { r, desc: rng.chance(1, 2) });
    }
    if for_pages {
        if m.uniq0 && rng.chance(2, 3) && !q.order.iter().any(|k| q.ref_field(&k.r) == 0) {
            if !q.sel.iter().any(|s| s.field == 0) { q.sel.push(Sel { field: 0, alias: None }); }
            q.order.push(OKey { r: FRef::Name(0), desc: rng.chance(1, 2) });
        }
        if q.order.is_empty() {
            let cands: Vec<usize> = (0..q.sel.len()).filter(|k| m.fields[q.sel[*k].field].ty != FT::Bool).collect();
            if cands.is_empty() {
                if let Some(f) = (0..nf).find(|i| m.fields[*i].ty != FT::Bool) { q.sel.push(Sel { field: f, alias: None }); q.order.push(OKey { r: FRef::Name(f), desc: false }); }
            } else {
                let k = *rng.pick(&cands);
                let r = if q.sel[k].alias.is_some() { FRef::Alias(k) } else { FRef::Name(q.sel[k].field) };
                q.order.push(OKey { r, desc: rng.chance(1, 2) });
            }
        }
        return (q, vg.params);
    }
    // paging
    if !q.order.is_empty() && rng.chance(1, 3) {
        let len = 1 + rng.below(q.order.len() as u64) as usize;
        let mut vs = vec![];
        for k in q.order.iter().take(len) {
            let f = q.ref_field(&k.r);
            let by_var = rng.chance(1, 2);
            let mut v = likely(rng, w, f, by_var);
            if v == Val::Null { v = gen_val(rng, m.fields[f].ty, false); }
            vs.push(if by_var { vg.var(rng, m.fields[f].ty, false, v, None) } else { Opnd::Lit(v) });
        }
        q.paging = if rng.chance(2, 3) { Paging::After(vs) } else { Paging::Before(vs) };
    }
    // first / skip
    match rng.below(12) {
        0..=5 => {}
        6..=9 => q.first = Opnd::Lit(Val::Int(rng.range(1, 5))),
        10 => { let v = if rng.chance(1, 6) { 0 } else { rng.range(1, 5) }; vg.n += 1; let name = format!("n{}", vg.n); vg.params.push((name.clone(), Val::Int(v))); q.first = Opnd::Var(name); }
        _ => { vg.n += 1; let name = format!("n{}", vg.n); vg.params.push((name.clone(), Val::Int(rng.range(-1, 6)))); q.first = Opnd::Var(name); }
    }
    let has_first = !matches!(q.first, Opnd::Lit(Val::Int(0)));
    if (has_first && rng.chance(1, 3)) || (!has_first && rng.chance(1, 12)) {
        q.skip = Some(if rng.chance(3, 4) { Opnd::Lit(Val::Int(rng.range(0, 3))) } else { vg.n += 1; let name = format!("n{}", vg.n); vg.params.push((name.clone(), Val::Int(rng.range(-1, 3)))); Opnd::Var(name) });
    }
    (q, vg.params)
}

// ---------------------------------------------------------------- cases
#[derive(Default)]
struct Stats { nonempty: usize, with_filter: usize, with_order: usize, with_paging: usize, errors: usize, parse_errors: usize, queries: usize, pages_cases: usize, pages_total: usize, pages_complete: usize, nested: usize, nested_nonempty: usize }
impl Stats {
    fn json(&self) -> serde_json::Value {
        json!({"queries": self.queries, "non_empty": self.nonempty, "with_filter": self.with_filter, "ordered": self.with_order, "paged": self.with_paging,
               "engine_errors": self.errors, "parse_errors": self.parse_errors, "paging_runs": self.pages_cases, "pages": self.pages_total, "paging_runs_to_empty_page": self.pages_complete, "nested_queries": self.nested, "nested_non_empty": self.nested_nonempty})
    }
}

fn push_query(out: &mut Buf, st: &mut Stats, w: &World, q: &QSpec, ps: &[(String, Val)], kind: &str, with_stats: bool) {
    let text = q.text(&w.model);
    let a = run_real(w, q, &text, ps);
    st.queries += 1;
    if !a.parse_ok { st.parse_errors += 1; }
    if a.parse_ok && a.result.is_none() { st.errors += 1; }
    if a.result.as_ref().map(|r| !r.is_empty()).unwrap_or(false) { st.nonempty += 1; }
    if !q.filters.is_empty() { st.with_filter += 1; }
    if !q.order.is_empty() { st.with_order += 1; }
    if !matches!(q.paging, Paging::None) { st.with_paging += 1; }
    let coq = format!("CQuery {} {} {} {}", w.model.coq(), rows_coq(&w.rows), q.coq(), params_coq(ps));
    let mut meta = json!({"model": w.model.text(true), "query": text, "params": format!("{:?}", ps), "sql": a.sql, "rows": w.rows.len(), "error": a.err});
    if with_stats { meta["generator"] = st.json(); }
    out.push(Case { kind: kind.into(), coq, obs: obs_query(&a), meta });
}
fn push_pages(out: &mut Buf, st: &mut Stats, w: &World, q: &QSpec, ps: &[(String, Val)], n: i64, kind: &str) {
    let fuel = w.rows.len() + 2;
    let (obs, texts) = run_pages(w, q, ps, n, fuel);
    st.pages_cases += 1; st.pages_total += obs[1] as usize; if obs[0] == 0 { st.pages_complete += 1; }
    let coq = format!("CPages {} {} {} {} {} {}", w.model.coq(), rows_coq(&w.rows), q.coq(), params_coq(ps), gz(n), fuel);
    out.push(Case { kind: kind.into(), coq, obs, meta: json!({"model": w.model.text(true), "query": q.text(&w.model), "page_queries": texts.iter().take(3).collect::<Vec<_>>(), "params": format!("{:?}", ps), "rows": w.rows.len()}) });
}

/// cases are buffered so that the generator statistics can be attached to the first case (they end up in the
/// evidence file's samples)
struct Buf(Vec<Case>);
impl Buf { fn push(&mut self, c: Case) { self.0.push(c) } }

fn fdef(name: &str, ty: FT, nullable: bool, default: Option<Val>, phase2: bool) -> FDef { FDef { name: name.into(), ty, nullable, default, phase2, short: String::new() } }
fn sel(field: usize, alias: Option<&str>) -> Sel { Sel { field, alias: alias.map(|s| s.to_string()) } }
fn qspec(sel: Vec<Sel>) -> QSpec { QSpec { alias: None, sel, filters: vec![], order: vec![], first: Opnd::Lit(Val::Int(0)), skip: None, paging: Paging::None, shuffle: 0 } }

fn directed_world(rng: &mut Rng) -> World {
    // fields: 0 name:String, 1 k:Integer nullable, 2 t:String nullable | added later: 3 b:Boolean default true,
    //         4 s:String default "dd", 5 i:Integer default 1, 6 q:String default "it's"
    let model = Model { ns: None, eshort: String::new(), uniq0: false, name: None, fields: vec![
        fdef("name", FT::Str, false, None, false), fdef("k", FT::Int, true, None, false), fdef("t", FT::Str, true, None, false),
        fdef("b", FT::Bool, false, Some(Val::Bool(true)), true), fdef("s", FT::Str, false, Some(Val::Str("dd".into())), true),
        fdef("i", FT::Int, false, Some(Val::Int(1)), true), fdef("q", FT::Str, false, Some(Val::Str("it's".into())), true)] };
    let s = |x: &str| Some(Val::Str(x.into()));
    let plan = vec![
        (false, vec![s("r0"), Some(Val::Int(1)), s("x"), None, None, None, None]),
        (false, vec![s("r1"), Some(Val::Int(1)), s("dd"), None, None, None, None]),
        (false, vec![s("r2"), Some(Val::Null), s("y"), None, None, None, None]),
        (false, vec![s("r3"), Some(Val::Int(0)), None, None, None, None, None]),
        (true, vec![s("r4"), Some(Val::Int(2)), s("z"), Some(Val::Bool(false)), s("aa"), Some(Val::Int(0)), s("q")]),
        (true, vec![s("r5"), Some(Val::Int(3)), s("dd"), Some(Val::Bool(true)), s("zz"), Some(Val::Int(2)), s("it's")]),
    ];
    build_world(rng, model, 0, Some(plan))
}

fn directed(out: &mut Buf, st: &mut Stats, rng: &mut Rng) {
    let w = directed_world(rng);
    let lit = |v: Val| Opnd::Lit(v);
    // clean baseline
    let mut q = qspec(vec![sel(0, None), sel(1, None)]); q.order = vec![OKey { r: FRef::Name(0), desc: false }];
    push_query(out, st, &w, &q, &[], "directed-baseline", false);
    push_pages(out, st, &w, &q, &[], 2, "directed-pages-unique-key");
    // K1: ties on the key
    let mut q = qspec(vec![sel(0, None), sel(1, None)]); q.order = vec![OKey { r: FRef::Name(1), desc: false }];
    q.filters = vec![Filt { r: FRef::Name(1), op: 1, v: lit(Val::Null) }];
    push_pages(out, st, &w, &q, &[], 1, "directed-K1-ties");
    // K1: null key
    let mut q = qspec(vec![sel(0, None), sel(1, None)]); q.order = vec![OKey { r: FRef::Name(1), desc: true }, OKey { r: FRef::Name(0), desc: false }];
    push_pages(out, st, &w, &q, &[], 2, "directed-K1-null-key");
    let mut q1 = q.clone(); q1.paging = Paging::After(vec![lit(Val::Int(1))]);
    push_query(out, st, &w, &q1, &[], "directed-K1-null-key-single", false);
    // K2: order by a default field by its own name; rows r0..r3 lack it
    let mut q = qspec(vec![sel(0, None), sel(4, None)]); q.order = vec![OKey { r: FRef::Name(4), desc: false }];
    push_query(out, st, &w, &q, &[], "directed-K2-raw-order-key", false);
    let mut q = qspec(vec![sel(0, None), sel(4, Some("ss"))]); q.order = vec![OKey { r: FRef::Alias(1), desc: false }];
    push_query(out, st, &w, &q, &[], "directed-order-by-alias-ok", false);
    // K3: boolean default on rows that lack the field
    let q = qspec(vec![sel(0, None), sel(3, None)]);
    push_query(out, st, &w, &q, &[], "directed-K3-bool-default", false);
    // K4: skip without first
    let mut q = qspec(vec![sel(0, None)]); q.skip = Some(lit(Val::Int(2)));
    push_query(out, st, &w, &q, &[], "directed-K4-skip-alone", false);
    let mut q = qspec(vec![sel(0, None)]); q.skip = Some(lit(Val::Int(2))); q.first = lit(Val::Int(100));
    push_query(out, st, &w, &q, &[], "directed-skip-with-first-ok", false);
    // K5: variable named like an earlier string literal
    let mut q = qspec(vec![sel(0, None), sel(2, None)]);
    q.filters = vec![Filt { r: FRef::Name(2), op: 0, v: lit(Val::Str("dd".into())) }, Filt { r: FRef::Name(0), op: 0, v: Opnd::Var("dd".into()) }];
    push_query(out, st, &w, &q, &[("dd".into(), Val::Str("r1".into()))], "directed-K5-variable-named-like-literal", false);
    let mut q = qspec(vec![sel(0, None), sel(4, None)]);   // the literal is the string default of a selected field
    q.filters = vec![Filt { r: FRef::Name(0), op: 0, v: Opnd::Var("dd".into()) }];
    push_query(out, st, &w, &q, &[("dd".into(), Val::Str("r1".into()))], "directed-K5-variable-named-like-default", false);
    let mut q = qspec(vec![sel(0, None), sel(2, None)]);   // variable first, literal later: no collision
    q.filters = vec![Filt { r: FRef::Name(0), op: 0, v: Opnd::Var("dd".into()) }, Filt { r: FRef::Name(2), op: 0, v: lit(Val::Str("dd".into())) }];
    push_query(out, st, &w, &q, &[("dd".into(), Val::Str("r1".into()))], "directed-variable-before-literal-ok", false);
    // K6: null-valued variable in an equality filter
    let mut q = qspec(vec![sel(0, None), sel(1, None)]); q.filters = vec![Filt { r: FRef::Name(1), op: 0, v: Opnd::Var("v".into()) }];
    push_query(out, st, &w, &q, &[("v".into(), Val::Null)], "directed-K6-null-variable-eq", false);
    let mut q = qspec(vec![sel(0, None), sel(1, None)]); q.filters = vec![Filt { r: FRef::Name(1), op: 1, v: Opnd::Var("v".into()) }];
    push_query(out, st, &w, &q, &[("v".into(), Val::Null)], "directed-K6-null-variable-ne", false);
    let mut q = qspec(vec![sel(0, None), sel(1, None)]); q.filters = vec![Filt { r: FRef::Name(1), op: 0, v: lit(Val::Null) }];
    push_query(out, st, &w, &q, &[], "directed-null-literal-ok", false);
    // a variable with a non-null value on a nullable field (row r2 holds null), every operator, by name and by alias
    for op in 0..6 {
        let mut q = qspec(vec![sel(0, None), sel(1, None)]); q.filters = vec![Filt { r: FRef::Name(1), op, v: Opnd::Var("v".into()) }];
        push_query(out, st, &w, &q, &[("v".into(), Val::Int(1))], "directed-nullable-variable", false);
        let mut q = qspec(vec![sel(0, None), sel(1, Some("kk"))]); q.filters = vec![Filt { r: FRef::Alias(1), op, v: Opnd::Var("v".into()) }];
        push_query(out, st, &w, &q, &[("v".into(), Val::Int(1))], "directed-nullable-variable-alias", false);
        let mut q = qspec(vec![sel(0, None)]); q.filters = vec![Filt { r: FRef::Name(2), op, v: Opnd::Var("v".into()) }];
        push_query(out, st, &w, &q, &[("v".into(), Val::Str("dd".into()))], "directed-nullable-variable-unselected", false);
    }
    // an order key named by the field's own name while the field is selected under an alias only
    let mut q = qspec(vec![sel(0, Some("nn")), sel(1, None)]); q.order = vec![OKey { r: FRef::Name(0), desc: true }];
    push_query(out, st, &w, &q, &[], "directed-order-by-name-of-aliased-field", false);
    push_pages(out, st, &w, &q, &[], 2, "directed-pages-by-name-of-aliased-field");
    let mut q1 = q.clone(); q1.paging = Paging::After(vec![lit(Val::Str("r3".into()))]);
    push_query(out, st, &w, &q1, &[], "directed-after-by-name-of-aliased-field", false);
    let mut q1 = q.clone(); q1.paging = Paging::Before(vec![Opnd::Var("c".into())]);
    push_query(out, st, &w, &q1, &[("c".into(), Val::Str("r3".into()))], "directed-before-by-name-of-aliased-field", false);
    // K7: first $n with n = 0
    let mut q = qspec(vec![sel(0, None)]); q.first = Opnd::Var("n".into());
    push_query(out, st, &w, &q, &[("n".into(), Val::Int(0))], "directed-K7-first-variable-zero", false);
    // K8: filter on a String field whose default contains a quote
    let mut q = qspec(vec![sel(0, None), sel(6, None)]); q.filters = vec![Filt { r: FRef::Name(6), op: 0, v: lit(Val::Str("q".into())) }];
    push_query(out, st, &w, &q, &[], "directed-K8-default-with-quote", false);
    // default-aware filters: every operator on unselected and selected (alias) default fields
    for op in 0..6 {
        for v in [0, 1, 2] {
            let mut q = qspec(vec![sel(0, None)]); q.filters = vec![Filt { r: FRef::Name(5), op, v: lit(Val::Int(v)) }];
            push_query(out, st, &w, &q, &[], "directed-default-filter", false);
            let mut q = qspec(vec![sel(0, None), sel(5, Some("ii"))]); q.filters = vec![Filt { r: FRef::Alias(1), op, v: Opnd::Var("x".into()) }];
            push_query(out, st, &w, &q, &[("x".into(), Val::Int(v))], "directed-default-filter-alias", false);
        }
    }
}

/// paging over 3 and 4 order keys: small value domains (many ties on the leading / middle keys), the whole
/// tuple unique, mixed directions; driven to exhaustion with several page sizes, and single after / before
/// queries whose cursor is (a prefix of) the key tuple of a stored row
fn dense_paging(out: &mut Buf, st: &mut Stats, rng: &mut Rng, worlds: usize) {
    for wi in 0..worlds {
        let nk = 3 + (wi % 2);
        let fields: Vec<FDef> = (0..nk).map(|i| fdef(&format!("k{}", i), FT::Int, false, None, false)).collect();
        let model = Model { ns: None, eshort: String::new(), uniq0: false, name: None, fields };
        // distinct tuples over {0,1,2}^nk, dense on the leading keys
        let mut tuples: Vec<Vec<i64>> = vec![];
        let nrows = 7 + rng.below(4) as usize;
        while tuples.len() < nrows {
            let t: Vec<i64> = (0..nk).map(|i| if i == 0 { rng.range(0, 1) } else { rng.range(0, 2) }).collect();
            if !tuples.contains(&t) { tuples.push(t); }
        }
        let plan = tuples.iter().map(|t| (false, t.iter().map(|v| Some(Val::Int(*v))).collect())).collect();
        let w = build_world(rng, model, 0, Some(plan));
        for _ in 0..3 {
            let mut q = qspec((0..nk).map(|i| sel(i, None)).collect());
            let mut keys: Vec<usize> = (0..nk).collect();
            for i in (1..nk).rev() { let j = rng.below(i as u64 + 1) as usize; keys.swap(i, j); }
            q.order = keys.iter().map(|k| OKey { r: FRef::Name(*k), desc: rng.chance(1, 2) }).collect();
            for n in [1, 2, 3] { push_pages(out, st, &w, &q, &[], n, "pages-dense"); }
            for _ in 0..4 {
                let row = &w.rows[rng.below(w.rows.len() as u64) as usize];
                let len = 1 + rng.below(nk as u64) as usize;
                let mut ps = vec![];
                let vs: Vec<Opnd> = keys.iter().take(len).enumerate().map(|(j, k)| {
                    if rng.chance(1, 2) { Opnd::Lit(row[*k].clone()) } else { ps.push((format!("c{}", j), row[*k].clone())); Opnd::Var(format!("c{}", j)) }
                }).collect();
                let mut q1 = q.clone();
                q1.paging = if rng.chance(1, 2) { Paging::After(vs) } else { Paging::Before(vs) };
                if rng.chance(1, 2) { q1.first = Opnd::Lit(Val::Int(rng.range(1, 4))); }
                push_query(out, st, &w, &q1, &ps, "query-dense", false);
            }
        }
    }
}


// ---------------------------------------------------------------- tier T2: nested entity / array references
#[derive(Clone, Debug)]
struct RefField { name: String, target: usize, array: bool, nullable: bool, short: String }
#[derive(Clone, Debug)]
struct NEntity { name: String, scalars: Model, refs: Vec<RefField> }
#[derive(Clone, Debug)]
struct NNode { vals: Vec<Val>, refs: Vec<Vec<NNode>> }
#[derive(Clone, Debug)]
struct NSub { name: String, alias: Option<String>, ref_idx: usize, nullable_here: bool, q: NQuery }
#[derive(Clone, Debug)]
struct NQuery { ent: usize, base: QSpec, subs: Vec<NSub> }

fn nmodel_text(ents: &[NEntity]) -> String {
    let mut es = vec![];
    for e in ents {
        let mut fs = vec![];
        for f in &e.scalars.fields {
            let ty = match f.ty { FT::Bool => "Boolean", FT::Int => "Integer", FT::Flt => "Float", FT::Str => "String" };
            fs.push(format!("{}: {}{}", f.name, ty, if f.nullable { " nullable" } else { "" }));
        }
        for r in &e.refs {
            let t = &ents[r.target].name;
            fs.push(format!("{}: {}{}", r.name, if r.array { format!("[{}]", t) } else { t.clone() }, if r.nullable { " nullable" } else { "" }));
        }
        es.push(format!("{} {{ {} }}", e.name, fs.join(", ")));
    }
    format!("{{ {} }}", es.join(" "))
}
fn nnode_mutation(ents: &[NEntity], ent: usize, n: &NNode) -> String {
    let e = &ents[ent];
    let mut fs = vec![];
    for (i, v) in n.vals.iter().enumerate() { if *v != Val::Null { fs.push(format!("{}: {}", e.scalars.fields[i].name, v.text())); } }
    for (ri, r) in e.refs.iter().enumerate() {
        let kids = &n.refs[ri];
        if kids.is_empty() { continue; }
        if r.array { fs.push(format!("{}: [{}]", r.name, kids.iter().map(|k| format!("{{ {} }}", nnode_mutation(ents, r.target, k))).collect::<Vec<_>>().join(", "))); }
        else { fs.push(format!("{}: {{ {} }}", r.name, nnode_mutation(ents, r.target, &kids[0]))); }
    }
    fs.join(" ")
}
fn nnode_coq(n: &NNode) -> String {
    format!("(Node {} {})", glist(&n.vals.iter().map(|v| v.coq()).collect::<Vec<_>>()),
        glist(&n.refs.iter().map(|l| glist(&l.iter().map(nnode_coq).collect::<Vec<_>>())).collect::<Vec<_>>()))
}
impl NQuery {
    fn inner_text(&self, ents: &[NEntity], nullable_names: &[String]) -> (String, String) {
        let e = &ents[self.ent];
        let (mut ps, mut fields) = self.base.parts(&e.scalars);
        if !nullable_names.is_empty() { ps.push(format!("nullable({})", nullable_names.join(", "))); }
        for sub in &self.subs {
            let nn: Vec<String> = sub.q.subs.iter().filter(|x| x.nullable_here).map(|x| x.alias.clone().unwrap_or(x.name.clone())).collect();
            let (sp, sf) = sub.q.inner_text(ents, &nn);
            fields.push(format!("{}{} {} {{ {} }}", match &sub.alias { Some(a) => format!("{}: ", a), None => String::new() }, sub.name, sp, sf));
        }
        (if ps.is_empty() { String::new() } else { format!("({})", ps.join(", ")) }, fields.join(" "))
    }
    fn text(&self, ents: &[NEntity]) -> String {
        let nn: Vec<String> = self.subs.iter().filter(|x| x.nullable_here).map(|x| x.alias.clone().unwrap_or(x.name.clone())).collect();
        let (ps, fs) = self.inner_text(ents, &nn);
        format!("query {{ {} {} {{ {} }} }}", ents[self.ent].name, ps, fs)
    }
    fn coq(&self, ents: &[NEntity]) -> String {
        let e = &ents[self.ent];
        let subs: Vec<String> = self.subs.iter().map(|s| {
            let r = &e.refs[s.ref_idx];
            format!("(Build_subinfo {} {} {} {} {}, {})", gstr(s.alias.as_ref().unwrap_or(&s.name)), s.ref_idx, gstr(&r.short), gb(r.array), gb(r.nullable || s.nullable_here), s.q.coq(ents))
        }).collect();
        format!("(Q2 {} {} {})", e.scalars.coq(), self.base.coq(), glist(&subs))
    }
    fn enc_rows(&self, ents: &[NEntity], arr: &[serde_json::Value], o: &mut Vec<i64>) {
        o.push(arr.len() as i64);
        for v in arr { self.enc_obj(ents, v, o); }
    }
    fn enc_obj(&self, ents: &[NEntity], v: &serde_json::Value, o: &mut Vec<i64>) {
        let e = &ents[self.ent];
        let obj = match v.as_object() { Some(x) => x, None => { o.push(-7); return; } };
        o.push(5); o.push((self.base.sel.len() + self.subs.len()) as i64);
        if obj.len() != self.base.sel.len() + self.subs.len() { o.push(-8); }
        for k in 0..self.base.sel.len() {
            match obj.get(&self.base.sel_name(&e.scalars, k)) { Some(x) => json_to_val(x, e.scalars.fields[self.base.sel[k].field].ty).enc(o), None => o.push(-9) }
        }
        for s in &self.subs {
            let key = s.alias.clone().unwrap_or(s.name.clone());
            let r = &e.refs[s.ref_idx];
            match obj.get(&key) {
                None => o.push(-9),
                Some(x) => if r.array {
                    match x.as_array() { Some(a) => { o.push(6); s.q.enc_rows(ents, a, o); } None => o.push(-10) }
                } else if x.is_null() { o.push(0) } else { s.q.enc_obj(ents, x, o) },
            }
        }
    }
}

struct NWorld { dm: DataModel, conn: Connection, ents: Vec<NEntity>, top: Vec<NNode> }

fn build_nworld(rng: &mut Rng) -> NWorld {
    let scal = |prefix: &str, rng: &mut Rng| -> Model {
        let mut fields = vec![fdef(&format!("{}name", prefix), FT::Str, false, None, false), fdef(&format!("{}a", prefix), FT::Int, false, None, false)];
        if rng.chance(1, 2) { fields.push(fdef(&format!("{}b", prefix), FT::Int, true, None, false)); }
        Model { ns: None, eshort: String::new(), uniq0: false, name: None, fields }
    };
    let ents = vec![
        NEntity { name: "P".into(), scalars: scal("p", rng), refs: vec![
            RefField { name: "kids".into(), target: 1, array: true, nullable: rng.chance(1, 3), short: String::new() },
            RefField { name: "one".into(), target: 1, array: false, nullable: rng.chance(1, 3), short: String::new() }] },
        NEntity { name: "C".into(), scalars: scal("c", rng), refs: vec![
            RefField { name: "toys".into(), target: 2, array: true, nullable: rng.chance(1, 3), short: String::new() },
            RefField { name: "pal".into(), target: 2, array: false, nullable: rng.chance(1, 2), short: String::new() }] },
        NEntity { name: "D".into(), scalars: scal("d", rng), refs: vec![] },
    ];
    fn gen_node(rng: &mut Rng, ents: &[NEntity], ent: usize, counter: &mut usize) -> NNode {
        let e = &ents[ent];
        *counter += 1;
        let vals = e.scalars.fields.iter().enumerate().map(|(i, f)| match i {
            0 => Val::Str(format!("{}{}", e.name.to_lowercase(), counter)),
            _ => if f.nullable && rng.chance(1, 3) { Val::Null } else { Val::Int(rng.range(0, 2)) },
        }).collect();
        let refs = e.refs.iter().map(|r| {
            let n = if r.array { match rng.below(6) { 0 => 0, 1 => 1, 2 => 2, 3 => 3, 4 => 4, _ => 2 } } else { rng.below(2) as usize };
            (0..n).map(|_| gen_node(rng, ents, r.target, counter)).collect()
        }).collect();
        NNode { vals, refs }
    }
    let mut counter = 0;
    let nparents = 4 + rng.below(3) as usize;
    let forest: Vec<NNode> = (0..nparents).map(|_| gen_node(rng, &ents, 0, &mut counter)).collect();
    nworld_from(ents, forest)
}

fn nworld_from(mut ents: Vec<NEntity>, forest: Vec<NNode>) -> NWorld {
    let mut dm = DataModel::new();
    dm.update(&nmodel_text(&ents)).unwrap_or_else(|e| panic!("nested model: {} : {}", nmodel_text(&ents), e));
    for e in ents.iter_mut() {
        e.scalars.name = Some(e.name.clone());
        let ent = dm.get_entity(&e.name).unwrap();
        e.scalars.eshort = ent.short_name.clone();
        for f in e.scalars.fields.iter_mut() { f.short = ent.get_field(&f.name).unwrap().short_name.clone(); }
        for r in e.refs.iter_mut() { r.short = ent.get_field(&r.name).unwrap().short_name.clone(); }
    }
    // Model::ename() is "P": give each level its own name through ns-less override below
    let conn = Connection::open_in_memory().unwrap();
    prepare_connection(&conn).unwrap();
    for n in &forest {
        mutate(&conn, &dm, &format!("mutate {{ P {{ {} }} }}", nnode_mutation(&ents, 0, n)), Parameters::new());
    }
    // read the forest back: rows by (mdate, rowid), children by the order of the edges (src, label, dest)
    let mut st = conn.prepare("SELECT id, _entity, _json FROM _node ORDER BY mdate, rowid").unwrap();
    let rows: Vec<(Vec<u8>, String, Option<String>)> = st.query_map([], |r| Ok((r.get(0)?, r.get(1)?, r.get(2)?))).unwrap().map(|x| x.unwrap()).collect();
    drop(st);
    let mut st = conn.prepare("SELECT src, label, dest FROM _edge ORDER BY src, label, dest").unwrap();
    let edges: Vec<(Vec<u8>, String, Vec<u8>)> = st.query_map([], |r| Ok((r.get(0)?, r.get(1)?, r.get(2)?))).unwrap().map(|x| x.unwrap()).collect();
    drop(st);
    fn read_node(ents: &[NEntity], ent: usize, id: &[u8], rows: &[(Vec<u8>, String, Option<String>)], edges: &[(Vec<u8>, String, Vec<u8>)]) -> NNode {
        let e = &ents[ent];
        let row = rows.iter().find(|r| r.0 == id).expect("row of an edge");
        let v: serde_json::Value = serde_json::from_str(row.2.as_deref().unwrap_or("{}")).unwrap();
        let obj = v.as_object().unwrap();
        let vals = e.scalars.fields.iter().map(|f| obj.get(&f.short).map(|x| json_to_val(x, f.ty)).unwrap_or(Val::Null)).collect();
        let refs = e.refs.iter().map(|r| edges.iter().filter(|ed| ed.0 == id && ed.1 == r.short).map(|ed| read_node(ents, r.target, &ed.2, rows, edges)).collect()).collect();
        NNode { vals, refs }
    }
    let mut top: Vec<NNode> = rows.iter().filter(|r| r.1 == ents[0].scalars.eshort).map(|r| read_node(&ents, 0, &r.0, &rows, &edges)).collect();
    // the order in which the engine scans the children of a row (no ORDER BY) is taken from the engine itself,
    // like the storage order of the top-level rows: a plain nested query with every reference nullable
    let plain = "query { P (nullable(kids, one)) { pname kids (nullable(toys, pal)) { cname toys { dname } pal { dname } } one (nullable(toys, pal)) { cname toys { dname } pal { dname } } } }";
    let qp = QueryParser::parse(plain, &dm).unwrap();
    let pq = PreparedQueries::build(&qp).unwrap();
    let mut sql = Query { parameters: Parameters::new(), parser: Arc::new(qp), sql_queries: Arc::new(pq) };
    let v: serde_json::Value = serde_json::from_str(&sql.read(&conn).unwrap()).unwrap();
    fn reorder(n: &mut NNode, v: &serde_json::Value, keys: &[&[(&str, &str)]], depth: usize) {
        if depth >= keys.len() { return; }
        for (ri, (rname, cname)) in keys[depth].iter().enumerate() {
            let order: Vec<String> = match v.get(*rname) {
                Some(serde_json::Value::Array(a)) => a.iter().map(|x| x.get(*cname).and_then(|s| s.as_str()).unwrap_or("").to_string()).collect(),
                Some(serde_json::Value::Object(o)) => vec![o.get(*cname).and_then(|s| s.as_str()).unwrap_or("").to_string()],
                _ => vec![],
            };
            if n.refs[ri].len() > 1 { assert_eq!(order.len(), n.refs[ri].len(), "plain nested query returns all children"); n.refs[ri].sort_by_key(|k| order.iter().position(|o| Val::Str(o.clone()) == k.vals[0]).unwrap()); }
            for k in n.refs[ri].iter_mut() {
                let name = match &k.vals[0] { Val::Str(s) => s.clone(), _ => String::new() };
                let sub = match v.get(*rname) {
                    Some(serde_json::Value::Array(a)) => a.iter().find(|x| x.get(*cname).and_then(|s| s.as_str()) == Some(&name)).cloned(),
                    Some(o @ serde_json::Value::Object(_)) => Some(o.clone()),
                    _ => None,
                };
                if let Some(sv) = sub { reorder(k, &sv, keys, depth + 1); }
            }
        }
    }
    let keys: [&[(&str, &str)]; 2] = [&[("kids", "cname"), ("one", "cname")], &[("toys", "dname"), ("pal", "dname")]];
    let arr = v.get("P").and_then(|x| x.as_array()).unwrap().clone();
    for (i, n) in top.iter_mut().enumerate() { reorder(n, &arr[i], &keys, 0); }
    NWorld { dm, conn, ents, top }
}

fn gen_nquery(rng: &mut Rng, w: &NWorld, ent: usize, depth: usize, vg: &mut VarGen) -> NQuery {
    let e = &w.ents[ent];
    let m = &e.scalars;
    let nf = m.fields.len();
    let mut sel: Vec<Sel> = vec![Sel { field: 0, alias: None }];
    for f in 1..nf { if rng.chance(2, 3) { sel.push(Sel { field: f, alias: if rng.chance(1, 4) { Some(format!("x{}{}", ent, f)) } else { None } }); } }
    let mut q = qspec(sel);
    q.shuffle = rng.next();
    // filters on the scalars of this level
    if rng.chance(if depth == 0 { 1 } else { 2 }, 4) {
        let f = 1 + rng.below(nf as u64 - 1) as usize;
        let aliased = q.sel.iter().position(|s| s.field == f && s.alias.is_some());
        let r = match aliased { Some(k) if rng.chance(1, 2) => FRef::Alias(k), _ => FRef::Name(f) };
        let v = Val::Int(rng.range(0, 2));
        let o = if rng.chance(1, 3) { vg.var(rng, FT::Int, m.fields[f].nullable, v, None) } else { Opnd::Lit(v) };
        q.filters.push(Filt { r, op: rng.below(6) as usize, v: o });
    }
    // order
    if rng.chance(2, 3) {
        let f = if rng.chance(1, 3) { 0 } else { 1 + rng.below(nf as u64 - 1) as usize };
        q.order.push(OKey { r: FRef::Name(f), desc: rng.chance(1, 2) });
        if f != 0 && rng.chance(1, 2) { q.order.push(OKey { r: FRef::Name(0), desc: rng.chance(1, 2) }); }
    }
    // first / skip
    if rng.chance(1, 2) {
        q.first = if rng.chance(1, 5) { vg.n += 1; let name = format!("n{}", vg.n); vg.params.push((name.clone(), Val::Int(rng.range(1, 3)))); Opnd::Var(name) } else { Opnd::Lit(Val::Int(rng.range(1, 3))) };
        if rng.chance(1, 2) { q.skip = Some(Opnd::Lit(Val::Int(rng.range(0, 2)))); }
    } else if rng.chance(1, 4) { q.skip = Some(Opnd::Lit(Val::Int(rng.range(1, 2)))); }
    let mut subs = vec![];
    if depth < 2 {
        for (ri, r) in e.refs.iter().enumerate() {
            if !rng.chance(if depth == 0 { 3 } else { 2 }, 4) { continue; }
            let sq = gen_nquery(rng, w, r.target, depth + 1, vg);
            subs.push(NSub { name: r.name.clone(), alias: if rng.chance(1, 5) { Some(format!("al{}{}", ent, ri)) } else { None }, ref_idx: ri,
                             nullable_here: !r.nullable && rng.chance(1, 3), q: sq });
        }
    }
    NQuery { ent, base: q, subs }
}

fn push_nested(out: &mut Buf, st: &mut Stats, w: &NWorld, q: &NQuery, ps: &[(String, Val)], kind: &str) {
    let text = q.text(&w.ents);
    let mut obs: Vec<i64> = vec![];
    let mut note = String::new();
    let mut sqltext = String::new();
    match QueryParser::parse(&text, &w.dm) {
        Err(e) => { obs.push(1); note = format!("parse: {}", e); st.parse_errors += 1; }
        Ok(qp) => {
            let pq = PreparedQueries::build(&qp).unwrap();
            sqltext = norm_ws(&pq.sql_queries[0].sql_query);
            hash_text(&sqltext, &mut obs);
            let vo: Vec<(bool, String)> = pq.sql_queries[0].var_order.iter().map(|p| parse_param_debug(&format!("{:?}", p))).collect();
            obs.push(vo.len() as i64);
            for (i, s) in &vo { obs.push(*i as i64); enc_str(s, &mut obs); }
            let mut p = Parameters::new();
            for (n, v) in ps { v.add_to(&mut p, n); }
            let mut sql = Query { parameters: p, parser: Arc::new(qp), sql_queries: Arc::new(pq) };
            match sql.read(&w.conn) {
                Err(e) => { obs.push(2); note = format!("read: {}", e); st.errors += 1; }
                Ok(s) => {
                    let v: serde_json::Value = serde_json::from_str(&s).expect("result is JSON");
                    let arr = v.get(&w.ents[q.ent].name).and_then(|x| x.as_array()).expect("result array").clone();
                    obs.push(0);
                    q.enc_rows(&w.ents, &arr, &mut obs);
                    st.nested += 1; if !arr.is_empty() { st.nested_nonempty += 1; }
                }
            }
        }
    }
    let coq = format!("CNested {} {} {}", q.coq(&w.ents), glist(&w.top.iter().map(nnode_coq).collect::<Vec<_>>()), params_coq(ps));
    out.push(Case { kind: kind.into(), coq, obs, meta: json!({"model": nmodel_text(&w.ents), "query": text, "params": format!("{:?}", ps), "sql": sqltext, "note": note}) });
}

/// directed: a non-nullable array reference with skip / first on the nested query: a parent with between 1 and
/// `skip` children must be dropped (its nested result is empty), with nullable(..) it is kept with []
fn nested_directed(out: &mut Buf, st: &mut Stats) {
    let sc = |p: &str| Model { ns: None, eshort: String::new(), uniq0: false, name: None, fields: vec![fdef(&format!("{}name", p), FT::Str, false, None, false), fdef(&format!("{}a", p), FT::Int, false, None, false)] };
    let ents = vec![
        NEntity { name: "P".into(), scalars: sc("p"), refs: vec![
            RefField { name: "kids".into(), target: 1, array: true, nullable: false, short: String::new() },
            RefField { name: "one".into(), target: 1, array: false, nullable: true, short: String::new() }] },
        NEntity { name: "C".into(), scalars: sc("c"), refs: vec![
            RefField { name: "toys".into(), target: 2, array: true, nullable: false, short: String::new() },
            RefField { name: "pal".into(), target: 2, array: false, nullable: true, short: String::new() }] },
        NEntity { name: "D".into(), scalars: sc("d"), refs: vec![] }];
    let d = |n: &str, a: i64| NNode { vals: vec![Val::Str(n.into()), Val::Int(a)], refs: vec![] };
    let c = |n: &str, a: i64, toys: Vec<NNode>| NNode { vals: vec![Val::Str(n.into()), Val::Int(a)], refs: vec![toys, vec![]] };
    let pn = |n: &str, a: i64, kids: Vec<NNode>, one: Vec<NNode>| NNode { vals: vec![Val::Str(n.into()), Val::Int(a)], refs: vec![kids, one] };
    let forest = vec![
        pn("ann", 1, vec![c("a1", 2, vec![d("t1", 0), d("t2", 1)]), c("a2", 1, vec![d("t3", 0)]), c("a3", 1, vec![])], vec![c("ao", 0, vec![])]),
        pn("bob", 2, vec![c("b1", 5, vec![d("t4", 2)])], vec![]),
        pn("cyd", 0, vec![], vec![c("co", 1, vec![d("t5", 1)])]),
        pn("dan", 1, vec![c("d1", 0, vec![]), c("d2", 3, vec![d("t6", 0), d("t7", 0), d("t8", 1)])], vec![])];
    let w = nworld_from(ents, forest);
    let leaf = |ent: usize, sel: Vec<Sel>| NQuery { ent, base: qspec(sel), subs: vec![] };
    let mk = |kq: NQuery, nullable_here: bool| NQuery { ent: 0, base: qspec(vec![sel(0, None)]), subs: vec![NSub { name: "kids".into(), alias: None, ref_idx: 0, nullable_here, q: kq }] };
    let lit = |z: i64| Opnd::Lit(Val::Int(z));
    // kids (skip 1): bob has one child -> dropped
    let mut kq = leaf(1, vec![sel(0, None)]); kq.base.skip = Some(lit(1)); kq.base.first = lit(5);
    push_nested(out, st, &w, &mk(kq.clone(), false), &[], "directed-nested-exists-skip");
    push_nested(out, st, &w, &mk(kq, true), &[], "directed-nested-nullable-skip");
    // kids (order_by(ca asc), first 1, skip 2): only ann has a third child
    let mut kq = leaf(1, vec![sel(0, None), sel(1, None)]); kq.base.order = vec![OKey { r: FRef::Name(1), desc: false }]; kq.base.first = lit(1); kq.base.skip = Some(lit(2));
    push_nested(out, st, &w, &mk(kq, false), &[], "directed-nested-exists-first-skip");
    // kids (ca >= 2) { toys (skip 1) }: two levels of EXISTS
    let mut tq = leaf(2, vec![sel(0, None)]); tq.base.skip = Some(lit(1)); tq.base.first = lit(9);
    let mut kq = leaf(1, vec![sel(0, None)]); kq.base.filters = vec![Filt { r: FRef::Name(1), op: 5, v: lit(2) }];
    kq.subs = vec![NSub { name: "toys".into(), alias: None, ref_idx: 0, nullable_here: false, q: tq }];
    push_nested(out, st, &w, &mk(kq, false), &[], "directed-nested-two-levels");
    // an entity reference: first / skip of the nested query are not used (LIMIT 1)
    let mut oq = leaf(1, vec![sel(0, None)]); oq.base.skip = Some(lit(1)); oq.base.first = lit(3);
    let q = NQuery { ent: 0, base: qspec(vec![sel(0, None)]), subs: vec![NSub { name: "one".into(), alias: Some("o".into()), ref_idx: 1, nullable_here: false, q: oq }] };
    push_nested(out, st, &w, &q, &[], "directed-nested-entity-ref");
}

fn nested_cases(out: &mut Buf, st: &mut Stats, rng: &mut Rng, worlds: usize, per_world: usize) {
    nested_directed(out, st);
    for _ in 0..worlds {
        let w = build_nworld(rng);
        for _ in 0..per_world {
            let mut vg = VarGen { params: vec![], by_type: BTreeMap::new(), n: 0 };
            let q = gen_nquery(rng, &w, 0, 0, &mut vg);
            push_nested(out, st, &w, &q, &vg.params, "nested");
        }
    }
}

// ---------------------------------------------------------------- tier T3, first slice: aggregates and json selectors
fn read_json(conn: &Connection, dm: &DataModel, text: &str) -> Result<serde_json::Value, String> {
    let qp = QueryParser::parse(text, dm).map_err(|e| format!("parse: {}", e))?;
    let pq = PreparedQueries::build(&qp).map_err(|e| format!("build: {}", e))?;
    let mut q = Query { parameters: Parameters::new(), parser: Arc::new(qp), sql_queries: Arc::new(pq) };
    let s = q.read(conn).map_err(|e| format!("read: {}", e))?;
    serde_json::from_str(&s).map_err(|e| format!("json: {}", e))
}
const AGG_FIELDS: [(&str, FT, bool); 6] = [("g", FT::Str, false), ("h", FT::Int, true), ("k", FT::Bool, false), ("w", FT::Int, true), ("x", FT::Flt, true), ("s", FT::Str, true)];
const AGG_MODEL: &str = "{ A { g: String, h: Integer nullable, k: Boolean, w: Integer nullable, x: Float nullable, s: String nullable } }";
#[derive(Clone, Debug)]
enum ACol { Field(usize, Option<String>), Count(String), Avg(String, usize), Max(String, usize), Min(String, usize), Sum(String, usize) }
impl ACol {
    fn name(&self) -> String { match self { ACol::Field(f, a) => a.clone().unwrap_or(AGG_FIELDS[*f].0.to_string()), ACol::Count(n) | ACol::Avg(n, _) | ACol::Max(n, _) | ACol::Min(n, _) | ACol::Sum(n, _) => n.clone() } }
    fn text(&self) -> String {
        match self {
            ACol::Field(f, None) => AGG_FIELDS[*f].0.to_string(), ACol::Field(f, Some(a)) => format!("{}: {}", a, AGG_FIELDS[*f].0),
            ACol::Count(n) => format!("{}: count()", n), ACol::Avg(n, f) => format!("{}: avg({})", n, AGG_FIELDS[*f].0), ACol::Max(n, f) => format!("{}: max({})", n, AGG_FIELDS[*f].0),
            ACol::Min(n, f) => format!("{}: min({})", n, AGG_FIELDS[*f].0), ACol::Sum(n, f) => format!("{}: sum({})", n, AGG_FIELDS[*f].0),
        }
    }
    fn coq(&self) -> String {
        match self {
            ACol::Field(f, _) => format!("(GField {})", f), ACol::Count(_) => "(GAgg ACount)".into(), ACol::Avg(_, f) => format!("(GAgg (AAvg {}))", f), ACol::Max(_, f) => format!("(GAgg (AMax {}))", f),
            ACol::Min(_, f) => format!("(GAgg (AMin {}))", f), ACol::Sum(_, f) => format!("(GAgg (ASum {}))", f),
        }
    }
    fn is_agg(&self) -> bool { !matches!(self, ACol::Field(..)) }
    fn enc(&self, v: &serde_json::Value, o: &mut Vec<i64>) {
        match self {
            ACol::Field(f, _) | ACol::Max(_, f) | ACol::Min(_, f) => json_to_val(v, AGG_FIELDS[*f].1).enc(o),
            ACol::Count(_) => json_to_val(v, FT::Int).enc(o),
            ACol::Sum(..) => json_to_val(v, FT::Flt).enc(o),
            ACol::Avg(..) => match v.as_f64() { Some(a) => { o.push(7); o.push((a * 1e6).round() as i64) } None => json_to_val(v, FT::Flt).enc(o) },
        }
    }
}
struct AQuery { cols: Vec<ACol>, wher: Vec<(usize, usize, Val)>, having: Vec<(usize, usize, Val)>, order: Vec<(usize, bool)>, first: i64, skip: i64, by_model_name: bool }   // by_model_name: an aliased group column is named by its field in order_by
impl AQuery {
    fn text(&self) -> String {
        let mut ps: Vec<String> = vec![];
        for (f, op, v) in &self.wher { ps.push(format!("{} {} {}", AGG_FIELDS[*f].0, OPS[*op], v.text())); }
        for (k, op, v) in &self.having { ps.push(format!("{} {} {}", self.cols[*k].name(), OPS[*op], v.text())); }
        if !self.order.is_empty() { ps.push(format!("order_by({})", self.order.iter().map(|(k, d)| format!("{} {}", match (&self.cols[*k], self.by_model_name) { (ACol::Field(f, _), true) => AGG_FIELDS[*f].0.to_string(), (c, _) => c.name() }, if *d { "desc" } else { "asc" })).collect::<Vec<_>>().join(", "))); }
        if self.first != 0 { ps.push(format!("first {}", self.first)); }
        if self.skip != 0 { ps.push(format!("skip {}", self.skip)); }
        let sel: Vec<String> = self.cols.iter().map(|c| c.text()).collect();
        format!("query {{ A {} {{ {} }} }}", if ps.is_empty() { String::new() } else { format!("({})", ps.join(", ")) }, sel.join(" "))
    }
    fn coq(&self) -> String {
        let f3 = |l: &Vec<(usize, usize, Val)>| glist(&l.iter().map(|(i, op, v)| format!("({}%nat, {}, {})", i, OPS_COQ[*op], v.coq())).collect::<Vec<_>>());
        format!("(Build_aquery {} {} {} {} {} {})", glist(&self.cols.iter().map(|c| c.coq()).collect::<Vec<_>>()), f3(&self.wher), f3(&self.having),
            glist(&self.order.iter().map(|(k, d)| format!("({}%nat, {})", k, if *d { "Desc" } else { "Asc" })).collect::<Vec<_>>()), gz(self.first), gz(self.skip))
    }
}
struct AWorld { dm: DataModel, conn: Connection, rows: Vec<Vec<Val>> }
fn agg_world(rows: Vec<Vec<Val>>) -> AWorld {
    let mut dm = DataModel::new();
    dm.update(AGG_MODEL).unwrap();
    let conn = Connection::open_in_memory().unwrap();
    prepare_connection(&conn).unwrap();
    for r in &rows {
        // every member is written, an absent value as an explicit null
        let fs: Vec<String> = r.iter().enumerate().map(|(i, v)| format!("{}: {}", AGG_FIELDS[i].0, v.text())).collect();
        mutate(&conn, &dm, &format!("mutate {{ A {{ {} }} }}", fs.join(" ")), Parameters::new());
    }
    AWorld { dm, conn, rows }
}
fn gen_agg_val(rng: &mut Rng, f: usize) -> Val {
    let (_, ty, nullable) = AGG_FIELDS[f];
    if nullable && rng.chance(1, 4) { return Val::Null; }
    match (f, ty) {
        (0, _) => Val::Str(rng.pick(&["a", "b", "ab", "B", "é"]).to_string()),
        (1, _) => Val::Int(rng.range(1, 2)),
        (_, FT::Bool) => Val::Bool(rng.chance(1, 2)),
        (_, FT::Int) => Val::Int(*rng.pick(&[-3i64, 0, 1, 2, 5, 9, 10, 11, 20, 100, 101, -10])),
        (_, FT::Flt) => Val::Flt(*rng.pick(&[-14i64, 0, 1, 6, 10, 28, 36, 40, 41, 400, -3])),
        (_, FT::Str) => Val::Str(rng.pick(&["a", "b", "ab", "B", "10", "9", "z", "a\"b", ""]).to_string()),
    }
}
fn gen_agg_query(rng: &mut Rng) -> AQuery {
    let mut cols: Vec<ACol> = vec![];
    let ngroup = *rng.pick(&[0usize, 1, 1, 1, 2, 2, 3]);
    let mut gf: Vec<usize> = vec![];
    while gf.len() < ngroup { let f = *rng.pick(&[0usize, 0, 1, 1, 2, 5, 3]); if !gf.contains(&f) { gf.push(f); } }
    for (n, f) in gf.iter().enumerate() { cols.push(ACol::Field(*f, if rng.chance(1, 4) { Some(format!("ga{}", n)) } else { None })); }
    let nagg = rng.range(1, 3) as usize;
    for n in 0..nagg {
        let name = format!("c{}", n);
        let num = *rng.pick(&[3usize, 4]);
        let any = *rng.pick(&[3usize, 3, 4, 4, 5, 0]);
        cols.push(match rng.below(7) { 0 | 1 => ACol::Count(name), 2 => ACol::Avg(name, num), 3 => ACol::Sum(name, num), 4 => ACol::Max(name, any), 5 => ACol::Min(name, any), _ => ACol::Avg(name, num) });
    }
    // the selection in any order
    for i in (1..cols.len()).rev() { let j = rng.below(i as u64 + 1) as usize; cols.swap(i, j); }
    let mut wher = vec![];
    for _ in 0..*rng.pick(&[0usize, 0, 1, 1, 2]) {
        let f = rng.below(6) as usize;
        let v = if AGG_FIELDS[f].2 && rng.chance(1, 5) { Val::Null } else { let mut v = gen_agg_val(rng, f); while v == Val::Null { v = gen_agg_val(rng, f); } v };
        let op = if v == Val::Null || AGG_FIELDS[f].1 == FT::Bool { rng.below(2) as usize } else { rng.below(6) as usize };
        wher.push((f, op, v));
    }
    let mut having = vec![];
    let aggs: Vec<usize> = (0..cols.len()).filter(|k| cols[*k].is_agg()).collect();
    for _ in 0..*rng.pick(&[0usize, 0, 1, 1, 2]) {
        let k = *rng.pick(&aggs);
        // every aggregate column is typed Float by the parser: a having filter takes a number, whatever the field
        let v = match &cols[k] {
            ACol::Count(_) => Val::Int(rng.range(0, 3)),
            _ => if rng.chance(1, 2) { Val::Int(*rng.pick(&[0i64, 2, 9, 10, 20, 100])) } else { Val::Flt(*rng.pick(&[0i64, 4, 6, 10, 28, 40, 41, 36])) },
        };
        having.push((k, rng.below(6) as usize, v));
    }
    let mut order = vec![];
    if rng.chance(2, 3) {
        // total on the groups: every group column is a key; aggregates may come before, between or after them
        let mut keys: Vec<usize> = (0..cols.len()).filter(|k| !cols[*k].is_agg() || rng.chance(1, 2)).collect();
        for i in (1..keys.len()).rev() { let j = rng.below(i as u64 + 1) as usize; keys.swap(i, j); }
        order = keys.into_iter().map(|k| (k, rng.chance(1, 2))).collect();
    }
    let (first, skip) = if !order.is_empty() && rng.chance(1, 2) { (rng.range(0, 3), rng.range(0, 2)) } else { (0, 0) };
    AQuery { cols, wher, having, order, first, skip, by_model_name: rng.chance(1, 2) }
}
fn push_agg(out: &mut Buf, w: &AWorld, q: &AQuery, kind: &str) {
    let text = q.text();
    let (obs, note) = match read_json(&w.conn, &w.dm, &text) {
        Err(e) => (vec![2], e),
        Ok(v) => {
            let arr = v.get("A").and_then(|x| x.as_array()).cloned().unwrap_or_default();
            let mut rows: Vec<Vec<i64>> = arr.iter().map(|o| {
                let mut r = vec![q.cols.len() as i64];
                for c in &q.cols { match o.get(&c.name()) { Some(x) => c.enc(x, &mut r), None => { r.push(4); enc_str("<<missing key>>", &mut r) } } }
                r
            }).collect();
            if q.order.is_empty() { rows.sort(); }
            let mut ob = vec![0, rows.len() as i64];
            for r in rows { ob.extend(r); }
            (ob, v.to_string())
        }
    };
    out.push(Case { kind: kind.into(), coq: format!("CAgg {} {}", rows_coq(&w.rows), q.coq()), obs, meta: json!({"query": text, "answer": note, "rows": w.rows.len()}) });
}
fn agg_cases(out: &mut Buf, rng: &mut Rng, worlds: usize, per_world: usize) {
    let i = |z: i64| Val::Int(z); let s = |x: &str| Val::Str(x.to_string());
    // directed: the two open classes and their neighbours
    let w = agg_world(vec![
        vec![s("a"), i(1), Val::Bool(true), i(9), Val::Flt(6), Val::Null], vec![s("a"), i(1), Val::Bool(false), i(10), Val::Flt(10), s("b")],
        vec![s("a"), Val::Null, Val::Bool(true), i(100), Val::Null, s("a")], vec![s("b"), i(2), Val::Bool(true), Val::Null, Val::Flt(1), Val::Null],
        vec![s("b"), i(2), Val::Bool(true), Val::Null, Val::Null, Val::Null], vec![s("c"), Val::Null, Val::Bool(false), i(-3), Val::Flt(28), s("z")]]);
    let q0 = |cols: Vec<ACol>| AQuery { cols, wher: vec![], having: vec![], order: vec![(0, false)], first: 0, skip: 0, by_model_name: false };
    let n = |x: &str| x.to_string();
    push_agg(out, &w, &q0(vec![ACol::Field(0, None), ACol::Max(n("mx"), 3), ACol::Min(n("mn"), 3)]), "directed-agg-minmax-text-order");
    push_agg(out, &w, &q0(vec![ACol::Field(0, None), ACol::Avg(n("a"), 3)]), "directed-agg-avg-counts-null");
    push_agg(out, &w, &q0(vec![ACol::Field(0, None), ACol::Count(n("c")), ACol::Sum(n("s"), 3), ACol::Sum(n("sx"), 4)]), "directed-agg-count-sum");
    push_agg(out, &w, &AQuery { cols: vec![ACol::Count(n("c")), ACol::Sum(n("s"), 3), ACol::Avg(n("a"), 4), ACol::Max(n("m"), 5)], wher: vec![(0, 0, s("zz"))], having: vec![], order: vec![], first: 0, skip: 0, by_model_name: false }, "directed-agg-no-row");
    push_agg(out, &w, &AQuery { cols: vec![ACol::Field(0, None), ACol::Count(n("c"))], wher: vec![(0, 0, s("zz"))], having: vec![], order: vec![], first: 0, skip: 0, by_model_name: false }, "directed-agg-no-group");
    push_agg(out, &w, &AQuery { cols: vec![ACol::Field(0, None), ACol::Count(n("c"))], wher: vec![], having: vec![(1, 4, i(1))], order: vec![(1, true), (0, true)], first: 1, skip: 1, by_model_name: false }, "directed-agg-having-order-limit");
    push_agg(out, &w, &AQuery { cols: vec![ACol::Field(1, Some(n("hh"))), ACol::Field(2, None), ACol::Count(n("c")), ACol::Max(n("m"), 0)], wher: vec![(3, 1, Val::Null)], having: vec![], order: vec![], first: 0, skip: 0, by_model_name: false }, "directed-agg-null-group");
    push_agg(out, &w, &AQuery { cols: vec![ACol::Field(0, Some(n("gg"))), ACol::Count(n("c"))], wher: vec![], having: vec![], order: vec![(0, true)], first: 2, skip: 0, by_model_name: true }, "directed-agg-order-by-name-of-aliased-group");
    for _ in 0..worlds {
        let mut r = rng.fork();
        let nrows = r.below(11) as usize;
        let rows: Vec<Vec<Val>> = (0..nrows).map(|_| (0..6).map(|f| gen_agg_val(&mut r, f)).collect()).collect();
        let w = agg_world(rows);
        for _ in 0..per_world { let q = gen_agg_query(&mut r); push_agg(out, &w, &q, "agg"); }
    }
}

// json selectors
#[derive(Clone, Debug)]
enum PStep { Key(String), KeyIdx(String, usize) }
#[derive(Clone, Debug)]
enum JSel { Path(Vec<PStep>), Index(usize) }
impl JSel {
    fn text(&self) -> String {
        match self {
            JSel::Index(i) => format!("j->{}", i),
            JSel::Path(p) => format!("j->${}", p.iter().map(|s| match s { PStep::Key(k) => format!(".{}", k), PStep::KeyIdx(k, i) => format!(".{}[{}]", k, i) }).collect::<String>()),
        }
    }
    fn coq(&self) -> String {
        match self {
            JSel::Index(i) => format!("(SIndex {})", i),
            JSel::Path(p) => format!("(SPath {})", glist(&p.iter().map(|s| match s { PStep::Key(k) => format!("(PKey {})", gstr(k)), PStep::KeyIdx(k, i) => format!("(PKeyIdx {} {})", gstr(k), i) }).collect::<Vec<_>>())),
        }
    }
    fn get<'a>(&self, d: &'a serde_json::Value) -> Option<&'a serde_json::Value> {
        match self {
            JSel::Index(i) => d.as_array().and_then(|a| a.get(*i)),
            JSel::Path(p) => { let mut cur = d; for s in p { match s { PStep::Key(k) => cur = cur.as_object()?.get(k)?, PStep::KeyIdx(k, i) => cur = cur.as_object()?.get(k)?.as_array()?.get(*i)? } } Some(cur) }
        }
    }
}
fn doc_coq(v: &serde_json::Value) -> String {
    match v {
        serde_json::Value::Null => "DNull".into(), serde_json::Value::Bool(b) => format!("(DBool {})", gb(*b)), serde_json::Value::Number(n) => format!("(DInt {})", gz(n.as_i64().unwrap())),
        serde_json::Value::String(s) => format!("(DStr {})", gstr(s)), serde_json::Value::Array(a) => format!("(DArr {})", glist(&a.iter().map(doc_coq).collect::<Vec<_>>())),
        serde_json::Value::Object(m) => format!("(DObj {})", glist(&m.iter().map(|(k, v)| format!("({}, {})", gstr(k), doc_coq(v))).collect::<Vec<_>>())),
    }
}
fn enc_doc(v: &serde_json::Value, o: &mut Vec<i64>) {
    match v {
        serde_json::Value::Null => o.push(0), serde_json::Value::Bool(b) => { o.push(1); o.push(*b as i64) }
        serde_json::Value::Number(n) => match n.as_i64() { Some(z) => { o.push(2); o.push(z) } None => { o.push(3); o.push((n.as_f64().unwrap() * 4.0) as i64) } },
        serde_json::Value::String(s) => { o.push(4); enc_str(s, o) }
        serde_json::Value::Array(a) => { o.push(6); o.push(a.len() as i64); for x in a { enc_doc(x, o) } }
        serde_json::Value::Object(m) => {
            let mut kv: Vec<(&String, &serde_json::Value)> = m.iter().collect();
            kv.sort_by(|a, b| a.0.chars().map(|c| c as u32).collect::<Vec<_>>().cmp(&b.0.chars().map(|c| c as u32).collect::<Vec<_>>()));
            o.push(5); o.push(kv.len() as i64); for (k, x) in kv { enc_str(k, o); enc_doc(x, o) }
        }
    }
}
fn gen_scalar_doc(rng: &mut Rng) -> serde_json::Value {
    match rng.below(6) { 0 => json!(null), 1 => json!(rng.chance(1, 2)), 2 | 3 => json!(rng.range(-2, 12)), _ => json!(*rng.pick(&["a", "b", "10", "", "é", "a\"b", "true"])) }
}
fn gen_doc(rng: &mut Rng, depth: usize) -> serde_json::Value {
    if depth == 0 { return gen_scalar_doc(rng); }
    match rng.below(7) {
        0 => gen_scalar_doc(rng),
        1 | 2 => serde_json::Value::Array((0..rng.below(4)).map(|_| gen_doc(rng, depth - 1)).collect()),
        _ => { let mut m = serde_json::Map::new(); for k in ["a", "b", "c", "z"] { if rng.chance(3, 5) { m.insert(k.to_string(), gen_doc(rng, depth - 1)); } } serde_json::Value::Object(m) }
    }
}
fn gen_jsel(rng: &mut Rng) -> JSel {
    if rng.chance(1, 5) { return JSel::Index(rng.below(3) as usize); }
    let n = rng.below(4) as usize;
    JSel::Path((0..n).map(|_| { let k = rng.pick(&["a", "b", "c", "z"]).to_string(); if rng.chance(1, 4) { PStep::KeyIdx(k, rng.below(3) as usize) } else { PStep::Key(k) } }).collect())
}
fn jsel_cases(out: &mut Buf, rng: &mut Rng, worlds: usize, per_world: usize) {
    for wn in 0..worlds {
        let mut r = rng.fork();
        let mut dm = DataModel::new();
        dm.update("{ J { g: String, j: Json nullable } }").unwrap();
        let conn = Connection::open_in_memory().unwrap();
        prepare_connection(&conn).unwrap();
        let n = 1 + r.below(7) as usize;
        let mut docs: Vec<Option<serde_json::Value>> = (0..n).map(|_| if r.chance(1, 8) { None } else { Some(gen_doc(&mut r, 3)) }).collect();
        if wn == 0 { docs = vec![Some(json!({"a": 1, "b": [1, {"z": "s"}], "c": {"z": true, "a": null}})), Some(json!([5, "x", {"a": 2}])), None, Some(json!({"a": "1", "c": {"z": 1}})), Some(json!("top")), Some(json!({"a": null}))]; }
        for (k, d) in docs.iter().enumerate() {
            let mut p = Parameters::new();
            match d { Some(v) => p.add("j", v.to_string()).unwrap(), None => p.add("j", Option::<String>::None).unwrap() }
            p.add("g", format!("r{:02}", k)).unwrap();
            mutate(&conn, &dm, "mutate { J { g: $g j: $j } }", p);
        }
        for qn in 0..per_world {
            let mut sels: Vec<JSel> = (0..r.range(1, 3)).map(|_| gen_jsel(&mut r)).collect();
            if wn == 0 && qn == 0 { sels = vec![JSel::Path(vec![]), JSel::Path(vec![PStep::Key("a".into())]), JSel::Path(vec![PStep::KeyIdx("b".into(), 1), PStep::Key("z".into())]), JSel::Index(2), JSel::Path(vec![PStep::Key("c".into()), PStep::Key("z".into())])]; }
            let mut fs: Vec<(JSel, usize, Val)> = vec![];
            for _ in 0..*r.pick(&[0usize, 1, 1, 2]) {
                let sl = gen_jsel(&mut r);
                // a filter only on a selector that never selects an array or an object in this table
                if docs.iter().any(|d| d.as_ref().and_then(|d| sl.get(d)).map(|x| x.is_array() || x.is_object()).unwrap_or(false)) { continue; }
                let v = match r.below(6) { 0 => Val::Null, 1 => Val::Bool(r.chance(1, 2)), 2 | 3 => Val::Int(r.range(-1, 11)), 4 => Val::Flt(r.range(-2, 8)), _ => Val::Str(r.pick(&["a", "b", "10", "", "true", "1"]).to_string()) };
                let op = if v == Val::Null { r.below(2) as usize } else { r.below(6) as usize };
                fs.push((sl, op, v));
            }
            // the order key is the field g, selected under its name or under an alias only
            let (desc, galias) = (r.chance(1, 2), r.chance(1, 2));
            let mut ps: Vec<String> = vec![format!("order_by(g {})", if desc { "desc" } else { "asc" })];
            for (sl, op, v) in &fs { ps.push(format!("{} {} {}", sl.text(), OPS[*op], v.text())); }
            let text = format!("query {{ J ({}) {{ {} {} }} }}", ps.join(", "), if galias { "gg: g" } else { "g" }, sels.iter().enumerate().map(|(k, s)| format!("s{}: {}", k, s.text())).collect::<Vec<_>>().join(" "));
            let (obs, note) = match read_json(&conn, &dm, &text) {
                Err(e) => (vec![2], e),
                Ok(v) => {
                    let arr = v.get("J").and_then(|x| x.as_array()).cloned().unwrap_or_default();
                    let mut ob = vec![0, arr.len() as i64];
                    for o in &arr { ob.push(sels.len() as i64); for k in 0..sels.len() { match o.get(&format!("s{}", k)) { Some(x) => enc_doc(x, &mut ob), None => { ob.push(4); enc_str("<<missing key>>", &mut ob) } } } }
                    (ob, v.to_string())
                }
            };
            let ordered: Vec<&Option<serde_json::Value>> = if desc { docs.iter().rev().collect() } else { docs.iter().collect() };
            let docs_coq = glist(&ordered.iter().map(|d| gopt(&d.as_ref().map(doc_coq))).collect::<Vec<_>>());
            let fs_coq = glist(&fs.iter().map(|(sl, op, v)| format!("({}, {}, {})", sl.coq(), OPS_COQ[*op], v.coq())).collect::<Vec<_>>());
            out.push(Case { kind: if wn == 0 && qn == 0 { "directed-jsel".into() } else { "jsel".into() }, coq: format!("CJsel {} {} {}", docs_coq, glist(&sels.iter().map(|s| s.coq()).collect::<Vec<_>>()), fs_coq), obs,
                meta: json!({"query": text, "answer": note}) });
        }
    }
}

fn main() {
    let mut rng = Rng::from_env();
    let mut real_out = Out::create();
    let mut out = Buf(vec![]);
    let mut st = Stats::default();
    directed(&mut out, &mut st, &mut rng);
    let worlds = scale(60, 900);
    let per_world_q = 18;
    let per_world_p = 5;
    for _ in 0..worlds {
        let mut r = rng.fork();
        let model = gen_model(&mut r);
        let nrows = 3 + r.below(7) as usize;
        let w = build_world(&mut r, model, nrows, None);
        for _ in 0..per_world_q { let (q, ps) = gen_query(&mut r, &w, false); push_query(&mut out, &mut st, &w, &q, &ps, "query", false); }
        for _ in 0..per_world_p { let (q, ps) = gen_query(&mut r, &w, true); if q.order.is_empty() { continue; } let n = r.range(1, 3); push_pages(&mut out, &mut st, &w, &q, &ps, n, "pages"); }
    }
    dense_paging(&mut out, &mut st, &mut rng, scale(8, 120));
    nested_cases(&mut out, &mut st, &mut rng, scale(30, 450), 10);
    agg_cases(&mut out, &mut rng, scale(25, 400), 8);
    jsel_cases(&mut out, &mut rng, scale(20, 300), 6);
    eprintln!("c05: {}", st.json());
    out.0[0].meta["generator"] = st.json();
    for c in out.0 { real_out.push(c); }
    real_out.finish();
}
