//! C02 correspondence, end to end: the harness plays the remote peer of a real GraphDatabaseService.
//! Room definitions are injected through the real loader; rows, references and tombstones are built
//! and really signed by harness-held keys, then pushed through the entry points the synchronisation
//! code uses (filter_existing_node -> nodes_check -> add_nodes, edges_check -> add_edges,
//! node_log_check -> delete_nodes, edge_log_check -> delete_edges).  After every call the four tables
//! are read back.  Observation = call results + table contents (rows named by their case tag).
#[path = "../c02_rig.rs"]
mod rig;
use discret::verif_hooks::database::edge::{Edge, EdgeDeletionEntry};
use discret::verif_hooks::database::node::{Node, NodeDeletionEntry, NodeIdentifier};
use discret::verif_hooks::database::room::{RightType, Room};
use discret::verif_hooks::database::Error as DbError;
use discret::verif_hooks::signature_verification_service::SignatureVerificationService as Sig;
use rig::*;
use serde_json::json;
use std::collections::{HashMap, HashSet};
use vharness::common::*;

#[derive(Clone)]
struct NodeIt { tag: u64, id: u64, room: Option<u64>, ent: Option<u64>, mdate: i64, author: u64, sig_ok: bool, too_big: bool, node: Node }
#[derive(Clone)]
struct EdgeIt { tag: u64, src: u64, ent: Option<u64>, label: u64, dest: u64, cdate: i64, author: u64, sig_ok: bool, edge: Edge }
struct NDelIt { tag: u64, room: u64, id: u64, ent: Option<u64>, mdate: i64, date: i64, author: u64, sig_ok: bool, entry: NodeDeletionEntry }
struct EDelIt { tag: u64, room: u64, src: u64, ent: Option<u64>, label: u64, dest: u64, cdate: i64, date: i64, author: u64, sig_ok: bool, entry: EdgeDeletionEntry }
enum Step { Nodes(u64, Vec<NodeIt>), Edges(u64, Vec<EdgeIt>), NDels(Vec<NDelIt>), EDels(Vec<EDelIt>) }

struct Ctx<'a> { case: u64, rig: &'a Rig, tags: HashMap<Vec<u8>, u64>, next: u64 }
#[derive(Clone, Copy, PartialEq)]
enum Tamper { No, Sig, Field }

impl<'a> Ctx<'a> {
    fn tag(&mut self, sig: &[u8]) -> u64 {
        if let Some(t) = self.tags.get(sig) { return *t; }
        self.next += 1;
        self.tags.insert(sig.to_vec(), self.next);
        self.next
    }
    fn short(&self, ent: Option<u64>) -> String { match ent { Some(e) => self.rig.dm.short(e), None => UNKNOWN_ENT.to_string() } }

    /// a row whose field is changed after signing keeps its signature bytes: its signed content gets a
    /// date no other row of the case has, so that a signature (= tag) never names two different rows
    fn nonce(&self, tamper: Tamper) -> i64 { if tamper == Tamper::Field { 100_003 * (self.next as i64 + 1) } else { 0 } }
    fn node(&mut self, id: u64, room: Option<u64>, ent: Option<u64>, json: Option<String>, mdate: i64, author: u64, tamper: Tamper) -> NodeIt {
        let mdate = mdate + self.nonce(tamper);
        let mut node = Node { id: cuid(self.case, id), room_id: room.map(|r| cuid(self.case, r)), cdate: mdate - 7, mdate,
            _entity: self.short(ent), _json: json, _binary: None, verifying_key: vec![], _signature: vec![], _local_id: None };
        node.sign(self.rig.keys.sk(author)).unwrap();
        let mut mdate = mdate;
        match tamper {
            Tamper::No => {}
            Tamper::Sig => { let l = node._signature.len(); node._signature[l - 1] ^= 1; }
            Tamper::Field => { node.mdate += 3; mdate += 3; }
        }
        let too_big = bincode::serialized_size(&node).unwrap() > MAX_NODE_KB * 1024;
        let tag = self.tag(&node._signature.clone());
        NodeIt { tag, id, room, ent, mdate, author, sig_ok: node.verify().is_ok(), too_big, node }
    }
    fn edge(&mut self, src: u64, ent: Option<u64>, label: u64, dest: u64, cdate: i64, author: u64, tamper: Tamper) -> EdgeIt {
        let cdate = cdate + self.nonce(tamper);
        let mut edge = Edge { src: cuid(self.case, src), src_entity: self.short(ent), label: format!("{}", 40 + label), dest: cuid(self.case, dest), cdate, ..Default::default() };
        edge.sign(self.rig.keys.sk(author)).unwrap();
        let mut cdate = cdate;
        match tamper {
            Tamper::No => {}
            Tamper::Sig => { let l = edge.signature.len(); edge.signature[l - 1] ^= 1; }
            Tamper::Field => { edge.cdate += 3; cdate += 3; }
        }
        let tag = self.tag(&edge.signature.clone());
        EdgeIt { tag, src, ent, label, dest, cdate, author, sig_ok: edge.verify().is_ok(), edge }
    }
    fn ndel(&mut self, room: u64, id: u64, ent: Option<u64>, mdate: i64, date: i64, author: u64, tamper: Tamper) -> NDelIt {
        let date = date + self.nonce(tamper);
        let n = Node { id: cuid(self.case, id), mdate, _entity: self.short(ent), ..Default::default() };
        let mut entry = NodeDeletionEntry::build(cuid(self.case, room), &n, date, self.rig.keys.sk(author));
        let mut date = date;
        match tamper {
            Tamper::No => {}
            Tamper::Sig => { let l = entry.signature.len(); entry.signature[l - 1] ^= 1; }
            Tamper::Field => { entry.deletion_date += 3; date += 3; }
        }
        let tag = self.tag(&entry.signature.clone());
        NDelIt { tag, room, id, ent, mdate, date, author, sig_ok: entry.verify().is_ok(), entry }
    }
    fn edel(&mut self, room: u64, e: &EdgeIt, date: i64, author: u64, tamper: Tamper) -> EDelIt {
        self.edel_c(room, e, e.cdate, date, author, tamper)
    }
    /// a deletion record for the reference `e` that names another creation date than `e` carries
    fn edel_c(&mut self, room: u64, e0: &EdgeIt, cdate: i64, date: i64, author: u64, tamper: Tamper) -> EDelIt {
        let mut e = e0.clone();
        e.cdate = cdate;
        e.edge.cdate = cdate;
        let e = &e;
        let date = date + self.nonce(tamper);
        let mut entry = EdgeDeletionEntry::build(cuid(self.case, room), &e.edge, date, self.rig.keys.sk(author));
        let mut date = date;
        match tamper {
            Tamper::No => {}
            Tamper::Sig => { let l = entry.signature.len(); entry.signature[l - 1] ^= 1; }
            Tamper::Field => { entry.deletion_date += 3; date += 3; }
        }
        let tag = self.tag(&entry.signature.clone());
        EDelIt { tag, room, src: e.src, ent: e.ent, label: e.label, dest: e.dest, cdate: e.cdate, date, author, sig_ok: entry.verify().is_ok(), entry }
    }
}

struct Scn { defs: Vec<(u64, Vec<Ev>)>, pre_nodes: Vec<NodeIt>, pre_edges: Vec<EdgeIt>, steps: Vec<Step>, what: String }

// ------------------------------------------------------------------ Gallina printing
fn oent(e: Option<u64>) -> String { gon(e) }
fn node_coq(n: &NodeIt, rank: &HashMap<Vec<u8>, u64>) -> String {
    format!("{{| n_tag := {}; n_id := {}; n_room := {}; n_ent := {}; n_json := {}; n_mdate := {}; n_author := {}; n_sig := {}; n_sig_ok := {}; n_too_big := {} |}}",
        gn(n.tag), gn(n.id), gon(n.room), oent(n.ent), json_coq(&n.node._json), gz(n.mdate), gn(n.author), gn(rank[&n.node._signature]), gb(n.sig_ok), gb(n.too_big))
}
fn edge_coq(e: &EdgeIt) -> String {
    format!("{{| e_tag := {}; e_src := {}; e_ent := {}; e_label := {}; e_dest := {}; e_cdate := {}; e_author := {}; e_sig_ok := {} |}}",
        gn(e.tag), gn(e.src), oent(e.ent), gn(e.label), gn(e.dest), gz(e.cdate), gn(e.author), gb(e.sig_ok))
}
fn ndel_coq(d: &NDelIt) -> String {
    format!("{{| nd_tag := {}; nd_room := {}; nd_id := {}; nd_ent := {}; nd_mdate := {}; nd_date := {}; nd_author := {}; nd_sig_ok := {} |}}",
        gn(d.tag), gn(d.room), gn(d.id), oent(d.ent), gz(d.mdate), gz(d.date), gn(d.author), gb(d.sig_ok))
}
fn edel_coq(d: &EDelIt) -> String {
    format!("{{| ed_tag := {}; ed_room := {}; ed_src := {}; ed_ent := {}; ed_label := {}; ed_dest := {}; ed_cdate := {}; ed_date := {}; ed_author := {}; ed_sig_ok := {} |}}",
        gn(d.tag), gn(d.room), gn(d.src), oent(d.ent), gn(d.label), gn(d.dest), gz(d.cdate), gz(d.date), gn(d.author), gb(d.sig_ok))
}
fn scn_coq(s: &Scn, dm: &Dm) -> String {
    let mut sigs: Vec<Vec<u8>> = s.pre_nodes.iter().map(|n| n.node._signature.clone()).collect();
    for st in &s.steps { if let Step::Nodes(_, b) = st { sigs.extend(b.iter().map(|n| n.node._signature.clone())); } }
    sigs.sort();
    sigs.dedup();
    let rank: HashMap<Vec<u8>, u64> = sigs.into_iter().enumerate().map(|(i, s)| (s, i as u64 + 1)).collect();
    let steps: Vec<String> = s.steps.iter().map(|st| match st {
        Step::Nodes(r, b) => format!("SNodes {} {}", gn(*r), glist(&b.iter().map(|n| node_coq(n, &rank)).collect::<Vec<_>>())),
        Step::Edges(r, b) => format!("SEdges {} {}", gn(*r), glist(&b.iter().map(edge_coq).collect::<Vec<_>>())),
        Step::NDels(b) => format!("SNDels {}", glist(&b.iter().map(ndel_coq).collect::<Vec<_>>())),
        Step::EDels(b) => format!("SEDels {}", glist(&b.iter().map(edel_coq).collect::<Vec<_>>())),
    }).collect();
    format!("CIngest {} {} {{| s_nodes := {}; s_edges := {}; s_ndels := []; s_edels := [] |}} {}",
        defs_coq(&s.defs), dm.coq(),
        glist(&s.pre_nodes.iter().map(|n| node_coq(n, &rank)).collect::<Vec<_>>()),
        glist(&s.pre_edges.iter().map(edge_coq).collect::<Vec<_>>()), glist(&steps))
}

// ------------------------------------------------------------------ running a scenario on the real instance
fn dump_obs(d: &RawDump, tags: &HashMap<Vec<u8>, u64>, obs: &mut Vec<i64>) -> [usize; 4] {
    let mut sizes = [0usize; 4];
    for (i, t) in [&d.nodes, &d.edges, &d.ndels, &d.edels].iter().enumerate() {
        let mut v: Vec<i64> = t.iter().map(|s| tags.get(s).map(|x| *x as i64).unwrap_or(-1)).collect();
        v.sort();
        sizes[i] = v.len();
        obs.push(v.len() as i64);
        obs.extend(v);
    }
    sizes
}
fn err_code(e: &DbError) -> i64 { match e { DbError::UnknownRoom(_) => 2, _ => 90 } }

struct RunStats { stored: [i64; 4], rejected: usize, failed_calls: usize }

async fn run_scn(rig: &Rig, case: u64, s: &Scn, tags: &HashMap<Vec<u8>, u64>) -> (Vec<i64>, RunStats) {
    rig.load_rooms(case, &s.defs).await;
    for n in &s.pre_nodes { rig.write_raw(Box::new(clone_node(&n.node))).await; }
    for e in &s.pre_edges { rig.write_raw(Box::new(EdgeW(e.edge.clone()))).await; }
    let mut obs = vec![];
    let first = dump_obs(&rig.raw_dump(case).await, tags, &mut obs);
    let mut stats = RunStats { stored: [0; 4], rejected: 0, failed_calls: 0 };
    let mut last = first;
    for st in &s.steps {
        match st {
            Step::Nodes(r, batch) => {
                let set: HashSet<NodeIdentifier> = batch.iter().map(|n| NodeIdentifier { id: n.node.id, mdate: n.node.mdate, signature: n.node._signature.clone() }).collect();
                let mut ntis = rig.db.filter_existing_node(set).await.unwrap();
                // the remote peer chooses the order of the rows of its answer (synchronise_day verifies and inserts
                // them in that order); filter_existing_node returns them in hash order.  For the large directed
                // batches the position of a row in the answer matters: the answer follows the batch order
                if batch.len() >= LARGE_BATCH { ntis.sort_by_key(|nti| batch.iter().position(|n| n.node.id == nti.id).unwrap()); }
                let mut reply = vec![];
                for nti in &mut ntis {
                    let it = batch.iter().find(|n| n.node.id == nti.id).unwrap();
                    let mut node = clone_node(&it.node);
                    node._local_id = nti.old_local_id;
                    reply.push(node.clone());
                    nti.node = Some(node);
                }
                if Sig::nodes_check(reply).is_err() { obs.push(1); stats.failed_calls += 1; }
                else {
                    match rig.db.add_nodes(cuid(case, *r), ntis).await {
                        Ok(rej) => { let mut v: Vec<i64> = rej.iter().map(|u| uid_index(u)).collect(); v.sort(); stats.rejected += v.len(); obs.push(0); obs.push(v.len() as i64); obs.extend(v); }
                        Err(e) => { obs.push(err_code(&e)); stats.failed_calls += 1; }
                    }
                }
            }
            Step::Edges(r, batch) => {
                let edges: Vec<Edge> = batch.iter().map(|e| e.edge.clone()).collect();
                if Sig::edges_check(edges.clone()).is_err() { obs.push(1); stats.failed_calls += 1; }
                else {
                    match rig.db.add_edges(cuid(case, *r), edges).await {
                        Ok(rej) => { let mut v: Vec<i64> = rej.iter().map(|u| uid_index(u)).collect(); v.sort(); stats.rejected += v.len(); obs.push(0); obs.push(v.len() as i64); obs.extend(v); }
                        Err(e) => { obs.push(err_code(&e)); stats.failed_calls += 1; }
                    }
                }
            }
            Step::NDels(batch) => {
                let entries: Vec<NodeDeletionEntry> = batch.iter().map(|d| clone_ndel(&d.entry)).collect();
                if Sig::node_log_check(batch.iter().map(|d| clone_ndel(&d.entry)).collect()).is_err() { obs.push(1); stats.failed_calls += 1; }
                else { match rig.db.delete_nodes(entries).await { Ok(_) => obs.push(0), Err(e) => { obs.push(err_code(&e)); stats.failed_calls += 1; } } }
            }
            Step::EDels(batch) => {
                let entries: Vec<EdgeDeletionEntry> = batch.iter().map(|d| clone_edel(&d.entry)).collect();
                if Sig::edge_log_check(batch.iter().map(|d| clone_edel(&d.entry)).collect()).is_err() { obs.push(1); stats.failed_calls += 1; }
                else { match rig.db.delete_edges(entries).await { Ok(_) => obs.push(0), Err(e) => { obs.push(err_code(&e)); stats.failed_calls += 1; } } }
            }
        }
        last = dump_obs(&rig.raw_dump(case).await, tags, &mut obs);
    }
    for i in 0..4 { stats.stored[i] = last[i] as i64 - first[i] as i64; }
    (obs, stats)
}

// ------------------------------------------------------------------ scenarios
const D0: i64 = BASE - 30 * DAY;
/// answers of at least this number of rows are replayed in the order of the batch
const LARGE_BATCH: usize = 64;
fn good_json(dm: &Dm, ent: Option<u64>, v: &str) -> Option<String> {
    let e = ent.unwrap_or(1);
    Some(format!("{{\"{}\":\"{}\"}}", dm.field(e, "name").short, v))
}
/// a room where key `k` is a member of group 1 since D0 with the given right on entity e (0 = all)
fn simple_room(members: &[(u64, u64, bool, bool)]) -> Vec<Ev> {
    // (key, entity, self, all): one group per member so that rights do not mix
    let mut evs = vec![];
    for (i, (k, e, s, a)) in members.iter().enumerate() {
        let g = i as u64 + 1;
        evs.push(Ev::Group(g));
        evs.push(Ev::User(g, *k, D0, true));
        evs.push(Ev::Right(g, *e, D0, *s, *a));
    }
    evs
}

fn directed(ctx: &mut Ctx, which: usize) -> Option<Scn> {
    let rig: &Rig = ctx.rig;
    let dm = &rig.dm;
    let gj = |e: u64, v: &str| good_json(dm, Some(e), v);
    let d = BASE;
    Some(match which {
        // repaired by a9c9d9e (was class 1, add side): key 2 may write E1 rows in room 2 only; the source row lives in room 1 (author 1); must be refused
        0 => {
            let defs = vec![(1, simple_room(&[(1, 0, true, true)])), (2, simple_room(&[(2, 1, true, false)]))];
            let p = ctx.node(100, Some(1), Some(1), gj(1, "p"), d, 1, Tamper::No);
            let q = ctx.node(101, Some(1), Some(2), gj(2, "q"), d, 1, Tamper::No);
            let e = ctx.edge(100, Some(1), 1, 101, d + 10, 2, Tamper::No);
            Scn { defs, pre_nodes: vec![p, q], pre_edges: vec![], steps: vec![Step::Edges(2, vec![e])], what: "repaired: edge whose source row lives in another room is refused".into() }
        }
        // K1 (tombstone side): key 2 (room 2, all-rows right on E1) deletes a reference of a row of room 1
        1 => {
            let defs = vec![(1, simple_room(&[(1, 0, true, true)])), (2, simple_room(&[(2, 1, true, true)]))];
            let p = ctx.node(100, Some(1), Some(1), gj(1, "p"), d, 1, Tamper::No);
            let q = ctx.node(101, Some(1), Some(2), gj(2, "q"), d, 1, Tamper::No);
            let e = ctx.edge(100, Some(1), 1, 101, d, 1, Tamper::No);
            let t = ctx.edel(2, &e, d + 10, 2, Tamper::No);
            Scn { defs, pre_nodes: vec![p, q], pre_edges: vec![e], steps: vec![Step::EDels(vec![t])], what: "K1 edge tombstone of room 2 removes a reference of a row of room 1".into() }
        }
        // repaired by 8ef09c7 (was class 2): key 2 has the all-rows right on E2 only; its tombstone claims entity E2 for an E1 row of author 1; must be ignored
        2 => {
            let defs = vec![(1, simple_room(&[(1, 1, true, true), (2, 2, true, true)]))];
            let p = ctx.node(100, Some(1), Some(1), gj(1, "p"), d, 1, Tamper::No);
            let t = ctx.ndel(1, 100, Some(2), d, d + 10, 2, Tamper::No);
            Scn { defs, pre_nodes: vec![p], pre_edges: vec![], steps: vec![Step::NDels(vec![t])], what: "repaired: tombstone claiming another entity is ignored".into() }
        }
        // K3: key 2 has the all-rows right on E2 only and replaces an E1 row of author 1 by an E2 row
        3 => {
            let defs = vec![(1, simple_room(&[(1, 1, true, true), (2, 2, true, true)]))];
            let p = ctx.node(100, Some(1), Some(1), gj(1, "p"), d, 1, Tamper::No);
            let x = ctx.node(100, Some(1), Some(2), gj(2, "x"), d + 10, 2, Tamper::No);
            Scn { defs, pre_nodes: vec![p], pre_edges: vec![], steps: vec![Step::Nodes(1, vec![x])], what: "K3 row replaced by a row of another entity".into() }
        }
        // K4: key 2 has only the own-rows right on E1 and replaces the reference written by key 1
        4 => {
            let defs = vec![(1, simple_room(&[(1, 1, true, true), (2, 1, true, false)]))];
            let p = ctx.node(100, Some(1), Some(1), gj(1, "p"), d, 1, Tamper::No);
            let q = ctx.node(101, Some(1), Some(2), gj(2, "q"), d, 1, Tamper::No);
            let e = ctx.edge(100, Some(1), 1, 101, d, 1, Tamper::No);
            let e2 = ctx.edge(100, Some(1), 1, 101, d + 10, 2, Tamper::No);
            Scn { defs, pre_nodes: vec![p, q], pre_edges: vec![e], steps: vec![Step::Edges(1, vec![e2])], what: "K4 another author's reference replaced with the own-rows right".into() }
        }
        // repaired by 95fc165 (was class 5): a row without JSON content for an entity with a required field; must be refused
        5 => {
            let defs = vec![(1, simple_room(&[(1, 1, true, false)]))];
            let x = ctx.node(100, Some(1), Some(1), None, d, 1, Tamper::No);
            Scn { defs, pre_nodes: vec![], pre_edges: vec![], steps: vec![Step::Nodes(1, vec![x])], what: "repaired: row without JSON content is refused".into() }
        }
        // honest synchronisation of a day: tombstones, rows, references; everything is stored
        6 => {
            let defs = vec![(1, simple_room(&[(1, 0, true, true), (2, 0, true, false)]))];
            let old = ctx.node(100, Some(1), Some(1), gj(1, "old"), d, 2, Tamper::No);
            let oq = ctx.node(101, Some(1), Some(2), gj(2, "q"), d, 2, Tamper::No);
            let oe = ctx.edge(100, Some(1), 1, 101, d, 2, Tamper::No);
            let te = ctx.edel(1, &oe, d + 5, 2, Tamper::No);
            let tn = ctx.ndel(1, 101, Some(2), d, d + 6, 2, Tamper::No);
            let up = ctx.node(100, Some(1), Some(1), gj(1, "new"), d + 7, 2, Tamper::No);
            let nw = ctx.node(102, Some(1), Some(2), gj(2, "r"), d + 7, 1, Tamper::No);
            let ne = ctx.edge(100, Some(1), 1, 102, d + 7, 2, Tamper::No);
            Scn { defs, pre_nodes: vec![old, oq], pre_edges: vec![oe], steps: vec![Step::EDels(vec![te]), Step::NDels(vec![tn]), Step::Nodes(1, vec![up, nw]), Step::Edges(1, vec![ne])], what: "honest day".into() }
        }
        // refused rows: wrong room, unknown entity, wrong JSON type, missing field, explicit null, oversized,
        // no right, right not yet valid, other author's row with own-rows right only, move without right in the room left
        7 => {
            let mut r1 = simple_room(&[(1, 0, true, true), (2, 1, true, false)]);
            r1.push(Ev::Group(3)); r1.push(Ev::User(3, 4, d + 100, true)); r1.push(Ev::Right(3, 0, d + 100, true, true));
            let defs = vec![(1, r1), (2, simple_room(&[(1, 0, true, true), (3, 0, true, true)]))];
            let p = ctx.node(100, Some(1), Some(1), gj(1, "p"), d, 1, Tamper::No);
            let m = ctx.node(101, Some(2), Some(1), gj(1, "m"), d, 1, Tamper::No);
            let f = |e: u64, n: &str| dm.field(e, n).short;
            let b = vec![
                ctx.node(110, Some(2), Some(1), gj(1, "a"), d + 1, 1, Tamper::No),                       // other room than the call's
                ctx.node(111, None, Some(1), gj(1, "a"), d + 1, 1, Tamper::No),                          // no room
                ctx.node(112, Some(1), None, gj(1, "a"), d + 1, 1, Tamper::No),                          // unknown entity
                ctx.node(113, Some(1), Some(1), Some(format!("{{\"{}\":5}}", f(1, "name"))), d + 1, 1, Tamper::No),
                ctx.node(114, Some(1), Some(1), Some("{}".into()), d + 1, 1, Tamper::No),
                ctx.node(115, Some(1), Some(1), Some(format!("{{\"{}\":\"x\",\"{}\":null}}", f(1, "name"), f(1, "n"))), d + 1, 1, Tamper::No),
                ctx.node(116, Some(1), Some(1), gj(1, &"x".repeat(1100)), d + 1, 1, Tamper::No),
                ctx.node(117, Some(1), Some(1), gj(1, "a"), d + 1, 3, Tamper::No),                       // no member
                ctx.node(118, Some(1), Some(1), gj(1, "a"), d + 50, 4, Tamper::No),                      // member only from d+100
                ctx.node(119, Some(1), Some(2), gj(2, "a"), d + 1, 2, Tamper::No),                       // right on E1 only
                ctx.node(100, Some(1), Some(1), gj(1, "stolen"), d + 2, 2, Tamper::No),                  // foreign row, own-rows right
                ctx.node(101, Some(1), Some(1), gj(1, "moved"), d + 2, 2, Tamper::No),                   // leaves room 2 without a right there
                ctx.node(120, Some(1), Some(1), gj(1, "ok"), d + 1, 2, Tamper::No),                      // accepted
                ctx.node(121, Some(1), Some(3), Some("{}".into()), d + 1, 1, Tamper::No),                // accepted: defaulted field
                ctx.node(122, Some(1), Some(1), gj(1, "late"), d + 200, 4, Tamper::No),                  // accepted: member by then
            ];
            Scn { defs, pre_nodes: vec![p, m], pre_edges: vec![], steps: vec![Step::Nodes(1, b)], what: "refused rows".into() }
        }
        // one row with a wrong signature: the whole reply is dropped; tampered tombstones likewise; unknown room for edges
        8 => {
            let defs = vec![(1, simple_room(&[(1, 0, true, true)]))];
            let p = ctx.node(100, Some(1), Some(1), gj(1, "p"), d, 1, Tamper::No);
            let a = ctx.node(110, Some(1), Some(1), gj(1, "a"), d + 1, 1, Tamper::No);
            let bad = ctx.node(111, Some(1), Some(1), gj(1, "b"), d + 1, 1, Tamper::Sig);
            let bad2 = ctx.node(112, Some(1), Some(1), gj(1, "c"), d + 1, 1, Tamper::Field);
            let e = ctx.edge(100, Some(1), 1, 110, d + 1, 1, Tamper::No);
            let ebad = ctx.edge(100, Some(1), 2, 110, d + 1, 1, Tamper::Field);
            let t = ctx.ndel(1, 100, Some(1), d, d + 9, 1, Tamper::Field);
            let t2 = ctx.edel(1, &e, d + 9, 1, Tamper::Sig);
            Scn { defs, pre_nodes: vec![p], pre_edges: vec![], steps: vec![
                Step::Nodes(1, vec![a.clone(), bad]), Step::Nodes(1, vec![bad2]), Step::Nodes(1, vec![a]),
                Step::Edges(1, vec![e.clone(), ebad]), Step::Edges(9, vec![e.clone()]), Step::Edges(1, vec![e]),
                Step::NDels(vec![t]), Step::EDels(vec![t2])], what: "signatures and unknown room".into() }
        }
        // last-writer-wins filter: older and equal versions are not requested; tombstones: unknown entity, unknown room,
        // several tombstones for one id, tombstone for a row held in another room
        9 => {
            let defs = vec![(1, simple_room(&[(1, 0, true, true), (2, 0, true, false)])), (2, simple_room(&[(2, 0, true, false)]))];
            let p = ctx.node(100, Some(1), Some(1), gj(1, "p"), d + 5, 1, Tamper::No);
            let q = ctx.node(101, Some(2), Some(1), gj(1, "q"), d + 5, 1, Tamper::No);
            let z = ctx.node(102, Some(1), Some(1), gj(1, "z"), d + 5, 3, Tamper::No);      // held row of a key without any right
            let older = ctx.node(100, Some(1), Some(1), gj(1, "older"), d + 4, 1, Tamper::No);
            let same = p.clone();
            let sib1 = ctx.node(100, Some(1), Some(1), gj(1, "sib1"), d + 5, 1, Tamper::No);
            let sib2 = ctx.node(100, Some(1), Some(1), gj(1, "sib2"), d + 5, 1, Tamper::No);
            let t_unknown_ent = ctx.ndel(1, 100, None, d + 5, d + 9, 1, Tamper::No);
            let t_unknown_room = ctx.ndel(9, 100, Some(1), d + 5, d + 9, 1, Tamper::No);
            let t_a = ctx.ndel(1, 100, Some(1), d + 5, d + 9, 2, Tamper::No);   // key 2: own-rows right only, row of key 1
            let t_b = ctx.ndel(1, 100, Some(1), d + 5, d + 10, 1, Tamper::No);
            let t_other = ctx.ndel(2, 101, Some(1), d + 5, d + 9, 2, Tamper::No); // row 101 is in room 2, author 1: needs all-rows
            let t_absent = ctx.ndel(2, 150, Some(1), d + 5, d + 9, 2, Tamper::No); // no such row: own-rows right suffices
            Scn { defs, pre_nodes: vec![p, q, z.clone()], pre_edges: vec![], steps: vec![
                Step::Nodes(1, vec![older]), Step::Nodes(1, vec![same, z]), Step::Nodes(1, vec![sib1]), Step::Nodes(1, vec![sib2]),
                Step::NDels(vec![t_unknown_ent, t_unknown_room, t_other, t_absent]), Step::NDels(vec![t_b, t_a])], what: "lww filter and tombstone corner cases".into() }
        }
        // several tombstones of one row in one answer (bb1bffb: one at a time), a tombstone older than the stored
        // version (ad91329: removes nothing), versions covered by a stored tombstone are not requested again (ca69f52)
        10 => {
            let defs = vec![(1, simple_room(&[(1, 0, true, true), (2, 0, true, false)]))];
            let p = ctx.node(100, Some(1), Some(1), gj(1, "p"), d + 5, 1, Tamper::No);
            let q = ctx.node(101, Some(1), Some(1), gj(1, "q"), d + 5, 2, Tamper::No);
            let w = ctx.node(102, Some(1), Some(1), gj(1, "w"), d + 9, 2, Tamper::No);
            let t1 = ctx.ndel(1, 100, Some(1), d + 5, d + 6, 2, Tamper::No);    // own-rows right only, row of key 1: refused
            let t2 = ctx.ndel(1, 101, Some(1), d + 5, d + 6, 2, Tamper::No);    // own row: stored
            let t3 = ctx.ndel(1, 100, Some(1), d + 5, d + 7, 1, Tamper::No);    // second entry of row 100: stored, removes it
            let t4 = ctx.ndel(1, 100, Some(1), d + 5, d + 8, 2, Tamper::No);    // third entry: the row is gone, own-rows right suffices
            let t5 = ctx.ndel(1, 102, Some(1), d + 8, d + 10, 2, Tamper::No);   // names an older version than the stored one: stored, removes nothing
            let p_again = p.clone();
            let p_newer = ctx.node(100, Some(1), Some(1), gj(1, "p2"), d + 6, 1, Tamper::No);
            let w_older = ctx.node(102, Some(1), Some(1), gj(1, "w0"), d + 8, 2, Tamper::No);
            Scn { defs, pre_nodes: vec![p, q, w], pre_edges: vec![], steps: vec![
                Step::NDels(vec![t1, t2, t3, t4, t5]), Step::Nodes(1, vec![p_again]), Step::Nodes(1, vec![w_older, p_newer])],
                what: "several tombstones per row, older tombstone, tombstoned versions".into() }
        }
        // a row leaves a room: the right in the room left is evaluated at the date of the NEW version.
        // key 2 had the all-rows right in room 2 until d+50 (then disabled); the row of key 1 stored there
        // is dated d.  A move dated d+40 is accepted, a move dated d+100 is refused (right revoked by then),
        // although key 2 had the right at the stored version's date
        11 => {
            let mut r2 = simple_room(&[(2, 0, true, true)]);
            r2.push(Ev::User(1, 2, d + 50, false));
            let defs = vec![(1, simple_room(&[(2, 0, true, true)])), (2, r2)];
            let p = ctx.node(100, Some(2), Some(1), gj(1, "p"), d, 1, Tamper::No);
            let q = ctx.node(101, Some(2), Some(1), gj(1, "q"), d, 1, Tamper::No);
            let late = ctx.node(100, Some(1), Some(1), gj(1, "late"), d + 100, 2, Tamper::No);
            let early = ctx.node(101, Some(1), Some(1), gj(1, "early"), d + 40, 2, Tamper::No);
            // the same for an own row whose author lost the own-rows right in the room left
            let mut r3 = simple_room(&[(3, 0, true, false)]);
            r3.push(Ev::Right(1, 0, d + 50, false, false));
            let mut defs = defs; defs.push((3, r3));
            let defs: Vec<(u64, Vec<Ev>)> = defs.into_iter().map(|(r, mut e)| { if r == 1 { e.extend(simple_room(&[(3, 0, true, false)]).into_iter().map(|x| match x {
                Ev::Group(_) => Ev::Group(2), Ev::User(_, k, dd, b) => Ev::User(2, k, dd, b), Ev::Right(_, en, dd, s2, a2) => Ev::Right(2, en, dd, s2, a2), o => o })); } (r, e) }).collect();
            let o1 = ctx.node(102, Some(3), Some(1), gj(1, "o1"), d, 3, Tamper::No);
            let o2 = ctx.node(103, Some(3), Some(1), gj(1, "o2"), d, 3, Tamper::No);
            let own_late = ctx.node(102, Some(1), Some(1), gj(1, "own late"), d + 100, 3, Tamper::No);
            let own_early = ctx.node(103, Some(1), Some(1), gj(1, "own early"), d + 40, 3, Tamper::No);
            Scn { defs, pre_nodes: vec![p, q, o1, o2], pre_edges: vec![], steps: vec![Step::Nodes(1, vec![late, early, own_late, own_early])],
                what: "moves: right in the room left at the date of the new version".into() }
        }
        // reference tombstones that name another creation date than the stored reference: the stored reference of
        // key 1 is NOT designated by them (the author look-up and the delete both use the exact date), so a member
        // with the own-rows right only (key 2) gets them stored but the reference stays; the exact date needs the all-rows right
        12 => {
            let defs = vec![(1, simple_room(&[(1, 0, true, true), (2, 0, true, false)]))];
            let p = ctx.node(100, Some(1), Some(1), gj(1, "p"), d, 1, Tamper::No);
            let q = ctx.node(101, Some(1), Some(2), gj(2, "q"), d, 1, Tamper::No);
            let e = ctx.edge(100, Some(1), 1, 101, d, 1, Tamper::No);
            let e2 = ctx.edge(100, Some(1), 2, 101, d, 1, Tamper::No);
            let later2 = ctx.edel_c(1, &e, d + 5, d + 20, 2, Tamper::No);
            let plus1 = ctx.edel_c(1, &e, d + 1, d + 21, 2, Tamper::No);
            let minus1 = ctx.edel_c(1, &e, d - 1, d + 22, 2, Tamper::No);
            let now2 = ctx.edel_c(1, &e, d + 23, d + 23, 2, Tamper::No);
            let exact2 = ctx.edel(1, &e, d + 24, 2, Tamper::No);                 // refused: another author's reference, own-rows right
            let later1 = ctx.edel_c(1, &e2, d + 5, d + 25, 1, Tamper::No);       // all-rows right, still designates nothing
            let exact1 = ctx.edel(1, &e2, d + 26, 1, Tamper::No);                // removes e2
            Scn { defs, pre_nodes: vec![p, q], pre_edges: vec![e, e2], steps: vec![
                Step::EDels(vec![later2]), Step::EDels(vec![plus1, minus1, now2]), Step::EDels(vec![exact2]),
                Step::EDels(vec![later1]), Step::EDels(vec![exact1])], what: "reference tombstones naming another creation date".into() }
        }
        // an explicit null for a field that is NOT nullable but has a default, for every scalar type, interleaved with
        // conforming rows (field absent: default applies; proper value; null for nullable fields): the null rows are refused
        13 => {
            let defs = vec![(1, simple_room(&[(1, 0, true, true)]))];
            let f = |n: &str| dm.field(3, n).short;
            let mut b = vec![];
            let mut id = 100;
            for n in ["name", "di", "df", "db", "dk", "dj"] {
                b.push(ctx.node(id, Some(1), Some(3), Some(format!("{{\"{}\":null}}", f(n))), d + 1, 1, Tamper::No)); id += 1;      // refused
                b.push(ctx.node(id, Some(1), Some(3), Some("{}".into()), d + 1, 1, Tamper::No)); id += 1;                               // stored
            }
            b.push(ctx.node(id, Some(1), Some(3), Some(format!("{{\"{}\":\"n\",\"{}\":4,\"{}\":2.5,\"{}\":false,\"{}\":\"YWJj\",\"{}\":[1]}}",
                f("name"), f("di"), f("df"), f("db"), f("dk"), f("dj"))), d + 1, 1, Tamper::No)); id += 1;                                // stored
            b.push(ctx.node(id, Some(1), Some(3), Some(format!("{{\"{}\":null,\"{}\":null,\"{}\":null,\"{}\":null}}", f("f"), f("b"), f("k"), f("j"))), d + 1, 1, Tamper::No)); // stored: nullable
            Scn { defs, pre_nodes: vec![], pre_edges: vec![], steps: vec![Step::Nodes(1, b)], what: "explicit null on defaulted, non nullable fields".into() }
        }
        // large answers (64 rows and more) of new rows of one entitled author with exactly ONE forged row, last, first
        // or in the middle of the answer: the whole answer is dropped whatever the size of the answer and the
        // position of the forged row (every row of an answer is signature-checked, not only a prefix)
        14..=21 => {
            let (n, pos, tamper) = [(64u64, 63u64, Tamper::Sig), (67, 66, Tamper::Sig), (67, 0, Tamper::Field), (67, 65, Tamper::Field),
                (101, 100, Tamper::Field), (101, 50, Tamper::Sig), (130, 129, Tamper::Sig), (130, 128, Tamper::Field)][which - 14];
            let defs = vec![(1, simple_room(&[(1, 0, true, false)]))];
            let b: Vec<NodeIt> = (0..n).map(|i| ctx.node(100 + i, Some(1), Some(2), gj(2, "a"), d + 1, 1, if i == pos { tamper } else { Tamper::No })).collect();
            assert!(b.iter().filter(|x| !x.sig_ok).count() == 1 && !b[pos as usize].sig_ok);
            Scn { defs, pre_nodes: vec![], pre_edges: vec![], steps: vec![Step::Nodes(1, b)], what: format!("large answer of {} rows, one forged row at position {}", n, pos) }
        }
        _ => return None,
    })
}

fn pick_entitled(rng: &mut Rng, room: Option<&Room>, keys: &Keys, ent: u64, dates: &[i64], all: bool) -> (u64, i64) {
    let mut k = 1 + rng.below(4);
    let mut d = *rng.pick(dates) + rng.range(0, 2);
    if let Some(r) = room {
        if rng.chance(4, 5) {
            for _ in 0..8 {
                if r.can(&keys.vk(k), &ent_name(ent), d, if all { &RightType::MutateAll } else { &RightType::MutateSelf }) { break; }
                k = 1 + rng.below(4);
                d = *rng.pick(dates) + rng.range(0, 2);
            }
        }
    }
    (k, d)
}

fn gen_room(rng: &mut Rng) -> Vec<Ev> {
    let mut evs = vec![Ev::Group(1)];
    for k in 1..=4u64 { if rng.chance(3, 4) { evs.push(Ev::User(1, k, D0 + rng.range(0, 2) * DAY, !rng.chance(1, 8))); } }
    match rng.below(4) {
        0 => evs.push(Ev::Right(1, 0, D0, true, rng.chance(1, 2))),
        1 => { evs.push(Ev::Right(1, 1, D0, true, rng.chance(1, 2))); evs.push(Ev::Right(1, 2, D0, true, false)); }
        2 => { evs.push(Ev::Right(1, 0, D0, true, false)); evs.push(Ev::Right(1, 1 + rng.below(3), D0 + DAY, true, true)); }
        _ => evs.push(Ev::Right(1, 1 + rng.below(2), D0, rng.chance(3, 4), rng.chance(1, 3))),
    }
    if rng.chance(1, 2) { evs.push(Ev::Group(2)); evs.push(Ev::User(2, 1 + rng.below(4), D0, true)); evs.push(Ev::Right(2, rng.below(4), D0, true, true)); }
    if rng.chance(1, 3) { evs.push(Ev::Admin(1 + rng.below(4), D0, true)); }
    // rights that are revoked later: a member disabled, a right withdrawn
    if rng.chance(1, 2) { evs.push(Ev::User(1, 1 + rng.below(4), BASE + rng.range(1, 8) * 1000, false)); }
    if rng.chance(1, 4) { evs.push(Ev::Right(1, rng.below(4), BASE + rng.range(1, 8) * 1000, rng.chance(1, 2), false)); }
    let n = rng.below(5) as usize;
    let tail = gen_events(rng, n, true, 4);
    evs.extend(tail.into_iter().filter(|e| !matches!(e, Ev::Group(1)) ));
    evs
}

fn random_scn(ctx: &mut Ctx, rng: &mut Rng) -> Scn {
    let rig: &Rig = ctx.rig;
    let dm = &rig.dm;
    let keys = &rig.keys;
    let defs = vec![(1u64, gen_room(rng)), (2u64, gen_room(rng))];
    let mut rooms: HashMap<u64, Room> = HashMap::new();
    let mut dates = vec![BASE, BASE + 1000, BASE + DAY];
    for (rid, evs) in &defs {
        let r = *rid; let case = ctx.case;
        let (room, _) = build_room(cuid(case, r), &move |g| group_uid(case, r, g), evs, keys);
        rooms.insert(*rid, room);
        dates.extend(evs.iter().filter_map(|e| e.date()).filter(|d| *d > BASE - 20 * DAY));
    }
    let pick_room = |rng: &mut Rng| -> u64 { match rng.below(12) { 0 => 9, 1..=6 => 1, _ => 2 } };
    let mut nodes: Vec<NodeIt> = vec![];
    let mut edges: Vec<EdgeIt> = vec![];
    let mut next_id = 100u64;
    // rows the receiver already holds
    for _ in 0..rng.below(5) {
        let room = match rng.below(8) { 0 => None, 1..=4 => Some(1), _ => Some(2) };
        let ent = 1 + rng.below(3);
        let (k, d) = pick_entitled(rng, room.and_then(|r| rooms.get(&r)), keys, ent, &dates, false);
        nodes.push(ctx.node(next_id, room, Some(ent), good_json(dm, Some(ent), "pre"), d, k, Tamper::No));
        next_id += 1;
    }
    for _ in 0..rng.below(3) {
        if nodes.len() < 2 { break; }
        let s = rng.pick(&nodes).clone(); let t = rng.pick(&nodes).clone();
        let e = ctx.edge(s.id, s.ent, 1 + rng.below(2), t.id, s.mdate + rng.range(0, 2), 1 + rng.below(4), Tamper::No);
        if !edges.iter().any(|x| x.src == e.src && x.label == e.label && x.dest == e.dest) { edges.push(e); }
    }
    let pre_nodes = nodes.clone();
    let pre_edges = edges.clone();
    let mut steps = vec![];
    for _ in 0..(1 + rng.below(4)) {
        match rng.below(20) {
            0..=7 => {
                let r = pick_room(rng);
                let mut batch: Vec<NodeIt> = vec![];
                for _ in 0..(1 + rng.below(4)) {
                    let tamper = match rng.below(120) { 0 => Tamper::Sig, 1 => Tamper::Field, _ => Tamper::No };
                    let existing = if !nodes.is_empty() && rng.chance(2, 5) { Some(rng.pick(&nodes).clone()) } else { None };
                    let it = match existing {
                        Some(old) if !batch.iter().any(|b| b.id == old.id) => {
                            // a new version of a row the receiver may hold
                            let ent = if rng.chance(1, 8) { Some(1 + rng.below(3)) } else { old.ent };
                            let room = match rng.below(10) { 0 => old.room, 1 => None, _ => Some(r) };
                            let late_move = old.room.is_some() && old.room != Some(r) && rng.chance(1, 2);
                            let all = rng.chance(1, 2);
                            let (mut k, mut d) = pick_entitled(rng, rooms.get(&r), keys, ent.unwrap_or(1), &dates, all);
                            if rng.chance(1, 2) { k = old.author; }
                            if rng.chance(3, 4) && d <= old.mdate { d = old.mdate + rng.range(0, 3); }
                            // a move dated after the rights of the room left may have changed
                            if late_move { d = d.max(BASE + rng.range(2, 12) * 1000); }
                            ctx.node(old.id, room, ent, good_json(dm, ent, "upd"), d, k, tamper)
                        }
                        _ => {
                            let ent = if rng.chance(1, 25) { None } else { Some(1 + rng.below(3)) };
                            let room = match rng.below(16) { 0 => None, 1 => Some(pick_room(rng)), _ => Some(r) };
                            let (k, d) = pick_entitled(rng, rooms.get(&r), keys, ent.unwrap_or(1), &dates, false);
                            let e = ent.unwrap_or(1);
                            let name = dm.field(e, "name").short;
                            let json = match rng.below(24) {
                                0 => Some(format!("{{\"{}\":7}}", name)),
                                1 => Some("{}".to_string()),
                                2 => None,
                                3 => Some(format!("{{\"{}\":\"v\",\"{}\":null}}", name, dm.field(1, "n").short)),
                                4 => Some(format!("{{\"{}\":\"{}\"}}", name, "y".repeat(820 + rng.below(60) as usize))),   // around the size limit
                                5 => Some(format!("{{\"{}\":\"v\",\"{}\":4}}", name, dm.field(1, "n").short)),
                                6 if e == 3 => Some(format!("{{\"{}\":null}}", dm.field(3, *rng.pick(&["name", "di", "df", "db", "dk", "dj"])).short)),   // null on a defaulted field
                                7 if e == 3 => Some(format!("{{\"{}\":null,\"{}\":7}}", dm.field(3, *rng.pick(&["f", "b", "k", "j"])).short, dm.field(3, "di").short)),   // null on a nullable field
                                _ => good_json(dm, ent, "new"),
                            };
                            let id = next_id; next_id += 1;
                            ctx.node(id, room, ent, json, d, k, tamper)
                        }
                    };
                    nodes.push(it.clone());
                    batch.push(it);
                }
                steps.push(Step::Nodes(r, batch));
            }
            8..=12 => {
                // mostly the room of a row the receiver holds
                let with_room: Vec<u64> = pre_nodes.iter().filter_map(|n| n.room).collect();
                let r = if !with_room.is_empty() && rng.chance(4, 5) { *rng.pick(&with_room) } else { pick_room(rng) };
                let mut batch = vec![];
                for _ in 0..(1 + rng.below(3)) {
                    if nodes.is_empty() { break; }
                    let tamper = match rng.below(120) { 0 => Tamper::Sig, 1 => Tamper::Field, _ => Tamper::No };
                    // mostly a source row of the room of the call
                    let held: Vec<&NodeIt> = pre_nodes.iter().filter(|n| n.room == Some(r)).collect();
                    let cands: Vec<&NodeIt> = nodes.iter().filter(|n| n.room == Some(r)).collect();
                    let s = if !held.is_empty() && rng.chance(4, 5) { (*rng.pick(&held)).clone() }
                            else if !cands.is_empty() && rng.chance(3, 4) { (*rng.pick(&cands)).clone() } else { rng.pick(&nodes).clone() };
                    let t = rng.pick(&nodes).clone();
                    let ent = if rng.chance(1, 12) { if rng.chance(1, 3) { None } else { Some(1 + rng.below(3)) } } else { s.ent };
                    let src = if rng.chance(1, 15) { 900 + rng.below(3) } else { s.id };
                    let (k, dd) = pick_entitled(rng, rooms.get(&r), keys, ent.unwrap_or(1), &dates, false);
                    let e = if !edges.is_empty() && rng.chance(1, 5) {
                        let o = rng.pick(&edges).clone();
                        ctx.edge(o.src, o.ent, o.label, o.dest, dd, if rng.chance(1, 2) { o.author } else { k }, tamper)   // replaces a stored reference
                    } else { ctx.edge(src, ent, 1 + rng.below(2), t.id, dd, k, tamper) };
                    edges.push(e.clone());
                    batch.push(e);
                }
                steps.push(Step::Edges(r, batch));
            }
            13..=16 => {
                let mut batch = vec![];
                for _ in 0..(1 + rng.below(3)) {
                    if nodes.is_empty() { break; }
                    let tamper = match rng.below(120) { 0 => Tamper::Sig, 1 => Tamper::Field, _ => Tamper::No };
                    let n = rng.pick(&nodes).clone();
                    let room = match rng.below(10) { 0 => pick_room(rng), _ => n.room.unwrap_or(1) };
                    let ent = if rng.chance(1, 8) { if rng.chance(1, 4) { None } else { Some(1 + rng.below(3)) } } else { n.ent };
                    let id = if rng.chance(1, 12) { 900 + rng.below(3) } else { n.id };
                    let all = rng.chance(1, 2);
                    let (mut k, dd) = pick_entitled(rng, rooms.get(&room), keys, ent.unwrap_or(1), &dates, all);
                    if rng.chance(1, 2) { k = n.author; }
                    batch.push(ctx.ndel(room, id, ent, n.mdate, dd.max(n.mdate), k, tamper));
                }
                steps.push(Step::NDels(batch));
            }
            _ => {
                let mut batch = vec![];
                for _ in 0..(1 + rng.below(3)) {
                    if edges.is_empty() { break; }
                    let tamper = match rng.below(120) { 0 => Tamper::Sig, 1 => Tamper::Field, _ => Tamper::No };
                    let e = rng.pick(&edges).clone();
                    let src_room = nodes.iter().rev().find(|n| n.id == e.src).and_then(|n| n.room).unwrap_or(1);
                    let room = match rng.below(10) { 0 => pick_room(rng), _ => src_room };
                    let all = rng.chance(1, 2);
                    let (mut k, dd) = pick_entitled(rng, rooms.get(&room), keys, e.ent.unwrap_or(1), &dates, all);
                    if rng.chance(1, 2) { k = e.author; }
                    // mostly the exact creation date of the reference; sometimes one next to it, later, or the deletion date
                    let cdate = match rng.below(8) { 0 => e.cdate + 1, 1 => e.cdate - 1, 2 => e.cdate + rng.range(2, 5000), 3 => dd.max(e.cdate), _ => e.cdate };
                    batch.push(ctx.edel_c(room, &e, cdate, dd.max(e.cdate), k, tamper));
                }
                steps.push(Step::EDels(batch));
            }
        }
    }
    Scn { defs, pre_nodes, pre_edges, steps, what: "random".into() }
}

/// the same scenario with the rows of every batch in another order (only batches in which no two
/// rows share a key: there the code is order dependent by construction, the later row wins)
fn shuffled(s: &Scn, rng: &mut Rng) -> Option<Scn> {
    fn shuffle<T: Clone>(v: &[T], rng: &mut Rng) -> Vec<T> {
        let mut v = v.to_vec();
        for i in (1..v.len()).rev() { let j = rng.below(i as u64 + 1) as usize; v.swap(i, j); }
        v
    }
    fn distinct<K: std::hash::Hash + Eq>(k: Vec<K>) -> bool { let n = k.len(); k.into_iter().collect::<HashSet<K>>().len() == n }
    let mut steps = vec![];
    let mut changed = false;
    for st in &s.steps {
        steps.push(match st {
            Step::Nodes(r, b) => { if !distinct(b.iter().map(|x| x.id).collect()) { return None; } changed |= b.len() > 1; Step::Nodes(*r, shuffle(b, rng)) }
            Step::Edges(r, b) => { if !distinct(b.iter().map(|x| (x.src, x.label, x.dest)).collect()) { return None; } changed |= b.len() > 1; Step::Edges(*r, shuffle(b, rng)) }
            Step::NDels(b) => { if !distinct(b.iter().map(|x| x.id).collect()) { return None; } changed |= b.len() > 1;
                let idx = shuffle(&(0..b.len()).collect::<Vec<_>>(), rng);
                Step::NDels(idx.iter().map(|i| { let d = &b[*i]; NDelIt { tag: d.tag, room: d.room, id: d.id, ent: d.ent, mdate: d.mdate, date: d.date, author: d.author, sig_ok: d.sig_ok, entry: clone_ndel(&d.entry) } }).collect()) }
            Step::EDels(b) => { if !distinct(b.iter().map(|x| (x.src, x.label, x.dest)).collect()) { return None; } changed |= b.len() > 1;
                let idx = shuffle(&(0..b.len()).collect::<Vec<_>>(), rng);
                Step::EDels(idx.iter().map(|i| { let d = &b[*i]; EDelIt { tag: d.tag, room: d.room, src: d.src, ent: d.ent, label: d.label, dest: d.dest, cdate: d.cdate, date: d.date, author: d.author, sig_ok: d.sig_ok, entry: clone_edel(&d.entry) } }).collect()) }
        });
    }
    if !changed { return None; }
    Some(Scn { defs: s.defs.clone(), pre_nodes: s.pre_nodes.clone(), pre_edges: s.pre_edges.clone(), steps, what: "random, batches shuffled, second receiver".into() })
}

#[tokio::main(flavor = "multi_thread", worker_threads = 4)]
async fn main() {
    let mut out = Out::create();
    let mut rng = Rng::from_env();
    let rig = Rig::start("C02", "b", MODEL).await;
    let rig2 = Rig::start("C02", "p", MODEL).await;
    let mut perm_runs = 0usize;
    let n = scale(600, 7000);
    let mut case: u64 = 0;
    let mut which = 0;
    loop {
        case += 1;
        let mut ctx = Ctx { case, rig: &rig, tags: HashMap::new(), next: 0 };
        let (scn, kind) = match directed(&mut ctx, which) {
            Some(s) => { which += 1; (s, "directed") }
            None => {
                if out.n >= n { break; }
                let mut r = rng.fork();
                (random_scn(&mut ctx, &mut r), "random")
            }
        };
        let tags = ctx.tags.clone();
        let (obs, st) = run_scn(&rig, case, &scn, &tags).await;
        // order / batch independence: the same signed rows, every batch in another order, on a second
        // receiver: same answers and same tables.  A difference is reported as a case whose observation
        // is the second receiver's (the model, fed the original order, then disagrees).
        if kind == "random" && case % 4 == 0 {
            let mut r2 = rng.fork();
            if let Some(sh) = shuffled(&scn, &mut r2) {
                let (obs2, _) = run_scn(&rig2, case, &sh, &tags).await;
                perm_runs += 1;
                if obs2 != obs {
                    out.push(Case { kind: "order-dependence".into(), coq: scn_coq(&scn, &rig.dm), obs: obs2.clone(), meta: json!({"what": "batch order changed the outcome", "first": obs.clone()}) });
                }
            }
        }
        let items: usize = scn.steps.iter().map(|s| match s { Step::Nodes(_, b) => b.len(), Step::Edges(_, b) => b.len(), Step::NDels(b) => b.len(), Step::EDels(b) => b.len() }).sum();
        out.push(Case { kind: kind.into(), coq: scn_coq(&scn, &rig.dm), obs,
            meta: json!({"what": scn.what, "steps": scn.steps.len(), "items": items, "pre_rows": scn.pre_nodes.len() + scn.pre_edges.len(),
                         "stored_delta": st.stored, "rejected_ids": st.rejected, "failed_calls": st.failed_calls}) });
    }
    eprintln!("shuffled re-runs on the second receiver: {}", perm_runs);
    out.finish();
    rig.stop();
    rig2.stop();
}
