//! C20 correspondence: the real RoomLockService (a tokio task) driven as 1-3 simulated
//! connections over real channels, vs the Gallina model Lock.v.
//!
//! Determinism: the service reads its messages from a bounded channel of capacity 2 and handles
//! one message completely before it receives the next.  After every message of the history the
//! harness sends three no-op messages (`Unlock` of a room that is never requested): the third send
//! can only complete once the first no-op has been received, i.e. after the message before it has
//! been handled completely.  All grants of that message are then already in the (unbounded) reply
//! channels; they are drained channel by channel.  No sleeps, no timeouts.
use discret::verif_hooks::synchronisation::room_locking_service::RoomLockService;
use serde_json::json;
use std::collections::{BTreeMap, HashSet, VecDeque};
use tokio::sync::mpsc;
use vharness::common::*;

type Uid = [u8; 16];
const NOOP_ROOM: u64 = 0xFFFF_FF00;

#[derive(Clone, Debug, PartialEq)]
enum Msg { Request(u64, Vec<u64>, u64), Unlock(u64, u64), Drop(u64, u64) }
impl Msg {
    fn coq(&self) -> String {
        match self {
            Msg::Request(c, rooms, k) => format!("Request {} {} {}", gn(*c), glist(&rooms.iter().map(|r| gn(*r)).collect::<Vec<_>>()), gn(*k)),
            Msg::Unlock(w, r) => format!("Unlock {} {}", gn(*w), gn(*r)),
            Msg::Drop(c, k) => format!("DropChan {} {}", gn(*c), gn(*k)),
        }
    }
}
fn circuit(c: u64) -> [u8; 32] { let mut x = [0u8; 32]; x[0] = 0x55; x[24..32].copy_from_slice(&c.to_be_bytes()); x }
fn room_index(u: &Uid) -> u64 { let mut b = [0u8; 8]; b.copy_from_slice(&u[8..16]); u64::from_be_bytes(b) }

struct Sim {
    svc: RoomLockService,
    rx: BTreeMap<(u64, u64), mpsc::UnboundedReceiver<Uid>>,
    tx: BTreeMap<(u64, u64), mpsc::UnboundedSender<Uid>>,
    dead: HashSet<(u64, u64)>,
}
impl Sim {
    fn new(max: usize) -> Sim { Sim { svc: RoomLockService::start(max), rx: BTreeMap::new(), tx: BTreeMap::new(), dead: HashSet::new() } }
    async fn quiesce(&self) { for _ in 0..0 { self.svc.unlock(uid_of(NOOP_ROOM)).await; } }
    /// sends one message of the history, waits until it has been handled, returns its grants
    async fn apply(&mut self, m: &Msg) -> Vec<(u64, u64, u64)> {
        match m {
            Msg::Request(c, rooms, k) => {
                let key = (*c, *k);
                let sender = if self.dead.contains(&key) {
                    let (s, r) = mpsc::unbounded_channel::<Uid>(); drop(r); s
                } else {
                    if !self.tx.contains_key(&key) {
                        let (s, r) = mpsc::unbounded_channel::<Uid>();
                        self.tx.insert(key, s); self.rx.insert(key, r);
                    }
                    self.tx[&key].clone()
                };
                let q: VecDeque<Uid> = rooms.iter().map(|r| uid_of(*r)).collect();
                self.svc.request_locks(circuit(*c), q, sender).await;
            }
            Msg::Unlock(_, r) => self.svc.unlock(uid_of(*r)).await,
            Msg::Drop(c, k) => { self.rx.remove(&(*c, *k)); self.tx.remove(&(*c, *k)); self.dead.insert((*c, *k)); }
        }
        self.quiesce().await;
        let mut g = vec![];
        for ((c, k), rx) in self.rx.iter_mut() {
            while let Ok(room) = rx.try_recv() { g.push((*c, *k, room_index(&room))); }
        }
        g
    }
}

fn enc(gss: &[Vec<(u64, u64, u64)>]) -> Vec<i64> {
    let mut o = vec![];
    for gs in gss { o.push(gs.len() as i64); for (c, k, r) in gs { o.push(*c as i64); o.push(*k as i64); o.push(*r as i64); } }
    o
}

/// harness-side bookkeeping of who holds what (for generation and for the statistics only;
/// the verdicts are computed in Coq)
#[derive(Default)]
struct Book { holders: Vec<(u64, u64)>, foreign: bool, stale: usize, grants: usize, double_held: bool }
impl Book {
    fn msg(&mut self, m: &Msg) {
        if let Msg::Unlock(w, r) = m {
            if let Some(i) = self.holders.iter().position(|h| h == &(*w, *r)) { self.holders.remove(i); }
            else { self.stale += 1; if self.holders.iter().any(|h| h.1 == *r) { self.foreign = true; } }
        }
    }
    fn grants(&mut self, g: &[(u64, u64, u64)]) {
        for (c, _, r) in g { if self.holders.iter().any(|h| h.1 == *r) { self.double_held = true; } self.holders.push((*c, *r)); self.grants += 1; }
    }
}

async fn run_fixed(kind: &str, max: usize, tr: &[Msg]) -> Case {
    let mut sim = Sim::new(max);
    let mut book = Book::default();
    let mut gss = vec![];
    for m in tr { book.msg(m); let g = sim.apply(m).await; book.grants(&g); gss.push(g); }
    mk_case(kind, max, tr, &gss, &book)
}
fn mk_case(kind: &str, max: usize, tr: &[Msg], gss: &[Vec<(u64, u64, u64)>], book: &Book) -> Case {
    Case { kind: kind.into(),
           coq: format!("CLock {}%nat {}", max, glist(&tr.iter().map(|m| m.coq()).collect::<Vec<_>>())),
           obs: enc(gss),
           meta: json!({"max": max, "msgs": tr.len(), "grants": book.grants, "stale_unlocks": book.stale,
                        "foreign_unlock": book.foreign, "two_holders_seen": book.double_held}) }
}

fn gen_rooms(rng: &mut Rng, nrooms: u64) -> Vec<u64> {
    let n = match rng.below(10) { 0 => 0, 1..=4 => 1, 5..=7 => 2, _ => 3 };
    (0..n).map(|_| 1 + rng.below(nrooms)).collect()   // duplicates possible
}

/// online generation: releases mostly come from the current holder, once
async fn run_random(rng: &mut Rng, adversarial: bool) -> Case {
    let top = if rng.chance(1, 5) { 3 } else { 2 };
    let max = 1 + rng.below(top) as usize;
    let npeers = 1 + rng.below(3);
    let nrooms = 1 + rng.below(3);
    let len = 3 + rng.below(10) as usize;
    let mut sim = Sim::new(max);
    let mut book = Book::default();
    let mut tr = vec![];
    let mut gss = vec![];
    let mut gen_of = vec![0u64; 4];
    for _ in 0..len {
        let roll = rng.below(100);
        let m = if roll < 40 || (book.holders.is_empty() && roll < 80) {
            let c = 1 + rng.below(npeers);
            if rng.chance(1, 12) { gen_of[c as usize] += 1; }       // the connection hands over a new reply channel
            Msg::Request(c, gen_rooms(rng, nrooms), gen_of[c as usize])
        } else if roll < 85 && !book.holders.is_empty() {
            let (c, r) = *rng.pick(&book.holders);                   // disciplined release
            Msg::Unlock(c, r)
        } else if roll < 92 {
            let c = 1 + rng.below(npeers);
            if adversarial { Msg::Unlock(c, 1 + rng.below(nrooms)) }  // possibly not held / held by another
            else {
                // a release of a room nobody holds (harmless) when one exists
                let free: Vec<u64> = (1..=nrooms).filter(|r| !book.holders.iter().any(|h| h.1 == *r)).collect();
                if free.is_empty() { Msg::Request(c, gen_rooms(rng, nrooms), gen_of[c as usize]) } else { Msg::Unlock(c, *rng.pick(&free)) }
            }
        } else {
            let c = 1 + rng.below(npeers);
            Msg::Drop(c, if rng.chance(3, 4) { gen_of[c as usize] } else { rng.below(2) })
        };
        book.msg(&m);
        let g = sim.apply(&m).await;
        book.grants(&g);
        gss.push(g);
        tr.push(m);
    }
    mk_case(if adversarial { "random-any-release" } else { "random-holder-release" }, max, &tr, &gss, &book)
}

fn alphabet(small: bool) -> Vec<Msg> {
    let mut a = vec![];
    let room_sets: Vec<Vec<u64>> = if small { vec![vec![1], vec![1, 2]] } else { vec![vec![1], vec![2], vec![1, 2]] };
    for c in 1..=2u64 { for rs in &room_sets { a.push(Msg::Request(c, rs.clone(), 0)); } }
    for c in 1..=2u64 { for r in 1..=2u64 { a.push(Msg::Unlock(c, r)); } }
    a.push(Msg::Drop(1, 0));
    if !small { a.push(Msg::Drop(2, 0)); a.push(Msg::Request(3, vec![2, 1], 0)); a.push(Msg::Unlock(3, 1)); }
    a
}

#[tokio::main(flavor = "current_thread")]
async fn main() {
    let mut out = Out::create();
    let mut rng = Rng::from_env();
    use Msg::*;
    // ---- directed cases ----
    // K1: a release by a connection that no longer holds the room frees another connection's lock
    out.push(run_fixed("directed-K1-stale-unlock", 1, &[Request(1, vec![5], 0), Unlock(1, 5), Request(2, vec![5], 0), Unlock(1, 5), Request(3, vec![5], 0)]).await);
    // the same through a connection end: cleanup unlocks, the room is re-granted, the old task unlocks again
    out.push(run_fixed("directed-K1-cleanup-then-task", 2, &[Request(1, vec![5, 6], 0), Unlock(1, 5), Drop(1, 0), Request(2, vec![5], 0), Unlock(1, 5), Request(3, vec![5], 0), Unlock(2, 5), Unlock(3, 5)]).await);
    // a grant that is never released keeps its room and its slot
    out.push(run_fixed("directed-grant-never-released", 1, &[Request(1, vec![5], 0), Drop(1, 0), Request(2, vec![5, 6], 0), Request(2, vec![6], 0)]).await);
    out.push(run_fixed("directed-duplicate-rooms", 2, &[Request(1, vec![5, 5], 0), Unlock(1, 5), Unlock(1, 5), Request(1, vec![5, 5, 6, 6], 0), Request(1, vec![6, 5, 7, 7], 0), Unlock(1, 6), Unlock(1, 5), Unlock(1, 7)]).await);
    out.push(run_fixed("directed-empty-request", 1, &[Request(1, vec![5], 0), Request(2, vec![], 0), Request(2, vec![5, 5], 0), Unlock(1, 5), Unlock(2, 5)]).await);
    out.push(run_fixed("directed-new-reply-channel", 1, &[Request(1, vec![5], 0), Request(2, vec![5, 6], 0), Request(2, vec![], 1), Unlock(1, 5), Unlock(2, 6), Unlock(2, 5)]).await);
    out.push(run_fixed("directed-dead-channel", 2, &[Request(1, vec![5], 0), Request(2, vec![5, 6, 7], 0), Drop(2, 0), Request(3, vec![5, 6], 0), Unlock(1, 5), Request(2, vec![7], 0), Request(2, vec![7], 1), Unlock(3, 6), Unlock(3, 5), Unlock(2, 7)]).await);
    out.push(run_fixed("directed-rotation", 1, &[Request(1, vec![1, 2, 3], 0), Request(2, vec![1, 2, 3], 0), Request(3, vec![3, 2, 1], 0), Unlock(1, 3), Unlock(2, 3), Unlock(3, 1), Unlock(1, 2), Unlock(2, 2), Unlock(3, 2), Unlock(1, 1), Unlock(2, 1), Unlock(3, 3)]).await);
    out.push(run_fixed("directed-release-not-held", 2, &[Unlock(1, 5), Request(1, vec![5], 0), Unlock(2, 6), Unlock(1, 5), Unlock(1, 5), Request(2, vec![5], 0)]).await);

    // ---- exhaustive enumeration over a small alphabet (the state space for small bounds is finite) ----
    let (alpha, depth) = if tier_thorough() { (alphabet(false), 4usize) } else { (alphabet(true), 3usize) };
    let n = alpha.len();
    let mut total = 1usize; for _ in 0..depth { total *= n; }
    for max in 1..=2usize {
        for code in 0..total {
            let mut x = code; let mut tr = vec![];
            for _ in 0..depth { tr.push(alpha[x % n].clone()); x /= n; }
            out.push(run_fixed("exhaustive", max, &tr).await);
        }
    }
    // ---- random histories ----
    let nr = scale(1200, 12000);
    for i in 0..nr {
        let mut r = rng.fork();
        out.push(run_random(&mut r, i % 4 == 3).await);
    }
    out.finish();
}
