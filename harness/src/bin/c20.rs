//! C20 correspondence: the real RoomLockService (a tokio task) driven as 1-3 simulated
//! connections over real channels, vs the Gallina model Lock.v.
//!
//! Determinism: the service reads its messages from a bounded channel of capacity 2 and handles
//! one message completely before it receives the next.  After every message of the history the
//! harness sends eight no-op messages (`Unlock` of a room that is never requested): a send into a
//! full channel only completes once a message has been received, so after capacity + 1 no-ops the
//! message before them has been handled completely (capacity < 8: checked from the source by
//! tools/extract_c20_conn.py + C20_conn_code_as_modelled).  All grants of that message are then already in the (unbounded) reply
//! channels; they are drained channel by channel.  No sleeps, no timeouts.
use discret::verif_hooks::configuration::Configuration;
use discret::verif_hooks::database::graph_database::GraphDatabaseService;
use discret::verif_hooks::discret_mod::DiscretServices;
use discret::verif_hooks::event_service::EventService;
use discret::verif_hooks::peer_connection_service::{PeerConnectionMessage, PeerConnectionService};
use discret::verif_hooks::database::system_entities::OwnedInvite;
use discret::verif_hooks::network::peer_manager::TokenType;
use discret::verif_hooks::network::ConnectionInfo;
use discret::verif_hooks::security::{random32, HardwareFingerprint};
use discret::verif_hooks::synchronisation::peer_outbound_service::{InboundQueryService, RemotePeerHandle};
use discret::verif_hooks::synchronisation::{IdentityAnswer, LocalEvent, RemoteEvent};
use std::sync::atomic::AtomicBool;
use discret::verif_hooks::signature_verification_service::SignatureVerificationService;
use discret::verif_hooks::synchronisation::peer_inbound_service::{LocalPeerService, QueryService};
use discret::verif_hooks::synchronisation::room_locking_service::RoomLockService;
use discret::verif_hooks::synchronisation::{Answer, Error as SyncError, Query, QueryProtocol};
use serde_json::json;
use std::collections::{BTreeMap, HashSet, VecDeque};
use std::sync::Arc;
use tokio::sync::{broadcast, mpsc, Mutex};
use vharness::common::*;

type Uid = [u8; 16];
const NOOP_ROOM: u64 = 0xFFFF_FF00;

#[derive(Clone, Debug, PartialEq)]
enum Msg { Request(u64, Vec<u64>, u64), Unlock(u64, u64), Drop(u64, u64) }
impl Msg {
    fn coq(&self) -> String {
        match self {
            Msg::Request(c, rooms, k) => format!("Request {} {} {}", gn(*c), glist(&rooms.iter().map(|r| gn(*r)).collect::<Vec<_>>()), gn(*k)),
            Msg::Unlock(w, r) => format!("Unlock {} {}", gn(*w), gn(*r)),
            Msg::Drop(c, k) => format!("DropChan {} {}", gn(*c), gn(*k)),
        }
    }
}
fn circuit(c: u64) -> [u8; 32] { let mut x = [0u8; 32]; x[0] = 0x55; x[24..32].copy_from_slice(&c.to_be_bytes()); x }
fn room_index(u: &Uid) -> u64 { let mut b = [0u8; 8]; b.copy_from_slice(&u[8..16]); u64::from_be_bytes(b) }

struct Sim {
    svc: RoomLockService,
    rx: BTreeMap<(u64, u64), mpsc::UnboundedReceiver<Uid>>,
    tx: BTreeMap<(u64, u64), mpsc::UnboundedSender<Uid>>,
    dead: HashSet<(u64, u64)>,
}
impl Sim {
    fn new(max: usize) -> Sim { Sim { svc: RoomLockService::start(max), rx: BTreeMap::new(), tx: BTreeMap::new(), dead: HashSet::new() } }
    async fn quiesce(&self) { for _ in 0..8 { self.svc.unlock(uid_of(NOOP_ROOM)).await; } }
    /// sends one message of the history, waits until it has been handled, returns its grants
    async fn apply(&mut self, m: &Msg) -> Vec<(u64, u64, u64)> {
        match m {
            Msg::Request(c, rooms, k) => {
                let key = (*c, *k);
                let sender = if self.dead.contains(&key) {
                    let (s, r) = mpsc::unbounded_channel::<Uid>(); drop(r); s
                } else {
                    if !self.tx.contains_key(&key) {
                        let (s, r) = mpsc::unbounded_channel::<Uid>();
                        self.tx.insert(key, s); self.rx.insert(key, r);
                    }
                    self.tx[&key].clone()
                };
                let q: VecDeque<Uid> = rooms.iter().map(|r| uid_of(*r)).collect();
                self.svc.request_locks(circuit(*c), q, sender).await;
            }
            Msg::Unlock(_, r) => self.svc.unlock(uid_of(*r)).await,
            Msg::Drop(c, k) => { self.rx.remove(&(*c, *k)); self.tx.remove(&(*c, *k)); self.dead.insert((*c, *k)); }
        }
        self.quiesce().await;
        let mut g = vec![];
        for ((c, k), rx) in self.rx.iter_mut() {
            while let Ok(room) = rx.try_recv() { g.push((*c, *k, room_index(&room))); }
        }
        g
    }
}

fn enc(gss: &[Vec<(u64, u64, u64)>]) -> Vec<i64> {
    let mut o = vec![];
    for gs in gss { o.push(gs.len() as i64); for (c, k, r) in gs { o.push(*c as i64); o.push(*k as i64); o.push(*r as i64); } }
    o
}

/// harness-side bookkeeping of who holds what (for generation and for the statistics only;
/// the verdicts are computed in Coq)
#[derive(Default)]
struct Book { holders: Vec<(u64, u64)>, foreign: bool, stale: usize, grants: usize, double_held: bool }
impl Book {
    fn msg(&mut self, m: &Msg) {
        if let Msg::Unlock(w, r) = m {
            if let Some(i) = self.holders.iter().position(|h| h == &(*w, *r)) { self.holders.remove(i); }
            else { self.stale += 1; if self.holders.iter().any(|h| h.1 == *r) { self.foreign = true; } }
        }
    }
    fn grants(&mut self, g: &[(u64, u64, u64)]) {
        for (c, _, r) in g { if self.holders.iter().any(|h| h.1 == *r) { self.double_held = true; } self.holders.push((*c, *r)); self.grants += 1; }
    }
}

async fn run_fixed(kind: &str, max: usize, tr: &[Msg]) -> Case {
    let mut sim = Sim::new(max);
    let mut book = Book::default();
    let mut gss = vec![];
    for m in tr { book.msg(m); let g = sim.apply(m).await; book.grants(&g); gss.push(g); }
    mk_case(kind, max, tr, &gss, &book)
}
fn mk_case(kind: &str, max: usize, tr: &[Msg], gss: &[Vec<(u64, u64, u64)>], book: &Book) -> Case {
    Case { kind: kind.into(),
           coq: format!("CLock {}%nat {}", max, glist(&tr.iter().map(|m| m.coq()).collect::<Vec<_>>())),
           obs: enc(gss),
           meta: json!({"max": max, "msgs": tr.len(), "grants": book.grants, "stale_unlocks": book.stale,
                        "foreign_unlock": book.foreign, "two_holders_seen": book.double_held}) }
}

fn gen_rooms(rng: &mut Rng, nrooms: u64) -> Vec<u64> {
    let n = match rng.below(10) { 0 => 0, 1..=4 => 1, 5..=7 => 2, _ => 3 };
    (0..n).map(|_| 1 + rng.below(nrooms)).collect()   // duplicates possible
}

/// online generation: releases mostly come from the current holder, once
async fn run_random(rng: &mut Rng, adversarial: bool) -> Case {
    let top = if rng.chance(1, 5) { 3 } else { 2 };
    let max = 1 + rng.below(top) as usize;
    let npeers = 1 + rng.below(3);
    let nrooms = 1 + rng.below(3);
    let len = 3 + rng.below(10) as usize;
    let mut sim = Sim::new(max);
    let mut book = Book::default();
    let mut tr = vec![];
    let mut gss = vec![];
    let mut gen_of = vec![0u64; 4];
    for _ in 0..len {
        let roll = rng.below(100);
        let m = if roll < 40 || (book.holders.is_empty() && roll < 80) {
            let c = 1 + rng.below(npeers);
            if rng.chance(1, 12) { gen_of[c as usize] += 1; }       // the connection hands over a new reply channel
            Msg::Request(c, gen_rooms(rng, nrooms), gen_of[c as usize])
        } else if roll < 85 && !book.holders.is_empty() {
            let (c, r) = *rng.pick(&book.holders);                   // disciplined release
            Msg::Unlock(c, r)
        } else if roll < 92 {
            let c = 1 + rng.below(npeers);
            if adversarial { Msg::Unlock(c, 1 + rng.below(nrooms)) }  // possibly not held / held by another
            else {
                // a release of a room nobody holds (harmless) when one exists
                let free: Vec<u64> = (1..=nrooms).filter(|r| !book.holders.iter().any(|h| h.1 == *r)).collect();
                if free.is_empty() { Msg::Request(c, gen_rooms(rng, nrooms), gen_of[c as usize]) } else { Msg::Unlock(c, *rng.pick(&free)) }
            }
        } else {
            let c = 1 + rng.below(npeers);
            let k = if rng.chance(3, 4) { gen_of[c as usize] } else { rng.below(2) };
            // the connection will come back under the same circuit id with a new channel
            if k == gen_of[c as usize] && rng.chance(3, 4) { gen_of[c as usize] += 1; }
            Msg::Drop(c, k)
        };
        book.msg(&m);
        let g = sim.apply(&m).await;
        book.grants(&g);
        gss.push(g);
        tr.push(m);
    }
    mk_case(if adversarial { "random-any-release" } else { "random-holder-release" }, max, &tr, &gss, &book)
}


// ================================================================================================
// connection level: the real process_acquired_room (through the verif hook) and the real cleanup on
// top of the real lock service.  The harness plays (a) the select! loop of LocalPeerService::start
// as far as locks are concerned: it takes the oldest grant out of the lock channel and calls
// process_acquired_room; at the end of the connection it reads acquired_lock, calls cleanup, then
// closes and drains the lock channel (unlocking what it still buffered); (b) the remote end of the room pull: every room task starts with
// Query::RoomDefinition(room); the harness withholds the answer for as long as the task is to stay
// in flight and answers with an error to let it end (every exit path of the task unlocks).
// ================================================================================================
#[derive(Clone, Debug, PartialEq)]
enum CEv { Request(u64, Vec<u64>), Take(u64), TakeFail(u64), Finish(u64, u64), End(u64),
           /// harness-only steps of the real-loop cases (no model event, no observation): complete the RoomList answer
           /// (the loop becomes idle); close the connection's query channel
           HIdle, HCloseQuery }
impl CEv {
    fn coq(&self) -> String {
        match self {
            CEv::Request(c, rooms) => format!("CRequest {} {}", gn(*c), glist(&rooms.iter().map(|r| gn(*r)).collect::<Vec<_>>())),
            CEv::Take(c) => format!("CTake {}", gn(*c)),
            CEv::TakeFail(c) => format!("CTakeFail {}", gn(*c)),
            CEv::HIdle | CEv::HCloseQuery => String::new(),
            CEv::Finish(c, r) => format!("CFinish {} {}", gn(*c), gn(*r)),
            CEv::End(c) => format!("CEnd {}", gn(*c)),
        }
    }
}
struct Shared { services: DiscretServices, peers: PeerConnectionService, _peer_rx: mpsc::Receiver<PeerConnectionMessage>, path: std::path::PathBuf,
                /// a second instance: the remote peer whose identity the real connection loop verifies
                remote: GraphDatabaseService, remote_key: Vec<u8>, local_key: Vec<u8> }
async fn shared() -> Shared {
    let path: std::path::PathBuf = format!("{}/C20/inst", std::env::var("VERIF_WORK").unwrap_or("/verif/work".into())).into();
    let _ = std::fs::remove_dir_all(&path);
    std::fs::create_dir_all(&path).unwrap();
    let events = EventService::new();
    let mut tries = 0;
    let (db, local_key_of_db, _) = loop {
        match GraphDatabaseService::start("c20", "ns { Person{ name:String } }", &random32(), &random32(), path.clone(), &Configuration::default(), events.clone()).await {
            Ok(x) => break x,
            Err(e) => { tries += 1; if tries > 20 { panic!("instance does not start: {}", e); } tokio::time::sleep(std::time::Duration::from_millis(300)).await; }
        }
    };
    let (sender, rx) = mpsc::channel::<PeerConnectionMessage>(64);
    let path_b: std::path::PathBuf = path.join("remote");
    std::fs::create_dir_all(&path_b).unwrap();
    let mut tries = 0;
    let (remote, remote_key, _) = loop {
        match GraphDatabaseService::start("c20", "ns { Person{ name:String } }", &random32(), &random32(), path_b.clone(), &Configuration::default(), EventService::new()).await {
            Ok(x) => break x,
            Err(e) => { tries += 1; if tries > 20 { panic!("instance does not start: {}", e); } tokio::time::sleep(std::time::Duration::from_millis(300)).await; }
        }
    };
    let local_key = local_key_of_db.clone();
    Shared { remote, remote_key, local_key, services: DiscretServices { events, database: db, signature_verification: SignatureVerificationService::start(1) }, peers: PeerConnectionService { sender }, _peer_rx: rx, path }
}
struct ConnState {
    tx: mpsc::UnboundedSender<Uid>, rx: Option<mpsc::UnboundedReceiver<Uid>>, inbox: VecDeque<u64>,
    acquired: Arc<Mutex<HashSet<Uid>>>, qs: QueryService, q_rx: mpsc::Receiver<QueryProtocol>, a_tx: Option<mpsc::Sender<Answer>>,
    running: Vec<(u64, u64)>,   // (room, id of the withheld query)
    ended: bool,
}
struct ConnSim { svc: RoomLockService, conns: BTreeMap<u64, ConnState>, broken: bool }
impl ConnSim {
    fn new(max: usize) -> ConnSim { ConnSim { svc: RoomLockService::start(max), conns: BTreeMap::new(), broken: false } }
    fn conn(&mut self, c: u64) -> &mut ConnState {
        self.conns.entry(c).or_insert_with(|| {
            let (tx, rx) = mpsc::unbounded_channel::<Uid>();
            let (q_tx, q_rx) = mpsc::channel::<QueryProtocol>(64);
            let (a_tx, a_rx) = mpsc::channel::<Answer>(64);
            ConnState { tx, rx: Some(rx), inbox: VecDeque::new(), acquired: Arc::new(Mutex::new(HashSet::new())), qs: QueryService::start(q_tx, a_rx), q_rx, a_tx: Some(a_tx), running: vec![], ended: false }
        })
    }
    async fn quiesce(&self) { for _ in 0..8 { self.svc.unlock(uid_of(NOOP_ROOM)).await; } }
    fn drain(&mut self) -> Vec<(u64, u64, u64)> {
        let mut g = vec![];
        for (c, st) in self.conns.iter_mut() {
            if let Some(rx) = st.rx.as_mut() { while let Ok(room) = rx.try_recv() { let r = room_index(&room); st.inbox.push_back(r); g.push((*c, 0, r)); } }
        }
        g
    }
    async fn apply(&mut self, sh: &Shared, e: &CEv) -> Vec<(u64, u64, u64)> {
        let mut end_of: Option<u64> = None;
        match e {
            CEv::Request(c, rooms) => {
                let svc = self.svc.clone();
                let st = self.conn(*c);
                if !st.ended { svc.request_locks(circuit(*c), rooms.iter().map(|r| uid_of(*r)).collect(), st.tx.clone()).await; }
            }
            CEv::Take(c) => {
                let svc = self.svc.clone();
                let st = self.conn(*c);
                if !st.ended {
                    if let Some(r) = st.inbox.pop_front() {
                        LocalPeerService::verif_process_acquired_room(uid_of(r), st.acquired.clone(), st.qs.clone(), svc, sh.peers.clone(), &sh.services).await.unwrap();
                        // the task inserts the room into acquired_lock, then asks the remote for the room definition
                        match tokio::time::timeout(std::time::Duration::from_secs(8), st.q_rx.recv()).await {
                            Ok(Some(QueryProtocol { id, query: Query::RoomDefinition(room) })) if room == uid_of(r) => st.running.push((r, id)),
                            _ => self.broken = true,
                        }
                    }
                }
            }
            CEv::TakeFail(c) => {
                // the remote side of the connection's query channel is gone: the task started for the oldest grant fails at
                // its first request and unlocks at once.  If process_acquired_room itself fails, the loop of
                // LocalPeerService::start breaks: the harness then plays the end of the connection, as the caller does
                let svc = self.svc.clone();
                let st = self.conn(*c);
                if !st.ended {
                    if st.a_tx.take().is_some() { settle().await; }
                    if let Some(r) = st.inbox.pop_front() {
                        let before = Arc::strong_count(&st.acquired);
                        let res = LocalPeerService::verif_process_acquired_room(uid_of(r), st.acquired.clone(), st.qs.clone(), svc.clone(), sh.peers.clone(), &sh.services).await;
                        if res.is_err() {
                            let mut rooms: Vec<Uid> = st.acquired.lock().await.iter().cloned().collect();
                            rooms.sort_by_key(|u| room_index(u));
                            LocalPeerService::cleanup(&svc, rooms).await;
                            for _ in 0..8 { svc.unlock(uid_of(NOOP_ROOM)).await; }
                            end_of = Some(*c);
                        } else {
                            let mut ok = false;
                            for _ in 0..16000 { settle().await; if Arc::strong_count(&st.acquired) <= before { ok = true; break; } tokio::time::sleep(std::time::Duration::from_micros(500)).await; }
                            if !ok { self.broken = true; }
                        }
                    }
                }
            }
            CEv::HIdle | CEv::HCloseQuery => {}
            CEv::Finish(c, r) => {
                let st = self.conn(*c);
                if let Some(pos) = st.running.iter().position(|x| x.0 == *r) {
                    let (_, id) = st.running.remove(pos);
                    let before = Arc::strong_count(&st.acquired);
                    if let Some(a) = st.a_tx.as_ref() { let _ = a.send(Answer { id, success: false, complete: true, serialized: bincode::serialize(&SyncError::Authorisation("withheld".into())).unwrap() }).await; }
                    // the task ends (unlock, then acquired_lock.remove) and drops its handle on acquired_lock
                    let mut ok = false;
                    for _ in 0..16000 { if Arc::strong_count(&st.acquired) < before { ok = true; break; } tokio::time::sleep(std::time::Duration::from_micros(500)).await; }
                    if !ok { self.broken = true; }
                }
            }
            CEv::End(c) => {
                let svc = self.svc.clone();
                let st = self.conn(*c);
                if !st.ended {
                    // LocalPeerService::start after its loop: cleanup(acquired_lock), then close + drain lock_receiver
                    let mut rooms: Vec<Uid> = st.acquired.lock().await.iter().cloned().collect();
                    rooms.sort_by_key(|u| room_index(u));
                    LocalPeerService::cleanup(&svc, rooms).await;
                    // schedule chosen here: the service handles these unlocks while the channel is still open, so a
                    // room re-granted to this very connection lands in the channel that is about to be closed
                    for _ in 0..8 { svc.unlock(uid_of(NOOP_ROOM)).await; }
                    end_of = Some(*c);
                }
            }
        }
        let mut g = vec![];
        if let Some(c) = end_of {
            g = self.drain();
            let svc = self.svc.clone();
            let st = self.conn(c);
            // lock_receiver.close(); while let Some(room) = lock_receiver.recv().await { lock_service.unlock(room).await; }
            // (what the channel buffered has been moved into `inbox` by the harness' own draining, oldest first)
            if let Some(rx) = st.rx.as_mut() {
                rx.close();
                while let Some(room) = rx.recv().await { st.inbox.push_back(room_index(&room)); }
            }
            while let Some(r) = st.inbox.pop_front() { svc.unlock(uid_of(r)).await; }
            st.rx = None;
            st.ended = true;
        }
        self.quiesce().await;
        g.extend(self.drain());
        g.sort_by_key(|x| (x.0, x.1));
        g
    }
    fn tasks(&self) -> Vec<(u64, u64)> {
        let mut t: Vec<(u64, u64)> = self.conns.iter().flat_map(|(c, st)| st.running.iter().map(|x| (*c, x.0)).collect::<Vec<_>>()).collect();
        t.sort(); t
    }
    /// lets every task that is still in flight end (not part of the observation)
    async fn shutdown(&mut self) {
        for (_, st) in self.conns.iter_mut() {
            for (_, id) in st.running.drain(..) {
                if let Some(a) = st.a_tx.as_ref() { let _ = a.send(Answer { id, success: false, complete: true, serialized: bincode::serialize(&SyncError::Authorisation("end".into())).unwrap() }).await; }
            }
        }
    }
}
#[derive(Default)]
struct CStats { grants: usize, takes: usize, finishes: usize, ends: usize, end_with_task: usize, end_with_inbox: usize, two_tasks_one_room: bool, max_tasks: usize }
async fn conn_event(sim: &mut ConnSim, sh: &Shared, e: &CEv, obs: &mut Vec<i64>, st: &mut CStats) {
    if let CEv::End(c) = e { let cs = sim.conn(*c); if !cs.ended { st.ends += 1; if !cs.running.is_empty() { st.end_with_task += 1; } if !cs.inbox.is_empty() { st.end_with_inbox += 1; } } }
    let before = sim.tasks().len();
    let g = sim.apply(sh, e).await;
    let t = sim.tasks();
    if let CEv::Take(_) = e { if t.len() > before { st.takes += 1; } }
    if let CEv::Finish(_, _) = e { if t.len() < before { st.finishes += 1; } }
    st.grants += g.len(); st.max_tasks = st.max_tasks.max(t.len());
    let mut rooms: Vec<u64> = t.iter().map(|x| x.1).collect(); rooms.sort(); let n = rooms.len(); rooms.dedup(); if rooms.len() < n { st.two_tasks_one_room = true; }
    obs.push(g.len() as i64); for (c, k, r) in &g { obs.push(*c as i64); obs.push(*k as i64); obs.push(*r as i64); }
    obs.push(t.len() as i64); for (c, r) in &t { obs.push(*c as i64); obs.push(*r as i64); }
}
fn conn_case(kind: &str, max: usize, evs: &[CEv], obs: Vec<i64>, st: &CStats, broken: bool) -> Case {
    Case { kind: kind.into(), coq: format!("CConn {}%nat {}", max, glist(&evs.iter().map(|e| e.coq()).filter(|x| !x.is_empty()).collect::<Vec<_>>())), obs,
           meta: json!({"max": max, "events": evs.len(), "grants": st.grants, "takes": st.takes, "finishes": st.finishes, "ends": st.ends,
                        "end_with_running_task": st.end_with_task, "end_with_waiting_grant": st.end_with_inbox, "two_tasks_one_room": st.two_tasks_one_room,
                        "max_tasks": st.max_tasks, "harness_sync_broken": broken}) }
}
async fn run_conn_fixed(sh: &Shared, kind: &str, max: usize, evs: &[CEv]) -> Case {
    let mut sim = ConnSim::new(max);
    let mut obs = vec![]; let mut st = CStats::default();
    for e in evs { conn_event(&mut sim, sh, e, &mut obs, &mut st).await; }
    sim.shutdown().await;
    conn_case(kind, max, evs, obs, &st, sim.broken)
}
/// online generation; at the end every task is finished and a fresh connection asks for every room, one at a time
async fn run_conn_random(sh: &Shared, rng: &mut Rng, careless_ends: bool) -> Case {
    let max = 1 + rng.below(2) as usize;
    let nconn = 1 + rng.below(3);
    let nrooms = 1 + rng.below(3);
    let len = 4 + rng.below(12) as usize;
    let mut sim = ConnSim::new(max);
    let mut obs = vec![]; let mut st = CStats::default(); let mut evs = vec![];
    let mut script: VecDeque<CEv> = VecDeque::new();
    for _ in 0..len {
        let with_inbox: Vec<u64> = sim.conns.iter().filter(|(_, s)| !s.ended && !s.inbox.is_empty()).map(|(c, _)| *c).collect();
        let running = sim.tasks();
        let roll = rng.below(100);
        let e = if let Some(e) = script.pop_front() { e } else if roll < 30 || (with_inbox.is_empty() && running.is_empty() && roll < 85) {
            CEv::Request(1 + rng.below(nconn), gen_rooms(rng, nrooms))
        } else if roll < 58 && !with_inbox.is_empty() { CEv::Take(*rng.pick(&with_inbox)) }
        else if roll < 85 && !running.is_empty() { let (c, r) = *rng.pick(&running); CEv::Finish(c, r) }
        else if roll < 95 {
            let c = 1 + rng.below(nconn);
            let idle = sim.conns.get(&c).map(|s| s.inbox.is_empty() && s.running.is_empty()).unwrap_or(true);
            if idle || careless_ends { CEv::End(c) } else { CEv::Take(c) }
        } else { match rng.below(3) { 0 => CEv::Take(1 + rng.below(nconn)), 1 => CEv::Finish(1 + rng.below(nconn), 1 + rng.below(nrooms)), _ => CEv::Request(1 + rng.below(nconn), vec![]) } };
        // a connection that ends while its task runs: sometimes the room is wanted by two others right away
        if let CEv::End(c) = &e {
            let r = sim.conns.get(c).and_then(|s| if s.ended { None } else { s.running.first().map(|x| x.0) });
            if let Some(r) = r { if rng.chance(1, 2) {
                let c2 = 1 + (*c % 3); let c3 = 1 + (c2 % 3);
                script.extend([CEv::Request(c2, vec![r]), CEv::Take(c2), CEv::Finish(*c, r), CEv::Request(c3, vec![r]), CEv::Take(c3)]);
            } }
        }
        conn_event(&mut sim, sh, &e, &mut obs, &mut st).await;
        evs.push(e);
    }
    for (c, r) in sim.tasks() { let e = CEv::Finish(c, r); conn_event(&mut sim, sh, &e, &mut obs, &mut st).await; evs.push(e); }
    for r in 1..=nrooms {
        for e in [CEv::Request(9, vec![r]), CEv::Take(9), CEv::Finish(9, r)] { conn_event(&mut sim, sh, &e, &mut obs, &mut st).await; evs.push(e); }
    }
    sim.shutdown().await;
    conn_case(if careless_ends { "conn-random-any-end" } else { "conn-random-idle-end" }, max, &evs, obs, &st, sim.broken)
}


// ================================================================================================
// connection 1 as a REAL LocalPeerService::start task (handshake, select! loop, end-of-connection
// code), on the same lock service as the played connections.  The harness is the remote peer: it
// proves an identity (a second instance signs the challenge), announces Ready, and answers the
// RoomList request batch by batch WITHOUT completing it: the loop stays inside the Ready handler
// (it requests locks for every batch and takes no grant), until an error batch makes the handler
// fail: the loop breaks and the real end-of-connection code runs (cleanup, close + drain of the
// lock channel, disconnect).  The channel of the peer service is kept full so that the task waits in
// `disconnect` with its lock receiver still alive while the service handles the unlocks: a grant
// that can still be sent to this connection at that moment is lost for ever.
// The runtime is single threaded: after each stimulus the harness yields until every task is idle.
// ================================================================================================
struct RealConn {
    remote_events: Option<mpsc::Sender<RemoteEvent>>, _local_events: broadcast::Sender<LocalEvent>, _events_out: mpsc::Receiver<RemoteEvent>,
    q_rx: mpsc::Receiver<QueryProtocol>, a_tx: Option<mpsc::Sender<Answer>>, peer_tx: mpsc::Sender<PeerConnectionMessage>, peer_rx: mpsc::Receiver<PeerConnectionMessage>,
    _inbound_q: mpsc::Sender<QueryProtocol>, _inbound_a: mpsc::Receiver<Answer>, room_list_id: u64, ended: bool, idle: bool,
}
async fn settle() { for _ in 0..300 { tokio::task::yield_now().await; } }
async fn open_real_conn(sh: &Shared, svc: &RoomLockService) -> Option<RealConn> {
    let (remote_events, rx_re) = mpsc::channel::<RemoteEvent>(16);
    let (local_tx, local_rx) = broadcast::channel::<LocalEvent>(16);
    let (ev_tx, mut ev_rx) = mpsc::channel::<RemoteEvent>(16);
    let (q_tx, mut q_rx) = mpsc::channel::<QueryProtocol>(64);
    let (a_tx, a_rx) = mpsc::channel::<Answer>(64);
    let (peer_tx, mut peer_rx) = mpsc::channel::<PeerConnectionMessage>(4);
    let peers = PeerConnectionService { sender: peer_tx.clone() };
    let key = Arc::new(Mutex::new(Vec::<u8>::new()));
    let ready = Arc::new(AtomicBool::new(true));
    let (in_q_tx, in_q_rx) = mpsc::channel::<QueryProtocol>(4);
    let (in_a_tx, in_a_rx) = mpsc::channel::<Answer>(4);
    let conn_id = uid_of(424242);
    let inbound = InboundQueryService::start(HardwareFingerprint { id: [7u8; 16], name: "hw".into() }, circuit(1), conn_id,
        RemotePeerHandle { allowed_room: HashSet::new(), db: sh.services.database.clone(), verifying_key: sh.local_key.clone(), reply: in_a_tx },
        in_q_rx, peers.clone(), key.clone(), ready.clone());
    let info = ConnectionInfo { endpoint_id: uid_of(1), remote_id: uid_of(2), conn_id, meeting_token: Default::default(), peer_verifying_key: sh.remote_key.clone() };
    LocalPeerService::start(rx_re, local_rx, circuit(1), info, sh.local_key.clone(), TokenType::OwnedInvite(OwnedInvite { id: uid_of(3), room: None, authorisation: None }),
        key, ready, svc.clone(), QueryService::start(q_tx, a_rx), ev_tx, peers, inbound, &sh.services);
    // handshake: prove the identity of the remote instance
    let qp = tokio::time::timeout(std::time::Duration::from_secs(8), q_rx.recv()).await.ok()??;
    let challenge = match qp.query { Query::ProveIdentity(c) => c, _ => return None };
    let sig = sh.remote.sign(challenge).await;
    let peer = sh.remote.get_peer_node(sh.remote_key.clone()).await.ok()??;
    a_tx.send(Answer { id: qp.id, success: true, complete: true, serialized: bincode::serialize(&IdentityAnswer { peer, chall_signature: sig.1 }).unwrap() }).await.ok()?;
    // InviteAccepted, Ready (to the remote), PeerConnected
    for _ in 0..2 { tokio::time::timeout(std::time::Duration::from_secs(8), peer_rx.recv()).await.ok()??; }
    match tokio::time::timeout(std::time::Duration::from_secs(8), ev_rx.recv()).await.ok()?? { RemoteEvent::Ready => {} _ => return None }
    // the remote is ready too: the loop asks for the room list and stays in that handler
    remote_events.send(RemoteEvent::Ready).await.ok()?;
    let qp = tokio::time::timeout(std::time::Duration::from_secs(8), q_rx.recv()).await.ok()??;
    if !matches!(qp.query, Query::RoomList) { return None; }
    Some(RealConn { remote_events: Some(remote_events), _local_events: local_tx, _events_out: ev_rx, q_rx, a_tx: Some(a_tx), peer_tx, peer_rx, _inbound_q: in_q_tx, _inbound_a: in_a_rx, room_list_id: qp.id, ended: false, idle: false })
}
async fn run_loop_fixed(sh: &Shared, kind: &str, max: usize, evs: &[CEv]) -> Case {
    let mut sim = ConnSim::new(max);
    let mut obs = vec![]; let mut st = CStats::default();
    let mut real = open_real_conn(sh, &sim.svc).await;
    if real.is_none() { sim.broken = true; }
    for e in evs {
        let mine = matches!(e, CEv::Request(1, _) | CEv::Take(1) | CEv::TakeFail(1) | CEv::Finish(1, _) | CEv::End(1) | CEv::HIdle | CEv::HCloseQuery);
        if !mine { conn_event(&mut sim, sh, e, &mut obs, &mut st).await; continue; }
        if let Some(rc) = real.as_mut() {
            match e {
                CEv::Request(_, rooms) if !rc.ended => {
                    let batch: VecDeque<Uid> = rooms.iter().map(|r| uid_of(*r)).collect();
                    if let Some(a) = rc.a_tx.as_ref() { let _ = a.send(Answer { id: rc.room_list_id, success: true, complete: false, serialized: bincode::serialize(&batch).unwrap() }).await; }
                    settle().await;
                }
                CEv::HIdle if !rc.ended => {
                    // the RoomList answer is complete: the loop leaves the Ready handler and is idle
                    if let Some(a) = rc.a_tx.as_ref() { let _ = a.send(Answer { id: rc.room_list_id, success: true, complete: true, serialized: bincode::serialize(&"").unwrap() }).await; }
                    rc.idle = true;
                    settle().await;
                    continue;
                }
                CEv::HCloseQuery if !rc.ended => {
                    // the remote end of the query channel goes away: the QueryService of the connection stops
                    rc.a_tx = None;
                    settle().await; sim.quiesce().await; settle().await;
                    continue;
                }
                CEv::TakeFail(_) => { settle().await; sim.quiesce().await; settle().await; }     // taken by the real loop as soon as it could
                CEv::End(_) if !rc.ended => {
                    st.ends += 1;
                    // keep the task waiting in `disconnect`, its lock receiver alive
                    while rc.peer_tx.try_send(PeerConnectionMessage::SendAnnounce()).is_ok() {}
                    match (rc.idle, rc.a_tx.as_ref()) {
                        // busy loop: an error batch makes the Ready handler fail
                        (false, Some(a)) => { let _ = a.send(Answer { id: rc.room_list_id, success: false, complete: false, serialized: bincode::serialize(&SyncError::Authorisation("end".into())).unwrap() }).await; }
                        // idle loop (or query channel gone): the remote event channel closes
                        _ => { rc.remote_events = None; }
                    }
                    settle().await;
                    sim.quiesce().await;      // the service handles what cleanup / the drain released ...
                    settle().await;
                    sim.quiesce().await;
                    // ... then the task may finish: it must have announced its disconnection
                    let mut seen = false;
                    loop {
                        match tokio::time::timeout(std::time::Duration::from_secs(8), rc.peer_rx.recv()).await {
                            Ok(Some(PeerConnectionMessage::PeerDisconnected(..))) => { seen = true; break; }
                            Ok(Some(_)) => {}
                            _ => break,
                        }
                    }
                    if !seen { sim.broken = true; }
                    settle().await;
                    rc.ended = true;
                }
                _ => {}      // a loop that is kept busy takes no grant; it has no task to finish
            }
        }
        sim.quiesce().await;
        let mut g = sim.drain(); g.sort_by_key(|x| (x.0, x.1));
        let t = sim.tasks();
        st.grants += g.len();
        obs.push(g.len() as i64); for (c, k, r) in &g { obs.push(*c as i64); obs.push(*k as i64); obs.push(*r as i64); }
        obs.push(t.len() as i64); for (c, r) in &t { obs.push(*c as i64); obs.push(*r as i64); }
    }
    sim.shutdown().await;
    if let Some(rc) = real.as_mut() { let _ = &rc.q_rx; }
    let mut c = conn_case(kind, max, evs, obs, &st, sim.broken);
    c.coq = c.coq.replacen("CConn", "CLoop", 1);
    c
}

fn alphabet(small: bool) -> Vec<Msg> {
    let mut a = vec![];
    let room_sets: Vec<Vec<u64>> = if small { vec![vec![1], vec![1, 2]] } else { vec![vec![1], vec![2], vec![1, 2]] };
    for c in 1..=2u64 { for rs in &room_sets { a.push(Msg::Request(c, rs.clone(), 0)); } }
    for c in 1..=2u64 { for r in 1..=2u64 { a.push(Msg::Unlock(c, r)); } }
    a.push(Msg::Drop(1, 0));
    a.push(Msg::Request(1, vec![1], 1));       // connection 1 comes back with a new reply channel
    if !small { a.push(Msg::Drop(2, 0)); a.push(Msg::Request(3, vec![2, 1], 0)); a.push(Msg::Unlock(3, 1)); }
    a
}

#[tokio::main(flavor = "current_thread")]
async fn main() {
    let mut out = Out::create();
    let mut rng = Rng::from_env();
    use Msg::*;
    // ---- directed cases ----
    // K1: a release by a connection that no longer holds the room frees another connection's lock
    out.push(run_fixed("directed-K1-stale-unlock", 1, &[Request(1, vec![5], 0), Unlock(1, 5), Request(2, vec![5], 0), Unlock(1, 5), Request(3, vec![5], 0)]).await);
    // the same through a connection end: cleanup unlocks, the room is re-granted, the old task unlocks again
    out.push(run_fixed("directed-K1-cleanup-then-task", 2, &[Request(1, vec![5, 6], 0), Unlock(1, 5), Drop(1, 0), Request(2, vec![5], 0), Unlock(1, 5), Request(3, vec![5], 0), Unlock(2, 5), Unlock(3, 5)]).await);
    // a grant that is never released keeps its room and its slot
    out.push(run_fixed("directed-grant-never-released", 1, &[Request(1, vec![5], 0), Drop(1, 0), Request(2, vec![5, 6], 0), Request(2, vec![6], 0)]).await);
    out.push(run_fixed("directed-duplicate-rooms", 2, &[Request(1, vec![5, 5], 0), Unlock(1, 5), Unlock(1, 5), Request(1, vec![5, 5, 6, 6], 0), Request(1, vec![6, 5, 7, 7], 0), Unlock(1, 6), Unlock(1, 5), Unlock(1, 7)]).await);
    out.push(run_fixed("directed-empty-request", 1, &[Request(1, vec![5], 0), Request(2, vec![], 0), Request(2, vec![5, 5], 0), Unlock(1, 5), Unlock(2, 5)]).await);
    out.push(run_fixed("directed-new-reply-channel", 1, &[Request(1, vec![5], 0), Request(2, vec![5, 6], 0), Request(2, vec![], 1), Unlock(1, 5), Unlock(2, 6), Unlock(2, 5)]).await);
    out.push(run_fixed("directed-dead-channel", 2, &[Request(1, vec![5], 0), Request(2, vec![5, 6, 7], 0), Drop(2, 0), Request(3, vec![5, 6], 0), Unlock(1, 5), Request(2, vec![7], 0), Request(2, vec![7], 1), Unlock(3, 6), Unlock(3, 5), Unlock(2, 7)]).await);
    out.push(run_fixed("directed-rotation", 1, &[Request(1, vec![1, 2, 3], 0), Request(2, vec![1, 2, 3], 0), Request(3, vec![3, 2, 1], 0), Unlock(1, 3), Unlock(2, 3), Unlock(3, 1), Unlock(1, 2), Unlock(2, 2), Unlock(3, 2), Unlock(1, 1), Unlock(2, 1), Unlock(3, 3)]).await);
    // former K3 (starvation, fixed by 11e9468): limit 2; 1 waits for room 5; the holders of rooms 6 and 5 release them in
    // turn (6 first) and ask for them again at once.  Played online (whoever holds releases): before the fix connection 1
    // was never served; now it must be, and the overtaking bound of the oracle must hold
    {
        let mut sim = Sim::new(2);
        let mut book = Book::default();
        let mut tr = vec![Request(3, vec![5], 0), Request(2, vec![6], 0), Request(1, vec![5], 0), Request(2, vec![6], 0), Request(3, vec![5], 0)];
        let mut gss = vec![];
        for m in tr.clone().iter() { book.msg(m); let g = sim.apply(m).await; book.grants(&g); gss.push(g); }
        for _ in 0..12 {
            for room in [6u64, 5u64] {
                if let Some(&(c, _)) = book.holders.iter().find(|h| h.1 == room) {
                    for m in [Unlock(c, room), Request(c, vec![room], 0)] { book.msg(&m); let g = sim.apply(&m).await; book.grants(&g); gss.push(g); tr.push(m); }
                }
            }
        }
        out.push(mk_case("directed-fixedK3-starvation-pattern", 2, &tr, &gss, &book));
        // the static schedule of the Coq witness C20_former_starvation_schedule_holds
        out.push(run_fixed("directed-fixedK3-schedule", 2, &[Request(3, vec![5], 0), Request(2, vec![6], 0), Request(1, vec![5], 0), Request(2, vec![6], 0), Request(3, vec![5], 0),
            Unlock(2, 6), Request(2, vec![6], 0), Unlock(3, 5), Request(3, vec![5], 0), Unlock(2, 6), Request(2, vec![6], 0), Unlock(1, 5), Request(1, vec![5], 0),
            Unlock(2, 6), Unlock(3, 5), Unlock(2, 6), Unlock(1, 5)]).await);
    }
    // a peer reconnects under the same circuit id with a new reply channel after its old channel died while it was waiting;
    // in between another circuit asks for rooms.  What it asks for on the new channel is owed again
    out.push(run_fixed("directed-reconnect-same-circuit", 1, &[Request(2, vec![5], 0), Request(1, vec![5], 0), Drop(1, 0), Request(3, vec![6], 0), Request(1, vec![5], 1), Unlock(2, 5), Unlock(1, 5), Unlock(3, 6)]).await);
    out.push(run_fixed("directed-reconnect-same-circuit-free-room", 2, &[Request(2, vec![5], 0), Request(1, vec![5], 0), Drop(1, 0), Request(3, vec![6], 0), Request(1, vec![7], 1), Unlock(1, 7), Unlock(2, 5), Request(1, vec![5, 6], 1), Unlock(3, 6), Unlock(1, 6), Unlock(1, 5)]).await);
    out.push(run_fixed("directed-release-not-held", 2, &[Unlock(1, 5), Request(1, vec![5], 0), Unlock(2, 6), Unlock(1, 5), Unlock(1, 5), Request(2, vec![5], 0)]).await);

    // ---- exhaustive enumeration over a small alphabet (the state space for small bounds is finite) ----
    let mut plans: Vec<(Vec<Msg>, usize)> = vec![(alphabet(true), 3)];
    if tier_thorough() { plans = vec![(alphabet(true), 4), (alphabet(false), 3)]; }
    for (alpha, depth) in plans {
        let n = alpha.len();
        let mut total = 1usize; for _ in 0..depth { total *= n; }
        for max in 1..=2usize {
            for code in 0..total {
                let mut x = code; let mut tr = vec![];
                for _ in 0..depth { tr.push(alpha[x % n].clone()); x /= n; }
                out.push(run_fixed("exhaustive", max, &tr).await);
            }
        }
    }
    // ---- random histories ----
    let nr = scale(600, 6000);
    for i in 0..nr {
        let mut r = rng.fork();
        out.push(run_random(&mut r, i % 4 == 3).await);
    }
    // ---- connection level ----
    let sh = shared().await;
    {
        use CEv::*;
        // K1 without any misbehaving caller: the connection ends while its room task runs
        out.push(run_conn_fixed(&sh, "conn-directed-K1-end-while-task-runs", 1, &[Request(1, vec![5]), Take(1), End(1), Request(2, vec![5]), Take(2), Finish(1, 5), Request(3, vec![5]), Take(3), Finish(2, 5), Finish(3, 5)]).await);
        // former K2 (fixed by 2487a5d): a grant waits in the lock channel of a connection that ends; it must be released
        out.push(run_conn_fixed(&sh, "conn-directed-fixedK2-grant-waiting-at-end", 2, &[Request(1, vec![5]), End(1), Request(9, vec![5]), Request(9, vec![6]), Take(9), Finish(9, 6), Request(8, vec![5])]).await);
        out.push(run_conn_fixed(&sh, "conn-directed-fixedK2-slot-free-again", 1, &[Request(1, vec![5]), End(1), Request(9, vec![5]), Take(9), Finish(9, 5), Request(8, vec![6])]).await);
        // ends of idle connections release everything
        out.push(run_conn_fixed(&sh, "conn-directed-idle-end", 2, &[Request(1, vec![5, 6]), Take(1), Take(1), Request(2, vec![5, 7]), Finish(1, 6), Take(2), Finish(1, 5), End(1), Take(2), Finish(2, 5), Finish(2, 7), End(2), Request(9, vec![5]), Take(9), Finish(9, 5), Request(9, vec![6]), Request(1, vec![7])]).await);
        // end while a task runs, but nobody wants the room before the task ends: harmless
        out.push(run_conn_fixed(&sh, "conn-directed-end-with-task-harmless", 1, &[Request(1, vec![5]), Take(1), End(1), Finish(1, 5), Request(2, vec![5]), Take(2), Finish(2, 5)]).await);
        // exhaustive over a small alphabet
        let alpha = vec![Request(1, vec![1]), Request(2, vec![1]), Request(2, vec![1, 2]), Take(1), Take(2), Finish(1, 1), Finish(2, 1), End(1)];
        let depth = if tier_thorough() { 4usize } else { 3usize };
        let n = alpha.len(); let mut total = 1usize; for _ in 0..depth { total *= n; }
        for code in 0..total {
            let mut x = code; let mut evs = vec![];
            for _ in 0..depth { evs.push(alpha[x % n].clone()); x /= n; }
            // probe: what is held is finished, then a fresh connection asks for the room
            evs.extend([Finish(1, 1), Finish(2, 1), Finish(2, 2), Request(9, vec![1]), Take(9), Finish(9, 1)]);
            out.push(run_conn_fixed(&sh, "conn-exhaustive", 1, &evs).await);
        }
    }
    {
        use CEv::*;
        // a grant waits in the lock channel of the real loop when the connection ends: released (2487a5d)
        out.push(run_loop_fixed(&sh, "loop-directed-grant-waiting-at-end", 2, &[Request(1, vec![5]), End(1), Request(9, vec![5]), Take(9), Finish(9, 5)]).await);
        // one room granted, one still pending: the drain frees the first, the second must NOT be sent into the closing channel
        out.push(run_loop_fixed(&sh, "loop-directed-pending-room-at-end", 1, &[Request(1, vec![5, 6]), End(1), Request(9, vec![6]), Take(9), Finish(9, 6), Request(9, vec![5]), Take(9), Finish(9, 5)]).await);
        out.push(run_loop_fixed(&sh, "loop-directed-two-grants-waiting", 2, &[Request(2, vec![5]), Take(2), Request(1, vec![5]), Request(1, vec![6, 7]), Finish(2, 5), End(1), Request(9, vec![5]), Take(9), Finish(9, 5), Request(9, vec![6]), Take(9), Finish(9, 6), Request(9, vec![7]), Take(9), Finish(9, 7)]).await);
        out.push(run_loop_fixed(&sh, "loop-directed-others-waiting-at-end", 1, &[Request(1, vec![5, 6, 7]), Request(2, vec![7, 6]), End(1), Take(2), Finish(2, 6), Take(2), Finish(2, 7), Request(9, vec![5]), Take(9), Finish(9, 5), Request(9, vec![6])]).await);
    }
    {
        use CEv::*;
        // the remote query channel goes away while the loop is IDLE; then a grant reaches the connection: the loop takes it, the
        // task fails at once and unlocks; nothing the connection was granted may stay locked after it ended
        out.push(run_loop_fixed(&sh, "loop-directed-query-closed-then-grant", 2, &[Request(2, vec![5]), Take(2), Request(1, vec![5]), HIdle, HCloseQuery, Finish(2, 5), TakeFail(1), End(1), Request(9, vec![5]), Take(9), Finish(9, 5)]).await);
        // the query channel goes away while a grant WAITS in the lock channel of a busy loop: the handler returns, the loop takes the grant
        out.push(run_loop_fixed(&sh, "loop-directed-grant-waiting-then-query-closed", 1, &[Request(1, vec![5]), HCloseQuery, TakeFail(1), End(1), Request(9, vec![5]), Take(9), Finish(9, 5), Request(9, vec![6])]).await);
        out.push(run_loop_fixed(&sh, "loop-directed-two-grants-then-query-closed", 2, &[Request(1, vec![5, 6]), HCloseQuery, TakeFail(1), TakeFail(1), End(1), Request(9, vec![5]), Take(9), Finish(9, 5), Request(9, vec![6]), Take(9), Finish(9, 6)]).await);
        // played variant: the grant is taken, the task cannot start / fails, later the connection ends
        out.push(run_conn_fixed(&sh, "conn-directed-take-with-closed-query", 1, &[Request(1, vec![5]), TakeFail(1), Request(2, vec![5]), Take(2), Finish(2, 5), End(1), Request(9, vec![5]), Take(9), Finish(9, 5)]).await);
        out.push(run_conn_fixed(&sh, "conn-directed-take-with-closed-query-2", 2, &[Request(1, vec![5, 6]), Take(1), TakeFail(1), Finish(1, 6), End(1), Request(9, vec![5]), Request(9, vec![6]), Take(9), Take(9), Finish(9, 5), Finish(9, 6)]).await);
    }
    let nl = scale(40, 400);
    for _ in 0..nl {
        let mut r = rng.fork();
        let max = 1 + r.below(2) as usize;
        let nrooms = 2 + r.below(2);
        let mut evs = vec![];
        let mut held2: Vec<u64> = vec![];
        for _ in 0..(2 + r.below(6)) {
            match r.below(10) {
                0..=4 => evs.push(CEv::Request(1, gen_rooms(&mut r, nrooms))),
                5..=6 => evs.push(CEv::Request(2, gen_rooms(&mut r, nrooms))),
                7 => { evs.push(CEv::Take(2)); held2.push(0); }
                _ => { let room = 1 + r.below(nrooms); evs.push(CEv::Finish(2, room)); }
            }
        }
        evs.push(CEv::End(1));
        for room in 1..=nrooms { evs.push(CEv::Finish(2, room)); }
        evs.push(CEv::End(2));
        for room in 1..=nrooms { evs.extend([CEv::Request(9, vec![room]), CEv::Take(9), CEv::Finish(9, room)]); }
        let _ = held2;
        out.push(run_loop_fixed(&sh, "loop-generated", max, &evs).await);
    }
    let nc = scale(200, 2000);
    for i in 0..nc {
        let mut r = rng.fork();
        out.push(run_conn_random(&sh, &mut r, i % 3 == 2).await);
    }
    let p = sh.path.clone(); drop(sh); let _ = std::fs::remove_dir_all(&p);
    out.finish();
    // leave without tearing down the runtime, the database threads and the room tasks still waiting on their timeouts
    std::process::exit(0);
}
