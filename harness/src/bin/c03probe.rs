//! scratch probe: concurrent reference additions
#[path = "sync_common/mod.rs"]
mod sync_common;
use discret::verif_hooks::date_utils::verif_clock;
use discret::{Parameters, ParametersAdd};
use sync_common::*;

async fn edges(net: &Net, p: usize) -> Vec<(String, String, i64)> {
    net.sql(p, |c| {
        let mut st = c.prepare("SELECT src, dest, cdate FROM _edge ORDER BY src, dest")?;
        let rows = st.query_map([], |r| { let s: Vec<u8> = r.get(0)?; let d: Vec<u8> = r.get(1)?; Ok((hex::encode(&s[..3]), hex::encode(&d[..3]), r.get(2)?)) })?;
        rows.collect()
    }).await
}
#[tokio::main(flavor = "multi_thread")]
async fn main() {
    let net = Net::start(2, MODEL, work_root("C03probe")).await;
    let room = net.create_room(T0 - DAY, &["ns.Doc"]).await;
    let mk = |a: &str| { let mut p = Parameters::default(); p.add("room_id", b64(&room)).unwrap(); p.add("a", a.to_string()).unwrap(); p };
    verif_clock::set(T0 + 1000);
    let mut ids = vec![];
    for n in ["x", "y", "z"] {
        let r = net.peers[0].db.mutate_raw("mutate { ns.Doc{ room_id:$room_id a:$a } }", Some(mk(n))).await.unwrap();
        ids.push(r.mutate_entities[0].node_to_mutate.id);
    }
    net.barrier(0).await;
    println!("{:?}", net.pull(1, 0, room, T0 + 2000).await.requested.len());
    let addref = |x: usize, y: usize| { let mut p = Parameters::default(); p.add("x", b64(&ids[x])).unwrap(); p.add("y", b64(&ids[y])).unwrap(); p };
    verif_clock::set(T0 + 10_000);
    println!("A adds x->y: {:?}", net.peers[0].db.mutate_raw("mutate { ns.Doc{ id:$x refs:[{id:$y}] } }", Some(addref(0, 1))).await.map(|_| ()).map_err(|e| e.to_string()));
    net.barrier(0).await;
    verif_clock::set(T0 + 20_000);
    println!("B adds x->z: {:?}", net.peers[1].db.mutate_raw("mutate { ns.Doc{ id:$x refs:[{id:$y}] } }", Some(addref(0, 2))).await.map(|_| ()).map_err(|e| e.to_string()));
    net.barrier(1).await;
    for round in 0..3 {
        let t1 = net.pull(0, 1, room, T0 + 30_000).await;
        let t2 = net.pull(1, 0, room, T0 + 30_000).await;
        println!("round {}: A<-B req {} edges {} ; B<-A req {} edges {}", round, t1.requested.len(), t1.edges_received, t2.requested.len(), t2.edges_received);
        println!("  A edges {:?}", edges(&net, 0).await);
        println!("  B edges {:?}", edges(&net, 1).await);
    }
    for p in 0..2 {
        let q = net.peers[p].db.query("query { ns.Doc{ a refs{ a } } }", None).await.unwrap();
        println!("peer {} query: {}", p, q.replace('\n', "").replace("  ", ""));
    }
    net.cleanup();
}
