fn main() { println!("{}", discret::verif_hooks::date_utils::now()); }
