//! C11 correspondence: a deleted row stays deleted.  Histories of creations, updates, deletions
//! and directed pulls on 2-4 real instances; after every step the dump of the touched peer.
//! Model: coq/model/Sync.v (run_C11), oracle: spec_C11 on what the implementation showed.
#[path = "sync_common/mod.rs"]
mod sync_common;
use serde_json::json;
use sync_common::*;
use vharness::common::*;

/// the 3-peer witness: A creates x; B, C pull; A deletes x; B<-A; B<-C; A<-B
async fn witness(net: &Net) -> Case {
    let mut r = Runner::new(net, 3).await;
    let t = T0 + 1000;
    r.exec(Op::Create { p: 0, x: 1, t }).await;
    r.exec(Op::Pull { dst: 1, src: 0, t: t + 10 }).await;
    r.exec(Op::Pull { dst: 2, src: 0, t: t + 20 }).await;
    r.exec(Op::Delete { p: 0, x: 1, t: t + DAY }).await;
    r.exec(Op::Pull { dst: 1, src: 0, t: t + DAY + 10 }).await;
    r.exec(Op::Pull { dst: 1, src: 2, t: t + DAY + 20 }).await;
    r.exec(Op::Pull { dst: 0, src: 1, t: t + DAY + 30 }).await;
    let f = r.settle(t + DAY + 40, 5).await;
    r.case("C11Case", "witness", f, json!({}))
}

/// two peers delete the same row on the same day: the second deletion record never reaches everybody
async fn double_delete(net: &Net) -> Case {
    let mut r = Runner::new(net, 2).await;
    let t = T0 + 4000;
    r.exec(Op::Create { p: 0, x: 1, t }).await;
    r.exec(Op::Pull { dst: 1, src: 0, t: t + 1 }).await;
    r.exec(Op::Delete { p: 0, x: 1, t: t + 1000 }).await;
    r.exec(Op::Delete { p: 1, x: 1, t: t + 2000 }).await;
    let f = r.settle(t + 5000, 5).await;
    r.case("C11Case", "double_delete", f, json!({}))
}

/// the row has two deletion records that name different versions, the more recent record names the
/// OLDER version: A creates x; B, C pull; C updates; B takes the new version; B deletes it; one second
/// later A deletes the old version; B<-A (B stores both records); B<-C (C still offers the new version)
async fn two_versions(net: &Net) -> Case {
    let mut r = Runner::new(net, 3).await;
    two_versions_history(&mut r, &[1], 1, 0, true, false, &[(1, 0), (1, 2)]).await;
    let f = r.settle(T0 + 2 * DAY, 6).await;
    r.case("C11Case", "two_versions", f, json!({}))
}

/// generated: deletions of different versions of one row on different peers (the update was seen by
/// only some peers), either record the more recent one, same day or next day, then a random pull order
async fn two_versions_case(net: &Net, rng: &mut Rng) -> Case {
    let n = 3 + rng.below(2) as usize;
    let mut r = Runner::new(net, n).await;
    let updater = n - 1;
    // who has seen the update (besides the updater): a non-empty proper subset of the others
    let others: Vec<usize> = (0..updater).collect();
    let k = 1 + rng.below(others.len() as u64 - 1) as usize;
    let mut seen: Vec<usize> = others.clone();
    while seen.len() > k { let i = rng.below(seen.len() as u64) as usize; seen.remove(i); }
    let unseen: Vec<usize> = others.iter().cloned().filter(|p| !seen.contains(p)).collect();
    let del_new = if rng.chance(1, 3) { updater } else { *rng.pick(&seen) };
    let del_old = *rng.pick(&unseen);
    let old_later = rng.chance(2, 3);
    let next_day = rng.chance(1, 3);
    let mut order = vec![];
    for _ in 0..(2 + rng.below(6)) {
        let dst = rng.below(n as u64) as usize;
        let src = (dst + 1 + rng.below(n as u64 - 1) as usize) % n;
        order.push((dst, src));
    }
    two_versions_history(&mut r, &seen, del_new, del_old, old_later, next_day, &order).await;
    let f = r.settle(T0 + 3 * DAY, 6).await;
    r.case("C11Case", "two_versions_gen", f, json!({"seen": seen, "del_new": del_new, "del_old": del_old, "old_later": old_later, "next_day": next_day, "order": order}))
}

/// 60 rows created and 55 of them deleted on one day, served in answers of ~4 KiB: the deletion
/// records, the row identifiers and the rows of that day each travel in several batches
async fn batching(net: &Net) -> Case {
    let mut r = Runner::new(net, 3).await;
    batching_history(&mut r, 60, 55).await;
    let f = r.settle(T0 + DAY, 4).await;
    net.serve_buffer.store(0, std::sync::atomic::Ordering::SeqCst);
    r.case("C11Case", "batching", f, json!({}))
}

/// two peers delete one row in the SAME millisecond while holding different versions of it: the two
/// deletion records have the same key (row, deletion date)
async fn same_ms_deletes(net: &Net) -> Case {
    let mut r = Runner::new(net, 2).await;
    let t = T0 + 1000;
    r.exec(Op::Create { p: 0, x: 1, t }).await;
    r.exec(Op::Pull { dst: 1, src: 0, t: t + 1 }).await;
    r.exec(Op::Update { p: 0, x: 1, t: t + 4000 }).await;
    r.exec(Op::Delete { p: 0, x: 1, t: t + 8000 }).await;
    r.exec(Op::Delete { p: 1, x: 1, t: t + 8000 }).await;
    let f = r.settle(t + 10_000, 5).await;
    r.case("C11Case", "same_ms_deletes", f, json!({}))
}

/// a removed reference must not come back with a later version of its source row
async fn removed_ref(net: &Net, extra: u64, by_ref: bool, next_day: bool) -> Case {
    let mut r = Runner::new(net, 2).await;
    removed_ref_history(&mut r, extra, by_ref, next_day).await;
    let f = r.settle(T0 + 3 * DAY, 5).await;
    r.case("C11Case", "removed_ref", f, json!({"extra_rows": extra, "modified_by_reference": by_ref, "next_day": next_day}))
}
async fn removed_ref_gen(net: &Net, rng: &mut Rng) -> Case {
    let n = 2 + rng.below(2) as usize;
    let mut r = Runner::new(net, n).await;
    let extra = rng.below(4);
    let by_ref = rng.chance(1, 2);
    let next_day = rng.chance(1, 3);
    removed_ref_history(&mut r, extra, by_ref, next_day).await;
    let mut t = T0 + 2 * DAY;
    for _ in 0..rng.below(5) {
        t += 1000;
        let dst = rng.below(n as u64) as usize; let src = (dst + 1 + rng.below(n as u64 - 1) as usize) % n;
        r.exec(Op::Pull { dst, src, t }).await;
    }
    let f = r.settle(T0 + 3 * DAY, 6).await;
    r.case("C11Case", "removed_ref_gen", f, json!({"extra_rows": extra, "modified_by_reference": by_ref, "next_day": next_day}))
}
/// an ordinary member (own rows only) deletes its own row; a replica that never held the row pulls from
/// the deleter, then from a peer that still holds the row
async fn self_only(net: &Net, via: bool) -> Case {
    let mut r = Runner::new_ext(net, if via { 4 } else { 3 }, Some(2)).await;
    self_only_history(&mut r, 2, 0, 1, if via { Some(3) } else { None }).await;
    let f = r.settle(T0 + DAY, 5).await;
    r.case("C11Case", "self_only_member", f, json!({"via_third_peer": via}))
}
/// generated: the ordinary member creates, updates and deletes its own rows (nobody else writes them),
/// the other peers pull in a random order
async fn self_only_gen(net: &Net, rng: &mut Rng) -> Case {
    let n = 3 + rng.below(2) as usize;
    let m = n - 1;
    let mut r = Runner::new_ext(net, n, Some(m)).await;
    let mut t = T0 + 1000 * rng.range(1, 30);
    for _ in 0..(6 + rng.below(10)) {
        advance(rng, &mut t);
        let own: Vec<u64> = r.last_dump(m).nodes.iter().map(|x| x.0).collect();
        match rng.below(10) {
            0..=1 => { let x = r.next_id(); r.exec(Op::Create { p: m, x, t }).await; }
            2 if !own.is_empty() => { let x = *rng.pick(&own); r.exec(Op::Update { p: m, x, t }).await; }
            3..=4 if !own.is_empty() => { let x = *rng.pick(&own); r.exec(Op::Delete { p: m, x, t }).await; }
            _ => { let dst = rng.below(n as u64 - 1) as usize; let src = (dst + 1 + rng.below(n as u64 - 1) as usize) % n; r.exec(Op::Pull { dst, src, t }).await; }
        }
    }
    let f = r.settle(t + DAY, 6).await;
    r.case("C11Case", "self_only_gen", f, json!({}))
}

/// one create + one delete, then a generated order of directed pulls over 3 peers
async fn order_case(net: &Net, rng: &mut Rng, len: usize, same_day: bool) -> Case {
    let mut r = Runner::new(net, 3).await;
    let t = T0 + 5000;
    r.exec(Op::Create { p: 0, x: 1, t }).await;
    let pre = rng.below(4); // who already has the row when it is deleted
    if pre & 1 != 0 { r.exec(Op::Pull { dst: 1, src: 0, t: t + 1 }).await; }
    if pre & 2 != 0 { r.exec(Op::Pull { dst: 2, src: 0, t: t + 2 }).await; }
    let td = if same_day { t + 60_000 } else { t + DAY };
    let deleter = if pre == 3 { rng.below(3) as usize } else { 0 };
    r.exec(Op::Delete { p: deleter, x: 1, t: td }).await;
    let pairs = [(0, 1), (0, 2), (1, 0), (1, 2), (2, 0), (2, 1)];
    let mut order = vec![];
    for i in 0..len {
        let (dst, src) = *rng.pick(&pairs);
        order.push(format!("{}<-{}", dst, src));
        r.exec(Op::Pull { dst, src, t: td + 10 + i as i64 }).await;
    }
    let f = r.settle(td + 1000, 5).await;
    r.case("C11Case", "order", f, json!({"order": order, "pre": pre, "deleter": deleter}))
}

/// references: concurrent additions of different references to one row on two peers
async fn concurrent_refs(net: &Net, same_ms: bool) -> Case {
    let mut r = Runner::new(net, 2).await;
    concurrent_refs_history(&mut r, same_ms).await;
    let f = r.settle(T0 + DAY, 5).await;
    r.case("C11Case", "concurrent_refs", f, json!({"same_ms": same_ms}))
}
/// references: add, remove, add again on one day, then the day is exchanged again (old record replayed)
async fn ref_readd(net: &Net) -> Case {
    let mut r = Runner::new(net, 3).await;
    ref_readd_history(&mut r).await;
    let f = r.settle(T0 + DAY, 5).await;
    r.case("C11Case", "ref_readd", f, json!({}))
}
/// references: the same reference added on two peers (two creation dates), the later one removed
async fn same_ref(net: &Net) -> Case {
    let mut r = Runner::new(net, 2).await;
    same_ref_history(&mut r).await;
    let f = r.settle(T0 + DAY, 5).await;
    r.case("C11Case", "same_ref_two_dates", f, json!({}))
}
/// generated histories with reference additions / removals / re-additions next to row writes and pulls
async fn refs_case(net: &Net, rng: &mut Rng) -> Case {
    let n = 2 + rng.below(2) as usize;
    let mut r = Runner::new(net, n).await;
    let mut t = T0 + 1000 * rng.range(1, 50);
    for _ in 0..(3 + rng.below(2)) { advance(rng, &mut t); let x = r.next_id(); r.exec(Op::Create { p: 0, x, t }).await; }
    for d in 1..n { r.exec(Op::Pull { dst: d, src: 0, t }).await; }
    let concurrent = rng.chance(1, 3); // otherwise reference changes are made where the newest version of the row is
    for _ in 0..(6 + rng.below(10)) {
        advance(rng, &mut t);
        let p = if concurrent { rng.below(n as u64) as usize } else { 0 };
        match rng.below(10) {
            0..=4 => gen_ref_step(&mut r, p, t, rng).await,
            5 => { let known: Vec<u64> = r.last_dump(p).nodes.iter().map(|x| x.0).collect(); if !known.is_empty() { let x = *rng.pick(&known); r.exec(Op::Update { p, x, t }).await; } }
            6 => { let x = r.next_id(); r.exec(Op::Create { p, x, t }).await; }
            _ => { let dst = rng.below(n as u64) as usize; let src = (dst + 1 + rng.below(n as u64 - 1) as usize) % n; r.exec(Op::Pull { dst, src, t }).await; }
        }
    }
    let f = r.settle(t + DAY, 6).await;
    r.case("C11Case", if concurrent { "refs_concurrent" } else { "refs" }, f, json!({}))
}

async fn random_case(net: &Net, rng: &mut Rng) -> Case {
    let n = 2 + rng.below(3) as usize;
    let mut r = Runner::new(net, n).await;
    let mut t = T0 + 1000 * rng.range(1, 50);
    let nops = 6 + rng.below(14);
    for _ in 0..nops {
        advance(rng, &mut t);
        let p = rng.below(n as u64) as usize;
        let have = r.last_dump(p);
        let known: Vec<u64> = have.nodes.iter().map(|x| x.0).collect();
        match rng.below(20) {
            0..=3 => { let x = r.next_id(); r.exec(Op::Create { p, x, t }).await; }
            4..=6 if !known.is_empty() => { let x = *rng.pick(&known); r.exec(Op::Update { p, x, t }).await; }
            7..=10 if !known.is_empty() => { let x = *rng.pick(&known); r.exec(Op::Delete { p, x, t }).await; }
            11 if r.next_id() > 1 => { let x = 1 + rng.below(r.next_id() - 1); if rng.chance(1, 2) { r.exec(Op::Delete { p, x, t }).await; } else { r.exec(Op::Update { p, x, t }).await; } }
            _ => { let src = (p + 1 + rng.below(n as u64 - 1) as usize) % n; r.exec(Op::Pull { dst: p, src, t }).await; }
        }
    }
    let f = r.settle(t + 1000, 6).await;
    r.case("C11Case", "random", f, json!({}))
}

#[tokio::main(flavor = "multi_thread")]
async fn main() {
    let mut out = Out::create();
    let mut rng = Rng::from_env();
    let net = Net::start(4, MODEL, work_root("C11")).await;
    out.push(witness(&net).await);
    out.push(double_delete(&net).await);
    out.push(two_versions(&net).await);
    out.push(batching(&net).await);
    out.push(concurrent_refs(&net, false).await);
    out.push(ref_readd(&net).await);
    out.push(same_ref(&net).await);
    out.push(same_ms_deletes(&net).await);
    out.push(removed_ref(&net, 1, false, false).await);
    out.push(removed_ref(&net, 2, true, true).await);
    out.push(self_only(&net, false).await);
    out.push(self_only(&net, true).await);
    for _ in 0..scale(6, 150) { let mut r = rng.fork(); out.push(removed_ref_gen(&net, &mut r).await); }
    for _ in 0..scale(6, 150) { let mut r = rng.fork(); out.push(self_only_gen(&net, &mut r).await); }
    for _ in 0..scale(10, 300) {
        let mut r = rng.fork();
        out.push(refs_case(&net, &mut r).await);
    }
    for _ in 0..scale(8, 200) {
        let mut r = rng.fork();
        out.push(two_versions_case(&net, &mut r).await);
    }
    for i in 0..scale(18, 400) {
        let mut r = rng.fork();
        let len = 1 + (i % 6);
        out.push(order_case(&net, &mut r, len, i % 3 == 0).await);
    }
    for _ in 0..scale(24, 600) {
        let mut r = rng.fork();
        out.push(random_case(&net, &mut r).await);
    }
    out.finish();
    net.cleanup();
}
