//! C16 correspondence: the three phases of a mutation / deletion (read on a reader connection,
//! validate/sign in the authorisation state, write on the writer connection) are driven one by one,
//! in every order the pipeline allows, against a real database file; the final rows and references
//! are compared with the Gallina model (coq/model/Pipeline.v); strictly sequential orders are also
//! run through the real service.
use discret::verif_hooks::configuration::Configuration;
use discret::verif_hooks::database::authorisation_service::RoomAuthorisations;
use discret::verif_hooks::database::deletion::DeletionQuery;
use discret::verif_hooks::database::graph_database::GraphDatabaseService;
use discret::verif_hooks::database::mutation_query::MutationQuery;
use discret::verif_hooks::database::node::Node;
use discret::verif_hooks::database::query_language::data_model_parser::DataModel;
use discret::verif_hooks::database::query_language::deletion_parser::DeletionParser;
use discret::verif_hooks::database::query_language::mutation_parser::{MutationFieldValue, MutationParser};
use discret::verif_hooks::database::room::{Authorisation, EntityRight, Room, User};
use discret::verif_hooks::database::sqlite_database::{create_connection, Writeable};
use discret::verif_hooks::database::system_entities::SYSTEM_DATA_MODEL;
use discret::verif_hooks::database::Error as DbError;
use discret::verif_hooks::date_utils::verif_clock;
use discret::verif_hooks::event_service::EventService;
use discret::verif_hooks::security::{base64_encode, random32, Ed25519SigningKey, SigningKey};
use discret::{Parameters, ParametersAdd};
use rusqlite::Connection;
use serde_json::json;
use std::collections::HashMap;
use std::path::PathBuf;
use std::sync::Arc;
use vharness::common::*;

const BASE: i64 = 1_700_000_000_000;
const NF: usize = 6; // scalar fields f0..f3 (f3 is a String "s<int>"), Json fields f4 (nullable), f5 (default)
/// model defaults: f0 nullable (absent), f1/f2 Integer with default, f3 String with default "s30",
/// f4 Json nullable (absent), f5 Json with default document 9
const DEFAULTS: [Option<i64>; NF] = [None, Some(70), Some(90), Some(30), None, Some(109)];
/// the Json documents of the scenarios; the model knows a document only by 100 + its index
/// (an assigned field takes EXACTLY the assigned document); -1 = null / absent
const DOCS: [&str; 10] = [
    r#"{"a":1,"b":2,"tags":["x","y"]}"#,
    r#"{"a":3}"#,
    r#"{"a":null,"c":{"d":null,"e":[1,null,{"f":2}]}}"#,
    r#"["x",{"y":1}]"#,
    r#"5"#,
    r#"{"a":{"b":{"c":1,"d":2},"g":[1,2]},"h":"z"}"#,
    r#"{"a":{"b":{"c":9}}}"#,
    r#""text""#,
    r#"{}"#,
    r#"{"k":0}"#,
];
const NTAGS: u64 = 3; // referenced rows t0..t2 (they take the rowids 1..3)
/// the entity of the scenarios is not full-text indexed: with the index, a stale write of class 1 can
/// also make the whole batch fail (see observe_fts_conflict); index maintenance belongs to C17
const MODEL: &str = r#"ns {
    Row(no_full_text_index) { f0: Integer nullable, f1: Integer default 70, f2: Integer default 90, f3: String default "s30",
          f4: Json nullable, f5: Json default "{\"k\":0}",
          tags: [ns.Tag] nullable, owner: ns.Tag nullable, more: [ns.Tag] nullable }
    Tag { n: Integer nullable }
}"#;
/// the same entity with the default full-text index (observation only)
const MODEL_FTS: &str = r#"ns {
    Row { f0: Integer nullable, f1: Integer default 70, f2: Integer default 90, f3: String default "s30",
          f4: Json nullable, f5: Json default "{\"k\":0}",
          tags: [ns.Tag] nullable, owner: ns.Tag nullable, more: [ns.Tag] nullable }
    Tag { n: Integer nullable }
}"#;
const LABELS: [&str; 3] = ["tags", "owner", "more"]; // model labels 0 (array), 1 (single), 2 (array)
const UNKNOWN_ROW: u64 = 9;
/// rooms of the authorisation state: 1 = the caller may write for ever, 2 = the caller's right is
/// revoked from (relative) date 1500 on, 3 = exists but the caller is not a member, others unknown
const FOREVER: i64 = 1_000_000_000;
const REVOKED_FROM: i64 = 1500;

#[derive(Clone, Debug, PartialEq)]
enum RefOp { Add(u64, Vec<u64>), Set(u64, u64), Clear(u64) }
#[derive(Clone, Debug)]
struct RowInit { room: Option<u64>, fields: Vec<Option<i64>>, edges: Vec<(u64, u64)> } // (label, tag)
#[derive(Clone, Copy, Debug, PartialEq)]
enum Kind { Update, Create, Delete }
#[derive(Clone, Debug)]
struct Mut { kind: Kind, row: u64, room: Option<u64>, assign: Vec<(u64, i64)>, refs: Vec<RefOp> }
#[derive(Clone, Debug)]
struct Scen { rows: Vec<RowInit>, muts: Vec<Mut> }
#[derive(Clone, Copy, Debug, PartialEq)]
enum Ev { R(usize), V(usize), W(usize) }
type Ids = Vec<(u64, [u8; 16])>; // model row index -> uid

fn mdate_of(i: usize) -> i64 { 1000 * (i as i64 + 1) }
/// the text of an assigned value; Json documents with an odd index travel as a parameter, the
/// others as an escaped string literal (both forms of get_mutate_query)
fn lit(f: u64, v: i64, params: &mut Parameters) -> String {
    if f == 3 { return format!("\"s{}\"", v); }
    if f >= 4 {
        if v < 0 { return "null".to_string(); }
        let doc = DOCS[(v - 100) as usize];
        if v % 2 == 1 { let key = format!("j{}", f); params.add(&key, doc.to_string()).unwrap(); return format!("${}", key); }
        return format!("\"{}\"", doc.replace('\\', "\\\\").replace('"', "\\\""));
    }
    format!("{}", v)
}
fn id_of(ids: &Ids, row: u64) -> [u8; 16] { ids.iter().find(|p| p.0 == row).map(|p| p.1).unwrap_or(uid_of(999)) }

// ---------------------------------------------------------------- Gallina printing
fn refop_coq(r: &RefOp) -> String {
    match r {
        RefOp::Add(l, ds) => format!("RAdd {} {}", gn(*l), glist(&ds.iter().map(|d| gn(*d)).collect::<Vec<_>>())),
        RefOp::Set(l, d) => format!("RSet {} {}", gn(*l), gn(*d)),
        RefOp::Clear(l) => format!("RClear {}", gn(*l)),
    }
}
fn rights_coq() -> String { format!("[(1%N, {}); (2%N, {})]", FOREVER, REVOKED_FROM) }
fn scen_db_coq(s: &Scen) -> String {
    let mut rows = vec![];
    let mut edges = vec![];
    for (k, r) in s.rows.iter().enumerate() {
        let id = k as u64 + 1;
        let fs: Vec<String> = r.fields.iter().enumerate().filter_map(|(f, v)| v.or(DEFAULTS[f]).map(|v| format!("({}, {})", gn(f as u64), gz(v)))).collect();
        rows.push(format!("{{| r_id := {}; r_rowid := {}; r_room := {}; r_mdate := 0; r_fields := {} |}}", gn(id), gn(NTAGS + id), gon(r.room), glist(&fs)));
        for (l, t) in &r.edges {
            edges.push(format!("{{| e_src := {}; e_label := {}; e_dest := {}; e_cdate := 0 |}}", gn(id), gn(*l), gn(*t)));
        }
    }
    format!("{{| rows := {}; edges := {}; db_floor := {} |}}", glist(&rows), glist(&edges), gn(NTAGS))
}
fn muts_coq(s: &Scen) -> String {
    glist(&s.muts.iter().enumerate().map(|(i, m)| {
        let mut a: Vec<String> = m.assign.iter().map(|(f, v)| format!("({}, {})", gn(*f), gz(*v))).collect();
        if m.kind == Kind::Create {
            // the parser fills in the defaults of the fields a creation does not give
            for f in 0..NF { if let Some(d) = DEFAULTS[f] { if !m.assign.iter().any(|p| p.0 == f as u64) { a.push(format!("({}, {})", gn(f as u64), gz(d))); } } }
        }
        format!("{{| m_kind := {}; m_row := {}; m_date := {}; m_room := {}; m_assign := {}; m_refs := {} |}}",
            match m.kind { Kind::Update => "KUpdate", Kind::Create => "KCreate", Kind::Delete => "KDelete" },
            gn(m.row), gz(mdate_of(i)), gon(m.room), glist(&a), glist(&m.refs.iter().map(refop_coq).collect::<Vec<_>>()))
    }).collect::<Vec<_>>())
}
fn sigma_coq(sg: &[Ev]) -> String {
    glist(&sg.iter().map(|e| match e { Ev::R(i) => format!("R {}", i), Ev::V(i) => format!("V {}", i), Ev::W(i) => format!("W {}", i) }).collect::<Vec<_>>())
}
fn sigma_txt(sg: &[Ev]) -> String {
    sg.iter().map(|e| match e { Ev::R(i) => format!("R{}", i + 1), Ev::V(i) => format!("V{}", i + 1), Ev::W(i) => format!("W{}", i + 1) }).collect::<Vec<_>>().join(" ")
}

// ---------------------------------------------------------------- request texts
fn creation_text(room: Option<u64>, fields: &[(u64, i64)], edges: &[(u64, u64)], tags: &[[u8; 16]]) -> (String, Parameters) {
    let mut params = Parameters::default();
    let mut body = String::new();
    if let Some(room) = room {
        params.add("room", base64_encode(&uid_of(room))).unwrap();
        body.push_str(" room_id:$room");
    }
    for (f, v) in fields { let t = lit(*f, *v, &mut params); body.push_str(&format!(" f{}:{}", f, t)); }
    for (l, name) in LABELS.iter().enumerate() {
        let ts: Vec<u64> = edges.iter().filter(|e| e.0 == l as u64).map(|e| e.1).collect();
        if ts.is_empty() { continue; }
        let refs: Vec<String> = ts.iter().enumerate().map(|(j, t)| { let k = format!("t{}_{}", l, j); params.add(&k, base64_encode(&tags[*t as usize])).unwrap(); format!("{{id:${}}}", k) }).collect();
        if l == 1 { body.push_str(&format!(" {}:{}", name, refs[0])); } else { body.push_str(&format!(" {}:[{}]", name, refs.join(","))); }
    }
    if body.is_empty() { body.push_str(" f0:null"); }
    (format!("mutate {{ ns.Row {{{} }} }}", body), params)
}
fn init_text(r: &RowInit, tags: &[[u8; 16]]) -> (String, Parameters) {
    let fs: Vec<(u64, i64)> = r.fields.iter().enumerate().filter_map(|(f, v)| v.map(|v| (f as u64, v))).collect();
    creation_text(r.room, &fs, &r.edges, tags)
}
fn refs_text(m: &Mut, tags: &[[u8; 16]], params: &mut Parameters, body: &mut String) {
    for (k, r) in m.refs.iter().enumerate() {
        match r {
            RefOp::Add(l, ds) => {
                let refs: Vec<String> = ds.iter().enumerate().map(|(j, t)| { let key = format!("a{}_{}", k, j); params.add(&key, base64_encode(&tags[*t as usize])).unwrap(); format!("{{id:${}}}", key) }).collect();
                body.push_str(&format!(" {}:[{}]", LABELS[*l as usize], refs.join(",")));
            }
            RefOp::Set(l, t) => {
                let key = format!("s{}", k);
                params.add(&key, base64_encode(&tags[*t as usize])).unwrap();
                body.push_str(&format!(" {}:{{id:${}}}", LABELS[*l as usize], key));
            }
            RefOp::Clear(l) => body.push_str(&format!(" {}:null", LABELS[*l as usize])),
        }
    }
}
/// text + parameters of a mutation (Update / Create) or a deletion
fn request_text(m: &Mut, ids: &Ids, tags: &[[u8; 16]]) -> (String, Parameters) {
    let mut params = Parameters::default();
    match m.kind {
        Kind::Delete => {
            params.add("id", base64_encode(&id_of(ids, m.row))).unwrap();
            ("delete { ns.Row { $id } }".to_string(), params)
        }
        Kind::Update | Kind::Create => {
            let mut body = String::new();
            if m.kind == Kind::Update { params.add("id", base64_encode(&id_of(ids, m.row))).unwrap(); body.push_str(" id:$id"); }
            if let Some(room) = m.room { params.add("room", base64_encode(&uid_of(room))).unwrap(); body.push_str(" room_id:$room"); }
            for (f, v) in &m.assign { let t = lit(*f, *v, &mut params); body.push_str(&format!(" f{}:{}", f, t)); }
            refs_text(m, tags, &mut params, &mut body);
            if body.is_empty() { body.push_str(" f0:null"); }
            (format!("mutate {{ ns.Row {{{} }} }}", body), params)
        }
    }
}

// ---------------------------------------------------------------- the real database
enum Pending { Mutation(MutationQuery), Deletion(DeletionQuery) }
struct Env {
    rconn: Connection,
    wconn: Connection,
    dm: DataModel,
    parsers: HashMap<String, Arc<MutationParser>>,
    del_parsers: HashMap<String, Arc<DeletionParser>>,
    ra: RoomAuthorisations,
    shorts: Shorts,
    // of the current run
    tags: Vec<[u8; 16]>,
    ids: Ids,
    in_txn: bool,
    stats: HashMap<&'static str, u64>,
}

fn room_with(id: u64, vk: Option<&[u8]>, revoked_from: Option<i64>) -> Room {
    let mut room = Room { id: uid_of(id), ..Default::default() };
    room.add_auth(Authorisation { id: uid_of(100 + id), ..Default::default() }).unwrap();
    let a = room.get_auth_mut(&uid_of(100 + id)).unwrap();
    if let Some(vk) = vk { a.add_user(User { verifying_key: vk.to_vec(), date: 0, enabled: true }).unwrap(); }
    a.add_right(EntityRight::new(0, "*".to_string(), true, true)).unwrap();
    if let Some(d) = revoked_from { a.add_right(EntityRight::new(BASE + d, "*".to_string(), false, false)).unwrap(); }
    room
}

impl Env {
    fn new(dir: &PathBuf, model: &str) -> Env {
        let _ = std::fs::remove_dir_all(dir);
        std::fs::create_dir_all(dir).unwrap();
        let path = dir.join("c16.db");
        let secret = [5u8; 32];
        let wconn = create_connection(&path, &secret, 2048, false).unwrap();
        let rconn = create_connection(&path, &secret, 2048, false).unwrap();
        rconn.pragma_update(None, "query_only", "1").unwrap(); // as DatabaseReader::start does
        // harness-only: no fsync per commit (durability is not what this check observes; the
        // connections are otherwise exactly those of sqlite_database::create_connection)
        wconn.pragma_update(None, "synchronous", "0").unwrap();
        let mut dm = DataModel::new();
        dm.update_system(SYSTEM_DATA_MODEL).unwrap();
        dm.update(model).unwrap();
        let shorts = Shorts::of(&dm);
        let sk = Ed25519SigningKey::create_from(&[7u8; 32]);
        let vk = sk.export_verifying_key();
        let mut rooms = HashMap::new();
        rooms.insert(uid_of(1), room_with(1, Some(&vk), None));
        rooms.insert(uid_of(2), room_with(2, Some(&vk), Some(REVOKED_FROM)));
        rooms.insert(uid_of(3), room_with(3, None, None));
        let ra = RoomAuthorisations { signing_key: sk, rooms, max_node_size: 256 * 1024 };
        Env { rconn, wconn, dm, parsers: HashMap::new(), del_parsers: HashMap::new(), ra, shorts,
              tags: vec![], ids: vec![], in_txn: false, stats: HashMap::new() }
    }
    fn bump(&mut self, k: &'static str) { *self.stats.entry(k).or_insert(0) += 1; }

    fn parser(&mut self, text: &str) -> Arc<MutationParser> {
        if let Some(p) = self.parsers.get(text) { return p.clone(); }
        // as GraphDatabase::get_cached_mutation
        let p = Arc::new(MutationParser::parse(text, &self.dm).unwrap_or_else(|e| panic!("parse {}: {:?}", text, e)));
        self.parsers.insert(text.to_string(), p.clone());
        p
    }
    fn del_parser(&mut self, text: &str) -> Arc<DeletionParser> {
        if let Some(p) = self.del_parsers.get(text) { return p.clone(); }
        let p = Arc::new(DeletionParser::parse(text, &self.dm).unwrap_or_else(|e| panic!("parse {}: {:?}", text, e)));
        self.del_parsers.insert(text.to_string(), p.clone());
        p
    }
    fn begin(&mut self) { if !self.in_txn { self.wconn.execute("BEGIN TRANSACTION", []).unwrap(); self.in_txn = true; } }
    fn commit(&mut self) { if self.in_txn { self.wconn.execute("COMMIT", []).unwrap(); self.in_txn = false; } }

    /// the three phases back to back (used to build the initial state)
    fn mutate_now(&mut self, text: &str, mut params: Parameters) -> MutationQuery {
        let p = self.parser(text);
        let mut mq = MutationQuery::execute(&mut params, p, &self.rconn).unwrap();
        let rooms = self.ra.validate_mutation(&mut mq).unwrap();
        assert!(rooms.is_empty());
        self.begin();
        mq.write(&self.wconn).unwrap();
        self.commit();
        mq
    }

    fn reset(&mut self, s: &Scen) {
        self.begin();
        for t in ["_node", "_edge", "_edge_deletion_log", "_node_deletion_log"] {
            self.wconn.execute(&format!("DELETE FROM {}", t), []).unwrap();
        }
        self.wconn.execute("INSERT INTO _node_fts(_node_fts) VALUES('delete-all')", []).unwrap();
        self.commit();
        verif_clock::set(BASE);
        self.tags.clear();
        self.ids.clear();
        for t in 0..NTAGS {
            let mq = self.mutate_now(&format!("mutate {{ ns.Tag {{ n: {} }} }}", t), Parameters::default());
            self.tags.push(mq.mutate_entities[0].node_to_mutate.id);
        }
        for (k, r) in s.rows.iter().enumerate() {
            let (text, params) = init_text(r, &self.tags);
            let mq = self.mutate_now(&text, params);
            let n = &mq.mutate_entities[0].node_to_mutate;
            // the model is told these rowids
            assert_eq!(n.node.as_ref().unwrap()._local_id, Some((NTAGS + k as u64 + 1) as i64), "rowid of an initial row");
            self.ids.push((k as u64 + 1, n.id));
        }
    }

    /// runs one schedule against the real phases; returns acknowledgements ++ final state
    fn exec(&mut self, s: &Scen, sigma: &[Ev], batch: bool) -> Vec<i64> {
        self.reset(s);
        let n = s.muts.len();
        let mut pend: Vec<Option<Pending>> = (0..n).map(|_| None).collect();
        let mut dropped = vec![false; n];
        let mut acks = vec![0i64; n];
        for e in sigma {
            match *e {
                Ev::R(i) => {
                    // a reader connection only sees committed batches
                    self.commit();
                    verif_clock::set(BASE + mdate_of(i));
                    let m = &s.muts[i];
                    let (text, mut params) = request_text(m, &self.ids, &self.tags);
                    if m.kind == Kind::Delete {
                        let p = self.del_parser(&text);
                        match DeletionQuery::build(&mut params, p, &self.rconn) {
                            Ok(dq) => pend[i] = Some(Pending::Deletion(dq)),
                            Err(e) => panic!("read phase of a deletion: {:?}", e),
                        }
                    } else {
                        let p = self.parser(&text);
                        match MutationQuery::execute(&mut params, p, &self.rconn) {
                            Ok(mq) => {
                                // the id of a new row is drawn by the reader
                                if m.kind == Kind::Create { self.ids.push((m.row, mq.mutate_entities[0].node_to_mutate.id)); }
                                pend[i] = Some(Pending::Mutation(mq));
                            }
                            Err(DbError::UnknownEntity(_, _)) => dropped[i] = true,
                            Err(e) => panic!("read phase: {:?}", e),
                        }
                    }
                }
                Ev::V(i) => {
                    if dropped[i] { continue; }
                    verif_clock::set(BASE + 500_000);
                    let verdict = match pend[i].as_mut().expect("V before R") {
                        Pending::Mutation(mq) => self.ra.validate_mutation(mq).map(|rooms| assert!(rooms.is_empty())),
                        Pending::Deletion(dq) => self.ra.validate_deletion(dq),
                    };
                    match verdict {
                        Ok(()) => {}
                        Err(DbError::AuthorisationRejected(_, _)) | Err(DbError::UnknownRoom(_)) => { dropped[i] = true; acks[i] = 2; pend[i] = None; }
                        Err(e) => panic!("validation: {:?}", e),
                    }
                }
                Ev::W(i) => {
                    if dropped[i] { continue; }
                    let p = pend[i].take().expect("W before R");
                    self.begin();
                    match p {
                        Pending::Mutation(mut mq) => mq.write(&self.wconn).expect("write phase"),
                        Pending::Deletion(mut dq) => dq.delete(&self.wconn).expect("write phase of a deletion"),
                    }
                    if !batch { self.commit(); }
                    acks[i] = 1;
                }
            }
        }
        self.commit();
        verif_clock::clear();
        let mut out = acks;
        let nrows: i64 = self.rconn.query_row("SELECT count(*) FROM _node WHERE _entity = ?", [&self.shorts.row], |r| r.get(0)).unwrap();
        let (state, found, bad_sig) = dump_conn(&self.rconn, &self.shorts, &self.ids, &self.tags);
        for _ in 0..bad_sig { self.bump("final_row_signature_invalid"); }
        out.extend(state);
        if nrows as usize != found { out.push(-77); } // a row nobody created
        out
    }
}

#[derive(Clone)]
struct Shorts { row: String, fields: Vec<String>, labels: Vec<String> }
impl Shorts {
    fn of(dm: &DataModel) -> Shorts {
        let row = dm.get_entity("ns.Row").unwrap();
        Shorts { row: row.short_name.clone(),
                 fields: (0..NF).map(|f| row.get_field(&format!("f{}", f)).unwrap().short_name.clone()).collect(),
                 labels: LABELS.iter().map(|l| row.get_field(l).unwrap().short_name.clone()).collect() }
    }
}
/// the rows that exist (id, room, mdate, fields) by model index, then the references that start
/// from a known row, sorted; also: number of rows found, number of invalid signatures
fn dump_conn(conn: &Connection, sh: &Shorts, ids: &Ids, tags: &[[u8; 16]]) -> (Vec<i64>, usize, u64) {
    let mut out = vec![];
    let mut bad_sig = 0;
    let mut found = 0;
    let mut sorted = ids.clone();
    sorted.sort();
    for (idx, uid) in &sorted {
        let Some(node) = Node::get_with_entity(uid, &sh.row, conn).unwrap() else { continue };
        found += 1;
        if node.verify().is_err() { bad_sig += 1; out.push(-99); }
        out.push(*idx as i64);
        out.push(match node.room_id { Some(r) => (1..=4).find(|k| r == uid_of(*k)).map(|k| k as i64).unwrap_or(-7), None => -1 });
        out.push(node.mdate - BASE);
        let v: serde_json::Value = serde_json::from_str(node._json.as_deref().unwrap_or("{}")).unwrap();
        for f in 0..NF {
            if f >= 4 {
                // a Json field: which document of the scenario is stored (exactly), null/absent, or something else
                out.push(match v.get(&sh.fields[f]) {
                    Some(serde_json::Value::Null) | None => -1,
                    Some(stored) => DOCS.iter().position(|d| serde_json::from_str::<serde_json::Value>(d).unwrap() == *stored).map(|k| 100 + k as i64).unwrap_or(-8),
                });
                continue;
            }
            out.push(match v.get(&sh.fields[f]) {
                Some(serde_json::Value::Number(n)) if f != 3 => n.as_i64().unwrap(),
                Some(serde_json::Value::String(t)) if f == 3 => t.strip_prefix('s').and_then(|x| x.parse::<i64>().ok()).unwrap_or(-8),
                Some(serde_json::Value::Null) | None => -1,
                Some(_) => -8 });
        }
    }
    let mut es: Vec<(i64, i64, i64, i64)> = vec![];
    let mut st = conn.prepare("SELECT src, label, dest, cdate FROM _edge").unwrap();
    let rows = st.query_map([], |r| Ok((r.get::<_, Vec<u8>>(0)?, r.get::<_, String>(1)?, r.get::<_, Vec<u8>>(2)?, r.get::<_, i64>(3)?))).unwrap();
    for r in rows {
        let (src, label, dest, cdate) = r.unwrap();
        let Some(ri) = ids.iter().find(|p| p.1[..] == src[..]).map(|p| p.0) else { continue };
        let l = sh.labels.iter().position(|x| *x == label).map(|p| p as i64).unwrap_or(-7);
        let t = tags.iter().position(|t| t[..] == dest[..]).map(|p| p as i64).unwrap_or(-7);
        es.push((ri as i64, l, t, cdate - BASE));
    }
    es.sort();
    for e in es { out.extend([e.0, e.1, e.2, e.3]); }
    (out, found, bad_sig)
}

// ---------------------------------------------------------------- orders and schedules
fn insert_all(x: usize, l: &[usize]) -> Vec<Vec<usize>> {
    if l.is_empty() { return vec![vec![x]]; }
    let mut first = vec![x]; first.extend_from_slice(l);
    let mut out = vec![first];
    for mut t in insert_all(x, &l[1..]) { t.insert(0, l[0]); out.push(t); }
    out
}
/// same enumeration order as `perms` in coq/run/Run_C16.v
fn perms(l: &[usize]) -> Vec<Vec<usize>> {
    if l.is_empty() { return vec![vec![]]; }
    perms(&l[1..]).iter().flat_map(|p| insert_all(l[0], p)).collect()
}
fn serial_sched(pi: &[usize]) -> Vec<Ev> { pi.iter().flat_map(|i| [Ev::R(*i), Ev::V(*i), Ev::W(*i)]).collect() }

/// every interleaving of R_i V_i W_i (i < n) in which the writes happen in validation order
fn all_schedules(n: usize) -> Vec<Vec<Ev>> {
    fn go(n: usize, phase: &mut Vec<u8>, fifo: &mut Vec<usize>, cur: &mut Vec<Ev>, out: &mut Vec<Vec<Ev>>) {
        if cur.len() == 3 * n { out.push(cur.clone()); return; }
        for i in 0..n {
            match phase[i] {
                0 => { phase[i] = 1; cur.push(Ev::R(i)); go(n, phase, fifo, cur, out); cur.pop(); phase[i] = 0; }
                1 => { phase[i] = 2; fifo.push(i); cur.push(Ev::V(i)); go(n, phase, fifo, cur, out); cur.pop(); fifo.pop(); phase[i] = 1; }
                2 => if fifo.first() == Some(&i) {
                    phase[i] = 3; fifo.remove(0); cur.push(Ev::W(i)); go(n, phase, fifo, cur, out); cur.pop(); fifo.insert(0, i); phase[i] = 2;
                },
                _ => {}
            }
        }
    }
    let mut out = vec![];
    go(n, &mut vec![0; n], &mut vec![], &mut vec![], &mut out);
    out
}
fn random_schedule(rng: &mut Rng, n: usize) -> Vec<Ev> {
    let mut phase = vec![0u8; n];
    let mut fifo: Vec<usize> = vec![];
    let mut cur = vec![];
    while cur.len() < 3 * n {
        let mut opts = vec![];
        for i in 0..n {
            match phase[i] { 0 => opts.push(Ev::R(i)), 1 => opts.push(Ev::V(i)), 2 => if fifo.first() == Some(&i) { opts.push(Ev::W(i)) }, _ => {} }
        }
        let e = *rng.pick(&opts);
        match e { Ev::R(i) => phase[i] = 1, Ev::V(i) => { phase[i] = 2; fifo.push(i) }, Ev::W(i) => { phase[i] = 3; fifo.remove(0); } }
        cur.push(e);
    }
    cur
}
/// a random schedule in which windows on one row never overlap (windows on different rows do)
fn random_schedule_disjoint(rng: &mut Rng, s: &Scen) -> Vec<Ev> {
    let n = s.muts.len();
    let mut phase = vec![0u8; n];
    let mut fifo: Vec<usize> = vec![];
    let mut cur = vec![];
    while cur.len() < 3 * n {
        let mut opts = vec![];
        for i in 0..n {
            match phase[i] {
                0 => if !(0..n).any(|j| j != i && (phase[j] == 1 || phase[j] == 2) && s.muts[j].row == s.muts[i].row) { opts.push(Ev::R(i)) },
                1 => opts.push(Ev::V(i)),
                2 => if fifo.first() == Some(&i) { opts.push(Ev::W(i)) },
                _ => {}
            }
        }
        let e = *rng.pick(&opts);
        match e { Ev::R(i) => phase[i] = 1, Ev::V(i) => { phase[i] = 2; fifo.push(i) }, Ev::W(i) => { phase[i] = 3; fifo.remove(0); } }
        cur.push(e);
    }
    cur
}
/// a Read of a mutation on row x between the Read and the Write of another mutation on x
fn overlapping(s: &Scen, sigma: &[Ev]) -> bool {
    let mut open: Vec<usize> = vec![];
    for e in sigma {
        match *e {
            Ev::R(i) => { if open.iter().any(|j| s.muts[*j].row == s.muts[i].row) { return true; } open.push(i); }
            Ev::W(i) => open.retain(|j| *j != i),
            _ => {}
        }
    }
    false
}

fn join(chunks: &[Vec<i64>]) -> Vec<i64> {
    let mut out = vec![];
    for c in chunks { out.push(c.len() as i64); out.extend_from_slice(c); }
    out
}

struct Runner { env: Env, svc: Svc, serial_cache: HashMap<String, Vec<Vec<i64>>>, n_serializable: u64, n_not: u64, n_overlap: u64,
                n_sequential: u64, n_refused: u64, n_with_create_or_delete: u64 }
impl Runner {
    fn case(&mut self, kind: &str, s: &Scen, sigma: &[Ev], batch: bool) -> Case { self.case_with(kind, s, sigma, batch, None) }
    /// a strictly sequential run through the real service (every request awaited)
    fn case_service(&mut self, kind: &str, s: &Scen, pi: &[usize]) -> Case {
        let got = self.svc.exec(s, pi);
        self.case_with(kind, s, &serial_sched(pi), false, Some(got))
    }
    fn case_with(&mut self, kind: &str, s: &Scen, sigma: &[Ev], batch: bool, through_service: Option<Vec<i64>>) -> Case {
        let key = format!("{} {}", scen_db_coq(s), muts_coq(s));
        if !self.serial_cache.contains_key(&key) {
            let idx: Vec<usize> = (0..s.muts.len()).collect();
            let v: Vec<Vec<i64>> = perms(&idx).iter().map(|pi| self.env.exec(s, &serial_sched(pi), false)).collect();
            self.serial_cache.insert(key.clone(), v);
        }
        let serial = self.serial_cache.get(&key).unwrap().clone();
        let via_service = through_service.is_some();
        let got = match through_service { Some(g) => g, None => self.env.exec(s, sigma, batch) };
        let sequential = sigma.chunks(3).all(|c| matches!(c, [Ev::R(a), Ev::V(b), Ev::W(c)] if a == b && b == c));
        if sequential { self.n_sequential += 1 }
        let serialisable = serial.iter().any(|x| *x == got);
        let ov = overlapping(s, sigma);
        if serialisable { self.n_serializable += 1 } else { self.n_not += 1 }
        if ov { self.n_overlap += 1 }
        let refused = got[..s.muts.len()].iter().filter(|a| **a == 2).count();
        if refused > 0 { self.n_refused += 1 }
        if s.muts.iter().any(|m| m.kind != Kind::Update) { self.n_with_create_or_delete += 1 }
        let mut chunks = vec![got.clone()];
        chunks.extend(serial.iter().cloned());
        let distinct_serial = { let mut d = serial.clone(); d.sort(); d.dedup(); d.len() };
        Case { kind: kind.to_string(),
               coq: format!("CSched {} {} {} {} {} {}", rights_coq(), scen_db_coq(s), gn(NF as u64), muts_coq(s), sigma_coq(sigma), gb(batch)),
               obs: join(&chunks),
               meta: json!({"schedule": sigma_txt(sigma), "mutations": s.muts.len(), "batched_writes": batch, "overlapping_windows": ov, "strictly_sequential": sequential, "through_the_real_service": via_service,
                            "refused_by_validation": refused, "equals_a_serial_outcome": serialisable, "distinct_serial_outcomes": distinct_serial, "final": got}) }
    }
}

// ---------------------------------------------------------------- scenarios
// f2 keeps its default (90); f1 and f3 hold NON-default values before the schedule
fn row1() -> RowInit { RowInit { room: Some(1), fields: vec![Some(1), Some(2), None, Some(12), Some(100), None], edges: vec![(0, 0), (1, 0)] } }
fn row_in(room: Option<u64>) -> RowInit { RowInit { room, ..row1() } }
fn row_free() -> RowInit { RowInit { room: None, fields: vec![Some(1), Some(2), Some(3), Some(12), Some(102), Some(105)], edges: vec![(0, 0), (1, 0)] } }
fn row_json(j4: Option<i64>, j5: Option<i64>) -> RowInit { RowInit { room: None, fields: vec![Some(1), None, None, None, j4, j5], edges: vec![] } }
fn m(row: u64, room: Option<u64>, assign: &[(u64, i64)], refs: &[RefOp]) -> Mut { Mut { kind: Kind::Update, row, room, assign: assign.to_vec(), refs: refs.to_vec() } }
fn mk(row: u64, room: Option<u64>, assign: &[(u64, i64)], refs: &[RefOp]) -> Mut { Mut { kind: Kind::Create, ..m(row, room, assign, refs) } }
fn md(row: u64) -> Mut { Mut { kind: Kind::Delete, ..m(row, None, &[], &[]) } }

fn directed() -> Vec<(&'static str, Scen)> {
    let two_rows = vec![row1(), RowInit { room: None, fields: vec![None, Some(5), Some(6), None, None, Some(103)], edges: vec![(2, 1)] }];
    vec![
        // the three witnesses of known finding 1 (C16_refuted_*)
        ("different-fields", Scen { rows: vec![row1()], muts: vec![m(1, None, &[(0, 11)], &[]), m(1, None, &[(1, 22)], &[])] }),
        ("reference-replace-vs-replace", Scen { rows: vec![row1()], muts: vec![m(1, None, &[], &[RefOp::Set(1, 1)]), m(1, None, &[], &[RefOp::Set(1, 2)])] }),
        ("room-move-vs-field", Scen { rows: vec![row1()], muts: vec![m(1, Some(2), &[(0, 11)], &[]), m(1, None, &[(1, 22)], &[])] }),
        // the former known finding 2, fixed by 07628ab: now a passing witness (C16_room_only_moves)
        ("room-only", Scen { rows: vec![row1()], muts: vec![m(1, Some(2), &[], &[]), m(1, None, &[(1, 22)], &[])] }),
        // fields with defaults / nullable fields holding other values must survive partial updates
        ("partial-updates-keep-other-fields", Scen { rows: vec![row_free()], muts: vec![m(1, None, &[(3, 41)], &[]), m(1, None, &[(0, 11)], &[])] }),
        ("partial-updates-keep-other-fields-in-room", Scen { rows: vec![RowInit { room: Some(1), fields: vec![Some(4), Some(5), Some(6), Some(7), Some(105), Some(100)], edges: vec![] }],
            muts: vec![m(1, None, &[(1, 71)], &[]), m(1, None, &[(2, 91)], &[RefOp::Set(1, 1)])] }),
        // Json fields: an assigned document REPLACES the stored one (no merge, nulls inside it are kept)
        ("json-object-replaced-by-smaller-object", Scen { rows: vec![row_json(Some(100), None)], muts: vec![m(1, None, &[(4, 101)], &[]), m(1, None, &[(0, 11)], &[])] }),
        ("json-nested-and-null-members", Scen { rows: vec![row_json(Some(105), Some(100))], muts: vec![m(1, None, &[(4, 106)], &[]), m(1, None, &[(5, 102)], &[])] }),
        ("json-array-and-scalar", Scen { rows: vec![row_json(Some(100), Some(102))], muts: vec![m(1, None, &[(4, 103)], &[]), m(1, None, &[(5, 104), (1, 22)], &[])] }),
        ("json-null-then-object", Scen { rows: vec![row_json(Some(105), Some(105))], muts: vec![m(1, None, &[(4, -1)], &[]), m(1, None, &[(4, 108), (5, 107)], &[])] }),
        ("json-same-field-twice", Scen { rows: vec![RowInit { room: Some(1), ..row_json(Some(102), Some(100)) }], muts: vec![m(1, None, &[(5, 106)], &[]), m(1, None, &[(5, 101)], &[])] }),
        // a target already referenced through ANOTHER field is added to an array field / set as single reference
        ("add-target-referenced-by-other-field", Scen { rows: vec![RowInit { room: None, fields: vec![Some(1), None, None, None, None, None], edges: vec![(1, 1)] }],
            muts: vec![m(1, None, &[], &[RefOp::Set(1, 2)]), m(1, None, &[], &[RefOp::Add(2, vec![2])])] }),
        ("same-target-in-three-fields", Scen { rows: vec![row1()], muts: vec![m(1, None, &[], &[RefOp::Add(2, vec![0])]), m(1, None, &[], &[RefOp::Set(1, 1), RefOp::Add(0, vec![1]), RefOp::Add(2, vec![1])])] }),
        // mutations REFUSED by the validation: they must leave no trace in any interleaving
        ("refused-move-vs-field", Scen { rows: vec![row1()], muts: vec![m(1, Some(3), &[(0, 11)], &[RefOp::Set(1, 1)]), m(1, None, &[(1, 22)], &[])] }),
        ("refused-move-to-unknown-room-vs-reference", Scen { rows: vec![row1()], muts: vec![m(1, Some(4), &[(0, 11)], &[RefOp::Clear(0)]), m(1, None, &[], &[RefOp::Add(0, vec![1])])] }),
        ("right-revoked-between-two-mutations", Scen { rows: vec![row_in(Some(2))], muts: vec![m(1, None, &[(0, 11)], &[]), m(1, None, &[(1, 22)], &[RefOp::Set(1, 2)])] }),
        ("move-into-room-with-revoked-right-vs-field", Scen { rows: vec![row1()], muts: vec![m(1, Some(2), &[(0, 11)], &[]), m(1, None, &[(1, 22)], &[])] }),
        ("leave-room-with-revoked-right", Scen { rows: vec![row_in(Some(2))], muts: vec![m(1, None, &[(0, 11)], &[]), m(1, Some(1), &[(1, 22)], &[])] }),
        ("refused-deletion-vs-field", Scen { rows: vec![row_in(Some(2))], muts: vec![m(1, None, &[(0, 11)], &[]), md(1)] }),
        // creation and deletion of a row racing with updates of it
        ("create-then-update-new-row", Scen { rows: vec![row1()], muts: vec![mk(11, Some(1), &[(0, 5), (1, 6)], &[RefOp::Add(0, vec![1]), RefOp::Set(1, 2)]), m(11, None, &[(3, 41)], &[RefOp::Add(0, vec![2])])] }),
        ("create-two-rows", Scen { rows: vec![], muts: vec![mk(11, None, &[(0, 5)], &[RefOp::Set(1, 0)]), mk(12, Some(1), &[], &[RefOp::Add(2, vec![0, 1])])] }),
        ("delete-vs-update", Scen { rows: vec![row1()], muts: vec![md(1), m(1, None, &[(0, 11)], &[RefOp::Add(0, vec![1])])] }),
        ("delete-vs-reference-only-update", Scen { rows: vec![row_free()], muts: vec![md(1), m(1, None, &[], &[RefOp::Add(2, vec![2])])] }),
        ("delete-vs-delete", Scen { rows: two_rows.clone(), muts: vec![md(1), md(1)] }),
        ("delete-other-row-vs-update", Scen { rows: two_rows.clone(), muts: vec![md(2), m(1, None, &[(0, 11)], &[RefOp::Set(1, 2)])] }),
        // corner cases
        ("same-field", Scen { rows: vec![row1()], muts: vec![m(1, None, &[(0, 11)], &[]), m(1, None, &[(0, 22)], &[])] }),
        ("reference-add-vs-replace", Scen { rows: vec![row1()], muts: vec![m(1, None, &[], &[RefOp::Add(0, vec![1])]), m(1, None, &[], &[RefOp::Clear(0)])] }),
        ("reference-add-vs-add", Scen { rows: vec![row1()], muts: vec![m(1, None, &[], &[RefOp::Add(0, vec![1])]), m(1, None, &[], &[RefOp::Add(0, vec![2, 1])])] }),
        ("reference-add-vs-field", Scen { rows: vec![row1()], muts: vec![m(1, None, &[], &[RefOp::Add(2, vec![1, 1])]), m(1, None, &[(2, 33)], &[])] }),
        ("room-only-and-existing-reference", Scen { rows: vec![row1()], muts: vec![m(1, Some(2), &[], &[RefOp::Add(0, vec![0]), RefOp::Set(1, 0)]), m(1, None, &[(1, 22)], &[RefOp::Clear(2)])] }),
        ("room-move-vs-room-move", Scen { rows: vec![row1()], muts: vec![m(1, Some(2), &[(0, 11)], &[]), m(1, Some(1), &[(0, 12)], &[RefOp::Clear(1)])] }),
        ("different-rows", Scen { rows: two_rows.clone(), muts: vec![m(1, None, &[(0, 11)], &[RefOp::Set(1, 2)]), m(2, Some(1), &[(0, 22)], &[RefOp::Add(0, vec![0])])] }),
        ("unknown-row", Scen { rows: vec![row1()], muts: vec![m(UNKNOWN_ROW, None, &[(0, 11)], &[]), m(1, None, &[(1, 22)], &[])] }),
        ("no-room", Scen { rows: vec![RowInit { room: None, fields: vec![None, None, None, None, None, None], edges: vec![] }], muts: vec![m(1, None, &[(0, 11)], &[RefOp::Set(1, 1)]), m(1, None, &[(1, 22)], &[RefOp::Set(1, 1)])] }),
    ]
}
fn directed3() -> Vec<(&'static str, Scen)> {
    let two_rows = vec![row1(), RowInit { room: Some(1), fields: vec![None, Some(5), Some(6), Some(8), Some(101), None], edges: vec![(2, 1)] }];
    vec![
        // the stale update of a deleted row lands on the rowid that a NEW row took over
        ("3-update-delete-create-reuses-rowid", Scen { rows: vec![row1()], muts: vec![m(1, None, &[(0, 11)], &[RefOp::Add(0, vec![1])]), md(1), mk(11, Some(1), &[(0, 5)], &[RefOp::Set(1, 2)])] }),
        ("3-different-fields", Scen { rows: vec![row1()], muts: vec![m(1, None, &[(0, 11)], &[]), m(1, None, &[(1, 22)], &[]), m(1, None, &[(3, 33)], &[])] }),
        ("3-json-documents", Scen { rows: vec![row_json(Some(100), Some(105))], muts: vec![m(1, None, &[(4, 101)], &[]), m(1, None, &[(5, 106), (4, 102)], &[]), m(1, None, &[(4, -1), (5, 103)], &[])] }),
        ("3-field-reference-room", Scen { rows: vec![row1()], muts: vec![m(1, None, &[(0, 11)], &[]), m(1, None, &[], &[RefOp::Set(1, 1), RefOp::Add(0, vec![2])]), m(1, Some(2), &[(0, 12)], &[RefOp::Clear(0)])] }),
        ("3-two-rows", Scen { rows: two_rows, muts: vec![m(1, None, &[(0, 11)], &[]), m(2, None, &[(0, 22)], &[RefOp::Set(1, 0)]), m(1, None, &[(1, 33)], &[RefOp::Set(1, 2), RefOp::Add(2, vec![2])])] }),
        ("3-refused-between-accepted", Scen { rows: vec![row1()], muts: vec![m(1, None, &[(0, 11)], &[]), m(1, Some(3), &[(1, 22)], &[RefOp::Set(1, 1)]), m(1, None, &[(3, 33)], &[RefOp::Add(0, vec![2])])] }),
        ("3-create-update-delete", Scen { rows: vec![row1()], muts: vec![mk(11, None, &[(0, 5)], &[RefOp::Add(0, vec![0])]), m(11, None, &[(1, 22)], &[RefOp::Set(1, 1)]), md(11)] }),
    ]
}
/// the witness of the rowid take-over: R1 . R2 V2 W2 . R3 V3 W3 . V1 W1
fn reuse_sigma() -> Vec<Ev> { vec![Ev::R(0), Ev::R(1), Ev::V(1), Ev::W(1), Ev::R(2), Ev::V(2), Ev::W(2), Ev::V(0), Ev::W(0)] }

fn gen_refop(rng: &mut Rng, used: &mut Vec<u64>, prefer: Option<u64>) -> Option<RefOp> {
    let l = rng.below(3);
    if used.contains(&l) { return None; }
    used.push(l);
    // targets are shared between the three reference fields; often the one another field already has
    let tag = |rng: &mut Rng| match prefer { Some(t) if rng.chance(1, 2) => t, _ => rng.below(NTAGS) };
    Some(if rng.chance(1, 4) { RefOp::Clear(l) }
         else if l == 1 { RefOp::Set(1, tag(rng)) }
         else { RefOp::Add(l, (0..1 + rng.below(2)).map(|_| tag(rng)).collect()) })
}
fn gen_scen(rng: &mut Rng, n: usize) -> Scen {
    let nrows = if rng.chance(1, 2) { 2 } else { 1 };
    let rows: Vec<RowInit> = (0..nrows).map(|_| {
        let mut edges = vec![];
        for l in [0u64, 2] { for t in 0..NTAGS { if rng.chance(1, 3) { edges.push((l, t)); } } }
        if rng.chance(1, 2) { edges.push((1, rng.below(NTAGS))); }
        // given values differ from the defaults (70, 90, "s30"); None = nullable absent / default stored
        RowInit { room: match rng.below(8) { 0 | 1 => None, 2 => Some(2), _ => Some(1) },
                  fields: (0..NF).map(|f| if !rng.chance(2, 3) { None } else if f >= 4 { Some(100 + rng.below(9) as i64) } else { Some(rng.range(1, 9)) }).collect(), edges }
    }).collect();
    let mut created: Vec<u64> = vec![];
    let muts: Vec<Mut> = (0..n).map(|i| {
        let mut targets: Vec<u64> = (1..=nrows as u64).collect();
        targets.extend(created.iter().cloned());
        let row = if rng.chance(1, 40) { UNKNOWN_ROW } else { *rng.pick(&targets) };
        let kind = match rng.below(20) { 0 | 1 => Kind::Delete, 2 | 3 => Kind::Create, _ => Kind::Update };
        if kind == Kind::Delete { return md(row); }
        let mut assign = vec![];
        for f in 0..NF as u64 {
            if rng.chance(1, 4) {
                assign.push((f, if f < 4 { 10 * (i as i64 + 1) + f as i64 } else if f == 4 && rng.chance(1, 5) { -1 } else { 100 + rng.below(DOCS.len() as u64) as i64 }));
            }
        }
        let mut used = vec![];
        let mut refs = vec![];
        let prefer = rows.get((row as usize).wrapping_sub(1)).and_then(|r| r.edges.first().map(|e| e.1));
        for _ in 0..rng.below(3) { if let Some(r) = gen_refop(rng, &mut used, prefer) { refs.push(r); } }
        if kind == Kind::Create {
            let id = 11 + i as u64;
            created.push(id);
            refs.retain(|r| !matches!(r, RefOp::Clear(_)));
            return Mut { kind, row: id, room: match rng.below(4) { 0 => None, 1 => Some(2), _ => Some(1) }, assign, refs };
        }
        if assign.is_empty() && refs.is_empty() && !rng.chance(1, 6) { assign.push((rng.below(4), 10 * (i as i64 + 1))); }
        // a row that is in a room keeps a room; rows outside rooms are not moved into one here.
        // room 3 (the caller is no member) and room 4 (unknown) make the validation refuse
        let in_room = row > 10 || rows.get((row as usize).wrapping_sub(1)).map(|r| r.room.is_some()).unwrap_or(false);
        let room = if in_room && rng.chance(1, 4) { Some(*rng.pick(&[1, 2, 2, 3, 4])) } else { None };
        Mut { kind, row, room, assign, refs }
    }).collect();
    Scen { rows, muts }
}
/// the same scenario outside rooms (for the runs through the real service); None if a mutation names a room
fn without_rooms(s: &Scen) -> Option<Scen> {
    if s.muts.iter().any(|m| m.room.is_some()) { return None; }
    let mut t = s.clone();
    for r in &mut t.rows { r.room = None; }
    Some(t)
}

// ---------------------------------------------------------------- the real service (observation only)
fn observe_stream(dir: &PathBuf) -> serde_json::Value {
    let rt = tokio::runtime::Builder::new_multi_thread().enable_all().build().unwrap();
    let trials = scale(40, 200);
    let dir = dir.clone();
    let res = rt.block_on(async move {
        let _ = std::fs::remove_dir_all(&dir);
        std::fs::create_dir_all(&dir).unwrap();
        let (app, _vk, _) = GraphDatabaseService::start("c16", MODEL, &random32(), &random32(), dir.clone(), &Configuration::default(), EventService::new()).await.unwrap();
        let mut lost = 0u64;
        let mut mixed = 0u64;
        for t in 0..trials {
            let r = app.mutate_raw("mutate { ns.Row { f0:0 f1:0 } }", None).await.unwrap();
            let id = base64_encode(&r.mutate_entities[0].node_to_mutate.id);
            let (send, mut recv) = app.mutation_stream();
            let a = 2 * t as i64 + 1;
            let mut p1 = Parameters::default(); p1.add("id", id.clone()).unwrap();
            let mut p2 = Parameters::default(); p2.add("id", id.clone()).unwrap();
            send.send((format!("mutate {{ ns.Row {{ id:$id f0:{} }} }}", a), Some(p1))).await.unwrap();
            send.send((format!("mutate {{ ns.Row {{ id:$id f1:{} }} }}", a + 1), Some(p2))).await.unwrap();
            let mut acked = 0;
            for _ in 0..2 { if let Some(Ok(_)) = recv.recv().await { acked += 1; } }
            drop(send);
            let mut p = Parameters::default(); p.add("id", id).unwrap();
            let q = app.query("query { ns.Row (id=$id) { f0 f1 } }", Some(p)).await.unwrap();
            let v: serde_json::Value = serde_json::from_str(&q).unwrap();
            let row = &v["ns.Row"][0];
            let (f0, f1) = (row["f0"].as_i64().unwrap_or(-1), row["f1"].as_i64().unwrap_or(-1));
            if acked == 2 && (f0 != a || f1 != a + 1) { lost += 1; }
            if acked != 2 { mixed += 1; }
        }
        json!({"pairs_of_pipelined_mutations_on_one_row": trials, "both_acknowledged_but_one_assignment_lost": lost, "not_both_acknowledged": mixed})
    });
    rt.shutdown_timeout(std::time::Duration::from_millis(200));
    res
}

/// what MutationParser::propagate_room does with a sub entity given by id, and what the pipeline
/// then does with it (observation only; basis of the fix 07628ab = requests/C16-fix-2.diff)
fn observe_propagate_room(env: &mut Env) -> serde_json::Value {
    env.reset(&Scen { rows: vec![row1()], muts: vec![] });
    // a tag in room 1
    let mut p = Parameters::default();
    p.add("room", base64_encode(&uid_of(1))).unwrap();
    let tag = env.mutate_now("mutate { ns.Tag { room_id:$room n: 9 } }", p).mutate_entities[0].node_to_mutate.id;
    let text = "mutate { ns.Row { id:$id room_id:$room f0:5 tags:[{id:$t}] } }";
    let parser = env.parser(text);
    let sub_has_room_field = match &parser.mutations[0].fields.get("tags").unwrap().field_value {
        MutationFieldValue::Array(subs) => subs[0].fields.contains_key("room_id"),
        _ => false,
    };
    let mut p = Parameters::default();
    p.add("id", base64_encode(&id_of(&env.ids, 1))).unwrap();
    p.add("room", base64_encode(&uid_of(2))).unwrap();
    p.add("t", base64_encode(&tag)).unwrap();
    verif_clock::set(BASE + 1000);
    let mq = env.mutate_now(text, p);
    verif_clock::clear();
    let sub = &mq.mutate_entities[0].sub_nodes.get("tags").unwrap()[0].node_to_mutate;
    let tag_short = env.dm.get_entity("ns.Tag").unwrap().short_name.clone();
    let tag_room = Node::get_with_entity(&tag, &tag_short, &env.rconn).unwrap().unwrap().room_id;
    let row_room = Node::get_with_entity(&id_of(&env.ids, 1), &env.shorts.row, &env.rconn).unwrap().unwrap().room_id;
    json!({"request": text,
           "sub_entity_given_by_id_received_the_parent_room_id_field": sub_has_room_field,
           "sub_entity_room_computed_by_the_reader": (1..=4).find(|k| sub.room_id == Some(uid_of(*k))),
           "sub_entity_node_to_write": sub.node.is_some(),
           "parent_room_after": (1..=4).find(|k| row_room == Some(uid_of(*k))),
           "referenced_row_room_after": (1..=4).find(|k| tag_room == Some(uid_of(*k)))})
}

/// with the default full-text index: R1 R2 V1 W1 V2 W2 on one row whose Json document contains text;
/// the second (stale) write asks the index to remove a text it no longer holds (observation only)
fn observe_fts_conflict(dir: &PathBuf) -> serde_json::Value {
    let mut env = Env::new(dir, MODEL_FTS);
    let s = Scen { rows: vec![row_json(Some(100), None)], muts: vec![m(1, None, &[(4, 101)], &[]), m(1, None, &[(4, 103)], &[])] };
    env.reset(&s);
    let mut pend = vec![];
    for i in 0..2 {
        verif_clock::set(BASE + mdate_of(i));
        let (text, mut params) = request_text(&s.muts[i], &env.ids, &env.tags);
        let p = env.parser(&text);
        pend.push(MutationQuery::execute(&mut params, p, &env.rconn).unwrap());
    }
    let mut results = vec![];
    for mq in pend.iter_mut() {
        env.ra.validate_mutation(mq).unwrap();
        env.begin();
        let r = mq.write(&env.wconn);
        match &r { Ok(_) => env.commit(), Err(_) => { env.wconn.execute("ROLLBACK", []).unwrap(); env.in_txn = false; } }
        results.push(match r { Ok(_) => "written".to_string(), Err(e) => format!("write failed: {}", e) });
    }
    verif_clock::clear();
    json!({"entity": "Row with the default full-text index", "schedule": "R1 R2 V1 W1 V2 W2", "first_write": results[0], "second_write_from_the_stale_snapshot": results[1],
           "note": "process_batch_write rolls the whole batch back and answers every request of the batch with this error"})
}

/// the real service, strictly sequential callers: every request is awaited before the next
struct Svc { rt: tokio::runtime::Runtime, app: GraphDatabaseService, shorts: Shorts }
impl Svc {
    fn start(dir: &PathBuf) -> Svc {
        let rt = tokio::runtime::Builder::new_multi_thread().enable_all().build().unwrap();
        let d = dir.clone();
        let (app, shorts) = rt.block_on(async move {
            let _ = std::fs::remove_dir_all(&d);
            std::fs::create_dir_all(&d).unwrap();
            let (app, _vk, _) = GraphDatabaseService::start("c16seq", MODEL, &random32(), &random32(), d.clone(), &Configuration::default(), EventService::new()).await.unwrap();
            // the service's own short names (they are assigned when the model is first loaded)
            let dm: DataModel = serde_json::from_str(&app.datamodel().await.unwrap()).unwrap();
            (app, Shorts::of(&dm))
        });
        Svc { rt, app, shorts }
    }
    /// acknowledgements ++ final state after awaiting the requests one by one in the order pi
    fn exec(&self, s: &Scen, pi: &[usize]) -> Vec<i64> {
        let app = self.app.clone();
        let shorts = self.shorts.clone();
        let s = s.clone();
        let pi = pi.to_vec();
        let out = self.rt.block_on(async move {
            verif_clock::set(BASE);
            let mut tags = vec![];
            for t in 0..NTAGS {
                let mq = app.mutate_raw(&format!("mutate {{ ns.Tag {{ n: {} }} }}", t), None).await.unwrap();
                tags.push(mq.mutate_entities[0].node_to_mutate.id);
            }
            let mut ids: Ids = vec![];
            for (k, r) in s.rows.iter().enumerate() {
                let (text, params) = init_text(r, &tags);
                let mq = app.mutate_raw(&text, Some(params)).await.unwrap();
                ids.push((k as u64 + 1, mq.mutate_entities[0].node_to_mutate.id));
            }
            let mut acks = vec![0i64; s.muts.len()];
            for i in pi {
                verif_clock::set(BASE + mdate_of(i));
                let m = &s.muts[i];
                let (text, params) = request_text(m, &ids, &tags);
                if m.kind == Kind::Delete {
                    match app.delete(&text, Some(params)).await { Ok(_) => acks[i] = 1, Err(e) => panic!("service deletion: {:?}", e) }
                } else {
                    match app.mutate_raw(&text, Some(params)).await {
                        Ok(mq) => { acks[i] = 1; if m.kind == Kind::Create { ids.push((m.row, mq.mutate_entities[0].node_to_mutate.id)); } }
                        Err(DbError::UnknownEntity(_, _)) => {}
                        Err(e) => panic!("service mutation: {:?}", e),
                    }
                }
            }
            let (tx, rx) = tokio::sync::oneshot::channel();
            app.db.reader.send_async(Box::new(move |conn| { let _ = tx.send(dump_conn(conn, &shorts, &ids, &tags).0); })).await.unwrap();
            let mut out = acks;
            out.extend(rx.await.unwrap());
            out
        });
        verif_clock::clear();
        out
    }
}

fn main() {
    let mut out = Out::create();
    let mut rng = Rng::from_env();
    let work = PathBuf::from(std::env::var("VERIF_WORK").unwrap_or_else(|_| "/verif/work".to_string())).join("C16");
    let dir = work.join(format!("run_{}", std::process::id()));

    // 0. the window is open in practice: two mutations of one row pipelined on mutation_stream
    let t0 = std::time::Instant::now();
    let stream = observe_stream(&dir.join("svc"));
    eprintln!("c16: stream observation {:?}", t0.elapsed());
    out.push(Case { kind: "stream-observation".into(), coq: "CNote".into(), obs: vec![], meta: stream });

    let mut rn = Runner { env: Env::new(&dir.join("db"), MODEL), svc: Svc::start(&dir.join("svc_seq")), serial_cache: HashMap::new(),
                          n_serializable: 0, n_not: 0, n_overlap: 0, n_sequential: 0, n_refused: 0, n_with_create_or_delete: 0 };
    let sched2 = all_schedules(2);
    let sched3 = all_schedules(3);
    let orders = |n: usize| perms(&(0..n).collect::<Vec<_>>());

    // 1. the witnesses first: class 1 with the schedule R1 R2 V1 W1 V2 W2 and with the rowid
    //    take-over; the former class 2 (room-only move, fixed) with a strictly sequential schedule
    let lost = vec![Ev::R(0), Ev::R(1), Ev::V(0), Ev::W(0), Ev::V(1), Ev::W(1)];
    for (name, s) in directed().iter().take(3) { let c = rn.case(&format!("witness:{}", name), s, &lost, false); out.push(c); }
    { let d = directed3(); let (name, s) = &d[0]; let c = rn.case(&format!("witness:{}", name), s, &reuse_sigma(), false); out.push(c); }
    { let d = directed(); let (name, s) = &d[3]; let c = rn.case(&format!("witness:{}", name), s, &serial_sched(&[0, 1]), false); out.push(c); }
    let fts = observe_fts_conflict(&dir.join("db_fts"));
    out.push(Case { kind: "full-text-index-observation".into(), coq: "CNote".into(), obs: vec![], meta: fts });
    let prop = observe_propagate_room(&mut rn.env);
    out.push(Case { kind: "propagate-room-observation".into(), coq: "CNote".into(), obs: vec![], meta: prop });

    // 2. strictly sequential callers (every order), on the phases and through the real service
    //    with awaited requests: this is where the theorem says the property holds
    for (name, s) in directed().into_iter().chain(directed3()) {
        for pi in orders(s.muts.len()) {
            let c = rn.case(&format!("sequential:{}", name), &s, &serial_sched(&pi), false); out.push(c);
            if let Some(t) = without_rooms(&s) { let c = rn.case_service(&format!("service-sequential:{}", name), &t, &pi); out.push(c); }
        }
    }
    // 3. every schedule of every directed 2-mutation scenario
    for (name, s) in directed() {
        for (k, sg) in sched2.iter().enumerate() { let c = rn.case(&format!("all2:{}", name), &s, sg, k % 2 == 1); out.push(c); }
    }
    // 4. three mutations: all schedules in the thorough tier, a sample in the quick tier
    for (name, s) in directed3() {
        if tier_thorough() {
            for (k, sg) in sched3.iter().enumerate() { let c = rn.case(&format!("all3:{}", name), &s, sg, k % 2 == 1); out.push(c); }
        } else {
            for k in 0..30 { let sg = rng.pick(&sched3).clone(); let c = rn.case(&format!("sample3:{}", name), &s, &sg, k % 2 == 1); out.push(c); }
        }
    }
    // 5. random scenarios: every sequential order (phases; through the service when no room is
    //    involved), then all schedules (2 mutations) or random schedules (3 mutations)
    for _ in 0..scale(30, 150) {
        let s = gen_scen(&mut rng, 2);
        for pi in orders(2) {
            let c = rn.case("random-sequential", &s, &serial_sched(&pi), false); out.push(c);
            if let Some(t) = without_rooms(&s) { let c = rn.case_service("random-service-sequential", &t, &pi); out.push(c); }
        }
        for (k, sg) in sched2.iter().enumerate() { let c = rn.case("random2", &s, sg, k % 3 == 1); out.push(c); }
    }
    for _ in 0..scale(40, 300) {
        let s = gen_scen(&mut rng, 3);
        for (k, pi) in orders(3).into_iter().take(scale(3, 6)).enumerate() {
            let c = rn.case("random-sequential", &s, &serial_sched(&pi), false); out.push(c);
            if k < scale(1, 6) { if let Some(t) = without_rooms(&s) { let c = rn.case_service("random-service-sequential", &t, &pi); out.push(c); } }
        }
        for k in 0..scale(6, 12) {
            let (kind, sg) = if k % 2 == 0 { ("random3", random_schedule(&mut rng, 3)) } else { ("random3-disjoint-windows", random_schedule_disjoint(&mut rng, &s)) };
            let c = rn.case(kind, &s, &sg, k % 3 == 1); out.push(c);
        }
    }
    eprintln!("c16: total {:?}", t0.elapsed());
    eprintln!("c16: {} cases; schedules of 2: {}, of 3: {}; overlapping windows: {}; sequential {}; with a refused mutation {}; with create/delete {}; final state equals a serial outcome: {}, does not: {}; {:?}",
        out.n, sched2.len(), sched3.len(), rn.n_overlap, rn.n_sequential, rn.n_refused, rn.n_with_create_or_delete, rn.n_serializable, rn.n_not, rn.env.stats);
    out.push(Case { kind: "generator-statistics".into(), coq: "CNote".into(), obs: vec![],
        meta: json!({"schedules_of_2": sched2.len(), "schedules_of_3": sched3.len(), "cases_with_overlapping_windows": rn.n_overlap, "strictly_sequential_cases": rn.n_sequential,
                     "cases_with_a_mutation_refused_by_validation": rn.n_refused, "cases_with_creation_or_deletion": rn.n_with_create_or_delete,
                     "final_equals_a_serial_outcome": rn.n_serializable, "final_equals_no_serial_outcome": rn.n_not,
                     "final_rows_with_invalid_signature": rn.env.stats.get("final_row_signature_invalid").copied().unwrap_or(0)}) });
    drop(rn);
    let _ = std::fs::remove_dir_all(&dir);
    out.finish();
}
