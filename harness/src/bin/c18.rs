//! C18 correspondence: which (room, entity, day) the real GraphDatabaseService announces through
//! DataChanged events, and when: sequential API calls (mutate, delete, ingested batches +
//! recompute, mutation streams with their observed schedule), concurrent calls, room mutations.
//! Compared with coq/model/Events.v; judged by the oracle of coq/run/Run_C18.v (every key whose
//! stored content a committed change altered is named by an event received afterwards).
use discret::verif_hooks::configuration::Configuration;
use discret::verif_hooks::database::edge::{Edge, EdgeDeletionEntry};
use discret::verif_hooks::database::graph_database::{DbMessage, GraphDatabaseService};
use discret::verif_hooks::database::mutation_query::MutationQuery;
use discret::verif_hooks::database::node::{Node, NodeDeletionEntry, NodeIdentifier};
use discret::verif_hooks::date_utils::verif_clock;
use discret::verif_hooks::event_service::{Event, EventService};
use discret::verif_hooks::security::{base64_encode, random32, Ed25519SigningKey, SigningKey};
use discret::{Parameters, ParametersAdd};
use serde_json::json;
use std::collections::{HashMap, HashSet};
use std::path::PathBuf;
use vharness::common::*;

const BASE: i64 = 1_700_006_400_000; // a midnight (UTC)
static MISSING: std::sync::atomic::AtomicU64 = std::sync::atomic::AtomicU64::new(0);
/// bound of every wait for an event: generous until events have gone missing three times in this run
/// (then the tree under test drops recompute requests and the run must stay short)
fn wait_bound() -> std::time::Duration { if MISSING.load(std::sync::atomic::Ordering::SeqCst) < 3 { std::time::Duration::from_secs(5) } else { std::time::Duration::from_millis(500) } }
type Uid = [u8; 16];
type Key = (usize, u64, i64);

trait AsNode { fn as_node(&self) -> &Node; }
impl AsNode for Node { fn as_node(&self) -> &Node { self } }
impl AsNode for discret::verif_hooks::database::deletion::NodeDelete { fn as_node(&self) -> &Node { &self.node } }

#[derive(Clone, Debug)]
enum Op {
    Tick(i64),
    LCreate { id: usize, room: Option<usize>, ent: u64, sig: usize },
    LUpdate { id: usize, ent: u64, room: Option<usize>, sig: usize },
    LAddRef { src: usize, ent: u64, dest: usize, sig: usize },
    LDelNode { id: usize, ent: u64, tsig: usize },
    LDelRef { src: usize, ent: u64, dest: usize, sig: usize, esig: usize },
    SNodes { room: usize, ns: Vec<(usize, u64, i64, usize)> },
    SDelNodes(Vec<(usize, usize, u64, i64, i64, usize)>),
    SDelEdges(Vec<(usize, usize, u64, usize, i64, i64, usize)>), // room src ent dest cdate date sig
}
#[derive(Clone, Debug)]
enum Api { Tick(i64), Call(Op), Calls(Vec<Op>), Ingest(Op), Compute, Stream(Vec<Op>) }
#[derive(Clone, Debug)]
enum Tev { W(Vec<Key>), E(Vec<Key>), Q }

struct Names { person: String, pet: String, label: String }
fn ent_of(names: &Names, s: &str) -> u64 { if s == names.person { 1 } else if s == names.pet { 2 } else { 99 } }
fn ent_short(names: &Names, e: u64) -> String { if e == 1 { names.person.clone() } else { names.pet.clone() } }
fn ent_long(e: u64) -> &'static str { if e == 1 { "ns.Person" } else { "ns.Pet" } }

struct Inst {
    app: GraphDatabaseService,
    ev: tokio::sync::broadcast::Receiver<Event>,
    me: Vec<u8>,
    peer: Ed25519SigningKey,
    names: Names,
    path: PathBuf,
}

impl Inst {
    async fn start(tag: &str) -> Inst {
        let work = std::env::var("VERIF_WORK").unwrap_or_else(|_| "/verif/work".into());
        let path: PathBuf = format!("{}/C18/{}", work, tag).into();
        let _ = std::fs::remove_dir_all(&path);
        std::fs::create_dir_all(&path).unwrap();
        verif_clock::set(BASE - 10 * DAY);
        let model = "ns { Person{ name:String, parents:[ns.Person] } Pet{ name:String } }";
        let es = EventService::new();
        let ev = es.subcribe().await;
        let (app, me, _) = GraphDatabaseService::start("c18", model, &random32(), &random32(), path.clone(), &Configuration::default(), es).await.unwrap();
        let mut inst = Inst { app, ev, me, peer: Ed25519SigningKey::create_from(&[5u8; 32]), names: Names { person: String::new(), pet: String::new(), label: String::new() }, path };
        inst.wait_events(1).await; // the recompute requested at start-up
        // learn the short names from real rows
        let r = inst.app.mutate_raw(r#"mutate { a: ns.Person{ name:"x" parents:[{name:"y"}] } b: ns.Pet{ name:"z" } }"#, None).await.unwrap();
        inst.wait_events(1).await;
        inst.names.person = r.mutate_entities[0].node_to_mutate.node.as_ref().unwrap()._entity.clone();
        inst.names.pet = r.mutate_entities[1].node_to_mutate.node.as_ref().unwrap()._entity.clone();
        inst.names.label = r.mutate_entities[0].edge_insertions[0].label.clone();
        assert!(inst.names.person < inst.names.pet);
        inst
    }
    /// one DataChanged event per processed ComputeDailyLog. Every wait is bounded: an event that does
    /// not come within the bound is an OBSERVATION (recorded as an empty event, counted in the meta
    /// data): the oracle then reports the acknowledged change that was never announced
    async fn wait_events(&mut self, n: usize) -> Vec<Vec<(String, String, i64)>> {
        let mut out = vec![];
        while out.len() < n {
            match tokio::time::timeout(wait_bound(), self.ev.recv()).await {
                Ok(Ok(Event::DataChanged(d))) => {
                    let mut v = vec![];
                    for (r, m) in &d.rooms { for (e, ds) in m { for d in ds { v.push((r.clone(), e.clone(), *d)); } } }
                    v.sort();
                    out.push(v);
                }
                Ok(Ok(_)) => {}
                Ok(Err(tokio::sync::broadcast::error::RecvError::Lagged(_))) => {}
                Ok(Err(e)) => panic!("event channel: {:?}", e),
                Err(_) => { MISSING.fetch_add(1, std::sync::atomic::Ordering::SeqCst); break; }
            }
        }
        out
    }
    async fn new_room(&mut self) -> Uid {
        let mut p = Parameters::default();
        p.add("me", base64_encode(&self.me)).unwrap();
        p.add("peer", base64_encode(&self.peer.export_verifying_key())).unwrap();
        let room = self.app.mutate_raw(r#"mutate { sys.Room{ admin:[{verif_key:$me}] authorisations:[{ name:"g" rights:[{entity:"ns.Person" mutate_self:true mutate_all:true},{entity:"ns.Pet" mutate_self:true mutate_all:true}] users:[{verif_key:$me},{verif_key:$peer}] }] } }"#, Some(p)).await.unwrap();
        self.wait_events(1).await;
        room.mutate_entities[0].node_to_mutate.id
    }
    /// mutation without the recompute request that mutate_raw appends
    async fn mutate_quiet(&self, q: &str, p: Parameters) -> Result<MutationQuery, discret::verif_hooks::database::Error> {
        let (reply, receive) = tokio::sync::oneshot::channel();
        let _ = self.app.sender.send(DbMessage::Mutate(q.to_string(), p, reply)).await;
        receive.await.unwrap()
    }
    async fn sql_rows(&self, q: &'static str, room: Uid) -> Vec<(String, i64, Vec<u8>)> {
        let (tx, rx) = tokio::sync::oneshot::channel();
        self.app.db.reader.send_async(Box::new(move |conn| {
            let mut st = conn.prepare(q).unwrap();
            let rows: Vec<(String, i64, Vec<u8>)> = st.query_map([room], |r| Ok((r.get(0)?, r.get(1)?, r.get(2)?))).unwrap().map(|x| x.unwrap()).collect();
            let _ = tx.send(rows);
        })).await.unwrap();
        rx.await.unwrap()
    }
    async fn sql_log(&self, room: Uid) -> Vec<(String, i64, i64, Option<Vec<u8>>, Option<Vec<u8>>, bool)> {
        let (tx, rx) = tokio::sync::oneshot::channel();
        self.app.db.reader.send_async(Box::new(move |conn| {
            let mut st = conn.prepare("SELECT entity, date, entry_number, daily_hash, history_hash, need_recompute FROM _daily_log WHERE room_id = ?").unwrap();
            let rows: Vec<_> = st.query_map([room], |r| Ok((r.get(0)?, r.get(1)?, r.get(2)?, r.get(3)?, r.get(4)?, r.get(5)?))).unwrap().map(|x| x.unwrap()).collect();
            let _ = tx.send(rows);
        })).await.unwrap();
        rx.await.unwrap()
    }
}

// ---------------------------------------------------------------- one scenario
#[derive(Clone, Debug)]
struct Shadow { idx: usize, uid: Uid, ent: u64, room: Option<usize>, mdate: i64, alive: bool }

struct Scn {
    rooms: Vec<Uid>,
    room_b64: HashMap<String, usize>,
    sigs: Vec<Vec<u8>>,
    sig_ix: HashMap<Vec<u8>, usize>,
    ids: Vec<Uid>,
    nodes: Vec<Shadow>,
    edges: Vec<(usize, usize, i64)>,
    prog: Vec<Api>,
    trace: Vec<Tev>,
    snap: HashMap<Key, Vec<Vec<u8>>>,
    now: i64,
    t0: i64,
    case_no: u64,
    stats: HashMap<&'static str, u64>,
}
impl Scn {
    fn sig(&mut self, s: &[u8]) -> usize {
        if let Some(i) = self.sig_ix.get(s) { return *i; }
        self.sigs.push(s.to_vec());
        let i = self.sigs.len();
        self.sig_ix.insert(s.to_vec(), i);
        i
    }
    fn new_id(&mut self, uid: Uid) -> usize { self.ids.push(uid); self.ids.len() }
    fn fresh_uid(&self) -> Uid {
        let mut u = uid_of(self.ids.len() as u64 + 1);
        u[1..8].copy_from_slice(&(self.case_no + 0x0100_0000).to_be_bytes()[1..8]);
        u
    }
    fn bump(&mut self, k: &'static str) { *self.stats.entry(k).or_insert(0) += 1; }
    fn ev_keys(&self, names_ev: &[(String, String, i64)]) -> Vec<Key> {
        let mut v = vec![];
        for (r, e, d) in names_ev {
            if let Some(ri) = self.room_b64.get(r) { v.push((*ri, if e == "ns.Person" { 1 } else if e == "ns.Pet" { 2 } else { 99 }, *d)); }
        }
        v
    }
}

async fn snapshot(inst: &Inst, scn: &mut Scn) -> HashMap<Key, Vec<Vec<u8>>> {
    let mut m: HashMap<Key, Vec<Vec<u8>>> = HashMap::new();
    for (ri, room) in scn.rooms.clone().iter().enumerate() {
        let mut rows = inst.sql_rows("SELECT _entity, mdate, _signature FROM _node WHERE room_id = ?", *room).await;
        rows.extend(inst.sql_rows("SELECT entity, deletion_date, signature FROM _node_deletion_log WHERE room_id = ?", *room).await);
        rows.extend(inst.sql_rows("SELECT src_entity, deletion_date, signature FROM _edge_deletion_log WHERE room_id = ?", *room).await);
        for (e, d, s) in rows { scn.sig(&s); m.entry((ri, ent_of(&inst.names, &e), d.div_euclid(DAY) * DAY)).or_default().push(s); }
    }
    for v in m.values_mut() { v.sort(); }
    m
}
/// the keys whose stored content differs from the previous snapshot (the oracle's "touched" set)
async fn changed(inst: &Inst, scn: &mut Scn) -> Vec<Key> {
    let new = snapshot(inst, scn).await;
    let mut ks: HashSet<Key> = HashSet::new();
    for (k, v) in &new { if scn.snap.get(k) != Some(v) { ks.insert(*k); } }
    for k in scn.snap.keys() { if !new.contains_key(k) { ks.insert(*k); } }
    scn.snap = new;
    ks.into_iter().collect()
}

fn tick(scn: &mut Scn, t: i64) {
    if t != scn.now { scn.now = t; verif_clock::set(t); scn.prog.push(Api::Tick(t)); scn.trace.push(Tev::W(vec![])); }
}
/// bookkeeping of a call that requests a recompute after its acknowledgement (mutate, delete)
fn first_event(scn: &Scn, ev: &[Vec<(String, String, i64)>]) -> Vec<Key> { match ev.first() { Some(e) => scn.ev_keys(e), None => vec![] } }
async fn finish_call(inst: &mut Inst, scn: &mut Scn, op: Op) {
    let w = changed(inst, scn).await;
    let ev = inst.wait_events(1).await;
    scn.trace.push(Tev::W(w));
    scn.trace.push(Tev::E(first_event(scn, &ev)));
    scn.trace.push(Tev::Q);
    scn.prog.push(Api::Call(op));
}
/// one request that writes several rows: the model accounts the changed keys per row written, the
/// harness knows them from the result of the request (and checks the union against the tables)
async fn finish_calls(inst: &mut Inst, scn: &mut Scn, ops: Vec<(Op, Vec<Key>)>) {
    let w = changed(inst, scn).await;
    let ev = inst.wait_events(1).await;
    let mut union: Vec<Key> = ops.iter().flat_map(|(_, k)| k.clone()).collect();
    union.sort(); union.dedup();
    let mut wt = w.clone(); wt.sort();
    if wt != union { scn.bump("calls_changed_keys_differ_from_tables"); }
    if ops.is_empty() { // refused request: nothing was written, only the recompute it requests is visible
        scn.trace.push(Tev::E(first_event(scn, &ev)));
        scn.trace.push(Tev::Q);
        scn.prog.push(Api::Compute);
        return;
    }
    for (_, k) in &ops { scn.trace.push(Tev::W(k.iter().cloned().filter(|x| w.contains(x)).collect())); }
    scn.trace.push(Tev::E(first_event(scn, &ev)));
    scn.trace.push(Tev::Q);
    scn.prog.push(Api::Calls(ops.into_iter().map(|(o, _)| o).collect()));
}
async fn finish_ingest(inst: &mut Inst, scn: &mut Scn, op: Op) {
    let w = changed(inst, scn).await;
    scn.trace.push(Tev::W(w));
    scn.prog.push(Api::Ingest(op));
}
async fn do_compute(inst: &mut Inst, scn: &mut Scn) {
    inst.app.compute_daily_log().await;
    let ev = inst.wait_events(1).await;
    scn.trace.push(Tev::E(first_event(scn, &ev)));
    scn.trace.push(Tev::Q);
    scn.prog.push(Api::Compute);
}

async fn l_create(inst: &mut Inst, scn: &mut Scn, ent: u64, room: Option<usize>) {
    let mut p = Parameters::default();
    let q = match room {
        Some(r) => { p.add("room_id", base64_encode(&scn.rooms[r])).unwrap(); format!("mutate {{ {}{{ room_id:$room_id name:\"c\" }} }}", ent_long(ent)) }
        None => format!("mutate {{ {}{{ name:\"c\" }} }}", ent_long(ent)),
    };
    let r = inst.app.mutate_raw(&q, Some(p)).await.unwrap();
    let n = r.mutate_entities[0].node_to_mutate.node.as_ref().unwrap();
    let id = scn.new_id(n.id);
    let sig = scn.sig(&n._signature);
    scn.nodes.push(Shadow { idx: id, uid: n.id, ent, room, mdate: n.mdate, alive: true });
    scn.bump("l_create");
    finish_call(inst, scn, Op::LCreate { id, room, ent, sig }).await;
}
async fn l_update(inst: &mut Inst, scn: &mut Scn, ni: usize, room: Option<usize>) {
    let sh = scn.nodes[ni].clone();
    let mut p = Parameters::default();
    p.add("id", base64_encode(&sh.uid)).unwrap();
    let q = match room {
        Some(r) => { p.add("room_id", base64_encode(&scn.rooms[r])).unwrap(); format!("mutate {{ {}{{ id:$id room_id:$room_id name:\"u{}\" }} }}", ent_long(sh.ent), scn.now % 1000) }
        None => format!("mutate {{ {}{{ id:$id name:\"u{}\" }} }}", ent_long(sh.ent), scn.now % 1000),
    };
    let r = inst.app.mutate_raw(&q, Some(p)).await;
    let sig = match &r {
        Ok(m) => { let n = m.mutate_entities[0].node_to_mutate.node.as_ref().unwrap(); let s = scn.sig(&n._signature); let x = &mut scn.nodes[ni]; x.mdate = n.mdate; if room.is_some() { x.room = room; } scn.bump("l_update_ok"); s }
        Err(_) => { scn.bump("l_update_err"); 0 }
    };
    finish_call(inst, scn, Op::LUpdate { id: sh.idx, ent: sh.ent, room, sig }).await;
}
async fn l_addref(inst: &mut Inst, scn: &mut Scn, si: usize, di: usize) {
    let (s, d) = (scn.nodes[si].clone(), scn.nodes[di].clone());
    let mut p = Parameters::default();
    p.add("src", base64_encode(&s.uid)).unwrap();
    p.add("dest", base64_encode(&d.uid)).unwrap();
    let r = inst.app.mutate_raw("mutate { ns.Person{ id:$src parents:[{id:$dest}] } }", Some(p)).await;
    let sig = match &r {
        Ok(m) => match &m.mutate_entities[0].node_to_mutate.node {
            Some(n) => { let sg = scn.sig(&n._signature); scn.nodes[si].mdate = n.mdate; scn.edges.push((s.idx, d.idx, m.mutate_entities[0].edge_insertions[0].cdate)); scn.bump("l_addref_new"); sg }
            None => { scn.bump("l_addref_noop"); 0 }
        },
        Err(_) => { scn.bump("l_addref_err"); 0 }
    };
    finish_call(inst, scn, Op::LAddRef { src: s.idx, ent: 1, dest: d.idx, sig }).await;
}
fn key_of(room: Option<usize>, ent: u64, t: i64) -> Vec<Key> { match room { Some(r) => vec![(r, ent, t.div_euclid(DAY) * DAY)], None => vec![] } }
/// an owner row and a nested row created in one request
async fn l_nested_create(inst: &mut Inst, scn: &mut Scn, oroom: Option<usize>, croom: Option<usize>) {
    let mut p = Parameters::default();
    let o = match oroom { Some(r) => { p.add("ro", base64_encode(&scn.rooms[r])).unwrap(); "room_id:$ro " } None => "" };
    let c = match croom { Some(r) => { p.add("rc", base64_encode(&scn.rooms[r])).unwrap(); "room_id:$rc " } None => "" };
    let q = format!("mutate {{ ns.Person{{ {}name:\"o\" parents:[{{ {}name:\"n\" }}] }} }}", o, c);
    let r = inst.app.mutate_raw(&q, Some(p)).await.unwrap();
    let ie = &r.mutate_entities[0];
    let on = ie.node_to_mutate.node.as_ref().unwrap();
    let cn = ie.sub_nodes.get("parents").unwrap()[0].node_to_mutate.node.as_ref().unwrap();
    let (oid, cid) = (scn.new_id(on.id), scn.new_id(cn.id));
    let (osig, csig) = (scn.sig(&on._signature), scn.sig(&cn._signature));
    let ro = on.room_id.and_then(|u| scn.rooms.iter().position(|x| *x == u));
    let rc = cn.room_id.and_then(|u| scn.rooms.iter().position(|x| *x == u));
    scn.nodes.push(Shadow { idx: oid, uid: on.id, ent: 1, room: ro, mdate: on.mdate, alive: true });
    scn.nodes.push(Shadow { idx: cid, uid: cn.id, ent: 1, room: rc, mdate: cn.mdate, alive: true });
    scn.edges.push((oid, cid, ie.edge_insertions[0].cdate));
    scn.bump("l_nested_create");
    let now = scn.now;
    finish_calls(inst, scn, vec![(Op::LCreate { id: oid, room: ro, ent: 1, sig: osig }, key_of(ro, 1, now)),
                                 (Op::LCreate { id: cid, room: rc, ent: 1, sig: csig }, key_of(rc, 1, now)),
                                 (Op::LAddRef { src: oid, ent: 1, dest: cid, sig: osig }, vec![])]).await;
}
/// a row updated through another one: mutate { ns.Person{ id:$p parents:[{ id:$c name }] } }
async fn l_via(inst: &mut Inst, scn: &mut Scn, pi: usize, ci: usize) {
    let (ps, cs) = (scn.nodes[pi].clone(), scn.nodes[ci].clone());
    let mut p = Parameters::default();
    p.add("p", base64_encode(&ps.uid)).unwrap();
    p.add("c", base64_encode(&cs.uid)).unwrap();
    let q = format!("mutate {{ ns.Person{{ id:$p parents:[{{ id:$c name:\"v{}\" }}] }} }}", scn.now % 1000);
    let r = inst.app.mutate_raw(&q, Some(p)).await;
    let now = scn.now;
    match &r {
        Ok(m) => {
            let ie = &m.mutate_entities[0];
            let (psig, pk) = match &ie.node_to_mutate.node {
                Some(n) => { let sg = scn.sig(&n._signature); scn.nodes[pi].mdate = n.mdate; scn.edges.push((ps.idx, cs.idx, ie.edge_insertions[0].cdate));
                             let mut k = key_of(ps.room, 1, ps.mdate); k.extend(key_of(ps.room, 1, now)); (sg, k) }
                None => (0, vec![]),
            };
            let cn = ie.sub_nodes.get("parents").unwrap()[0].node_to_mutate.node.as_ref().unwrap();
            let csig = scn.sig(&cn._signature);
            scn.nodes[ci].mdate = cn.mdate;
            let mut ck = key_of(cs.room, 1, cs.mdate); ck.extend(key_of(cs.room, 1, now));
            scn.bump(if psig == 0 { "l_via_unchanged_parent" } else { "l_via_new_reference" });
            finish_calls(inst, scn, vec![(Op::LAddRef { src: ps.idx, ent: 1, dest: cs.idx, sig: psig }, pk), (Op::LUpdate { id: cs.idx, ent: 1, room: None, sig: csig }, ck)]).await;
        }
        Err(_) => { scn.bump("l_via_err"); finish_calls(inst, scn, vec![]).await; }
    }
}

async fn l_delnode(inst: &mut Inst, scn: &mut Scn, ni: usize) {
    let sh = scn.nodes[ni].clone();
    let mut p = Parameters::default();
    p.add("id", base64_encode(&sh.uid)).unwrap();
    let r = inst.app.delete(&format!("delete {{ {}{{ $id }} }}", ent_long(sh.ent)), Some(p)).await.unwrap();
    let tsig = match r.node_log.first() { Some(l) => scn.sig(&l.signature), None => 0 };
    if !r.nodes.is_empty() { scn.nodes[ni].alive = false; scn.edges.retain(|e| e.0 != sh.idx && e.1 != sh.idx); scn.bump("l_delnode"); } else { scn.bump("l_delnode_absent"); }
    finish_call(inst, scn, Op::LDelNode { id: sh.idx, ent: sh.ent, tsig }).await;
}
async fn l_delref(inst: &mut Inst, scn: &mut Scn, si: usize, di: usize) {
    let (s, d) = (scn.nodes[si].clone(), scn.nodes[di].clone());
    let mut p = Parameters::default();
    p.add("src", base64_encode(&s.uid)).unwrap();
    p.add("dest", base64_encode(&d.uid)).unwrap();
    let r = inst.app.delete("delete { ns.Person{ $src parents[$dest] } }", Some(p)).await.unwrap();
    let sig = match r.updated_nodes.first().map(|n| n.as_node()) { Some(n) => { scn.nodes[si].mdate = n.mdate; scn.sig(&n._signature) } None => 0 };
    let esig = match r.edge_log.first() { Some(l) => scn.sig(&l.signature), None => 0 };
    if !r.edges.is_empty() { scn.edges.retain(|e| !(e.0 == s.idx && e.1 == d.idx)); scn.bump("l_delref_edge"); } else { scn.bump("l_delref_noedge"); }
    finish_call(inst, scn, Op::LDelRef { src: s.idx, ent: 1, dest: d.idx, sig, esig }).await;
}
async fn s_nodes(inst: &mut Inst, scn: &mut Scn, room: usize, versions: Vec<(Option<usize>, u64, i64)>) {
    let mut set = HashSet::new();
    let mut built: HashMap<Uid, Node> = HashMap::new();
    let mut sym = vec![];
    for (ni, ent, mdate) in versions {
        let (idx, uid) = match ni {
            Some(i) => (scn.nodes[i].idx, scn.nodes[i].uid),
            None => { let uid = scn.fresh_uid(); let idx = scn.new_id(uid); scn.nodes.push(Shadow { idx, uid, ent, room: Some(room), mdate, alive: true }); (idx, uid) }
        };
        if built.contains_key(&uid) { continue; }
        let mut node = Node { id: uid, room_id: Some(scn.rooms[room]), cdate: mdate, mdate, _entity: ent_short(&inst.names, ent), _json: Some(format!("{{\"32\":\"s{}\"}}", mdate % 977)), ..Default::default() };
        node.sign(&inst.peer).unwrap();
        let sig = scn.sig(&node._signature);
        set.insert(NodeIdentifier { id: uid, mdate, signature: node._signature.clone() });
        sym.push((idx, ent, mdate, sig));
        built.insert(uid, node);
    }
    let mut ntis = inst.app.filter_existing_node(set).await.unwrap();
    for nti in &mut ntis { let mut n = built.get(&nti.id).unwrap().clone(); n._local_id = nti.old_local_id; nti.node = Some(n); }
    let acc_ids: Vec<Uid> = ntis.iter().map(|n| n.id).collect();
    let rej = inst.app.add_nodes(scn.rooms[room], ntis).await.unwrap();
    assert!(rej.is_empty(), "a generated node was refused by add_nodes");
    for sh in scn.nodes.iter_mut() { if acc_ids.contains(&sh.uid) { let n = &built[&sh.uid]; sh.mdate = n.mdate; sh.room = Some(room); sh.alive = true; sh.ent = ent_of(&inst.names, &n._entity); } }
    scn.bump("s_nodes");
    finish_ingest(inst, scn, Op::SNodes { room, ns: sym }).await;
}
async fn s_delnodes(inst: &mut Inst, scn: &mut Scn, room: usize, ni: usize, mdate: i64, date: i64) {
    let sh = scn.nodes[ni].clone();
    let node = Node { id: sh.uid, mdate, _entity: ent_short(&inst.names, sh.ent), ..Default::default() };
    let e = NodeDeletionEntry::build(scn.rooms[room], &node, date, &inst.peer);
    let sig = scn.sig(&e.signature);
    if sh.room == Some(room) { scn.nodes[ni].alive = false; }
    inst.app.delete_nodes(vec![e]).await.unwrap();
    scn.bump("s_delnodes");
    finish_ingest(inst, scn, Op::SDelNodes(vec![(room, sh.idx, sh.ent, mdate, date, sig)])).await;
}

/// an edge tombstone from a peer for the reference src -> dest, recorded under source entity `ent`
async fn s_deledge(inst: &mut Inst, scn: &mut Scn, room: usize, si: usize, di: usize, cdate: i64, date: i64, ent: u64) {
    let (s, d) = (scn.nodes[si].clone(), scn.nodes[di].clone());
    let edge = Edge { src: s.uid, src_entity: ent_short(&inst.names, ent), label: inst.names.label.clone(), dest: d.uid, cdate, ..Default::default() };
    let e = EdgeDeletionEntry::build(scn.rooms[room], &edge, date, &inst.peer);
    let sig = scn.sig(&e.signature);
    inst.app.delete_edges(vec![e]).await.unwrap();
    scn.edges.retain(|x| !(x.0 == s.idx && x.1 == d.idx && x.2 == cdate && ent == 1));
    scn.bump("s_deledges");
    finish_ingest(inst, scn, Op::SDelEdges(vec![(room, s.idx, ent, d.idx, cdate, date, sig)])).await;
}

/// a mutation stream of creations on distinct (room, entity) keys. Since a874354 the stream-end recompute
/// waits for the last reply; the harness still reads off which mutations were committed before it was
/// processed and records the writes in that order: a late one makes the trace differ from the model
/// and fail the oracle (regression -> VIOLATION)
async fn stream(inst: &mut Inst, scn: &mut Scn, targets: Vec<(usize, u64)>) {
    let (send, mut recv) = inst.app.mutation_stream();
    let n = targets.len();
    let drain = tokio::spawn(async move { let mut v = vec![]; while let Some(r) = recv.recv().await { v.push(r); if v.len() == n { break; } } v });
    for (room, ent) in &targets {
        let mut p = Parameters::default();
        p.add("room_id", base64_encode(&scn.rooms[*room])).unwrap();
        send.send((format!("mutate {{ {}{{ room_id:$room_id name:\"s\" }} }}", ent_long(*ent)), Some(p))).await.unwrap();
    }
    drop(send);
    let results = drain.await.unwrap();
    let ev = inst.wait_events(1).await;
    let evk = first_event(scn, &ev);
    let day = scn.now.div_euclid(DAY) * DAY;
    // schedule oracle: a mutation committed after (or in the same batch as) the stream-end recompute leaves its key dirty
    let mut dirty_after: HashSet<Key> = HashSet::new();
    for (ri, room) in scn.rooms.clone().iter().enumerate() {
        for (e, d, _n, _dh, _hh, dirty) in inst.sql_log(*room).await { if dirty { dirty_after.insert((ri, ent_of(&inst.names, &e), d)); } }
    }
    let mut ops = vec![];
    let mut early = vec![];
    for (room, ent) in &targets {
        let m = results.iter().filter_map(|r| r.as_ref().ok()).find(|m| { let nd = m.mutate_entities[0].node_to_mutate.node.as_ref().unwrap(); nd.room_id == Some(scn.rooms[*room]) && ent_of(&inst.names, &nd._entity) == *ent }).expect("stream result");
        let nd = m.mutate_entities[0].node_to_mutate.node.as_ref().unwrap();
        let (uid, sg, md) = (nd.id, nd._signature.clone(), nd.mdate);
        let id = scn.new_id(uid);
        let sig = scn.sig(&sg);
        scn.nodes.push(Shadow { idx: id, uid, ent: *ent, room: Some(*room), mdate: md, alive: true });
        ops.push(Op::LCreate { id, room: Some(*room), ent: *ent, sig });
        early.push(!dirty_after.contains(&(*room, *ent, day)));
    }
    // the event may also name keys left dirty by earlier writes of the scenario; the model predicts them
    let _ = changed(inst, scn).await;
    for (i, (room, ent)) in targets.iter().enumerate() { if early[i] { scn.trace.push(Tev::W(vec![(*room, *ent, day)])); } }
    scn.trace.push(Tev::E(evk));
    for (i, (room, ent)) in targets.iter().enumerate() { if !early[i] { scn.trace.push(Tev::W(vec![(*room, *ent, day)])); } }
    scn.trace.push(Tev::Q);
    *scn.stats.entry("stream_ops").or_insert(0) += n as u64;
    *scn.stats.entry("stream_late").or_insert(0) += early.iter().filter(|b| !**b).count() as u64;
    scn.prog.push(Api::Stream(ops));
}

// ---------------------------------------------------------------- emission
fn rank_map<T: Ord + Clone>(v: &[T]) -> Vec<u64> {
    let mut sorted: Vec<T> = v.to_vec();
    sorted.sort();
    sorted.dedup();
    v.iter().map(|x| sorted.binary_search(x).unwrap() as u64 + 1).collect()
}
struct Fin { sig: Vec<u64>, room: Vec<u64> }
impl Fin {
    fn s(&self, i: usize) -> u64 { if i == 0 { 0 } else { self.sig[i - 1] } }
    fn r(&self, i: usize) -> u64 { self.room[i] }
    fn ro(&self, r: Option<usize>) -> Option<u64> { r.map(|i| self.room[i]) }
}
fn op_coq(o: &Op, f: &Fin) -> String {
    match o {
        Op::Tick(t) => format!("Tick {}", gz(*t)),
        Op::LCreate { id, room, ent, sig } => format!("LCreate {} {} {} {}", gn(*id as u64), gon(f.ro(*room)), gn(*ent), gn(f.s(*sig))),
        Op::LUpdate { id, ent, room, sig } => format!("LUpdate {} {} {} {}", gn(*id as u64), gn(*ent), gon(f.ro(*room)), gn(f.s(*sig))),
        Op::LAddRef { src, ent, dest, sig } => format!("LAddRef {} {} {} {}", gn(*src as u64), gn(*ent), gn(*dest as u64), gn(f.s(*sig))),
        Op::LDelNode { id, ent, tsig } => format!("LDelNode {} {} {}", gn(*id as u64), gn(*ent), gn(f.s(*tsig))),
        Op::LDelRef { src, ent, dest, sig, esig } => format!("LDelRef {} {} {} {} {}", gn(*src as u64), gn(*ent), gn(*dest as u64), gn(f.s(*sig)), gn(f.s(*esig))),
        Op::SNodes { room, ns } => format!("SNodes {} {}", gn(f.r(*room)), glist(&ns.iter().map(|(i, e, m, s)|
            format!("{{| sn_id := {}; sn_ent := {}; sn_mdate := {}; sn_sig := {} |}}", gn(*i as u64), gn(*e), gz(*m), gn(f.s(*s)))).collect::<Vec<_>>())),
        Op::SDelNodes(ts) => format!("SDelNodes {}", glist(&ts.iter().map(|(r, i, e, m, d, s)|
            format!("{{| nd_room := {}; nd_id := {}; nd_ent := {}; nd_mdate := {}; nd_date := {}; nd_sig := {} |}}", gn(f.r(*r)), gn(*i as u64), gn(*e), gz(*m), gz(*d), gn(f.s(*s)))).collect::<Vec<_>>())),
        Op::SDelEdges(ts) => format!("SDelEdges {}", glist(&ts.iter().map(|(r, s, e, d, c, dt, sg)|
            format!("{{| ed_room := {}; ed_edge := {{| e_src := {}; e_ent := {}; e_label := 1%N; e_dest := {}; e_cdate := {} |}}; ed_date := {}; ed_sig := {} |}}",
                gn(f.r(*r)), gn(*s as u64), gn(*e), gn(*d as u64), gz(*c), gz(*dt), gn(f.s(*sg)))).collect::<Vec<_>>())),
    }
}
fn api_coq(a: &Api, f: &Fin) -> String {
    match a {
        Api::Tick(t) => format!("ATick {}", gz(*t)),
        Api::Call(o) => format!("ACall ({})", op_coq(o, f)),
        Api::Calls(os) => format!("ACalls {}", glist(&os.iter().map(|o| op_coq(o, f)).collect::<Vec<_>>())),
        Api::Ingest(o) => format!("AIngest ({})", op_coq(o, f)),
        Api::Compute => "ACompute".to_string(),
        Api::Stream(os) => format!("AStream {}", glist(&os.iter().map(|o| op_coq(o, f)).collect::<Vec<_>>())),
    }
}
fn enc_trace(tr: &[Tev], f: &Fin) -> Vec<i64> {
    let mut obs = vec![];
    for e in tr {
        match e {
            Tev::Q => obs.push(3),
            Tev::W(ks) | Tev::E(ks) => {
                let mut v: Vec<(u64, u64, i64)> = ks.iter().map(|(r, e, d)| (f.r(*r), *e, *d)).collect();
                v.sort();
                v.dedup();
                obs.push(if matches!(e, Tev::W(_)) { 1 } else { 2 });
                obs.push(v.len() as i64);
                for (r, e, d) in v { obs.extend([r as i64, e as i64, d]); }
            }
        }
    }
    obs
}

async fn new_scn(inst: &mut Inst, case_no: u64, nrooms: usize) -> Scn {
    let t0 = BASE + 1000 + (case_no as i64 % 7) * 100;
    verif_clock::set(t0);
    let mut rooms = vec![];
    for _ in 0..nrooms { rooms.push(inst.new_room().await); }
    let room_b64 = rooms.iter().enumerate().map(|(i, r)| (base64_encode(r), i)).collect();
    let mut scn = Scn { rooms, room_b64, sigs: vec![], sig_ix: HashMap::new(), ids: vec![], nodes: vec![], edges: vec![], prog: vec![], trace: vec![],
                        snap: HashMap::new(), now: t0, t0, case_no, stats: HashMap::new() };
    tick(&mut scn, t0 + 10);
    scn
}
fn emit_seq(out: &mut Out, scn: &Scn, kind: &str) {
    let f = Fin { sig: rank_map(&scn.sigs), room: rank_map(&scn.rooms) };
    let prog = glist(&scn.prog.iter().map(|a| api_coq(a, &f)).collect::<Vec<_>>());
    let obs = enc_trace(&scn.trace, &f);
    let announced: usize = scn.trace.iter().map(|e| if let Tev::E(k) = e { k.len() } else { 0 }).sum();
    let touched: usize = scn.trace.iter().map(|e| if let Tev::W(k) = e { k.len() } else { 0 }).sum();
    out.push(Case { kind: kind.into(), coq: format!("CSeq {} {}", gz(scn.t0), prog), obs,
                    meta: json!({"missing_events": MISSING.load(std::sync::atomic::Ordering::SeqCst), "calls": scn.prog.len(), "keys_touched": touched, "keys_announced": announced, "ops": scn.stats, "case_no": scn.case_no}) });
}

// ---------------------------------------------------------------- cases
async fn seq_case(inst: &mut Inst, out: &mut Out, rng: &mut Rng, case_no: u64, with_streams: bool, clean: bool) {
    let nrooms = if with_streams { 3 } else { 1 + rng.below(2) as usize };
    let mut scn = new_scn(inst, case_no, nrooms).await;
    let ncalls = 4 + rng.below(9);
    let mut day = 0i64;
    for _ in 0..ncalls {
        let t = match rng.below(8) { 0..=4 => scn.now + 1 + rng.range(0, 40), 5 => { day += 1; BASE + day * DAY } 6 => BASE + (day + 1) * DAY - 1, _ => { day += 1 + rng.below(2) as i64; BASE + day * DAY + rng.range(1, 5000) } }.max(scn.now + 1);
        day = (t - BASE).div_euclid(DAY);
        tick(&mut scn, t);
        let alive: Vec<usize> = (0..scn.nodes.len()).filter(|i| scn.nodes[*i].alive).collect();
        let persons: Vec<usize> = alive.iter().cloned().filter(|i| scn.nodes[*i].ent == 1).collect();
        let room = rng.below(nrooms as u64) as usize;
        match rng.below(100) {
            0..=15 => { let r = if rng.chance(1, 12) { None } else { Some(room) }; l_create(inst, &mut scn, 1 + rng.below(2), r).await; }
            16..=21 => {
                let o = if rng.chance(1, 3) { None } else { Some(room) };
                let c = match rng.below(3) { 0 => None, 1 => Some(room), _ => Some(rng.below(nrooms as u64) as usize) };
                l_nested_create(inst, &mut scn, o, c).await;
            }
            22..=37 if !alive.is_empty() => { let ni = *rng.pick(&alive); let mv = if rng.chance(1, 3) { Some(room) } else { None }; l_update(inst, &mut scn, ni, mv).await; }
            38..=45 if !alive.is_empty() => { let ni = *rng.pick(&alive); l_delnode(inst, &mut scn, ni).await; }
            46..=60 => {
                let mut vs = vec![];
                for _ in 0..(1 + rng.below(2)) {
                    if alive.is_empty() || rng.chance(1, 2) || clean { vs.push((None, 1 + rng.below(2), (BASE + rng.range(0, day) * DAY + rng.range(2000, 9000)).max(scn.t0 + 5))); }
                    else { let ni = *rng.pick(&alive); let sh = scn.nodes[ni].clone(); vs.push((Some(ni), sh.ent, sh.mdate + if rng.chance(1, 2) { 1 + rng.range(0, 50) } else { DAY })); }
                }
                s_nodes(inst, &mut scn, room, vs).await;
                if rng.chance(2, 3) { do_compute(inst, &mut scn).await; }
            }
            61..=66 if !alive.is_empty() => {
                let ni = *rng.pick(&alive); let sh = scn.nodes[ni].clone();
                if let Some(r) = sh.room { let dd = scn.now - 1; s_delnodes(inst, &mut scn, r, ni, sh.mdate, dd).await; if rng.chance(2, 3) { do_compute(inst, &mut scn).await; } }
            }
            67..=69 if persons.len() >= 2 => { let s = *rng.pick(&persons); let d = *rng.pick(&persons); l_addref(inst, &mut scn, s, d).await; }
            70..=72 if persons.len() >= 2 => {
                let (pi, ci) = if !scn.edges.is_empty() && rng.chance(2, 3) { let e = *rng.pick(&scn.edges); (scn.nodes.iter().position(|n| n.idx == e.0).unwrap(), scn.nodes.iter().position(|n| n.idx == e.1).unwrap()) } else { (*rng.pick(&persons), *rng.pick(&persons)) };
                if pi != ci && scn.nodes[pi].alive && scn.nodes[ci].alive && scn.nodes[pi].ent == 1 && scn.nodes[ci].ent == 1 { l_via(inst, &mut scn, pi, ci).await; }
            }
            73..=77 if persons.len() >= 2 && !clean => { let s = *rng.pick(&persons); let d = *rng.pick(&persons); l_delref(inst, &mut scn, s, d).await; }
            78..=92 if with_streams => {
                let mut targets = vec![];
                for r in 0..nrooms { for e in 1..=2u64 { if rng.chance(2, 3) { targets.push((r, e)); } } }
                if targets.is_empty() { targets.push((0, 1)); }
                stream(inst, &mut scn, targets).await;
            }
            _ => { do_compute(inst, &mut scn).await; }
        }
    }
    do_compute(inst, &mut scn).await;
    emit_seq(out, &scn, if with_streams { "seq-stream" } else if clean { "seq-clean" } else { "seq" });
}

async fn conc_case(inst: &mut Inst, out: &mut Out, rng: &mut Rng, case_no: u64) {
    let nrooms = 3;
    let mut scn = new_scn(inst, case_no, nrooms).await;
    let mut targets = vec![];
    for r in 0..nrooms { for e in 1..=2u64 { if rng.chance(3, 4) { targets.push((r, e)); } } }
    if targets.len() < 2 { targets = vec![(0, 1), (1, 2)]; }
    let mut handles = vec![];
    for (room, ent) in &targets {
        let app = inst.app.clone();
        let rid = scn.rooms[*room];
        let q = format!("mutate {{ {}{{ room_id:$room_id name:\"k\" }} }}", ent_long(*ent));
        handles.push(tokio::spawn(async move { let mut p = Parameters::default(); p.add("room_id", base64_encode(&rid)).unwrap(); app.mutate_raw(&q, Some(p)).await.unwrap() }));
    }
    let mut ops = vec![];
    let day = scn.now.div_euclid(DAY) * DAY;
    let mut results = vec![];
    for h in handles { results.push(h.await.unwrap()); }
    let evs = inst.wait_events(targets.len()).await; // one per recompute request: quiescence
    for (i, (room, ent)) in targets.iter().enumerate() {
        let nd = results[i].mutate_entities[0].node_to_mutate.node.as_ref().unwrap();
        let (uid, sg) = (nd.id, nd._signature.clone());
        let id = scn.new_id(uid);
        let sig = scn.sig(&sg);
        ops.push(Op::LCreate { id, room: Some(*room), ent: *ent, sig });
        scn.trace.push(Tev::W(vec![(*room, *ent, day)]));
    }
    let mut all = vec![];
    for e in &evs { all.extend(scn.ev_keys(e)); }
    scn.trace.push(Tev::E(all));
    scn.trace.push(Tev::Q);
    let f = Fin { sig: rank_map(&scn.sigs), room: rank_map(&scn.rooms) };
    // the model side starts from the Tick the scenario recorded
    let mut os = vec![format!("Tick {}", gz(scn.now))];
    os.extend(ops.iter().map(|o| op_coq(o, &f)));
    let nonempty_events = evs.iter().filter(|e| !e.is_empty()).count();
    out.push(Case { kind: "concurrent".into(), coq: format!("CConc {} {}", gz(scn.t0), glist(&os)), obs: enc_trace(&scn.trace, &f),
                    meta: json!({"tasks": targets.len(), "events_with_keys": nonempty_events, "case_no": case_no}) });
}

/// two overlapping callers of very different size: a request that writes `big` nested rows in room 0,
/// submitted first, and a one-row request in room 1 right behind it (tokio::join!): the small one is
/// acknowledged first. After both acknowledgements and a bounded wait for their two recompute events,
/// every key they changed must have been announced.
async fn overlap_case(inst: &mut Inst, out: &mut Out, rng: &mut Rng, case_no: u64) {
    let mut scn = new_scn(inst, case_no, 2).await;
    let big = 150 + rng.below(150) as usize;
    let mut nested = String::new();
    for i in 0..big { if i > 0 { nested.push(','); } nested.push_str(&format!("{{name:\"n{}\"}}", i)); }
    let qa = format!("mutate {{ ns.Person{{ room_id:$room_id name:\"big\" parents:[{}] }} }}", nested);
    let qb = "mutate { ns.Pet{ room_id:$room_id name:\"small\" } }".to_string();
    let (ra, rb) = (scn.rooms[0], scn.rooms[1]);
    let (app1, app2) = (inst.app.clone(), inst.app.clone());
    let fa = async move { let mut p = Parameters::default(); p.add("room_id", base64_encode(&ra)).unwrap(); app1.mutate_raw(&qa, Some(p)).await.unwrap() };
    let fb = async move { let mut p = Parameters::default(); p.add("room_id", base64_encode(&rb)).unwrap(); app2.mutate_raw(&qb, Some(p)).await.unwrap() };
    let (resa, resb) = tokio::join!(fa, fb);
    let evs = inst.wait_events(2).await;
    let day = scn.now.div_euclid(DAY) * DAY;
    let mut ops = vec![];
    let ie = &resa.mutate_entities[0];
    let on = ie.node_to_mutate.node.as_ref().unwrap();
    let oid = scn.new_id(on.id);
    let osig = scn.sig(&on._signature);
    ops.push(Op::LCreate { id: oid, room: Some(0), ent: 1, sig: osig });
    scn.trace.push(Tev::W(vec![(0, 1, day)]));
    for sub in ie.sub_nodes.get("parents").unwrap() {
        let cn = sub.node_to_mutate.node.as_ref().unwrap();
        let cid = scn.new_id(cn.id);
        let csig = scn.sig(&cn._signature);
        ops.push(Op::LCreate { id: cid, room: Some(0), ent: 1, sig: csig });
        scn.trace.push(Tev::W(vec![(0, 1, day)]));
    }
    let bn = resb.mutate_entities[0].node_to_mutate.node.as_ref().unwrap();
    let bid = scn.new_id(bn.id);
    let bsig = scn.sig(&bn._signature);
    ops.push(Op::LCreate { id: bid, room: Some(1), ent: 2, sig: bsig });
    scn.trace.push(Tev::W(vec![(1, 2, day)]));
    let mut all = vec![];
    for e in &evs { all.extend(scn.ev_keys(e)); }
    scn.trace.push(Tev::E(all));
    scn.trace.push(Tev::Q);
    let f = Fin { sig: rank_map(&scn.sigs), room: rank_map(&scn.rooms) };
    let mut os = vec![format!("Tick {}", gz(scn.now))];
    os.extend(ops.iter().map(|o| op_coq(o, &f)));
    out.push(Case { kind: "overlap".into(), coq: format!("CConc {} {}", gz(scn.t0), glist(&os)), obs: enc_trace(&scn.trace, &f),
                    meta: json!({"big_rows": big + 1, "events_received": evs.len(), "missing_events": MISSING.load(std::sync::atomic::Ordering::SeqCst), "case_no": case_no}) });
}

async fn room_case(inst: &mut Inst, out: &mut Out, rng: &mut Rng, case_no: u64) {
    verif_clock::set(BASE + 5000 + case_no as i64);
    let mut p = Parameters::default();
    p.add("me", base64_encode(&inst.me)).unwrap();
    let room = inst.app.mutate_raw(r#"mutate { sys.Room{ admin:[{verif_key:$me}] authorisations:[{ name:"g" rights:[{entity:"ns.Person" mutate_self:true mutate_all:true}] users:[{verif_key:$me}] }] } }"#, Some(p)).await.unwrap();
    let ri = &room.mutate_entities[0];
    let rid = ri.node_to_mutate.id;
    let auth_id = ri.sub_nodes.get("authorisations").unwrap()[0].node_to_mutate.id;
    let mods = rng.below(4);
    for k in 0..mods {
        verif_clock::set(BASE + 6000 + case_no as i64 * 10 + k as i64);
        let mut p = Parameters::default();
        p.add("room_id", base64_encode(&rid)).unwrap();
        p.add("auth_id", base64_encode(&auth_id)).unwrap();
        p.add("k", base64_encode(&[k as u8 + 1, 3, 3, case_no as u8])).unwrap();
        inst.app.mutate_raw(r#"mutate { sys.Room{ id:$room_id authorisations:[{ id:$auth_id users:[{verif_key:$k}] }] } }"#, Some(p)).await.unwrap();
    }
    // every mutate_raw requested a recompute: their events are the barrier; RoomModified events are sent before the acknowledgement
    let mut got = 0u64;
    let mut data = 0;
    while data < 1 + mods {
        match tokio::time::timeout(std::time::Duration::from_secs(20), inst.ev.recv()).await {
            Ok(Ok(Event::DataChanged(_))) => data += 1,
            Ok(Ok(Event::RoomModified(r))) => { if r.id == rid { got += 1; } }
            Ok(Ok(_)) => {}
            other => panic!("event channel {:?}", other.is_ok()),
        }
    }
    out.push(Case { kind: "room".into(), coq: format!("CRoom {}", gn(1 + mods)), obs: vec![got as i64], meta: json!({"accepted_room_mutations": 1 + mods, "room_modified_events": got}) });
}

/// concurrent bursts of mutations of ONE room definition: several rounds of 4-8 mutate_raw calls spawned
/// together (one round through a mutation_stream), each adding one distinct user to the group. Observed: the
/// sequence of RoomModified events of that room with the set of user entries each carries.
async fn room_burst_case(inst: &mut Inst, out: &mut Out, rng: &mut Rng, case_no: u64) {
    verif_clock::set(BASE + 9000 + case_no as i64 * 100);
    let mut p = Parameters::default();
    p.add("me", base64_encode(&inst.me)).unwrap();
    let room = inst.app.mutate_raw(r#"mutate { sys.Room{ admin:[{verif_key:$me}] authorisations:[{ name:"g" rights:[{entity:"ns.Person" mutate_self:true mutate_all:true}] users:[{verif_key:$me}] }] } }"#, Some(p)).await.unwrap();
    let ri = &room.mutate_entities[0];
    let rid = ri.node_to_mutate.id;
    let auth_id = ri.sub_nodes.get("authorisations").unwrap()[0].node_to_mutate.id;
    // drain the creation's events
    let mut data = 0;
    while data < 1 {
        match tokio::time::timeout(wait_bound(), inst.ev.recv()).await { Ok(Ok(Event::DataChanged(_))) => data += 1, Ok(Ok(_)) => {} _ => break }
    }
    let mut keys: Vec<Vec<u8>> = vec![inst.me.clone()]; // entry index = position + 1
    let mut accepted: Vec<u64> = vec![];
    let mut events: Vec<Vec<u64>> = vec![];
    let rounds = 2 + rng.below(2);
    let mut missing = 0u64;
    for round in 0..rounds {
        verif_clock::set(BASE + 9000 + case_no as i64 * 100 + 10 + round as i64);
        let n = 4 + rng.below(5) as usize;
        let via_stream = round == 1;
        let mut round_keys = vec![];
        for j in 0..n { let k = vec![(keys.len() + 1) as u8, 3, 3, (case_no % 251) as u8, round as u8, j as u8]; keys.push(k.clone()); round_keys.push((keys.len() as u64, k)); }
        let q = r#"mutate { sys.Room{ id:$room_id authorisations:[{ id:$auth_id users:[{verif_key:$k}] }] } }"#;
        let mk = |k: &Vec<u8>| { let mut p = Parameters::default(); p.add("room_id", base64_encode(&rid)).unwrap(); p.add("auth_id", base64_encode(&auth_id)).unwrap(); p.add("k", base64_encode(k)).unwrap(); p };
        let expected_data = if via_stream { 1 } else { n };
        let app = inst.app.clone();
        let calls = async {
            let mut oks = vec![];
            if via_stream {
                let (send, mut recv) = app.mutation_stream();
                let drain = tokio::spawn(async move { let mut v = vec![]; while let Some(r) = recv.recv().await { v.push(r.is_ok()); if v.len() == n { break; } } v });
                for (_, k) in &round_keys { send.send((q.to_string(), Some(mk(k)))).await.unwrap(); }
                drop(send);
                let res = drain.await.unwrap();
                // replies of a stream come in commit order, not in submission order: count them only
                let okn = res.iter().filter(|b| **b).count();
                for (i, (ix, _)) in round_keys.iter().enumerate() { if i < okn { oks.push(*ix); } }
                if okn != n { oks.clear(); oks.push(0); } // partial acceptance through a stream: not attributable
            } else {
                let mut hs = vec![];
                for (ix, k) in &round_keys { let a = app.clone(); let p = mk(k); let ix = *ix; hs.push(tokio::spawn(async move { (ix, a.mutate_raw(q, Some(p)).await.is_ok()) })); }
                for h in hs { let (ix, ok) = h.await.unwrap(); if ok { oks.push(ix); } }
            }
            oks
        };
        let ev = &mut inst.ev;
        let collect = async {
            let mut got: Vec<Vec<Vec<u8>>> = vec![];
            let mut data = 0;
            let mut miss = 0u64;
            while data < expected_data {
                match tokio::time::timeout(wait_bound(), ev.recv()).await {
                    Ok(Ok(Event::DataChanged(_))) => data += 1,
                    Ok(Ok(Event::RoomModified(r))) => { if r.id == rid { let mut ks: Vec<Vec<u8>> = r.authorisations.get(&auth_id).map(|a| a.users.keys().cloned().collect()).unwrap_or_default(); ks.sort(); got.push(ks); } }
                    Ok(Ok(_)) => {}
                    Ok(Err(tokio::sync::broadcast::error::RecvError::Lagged(_))) => { miss += 1; }
                    _ => { miss += 1; MISSING.fetch_add(1, std::sync::atomic::Ordering::SeqCst); break; }
                }
            }
            (got, miss)
        };
        let (oks, (got, miss)) = tokio::join!(calls, collect);
        missing += miss;
        accepted.extend(oks);
        for ks in got { let mut e: Vec<u64> = ks.iter().map(|k| keys.iter().position(|x| x == k).map(|i| i as u64 + 1).unwrap_or(99)).collect(); e.sort(); events.push(e); }
    }
    // commit order as the events show it: the entries each event brings that no earlier event carried
    let mut seen: Vec<u64> = vec![1];
    let mut order: Vec<u64> = vec![];
    for e in &events { for x in e { if !seen.contains(x) { seen.push(*x); order.push(*x); } } }
    let mut obs: Vec<i64> = vec![events.len() as i64];
    for e in &events { obs.push(e.len() as i64); obs.extend(e.iter().map(|x| *x as i64)); }
    let l = |v: &Vec<u64>| glist(&v.iter().map(|x| gn(*x)).collect::<Vec<_>>());
    out.push(Case { kind: "room-burst".into(), coq: format!("CRoomBurst {} {} {}", l(&vec![1]), l(&accepted), l(&order)), obs,
                    meta: json!({"rounds": rounds, "accepted": accepted.len(), "room_modified_events": events.len(), "lagged_or_missing": missing}) });
}

#[tokio::main(flavor = "multi_thread")]
async fn main() {
    let mut out = Out::create();
    let mut rng = Rng::from_env();
    let mut inst = Inst::start(&format!("inst{}", seed())).await;
    let n = scale(150, 1500);
    let mut case_no = 0u64;
    // directed: a stream of six creations, then nothing else
    for _ in 0..scale(6, 30) {
        let mut scn = new_scn(&mut inst, case_no, 3).await;
        stream(&mut inst, &mut scn, vec![(0, 1), (0, 2), (1, 1), (1, 2), (2, 1), (2, 2)]).await;
        emit_seq(&mut out, &scn, "directed-stream");
        case_no += 1;
    }
    { // directed, repaired (9b19d99), must pass: a synchronised version under another entity; the day it leaves is announced
        let mut scn = new_scn(&mut inst, case_no, 1).await;
        let d0 = scn.t0 + 4000;
        s_nodes(&mut inst, &mut scn, 0, vec![(None, 1, d0), (None, 1, d0 + 1000)]).await;
        do_compute(&mut inst, &mut scn).await;
        tick(&mut scn, BASE + 2 * DAY + 50);
        s_nodes(&mut inst, &mut scn, 0, vec![(Some(0), 2, BASE + DAY + 7000)]).await;
        do_compute(&mut inst, &mut scn).await;
        emit_seq(&mut out, &scn, "directed-unmarked");
        case_no += 1;
    }
    { // directed, repaired (de0967d), must pass: an edge tombstone replaced under another source entity; the day that loses it is announced
        let mut scn = new_scn(&mut inst, case_no, 1).await;
        l_create(&mut inst, &mut scn, 1, Some(0)).await;
        l_create(&mut inst, &mut scn, 1, Some(0)).await;
        l_addref(&mut inst, &mut scn, 0, 1).await;
        let e = scn.edges[0];
        let dd = scn.now - 3;
        s_deledge(&mut inst, &mut scn, 0, 0, 1, e.2, dd, 1).await;
        do_compute(&mut inst, &mut scn).await;
        s_deledge(&mut inst, &mut scn, 0, 0, 1, e.2, dd, 2).await;
        do_compute(&mut inst, &mut scn).await;
        emit_seq(&mut out, &scn, "directed-edge-tombstone");
        case_no += 1;
    }
    { // directed: rows updated through an unchanged parent (same room / another room / another day), then through a room-less owner
        let mut scn = new_scn(&mut inst, case_no, 2).await;
        l_nested_create(&mut inst, &mut scn, Some(0), None).await;   // 0 owner, 1 nested (room 0)
        l_create(&mut inst, &mut scn, 1, Some(1)).await;              // 2 (room 1)
        l_via(&mut inst, &mut scn, 0, 2).await;                        // new reference
        tick(&mut scn, BASE + DAY + 40);
        l_via(&mut inst, &mut scn, 0, 1).await;                        // unchanged parent, nested row in the same room, other day
        l_via(&mut inst, &mut scn, 0, 2).await;                        // unchanged parent, nested row in another room
        l_nested_create(&mut inst, &mut scn, None, Some(0)).await;    // 3 room-less owner, 4 shared nested row
        tick(&mut scn, BASE + 2 * DAY + 40);
        l_update(&mut inst, &mut scn, 4, None).await;
        l_via(&mut inst, &mut scn, 3, 4).await;                        // through the room-less owner
        l_via(&mut inst, &mut scn, 3, 2).await;                        // new reference from a room-less row
        emit_seq(&mut out, &scn, "directed-nested");
        case_no += 1;
    }
    for _ in 0..scale(8, 40) { let mut r = rng.fork(); room_burst_case(&mut inst, &mut out, &mut r, case_no).await; case_no += 1; }
    for _ in 0..scale(4, 20) { let mut r = rng.fork(); overlap_case(&mut inst, &mut out, &mut r, case_no).await; case_no += 1; }
    for i in 0..n {
        let mut r = rng.fork();
        match i % 6 {
            0 | 1 => seq_case(&mut inst, &mut out, &mut r, case_no, false, true).await,
            2 => seq_case(&mut inst, &mut out, &mut r, case_no, false, false).await,
            3 => seq_case(&mut inst, &mut out, &mut r, case_no, true, true).await,
            4 => conc_case(&mut inst, &mut out, &mut r, case_no).await,
            _ => room_case(&mut inst, &mut out, &mut r, case_no).await,
        }
        case_no += 1;
    }
    verif_clock::clear();
    let _ = std::fs::remove_dir_all(&inst.path);
    out.finish();
}
