//! C15 correspondence: DataModel::update_system / update (bare values, iteration orders observed)
//! and GraphDatabaseService::start / update_data_model (real instances holding rows) of the real
//! code vs the Gallina model coq/model/DataModel.v.
use discret::verif_hooks::configuration::Configuration;
use discret::verif_hooks::database::graph_database::GraphDatabaseService;
use discret::verif_hooks::database::query_language::data_model_parser::DataModel;
use discret::verif_hooks::database::query_language::Error as QErr;
use discret::verif_hooks::event_service::EventService;
use discret::verif_hooks::security::random32;
use serde_json::{json, Value};
use std::collections::{BTreeMap, HashMap};
use std::path::PathBuf;
use vharness::common::*;

// ------------------------------------------------------------------ versions
#[derive(Clone, Debug, PartialEq)]
enum Ty { Bool, Float, Int, Str, B64, Json, Ent(u64, u64), Arr(u64, u64) }
#[derive(Clone, Debug, PartialEq)]
struct FD { name: u64, ty: Ty, default: Option<u64>, nullable: bool, depr: bool }
#[derive(Clone, Debug, PartialEq)]
struct ED { name: u64, depr: bool, ft: bool, fields: Vec<FD>, idx: Vec<Vec<u64>> }
#[derive(Clone, Debug, PartialEq)]
struct Ver { blocks: Vec<(u64, Vec<ED>)> }
#[derive(Clone, Debug)]
struct Step { sys: bool, ver: Ver, tag: u64, text: String }

const SYS_FIELDS: [&str; 11] = ["id", "room_id", "cdate", "mdate", "sys_peer", "sys_room", "_entity", "_json", "_binary", "verifying_key", "_signature"];
const B64S: [&str; 3] = ["AAAA", "AQID", "_-8A"];

fn ns_name(n: u64) -> String { match n { 0 => "".into(), 1 => "sys".into(), k => format!("n{}", k) } }
fn ns_index(s: &str) -> u64 { match s { "" => 0, "sys" => 1, k => k[1..].parse().unwrap() } }
/// entity k is "E<k>", entity 1000+k the same name in lower case; field k is "f<k>", field 500+k "F<k>";
/// 1000.. are the system fields
const SYSF: u64 = 1000;
fn ent_local(e: u64) -> String { if e >= 1000 { format!("e{}", e - 1000) } else { format!("E{}", e) } }
fn ent_local_index(l: &str) -> u64 { let k: u64 = l[1..].parse().unwrap(); if l.starts_with('e') { 1000 + k } else { k } }
fn qual(ns: u64, e: u64) -> String { if ns == 0 { ent_local(e) } else { format!("{}.{}", ns_name(ns), ent_local(e)) } }
fn ent_index(q: &str) -> u64 { ent_local_index(q.rsplit('.').next().unwrap()) }
fn field_name(f: u64) -> String { if f >= SYSF { SYS_FIELDS[(f - SYSF) as usize].to_string() } else if f >= 500 { format!("F{}", f - 500) } else { format!("f{}", f) } }
fn field_index(s: &str) -> u64 {
    if let Some(p) = SYS_FIELDS.iter().position(|x| *x == s) { SYSF + p as u64 } else { let k: u64 = s[1..].parse().unwrap(); if s.starts_with('F') { 500 + k } else { k } }
}
fn is_ref(t: &Ty) -> bool { matches!(t, Ty::Ent(..) | Ty::Arr(..)) }

fn default_text(t: &Ty, d: u64) -> String {
    match t {
        Ty::Bool => (if d % 2 == 1 { "true" } else { "false" }).to_string(),
        Ty::Int => format!("{}", d),
        Ty::Float => format!("{}.5", d),
        Ty::Str => format!("\"s{}\"", d),
        Ty::B64 => format!("\"{}\"", B64S[d as usize % 3]),
        Ty::Json => format!("\"[{}]\"", d),
        _ => unreachable!(),
    }
}
fn render_field(f: &FD) -> String {
    let mut s = String::new();
    if f.depr { s.push_str("@deprecated "); }
    s.push_str(&field_name(f.name));
    s.push_str(": ");
    match &f.ty {
        Ty::Ent(n, e) => { s.push_str(&qual(*n, *e)); if f.nullable { s.push_str(" nullable"); } }
        Ty::Arr(n, e) => { s.push_str(&format!("[{}]", qual(*n, *e))); if f.nullable { s.push_str(" nullable"); } }
        t => {
            s.push_str(match t { Ty::Bool => "Boolean", Ty::Float => "Float", Ty::Int => "Integer", Ty::Str => "String", Ty::B64 => "Base64", Ty::Json => "Json", _ => unreachable!() });
            if f.nullable { s.push_str(" nullable"); } else if let Some(d) = f.default { s.push_str(" default "); s.push_str(&default_text(t, d)); }
        }
    }
    s
}
fn render(v: &Ver) -> String {
    let mut s = String::new();
    for (ns, eds) in &v.blocks {
        s.push_str(&format!("{} {{\n", ns_name(*ns)));
        for e in eds {
            if e.depr { s.push_str("  @deprecated "); } else { s.push_str("  "); }
            s.push_str(&ent_local(e.name));
            if !e.ft { s.push_str("(no_full_text_index)"); }
            s.push_str(" {\n");
            let mut entries: Vec<String> = e.fields.iter().map(render_field).collect();
            for ix in &e.idx { entries.push(format!("index({})", ix.iter().map(|f| field_name(*f)).collect::<Vec<_>>().join(", "))); }
            s.push_str(&format!("    {}\n  }}\n", entries.join(",\n    ")));
        }
        s.push_str("}\n");
    }
    s
}

// ---- Gallina
fn ty_coq(t: &Ty) -> String {
    match t {
        Ty::Bool => "TBool".into(), Ty::Float => "TFloat".into(), Ty::Int => "TInt".into(), Ty::Str => "TStr".into(),
        Ty::B64 => "TB64".into(), Ty::Json => "TJson".into(),
        Ty::Ent(n, e) => format!("(TEnt {} {})", gn(*n), gn(*e)), Ty::Arr(n, e) => format!("(TArr {} {})", gn(*n), gn(*e)),
    }
}
fn fd_coq(f: &FD) -> String { format!("mkFD {} {} {} {} {}", gn(f.name), ty_coq(&f.ty), gon(f.default), gb(f.nullable), gb(f.depr)) }
fn ed_coq(e: &ED) -> String {
    format!("mkED {} {} {} {} {}", gn(e.name), gb(e.depr), gb(e.ft), glist(&e.fields.iter().map(fd_coq).collect::<Vec<_>>()),
        glist(&e.idx.iter().map(|ix| glist(&ix.iter().map(|f| gn(*f)).collect::<Vec<_>>())).collect::<Vec<_>>()))
}
fn step_coq(s: &Step) -> String {
    let blocks: Vec<String> = s.ver.blocks.iter().map(|(ns, eds)| format!("({}, {})", gn(*ns), glist(&eds.iter().map(ed_coq).collect::<Vec<_>>()))).collect();
    format!("mkS {} (mkV {} {})", gb(s.sys), gn(s.tag), glist(&blocks))
}

// ------------------------------------------------------------------ observed models
#[derive(Clone, Debug, PartialEq)]
struct OF { name: u64, short: u64, ty: Ty, default: Option<u64>, nullable: bool, depr: bool }
#[derive(Clone, Debug, PartialEq)]
struct OE { name: u64, short: (Option<u64>, u64), depr: bool, ft: bool, fields: Vec<OF>, idx: Vec<u64>, rm: Vec<u64> }
#[derive(Clone, Debug, PartialEq)]
struct ONs { name: u64, id: u64, ents: Vec<OE> }
#[derive(Clone, Debug, PartialEq, Default)]
struct OM { tag: u64, inconsistent: bool, nss: Vec<ONs> }

fn ref_target(s: &str) -> (u64, u64) {
    let parts: Vec<&str> = s.split('.').collect();
    if parts.len() == 2 { (ns_index(parts[0]), ent_local_index(parts[1])) } else { (0, ent_local_index(s)) }
}
fn idx_code(fields: &[u64]) -> u64 { fields.iter().fold(0u64, |acc, f| acc * 2048 + f + 1) }
fn obs_index_map(v: &Value) -> Vec<u64> {
    let mut r: Vec<u64> = v.as_object().unwrap().values().map(|ix| {
        let fs: Vec<u64> = ix["fields"].as_array().unwrap().iter().map(|f| field_index(f["name"].as_str().unwrap())).collect();
        idx_code(&fs)
    }).collect();
    r.sort();
    r
}
/// canonical form of a serialised DataModel; `strip_sys`: leave the (real) sys namespace out
fn observe(v: &Value, tags: &HashMap<String, u64>, strip_sys: bool) -> OM {
    let text = v["model"].as_str().unwrap();
    // the real system model's text (held by `model` after update_system) has a tag of its own
    let tag = if text.is_empty() { 0 } else if text == discret::verif_hooks::database::system_entities::SYSTEM_DATA_MODEL { 1_000_000 } else { *tags.get(text).unwrap_or(&999_999) };
    let ids = v["namespace_ids"].as_object().unwrap();
    let eshort = v["entities_short"].as_object().unwrap();
    let mut nss = vec![];
    let nsmap = v["namespaces"].as_object().unwrap();
    // the value's own look-up tables must agree with its namespaces: an observation, not a crash
    let mut inconsistent = nsmap.len() != ids.len();
    for (nsn, ents) in nsmap {
        if strip_sys && nsn == "sys" { continue; }
        let id = match ids.get(nsn).and_then(|x| x.as_u64()) { Some(i) => i, None => { inconsistent = true; 999_999 } };
        let mut oes = vec![];
        for (key, e) in ents.as_object().unwrap() {
            let name = e["name"].as_str().unwrap();
            if name != key { inconsistent = true; }
            let sh = e["short_name"].as_str().unwrap();
            match eshort.get(sh) {
                Some(p) if p[0].as_str() == Some(nsn) && p[1].as_str() == Some(name) => {}
                _ => { inconsistent = true; }
            }
            let short = match sh.split_once('.') { Some((a, b)) => (Some(a.parse().unwrap()), b.parse().unwrap()), None => (None, sh.parse().unwrap()) };
            let mut fields = vec![];
            for (fk, f) in e["fields"].as_object().unwrap() {
                let fname = f["name"].as_str().unwrap();
                if fname != fk { inconsistent = true; }
                let ty = match &f["field_type"] {
                    Value::String(s) => match s.as_str() { "Boolean" => Ty::Bool, "Float" => Ty::Float, "Integer" => Ty::Int, "String" => Ty::Str, "Base64" => Ty::B64, "Json" => Ty::Json, _ => unreachable!() },
                    Value::Object(o) => { let (k, t) = o.iter().next().unwrap(); let (n, e) = ref_target(t.as_str().unwrap()); if k == "Entity" { Ty::Ent(n, e) } else { Ty::Arr(n, e) } }
                    _ => unreachable!(),
                };
                let default = match &f["default_value"] {
                    Value::Null => None,
                    Value::Object(o) => { let (k, d) = o.iter().next().unwrap(); Some(match k.as_str() {
                        "Boolean" => d.as_bool().unwrap() as u64,
                        "Integer" => d.as_i64().unwrap() as u64,
                        "Float" => d.as_f64().unwrap().floor() as u64,
                        "String" => { let s = d.as_str().unwrap(); match ty { Ty::Str => s[1..].parse().unwrap(), Ty::B64 => B64S.iter().position(|x| *x == s).unwrap() as u64, Ty::Json => s[1..s.len() - 1].parse().unwrap(), _ => 777 } }
                        _ => 777 }) }
                    _ => Some(777),
                };
                fields.push(OF { name: field_index(fname), short: f["short_name"].as_str().unwrap().parse().unwrap(), ty, default,
                    nullable: f["nullable"].as_bool().unwrap(), depr: f["deprecated"].as_bool().unwrap() });
            }
            fields.sort_by_key(|f| f.name);
            oes.push(OE { name: ent_index(name), short, depr: e["deprecated"].as_bool().unwrap(), ft: e["enable_full_text"].as_bool().unwrap(),
                fields, idx: obs_index_map(&e["indexes"]), rm: obs_index_map(&e["indexes_to_remove"]) });
        }
        oes.sort_by_key(|e| e.name);
        nss.push(ONs { name: ns_index(nsn), id, ents: oes });
    }
    nss.sort_by_key(|n| n.name);
    OM { tag, inconsistent, nss }
}
fn enc_ty(t: &Ty) -> [i64; 3] {
    match t { Ty::Bool => [0, 0, 0], Ty::Float => [1, 0, 0], Ty::Int => [2, 0, 0], Ty::Str => [3, 0, 0], Ty::B64 => [4, 0, 0], Ty::Json => [5, 0, 0],
              Ty::Ent(n, e) => [6, *n as i64, *e as i64], Ty::Arr(n, e) => [7, *n as i64, *e as i64] }
}
fn enc_model(m: &OM, out: &mut Vec<i64>) {
    out.push(m.tag as i64);
    out.push(!m.inconsistent as i64);
    out.push(m.nss.len() as i64);
    for n in &m.nss {
        out.push(n.name as i64); out.push(n.id as i64); out.push(n.ents.len() as i64);
        for e in &n.ents {
            out.push(e.name as i64); out.push(e.short.0.map(|x| x as i64).unwrap_or(-1)); out.push(e.short.1 as i64);
            out.push(e.depr as i64); out.push(e.ft as i64);
            out.push(e.fields.len() as i64);
            for f in &e.fields {
                out.push(f.name as i64); out.push(f.short as i64); out.extend_from_slice(&enc_ty(&f.ty));
                out.push(f.default.map(|x| x as i64).unwrap_or(-1)); out.push(f.nullable as i64); out.push(f.depr as i64);
            }
            out.push(e.idx.len() as i64); out.extend(e.idx.iter().map(|x| *x as i64));
            out.push(e.rm.len() as i64); out.extend(e.rm.iter().map(|x| *x as i64));
        }
    }
}

// ------------------------------------------------------------------ oracles
#[derive(Default, Clone)]
struct OTab { ns: Vec<(u64, u64)>, ent: Vec<(u64, u64, u64)>, fld: Vec<(u64, u64, u64, u64)> }
impl OTab {
    fn coq(&self) -> String {
        format!("mkOT {} {} {}",
            glist(&self.ns.iter().map(|(a, r)| format!("({},{})", gn(*a), gn(*r))).collect::<Vec<_>>()),
            glist(&self.ent.iter().map(|(a, b, r)| format!("({},{},{})", gn(*a), gn(*b), gn(*r))).collect::<Vec<_>>()),
            glist(&self.fld.iter().map(|(a, b, c, r)| format!("({},{},{},{})", gn(*a), gn(*b), gn(*c), gn(*r))).collect::<Vec<_>>()))
    }
}
/// the order in which `for x in &mut map` will visit the maps of this very value
fn observe_orders(dm: &DataModel) -> OTab {
    let mut t = OTab::default();
    for (i, (nsn, ents)) in dm.namespaces().iter().enumerate() {
        let ns = ns_index(nsn);
        t.ns.push((ns, i as u64));
        for (j, (en, ent)) in ents.iter().enumerate() {
            let e = ent_index(en);
            t.ent.push((ns, e, j as u64));
            for (k, (fname, _)) in ent.fields.iter().enumerate() { t.fld.push((ns, e, field_index(fname), k as u64)); }
        }
    }
    t
}
fn err_code(e: &QErr) -> i64 {
    match e {
        QErr::Parser(_) => 1, QErr::DuplicatedEntity(_) => 2, QErr::DuplicatedField(_) => 3, QErr::SystemFieldConflict(_) => 4,
        QErr::InvalidQuery(_) => 5, QErr::IndexAllreadyExists(..) => 6, QErr::NamespaceUpdate(_) => 7,
        QErr::InvalidNamespaceOrdering(..) => 8, QErr::InvalidEntityOrdering(..) => 9, QErr::MissingEntity(_) => 10,
        QErr::MissingNamespace(_) => 11, QErr::InvalidFieldOrdering(..) => 12, QErr::CannotUpdateFieldType(..) => 13,
        QErr::MissingDefaultValue(..) => 14, QErr::MissingField(..) => 15, _ => 99,
    }
}

// ------------------------------------------------------------------ bare DataModel values
struct PeerRun { obs: Vec<i64>, tabs: Vec<OTab>, verdicts: Vec<i64>, changed_on_refusal: usize }
fn run_peer(steps: &[Step], tags: &HashMap<String, u64>, rng: &mut Rng) -> PeerRun {
    let mut dm = DataModel::new();
    let mut pr = PeerRun { obs: vec![], tabs: vec![], verdicts: vec![], changed_on_refusal: 0 };
    let mut pre = observe(&serde_json::to_value(&dm).unwrap(), tags, false);
    for s in steps {
        if rng.chance(2, 5) {
            // what a restart does: the stored JSON is read back (fresh hash maps)
            dm = serde_json::from_str(&serde_json::to_string(&dm).unwrap()).unwrap();
        }
        let tab = observe_orders(&dm);
        let r = std::panic::catch_unwind(std::panic::AssertUnwindSafe(|| if s.sys { dm.update_system(&s.text) } else { dm.update(&s.text) }));
        let verdict = match r { Ok(Ok(())) => 0, Ok(Err(e)) => err_code(&e), Err(_) => 97 };
        let post = observe(&serde_json::to_value(&dm).unwrap(), tags, false);
        pr.obs.push(verdict);
        enc_model(&post, &mut pr.obs);
        if verdict != 0 && post != pre { pr.changed_on_refusal += 1; }
        pr.verdicts.push(verdict);
        pr.tabs.push(tab);
        pre = post;
    }
    pr
}

struct Interner { tags: HashMap<String, u64> }
impl Interner {
    fn step(&mut self, sys: bool, ver: &Ver) -> Step {
        let text = render(ver);
        let n = self.tags.len() as u64 + 1;
        let tag = *self.tags.entry(text.clone()).or_insert(n);
        Step { sys, ver: ver.clone(), tag, text }
    }
}

fn bare_case(kind: &str, seq: &[(bool, Ver)], npeers: usize, rng: &mut Rng, stats: &mut Stats) -> Case {
    let mut it = Interner { tags: HashMap::new() };
    let steps: Vec<Step> = seq.iter().map(|(sys, v)| it.step(*sys, v)).collect();
    let mut obs = vec![];
    let mut peers_coq = vec![];
    let mut verdicts = vec![];
    let mut changed = 0;
    for _ in 0..npeers {
        let pr = run_peer(&steps, &it.tags, rng);
        obs.extend(pr.obs);
        peers_coq.push(glist(&pr.tabs.iter().map(|t| t.coq()).collect::<Vec<_>>()));
        changed += pr.changed_on_refusal;
        verdicts.push(pr.verdicts);
    }
    for v in &verdicts[0] { *stats.verdicts.entry(*v).or_insert(0) += 1; }
    stats.steps += steps.len();
    stats.changed_on_refusal += changed;
    let coq = format!("CBare {} {}", glist(&steps.iter().map(step_coq).collect::<Vec<_>>()), glist(&peers_coq));
    Case { kind: kind.into(), coq, obs, meta: json!({"steps": steps.len(), "verdicts": verdicts, "refused_but_changed": changed,
        "texts": steps.iter().map(|s| s.text.clone()).collect::<Vec<_>>() }) }
}

#[derive(Default)]
struct Stats { steps: usize, verdicts: BTreeMap<i64, usize>, changed_on_refusal: usize }

// ------------------------------------------------------------------ generator
fn all_ents(v: &Ver) -> Vec<(u64, u64)> { v.blocks.iter().flat_map(|(ns, eds)| eds.iter().map(move |e| (*ns, e.name))).collect() }
fn gen_scalar(rng: &mut Rng) -> Ty { [Ty::Bool, Ty::Float, Ty::Int, Ty::Str, Ty::Str, Ty::Int, Ty::B64, Ty::Json][rng.below(8) as usize].clone() }
fn gen_field(rng: &mut Rng, name: u64, ents: &[(u64, u64)], readable: bool) -> FD {
    if !ents.is_empty() && rng.chance(1, 4) {
        let (n, e) = *rng.pick(ents);
        let ty = if rng.chance(1, 2) { Ty::Ent(n, e) } else { Ty::Arr(n, e) };
        return FD { name, ty, default: None, nullable: rng.chance(1, 2), depr: rng.chance(1, 12) };
    }
    let ty = gen_scalar(rng);
    let k = if readable { rng.below(2) } else { rng.below(3) };
    let (nullable, default) = match k { 0 => (true, None), 1 => (false, Some(if ty == Ty::Bool { rng.below(2) } else { rng.below(3) })), _ => (false, None) };
    FD { name, ty, default, nullable, depr: rng.chance(1, 12) }
}
fn indexable(e: &ED) -> Vec<u64> {
    let mut v: Vec<u64> = e.fields.iter().filter(|f| !is_ref(&f.ty) && f.ty != Ty::Json).map(|f| f.name).collect();
    v.extend_from_slice(&[SYSF, SYSF + 2, SYSF + 3, SYSF + 9]);
    v
}
fn gen_index(rng: &mut Rng, e: &ED) -> Vec<u64> {
    let c = indexable(e);
    let mut ix = vec![*rng.pick(&c)];
    if rng.chance(1, 2) { let x = *rng.pick(&c); if !ix.contains(&x) { ix.push(x); } }
    ix
}
fn gen_entity(rng: &mut Rng, name: u64, ents: &[(u64, u64)]) -> ED {
    let nf = 1 + rng.below(4);
    let mut names: Vec<u64> = (1..=6).collect();
    let mut fields = vec![];
    for _ in 0..nf { let i = rng.below(names.len() as u64) as usize; let n = names.remove(i); fields.push(gen_field(rng, n, ents, false)); }
    let mut e = ED { name, depr: rng.chance(1, 12), ft: !rng.chance(1, 8), fields, idx: vec![] };
    if rng.chance(1, 4) { let ix = gen_index(rng, &e); e.idx.push(ix); }
    e
}
fn gen_initial(rng: &mut Rng, sys: bool) -> Ver {
    let mut nss: Vec<u64> = if sys { vec![1] } else { vec![0, 2, 3, 4] };
    let nns = if sys { 1 } else { 1 + rng.below(3) };
    let mut layout = vec![];
    for _ in 0..nns { let i = rng.below(nss.len() as u64) as usize; let ns = nss.remove(i);
        let ne = 1 + rng.below(3);
        let mut names: Vec<u64> = (1..=4).collect();
        let mut es = vec![];
        for _ in 0..ne { let j = rng.below(names.len() as u64) as usize; es.push(names.remove(j)); }
        layout.push((ns, es)); }
    let ents: Vec<(u64, u64)> = layout.iter().flat_map(|(ns, es)| es.iter().map(move |e| (*ns, *e))).collect();
    Ver { blocks: layout.iter().map(|(ns, es)| (*ns, es.iter().map(|e| gen_entity(rng, *e, &ents)).collect())).collect() }
}
fn free_field_name(e: &ED) -> Option<u64> { (1..=200).find(|n| !e.fields.iter().any(|f| f.name == *n)) }
fn pick_entity(rng: &mut Rng, v: &Ver) -> Option<(usize, usize)> {
    let c: Vec<(usize, usize)> = v.blocks.iter().enumerate().flat_map(|(b, (_, eds))| (0..eds.len()).map(move |i| (b, i))).collect();
    if c.is_empty() { None } else { Some(*rng.pick(&c)) }
}
/// one compatible edit; `added`: entities that already got a new field in this version
fn valid_edit(rng: &mut Rng, v: &mut Ver, added: &mut Vec<(usize, usize)>, sys: bool) -> &'static str {
    let ents = all_ents(v);
    match rng.below(13) {
        0..=3 => { if let Some((b, i)) = pick_entity(rng, v) { if !added.contains(&(b, i)) { if let Some(n) = free_field_name(&v.blocks[b].1[i]) {
                    let f = gen_field(rng, n, &ents, true); v.blocks[b].1[i].fields.push(f); added.push((b, i)); return "add_field"; } } } "none" }
        4 => { // new entity at the end of a namespace (its last block, or a further block of the same namespace)
            if v.blocks.is_empty() { return "none"; }
            let ns = v.blocks[rng.below(v.blocks.len() as u64) as usize].0;
            let used: Vec<u64> = ents.iter().filter(|(n, _)| *n == ns).map(|(_, e)| *e).collect();
            if let Some(name) = (1..=8).find(|n| !used.contains(n)) {
                let e = gen_entity(rng, name, &ents);
                if rng.chance(1, 3) { v.blocks.push((ns, vec![e])); } else { let b = v.blocks.iter().rposition(|(n, _)| *n == ns).unwrap(); v.blocks[b].1.push(e); }
                return "add_entity"; }
            "none" }
        5 => { if sys { return "none"; }
            let used: Vec<u64> = v.blocks.iter().map(|(n, _)| *n).collect();
            if let Some(ns) = [0u64, 2, 3, 4, 5].iter().find(|n| !used.contains(n)) { let e = gen_entity(rng, 1, &ents); v.blocks.push((*ns, vec![e])); return "add_namespace"; }
            "none" }
        6 => { if let Some((b, i)) = pick_entity(rng, v) { let e = &mut v.blocks[b].1[i]; e.depr = !e.depr; return "depr_entity"; } "none" }
        7 => { if let Some((b, i)) = pick_entity(rng, v) { let e = &mut v.blocks[b].1[i]; let k = rng.below(e.fields.len() as u64) as usize; e.fields[k].depr = !e.fields[k].depr; return "depr_field"; } "none" }
        8 => { if let Some((b, i)) = pick_entity(rng, v) { let e = &mut v.blocks[b].1[i]; let k = rng.below(e.fields.len() as u64) as usize; let f = &mut e.fields[k];
                   if is_ref(&f.ty) { f.nullable = !f.nullable; } else if f.nullable { f.nullable = false; f.default = Some(1); } else { f.nullable = true; f.default = None; }
                   return "nullability"; } "none" }
        9 => { if let Some((b, i)) = pick_entity(rng, v) { let e = &mut v.blocks[b].1[i]; let k = rng.below(e.fields.len() as u64) as usize; let f = &mut e.fields[k];
                   if !is_ref(&f.ty) && !f.nullable { f.default = Some(if f.ty == Ty::Bool { rng.below(2) } else { rng.below(3) }); return "default"; } } "none" }
        10 => { if let Some((b, i)) = pick_entity(rng, v) { let ix = gen_index(rng, &v.blocks[b].1[i]); let e = &mut v.blocks[b].1[i]; if !e.idx.contains(&ix) { e.idx.push(ix); return "add_index"; } } "none" }
        11 => { if let Some((b, i)) = pick_entity(rng, v) { let e = &mut v.blocks[b].1[i]; if !e.idx.is_empty() { e.idx.remove(0); return "remove_index"; } } "none" }
        _ => { if let Some((b, i)) = pick_entity(rng, v) { let e = &mut v.blocks[b].1[i]; e.ft = !e.ft; return "full_text_flag"; } "none" }
    }
}
fn invalid_edit(rng: &mut Rng, v: &mut Ver, sys: bool) -> &'static str {
    let ents = all_ents(v);
    let (b, i) = match pick_entity(rng, v) { Some(x) => x, None => return "none" };
    match rng.below(24) {
        19..=23 => rename_edit(rng, v, b, i),
        0 => { let e = &mut v.blocks[b].1[i]; if e.fields.len() > 1 { let k = rng.below(e.fields.len() as u64) as usize; let n = e.fields[k].name; e.fields.remove(k); e.idx.retain(|ix| !ix.contains(&n)); return "remove_field"; } "none" }
        1 => { let e = &mut v.blocks[b].1[i]; if e.fields.len() > 1 { let k = rng.below(e.fields.len() as u64 - 1) as usize; e.fields.swap(k, k + 1); return "swap_fields"; } "none" }
        2 => { let e = &mut v.blocks[b].1[i]; let k = rng.below(e.fields.len() as u64) as usize; let n = e.fields[k].name; let old = e.fields[k].ty.clone();
               let mut t = gen_scalar(rng); if t == old { t = if old == Ty::Int { Ty::Str } else { Ty::Int }; }
               e.fields[k].ty = t; e.fields[k].default = None; e.idx.retain(|ix| !ix.contains(&n)); "retype" }
        3 => { let e = &mut v.blocks[b].1[i]; if let Some(n) = free_field_name(e) { let f = gen_field(rng, n, &ents, true); e.fields.insert(0, f); return "insert_field_front"; } "none" }
        4 | 5 => { let e = &mut v.blocks[b].1[i]; if let Some(n) = free_field_name(e) { e.fields.push(FD { name: n, ty: gen_scalar(rng), default: None, nullable: false, depr: false }); return "add_field_no_default"; } "none" }
        6 => { if v.blocks[b].1.len() > 1 || v.blocks.len() > 1 { let name = v.blocks[b].1[i].name; let ns = v.blocks[b].0; v.blocks[b].1.remove(i);
                   // keep the text parseable: drop references to it
                   for (_, eds) in v.blocks.iter_mut() { for e in eds.iter_mut() { e.fields.retain(|f| f.ty != Ty::Ent(ns, name) && f.ty != Ty::Arr(ns, name)); if e.fields.is_empty() { e.fields.push(FD { name: 9, ty: Ty::Int, default: None, nullable: true, depr: false }); } } }
                   return "remove_entity"; } "none" }
        7 => { if v.blocks[b].1.len() > 1 { let k = rng.below(v.blocks[b].1.len() as u64 - 1) as usize; v.blocks[b].1.swap(k, k + 1); return "swap_entities"; } "none" }
        8 => { if v.blocks.len() > 1 { let k = rng.below(v.blocks.len() as u64 - 1) as usize; if v.blocks[k].0 != v.blocks[k + 1].0 { v.blocks.swap(k, k + 1); return "swap_namespaces"; } } "none" }
        9 => { if v.blocks.len() > 1 { let ns = v.blocks[b].0; v.blocks.retain(|(n, _)| *n != ns);
                   for (_, eds) in v.blocks.iter_mut() { for e in eds.iter_mut() { e.fields.retain(|f| !matches!(&f.ty, Ty::Ent(n, _) | Ty::Arr(n, _) if *n == ns)); if e.fields.is_empty() { e.fields.push(FD { name: 9, ty: Ty::Int, default: None, nullable: true, depr: false }); } } }
                   return "remove_namespace"; } "none" }
        10 => { let e = &mut v.blocks[b].1[i]; for f in e.fields.iter_mut() { if f.nullable && !is_ref(&f.ty) { f.nullable = false; f.default = None; return "non_null_without_default"; } } "none" }
        11 => { let e = v.blocks[b].1[i].clone(); v.blocks[b].1.push(e); "duplicate_entity" }
        12 => { let e = &mut v.blocks[b].1[i]; let f = e.fields[0].clone(); e.fields.push(f); "duplicate_field" }
        13 => { let e = &mut v.blocks[b].1[i]; if let Some(n) = free_field_name(e) { e.fields.push(FD { name: n, ty: Ty::Ent(v_unknown_ns(sys), 9), default: None, nullable: true, depr: false }); return "unknown_reference"; } "none" }
        14 => { let e = gen_entity(rng, 1, &[]); v.blocks.push((if sys { 2 } else { 1 }, vec![e])); "foreign_namespace" }
        15 => { let e = &mut v.blocks[b].1[i]; let bad = e.fields.iter().find(|f| is_ref(&f.ty) || f.ty == Ty::Json).map(|f| f.name).unwrap_or(499); e.idx.push(vec![bad]); "bad_index" }
        16 => { let e = &mut v.blocks[b].1[i]; if let Some(ix) = e.idx.first().cloned() { e.idx.push(ix); return "duplicate_index"; } let ix = vec![SYSF]; e.idx.push(ix.clone()); e.idx.push(ix); "duplicate_index" }
        17 => { let e = &mut v.blocks[b].1[i]; let n = SYSF + rng.below(6); if !e.fields.iter().any(|f| f.name == n) { e.fields.push(FD { name: n, ty: Ty::Int, default: None, nullable: true, depr: false }); return "system_field_name"; } "none" }
        _ => { v.blocks.insert(0, (6, vec![ED { name: 1, depr: false, ft: true, fields: vec![FD { name: 1, ty: Ty::Int, default: None, nullable: true, depr: false }], idx: vec![] }])); "namespace_in_front" }
    }
}
/// what renaming fields looks like to the data model: k fields are gone and at least k new ones
/// appear (at the same places, or at the end), all of them readable on old rows
fn rename_edit(rng: &mut Rng, v: &mut Ver, b: usize, i: usize) -> &'static str {
    let ents = all_ents(v);
    let e = &mut v.blocks[b].1[i];
    let k = (1 + rng.below(3)).min(e.fields.len() as u64);
    let in_place = rng.chance(1, 2);
    let mut removed = vec![];
    for _ in 0..k {
        let pos = rng.below(e.fields.len() as u64) as usize;
        if removed.contains(&e.fields[pos].name) { continue; }
        let n = match free_field_name(e) { Some(n) => n, None => break };
        let old = e.fields[pos].clone();
        let mut f = if rng.chance(2, 3) { FD { name: n, ..old.clone() } } else { gen_field(rng, n, &ents, true) };
        if needs_default_fd(&f) { f.nullable = true; }
        removed.push(old.name);
        if in_place { e.fields[pos] = f; } else { e.fields.remove(pos); e.fields.push(f); }
    }
    if rng.chance(1, 3) { if let Some(n) = free_field_name(e) { let f = gen_field(rng, n, &ents, true); e.fields.push(f); } }
    e.idx.retain(|ix| !ix.iter().any(|f| removed.contains(f)));
    if removed.is_empty() { "none" } else if in_place { "rename_fields_in_place" } else { "rename_fields_moved_to_end" }
}
fn needs_default_fd(f: &FD) -> bool { !f.nullable && f.default.is_none() && !is_ref(&f.ty) }
fn v_unknown_ns(sys: bool) -> u64 { if sys { 1 } else { 7 } }

fn k1_edit(rng: &mut Rng, v: &mut Ver) -> bool {
    let ents = all_ents(v);
    if let Some((b, i)) = pick_entity(rng, v) {
        let k = 2 + rng.below(2);
        for _ in 0..k { if let Some(n) = free_field_name(&v.blocks[b].1[i]) { let f = gen_field(rng, n, &ents, true); v.blocks[b].1[i].fields.push(f); } }
        return true;
    }
    false
}

/// a history of versions: (system?, version); returns the edits used
fn gen_sequence(rng: &mut Rng, mode: u64, edits: &mut BTreeMap<&'static str, usize>) -> Vec<(bool, Ver)> {
    let mut seq = vec![];
    let with_sys = rng.chance(1, 4);
    let mut sys_base = gen_initial(rng, true);
    if with_sys { seq.push((true, sys_base.clone())); }
    let mut base = gen_initial(rng, false);
    seq.push((false, base.clone()));
    let n = 1 + rng.below(4);
    for _ in 0..n {
        if with_sys && rng.chance(1, 4) {
            // what every start does: the system model again (sometimes a newer one)
            if rng.chance(1, 2) { let mut added = vec![]; let e = valid_edit(rng, &mut sys_base, &mut added, true); *edits.entry(e).or_insert(0) += 1; }
            seq.push((true, sys_base.clone()));
            continue;
        }
        if rng.chance(1, 4) { seq.push((false, base.clone())); *edits.entry("same_version_again").or_insert(0) += 1; continue; }
        let mut v = base.clone();
        let mut added = vec![];
        let nvalid = if mode == 0 { 1 + rng.below(3) } else { rng.below(3) };
        for _ in 0..nvalid { let e = valid_edit(rng, &mut v, &mut added, false); *edits.entry(e).or_insert(0) += 1; }
        match mode {
            0 => { base = v.clone(); seq.push((false, v)); }
            1 => { if rng.chance(1, 2) { k1_edit(rng, &mut v); *edits.entry("several_fields_at_once").or_insert(0) += 1; } base = v.clone(); seq.push((false, v)); }
            _ => {
                if rng.chance(3, 5) {
                    let ninv = 1 + rng.below(2);
                    for _ in 0..ninv { let e = invalid_edit(rng, &mut v, false); *edits.entry(e).or_insert(0) += 1; }
                    if rng.chance(1, 3) { seq.push((false, v.clone())); }
                    seq.push((false, v));     // a refused version is not what later versions build on
                    if rng.chance(1, 3) { seq.push((false, base.clone())); }
                } else { base = v.clone(); seq.push((false, v)); }
            }
        }
    }
    seq
}

// ------------------------------------------------------------------ directed cases
fn fd(name: u64, ty: Ty, default: Option<u64>, nullable: bool) -> FD { FD { name, ty, default, nullable, depr: false } }
fn ed(name: u64, fields: Vec<FD>) -> ED { ED { name, depr: false, ft: true, fields, idx: vec![] } }
fn ver(blocks: Vec<(u64, Vec<ED>)>) -> Ver { Ver { blocks } }

/// an entity with n fields f1..fn (cheap scalars)
fn wide_entity(rng: &mut Rng, name: u64, n: u64) -> ED {
    let fields = (1..=n).map(|k| match rng.below(4) { 0 => fd(k, Ty::Int, Some(rng.below(3)), false), 1 => fd(k, Ty::Int, None, true), 2 => fd(k, Ty::Str, Some(rng.below(3)), false), _ => fd(k, Ty::Str, None, true) }).collect();
    ed(name, fields)
}
fn add_wide_fields(rng: &mut Rng, e: &mut ED, k: u64) {
    for _ in 0..k { let n = free_field_name(e).unwrap(); e.fields.push(if rng.chance(1, 2) { fd(n, Ty::Str, None, true) } else { fd(n, Ty::Int, Some(rng.below(3)), false) }); }
}
/// wide entities: field identifiers are compared as numbers, also when several fields added by one
/// version get identifiers on both sides of 99 / 100 (the entity then has 67 or 68 fields)
fn gen_wide_sequence(rng: &mut Rng) -> Vec<(bool, Ver)> {
    let n = 60 + rng.below(7);                       // 60..66 fields: identifiers 32..97 at most
    let mut v = ver(vec![(2, vec![wide_entity(rng, 1, n), ed(2, vec![fd(1, Ty::Str, None, false)])])]);
    let mut seq = vec![(false, v.clone())];
    if rng.chance(1, 2) && n < 66 { add_wide_fields(rng, &mut v.blocks[0].1[0], 1); seq.push((false, v.clone())); }
    let count = v.blocks[0].1[0].fields.len() as u64;
    let k = (69 - count) + rng.below(3);             // this version's new fields get 99 and 100 (and more)
    add_wide_fields(rng, &mut v.blocks[0].1[0], k);
    seq.push((false, v.clone()));
    if rng.chance(2, 3) { seq.push((false, v.clone())); }
    if rng.chance(1, 2) { let k2 = 1 + rng.below(3); add_wide_fields(rng, &mut v.blocks[0].1[0], k2); seq.push((false, v.clone())); seq.push((false, v.clone())); }
    seq
}
/// a version the data model rules accept and the database refuses: an entity gets a twin whose
/// name differs by letter case only, both with the same index
fn clash_version(rng: &mut Rng, base: &Ver) -> Option<Ver> {
    let mut v = base.clone();
    let c: Vec<(usize, usize)> = v.blocks.iter().enumerate().flat_map(|(b, (_, eds))| (0..eds.len()).map(move |i| (b, i))).filter(|(b, i)| v.blocks[*b].1[*i].name < 1000).collect();
    if c.is_empty() { return None; }
    let (b, i) = *rng.pick(&c);
    if v.blocks[b].1[i].idx.is_empty() { let ix = gen_index(rng, &v.blocks[b].1[i]); v.blocks[b].1[i].idx.push(ix); }
    let mut twin = v.blocks[b].1[i].clone();
    twin.name += 1000;
    let ns = v.blocks[b].0;
    if all_ents(&v).contains(&(ns, twin.name)) { return None; }
    v.blocks.push((ns, vec![twin]));
    Some(v)
}

fn directed_bare() -> Vec<(&'static str, Vec<(bool, Ver)>)> {
    let s = |n| fd(n, Ty::Str, None, false);
    let sn = |n| fd(n, Ty::Str, None, true);
    let mut out = vec![];
    // 66 fields (identifiers 32..97), then four at once: 98, 99, 100, 101 in the order of the text; the same text again;
    // then two more; compared with adding them one at a time (same identifiers)
    {
        let w0 = ver(vec![(2, vec![ed(1, (1..=66).map(|k| sn(k)).collect())])]);
        let mut w1 = w0.clone(); for k in [70u64, 67, 69, 68] { w1.blocks[0].1[0].fields.push(sn(k)); }
        let mut w2 = w1.clone(); w2.blocks[0].1[0].fields.push(sn(72)); w2.blocks[0].1[0].fields.push(sn(71));
        out.push(("directed_wide_fields_across_100", vec![(false, w0.clone()), (false, w1.clone()), (false, w1.clone()), (false, w2.clone()), (false, w2.clone())]));
        let mut seq = vec![(false, w0.clone())];
        let mut w = w0.clone();
        for k in [70u64, 67, 69, 68, 72, 71] { w.blocks[0].1[0].fields.push(sn(k)); seq.push((false, w.clone())); }
        seq.push((false, w2.clone()));      // the version reached in one go above: same text, must be accepted unchanged
        out.push(("directed_wide_fields_one_at_a_time", seq));
    }
    // renaming fields = dropping k and adding >= k: refused, and the accepted text still works afterwards
    {
        let r0 = ver(vec![(2, vec![ed(1, vec![s(1), sn(2), fd(3, Ty::Int, Some(1), false)]), ed(2, vec![s(1)])])]);
        let mut ra = r0.clone(); ra.blocks[0].1[0].fields[1] = sn(9);                                    // f2 -> f9 in place
        let mut rb = r0.clone(); rb.blocks[0].1[0].fields.remove(1); rb.blocks[0].1[0].fields.push(fd(9, Ty::Str, Some(1), false));   // f2 dropped, f9 at the end
        let mut rc = r0.clone(); rc.blocks[0].1[0].fields = vec![sn(8), sn(9), fd(3, Ty::Int, Some(1), false), sn(7)];          // two renamed, one more added
        let mut rd = r0.clone(); rd.blocks[0].1[0].fields = vec![sn(7), sn(8), sn(9)];                         // all three
        for (name, r) in [("directed_rename_in_place", ra), ("directed_rename_to_end", rb), ("directed_rename_two_and_add", rc), ("directed_rename_all", rd)] {
            out.push((name, vec![(false, r0.clone()), (false, r.clone()), (false, r.clone()), (false, r0.clone())]));
        }
    }
    // a namespace opened again later in the text, with new entities: their places continue the namespace's
    {
        let p0 = ver(vec![(2, vec![ed(1, vec![s(1)]), ed(2, vec![s(1)])]), (3, vec![ed(1, vec![s(1)])]), (2, vec![ed(3, vec![s(1)])]), (0, vec![ed(1, vec![s(1)])])]);
        let mut p1 = p0.clone(); p1.blocks.push((2, vec![ed(4, vec![s(1)])])); p1.blocks.push((0, vec![ed(2, vec![s(1)]), ed(3, vec![s(1)])])); p1.blocks.push((3, vec![ed(2, vec![s(1)])]));
        out.push(("directed_namespace_opened_again", vec![(false, p0.clone()), (false, p0.clone()), (false, p1.clone()), (false, p1)]));
    }
    // former K1 (fixed a0ddb65): three fields at once, then the same text again (what a restart does)
    let v1 = ver(vec![(2, vec![ed(1, vec![s(1)])])]);
    let v2 = ver(vec![(2, vec![ed(1, vec![s(1), sn(4), sn(2), sn(3)])])]);
    for _ in 0..4 { out.push(("directed_k1_fields_at_once", vec![(false, v1.clone()), (false, v2.clone()), (false, v2.clone())])); }
    // former K2 (fixed c4c0a2e): valid for E1, invalid for E2
    let w1 = ver(vec![(2, vec![ed(1, vec![s(1)]), ed(2, vec![s(1), s(2)])])]);
    let w2 = ver(vec![(2, vec![ed(1, vec![s(1), sn(2)]), ed(2, vec![s(1)])])]);
    for _ in 0..4 { out.push(("directed_k2_valid_for_one_invalid_for_other", vec![(false, w1.clone()), (false, w2.clone()), (false, w1.clone())])); }
    // former K2, the same for every order: the entity was marked deprecated before its fields are compared
    let mut x2 = ver(vec![(2, vec![ed(1, vec![s(1)])])]); x2.blocks[0].1[0].depr = true;
    let x1 = ver(vec![(2, vec![ed(1, vec![s(1), s(2)])])]);
    out.push(("directed_k2_deprecated_then_refused", vec![(false, x1.clone()), (false, x2), (false, x1.clone())]));
    // one field per version: identifiers follow the text
    let a1 = ver(vec![(0, vec![ed(1, vec![s(1)])])]);
    let a2 = ver(vec![(0, vec![ed(1, vec![s(1), sn(2)])])]);
    let a3 = ver(vec![(0, vec![ed(1, vec![s(1), sn(2), fd(3, Ty::Int, Some(2), false)])])]);
    out.push(("directed_one_field_per_version", vec![(false, a1.clone()), (false, a2.clone()), (false, a2.clone()), (false, a3.clone()), (false, a3.clone())]));
    // namespaces: merged blocks, empty block, default namespace referenced from a named one
    let m1 = ver(vec![(2, vec![ed(1, vec![s(1)])]), (3, vec![ed(1, vec![fd(1, Ty::Ent(0, 1), None, true)])]), (2, vec![ed(2, vec![s(1)])]), (4, vec![]), (0, vec![ed(1, vec![s(1)])])]);
    let mut m2 = m1.clone(); m2.blocks.push((4, vec![ed(1, vec![s(1)])])); m2.blocks[2].1.push(ed(3, vec![fd(1, Ty::Arr(2, 1), None, false)]));
    let mut m3 = m2.clone(); m3.blocks.swap(0, 1);
    let mut m4 = m2.clone(); m4.blocks.remove(1);
    out.push(("directed_namespaces", vec![(false, m1), (false, m2.clone()), (false, m3), (false, m4), (false, m2)]));
    // system / user namespaces
    let s1 = ver(vec![(1, vec![ed(1, vec![s(1), fd(2, Ty::Arr(1, 2), None, false)]), ed(2, vec![s(1)])])]);
    let mut s2 = s1.clone(); s2.blocks[0].1[1].fields.push(fd(2, Ty::Bool, Some(1), false));
    let u1 = ver(vec![(2, vec![ed(1, vec![s(1)])])]);
    let bad_u = ver(vec![(2, vec![ed(1, vec![s(1)])]), (1, vec![ed(1, vec![s(1)])])]);
    let bad_s = ver(vec![(1, vec![ed(1, vec![s(1)])]), (2, vec![ed(1, vec![s(1)])])]);
    out.push(("directed_system_namespace", vec![(true, s1.clone()), (false, u1.clone()), (false, bad_u), (true, bad_s), (true, s1.clone()), (true, s2), (false, u1.clone()), (true, u1.clone()), (false, s1)]));
    out.push(("directed_user_before_system", vec![(false, u1.clone()), (true, ver(vec![(1, vec![ed(1, vec![s(1)])])])), (false, u1)]));
    // indexes
    let mut i1 = ver(vec![(2, vec![ed(1, vec![s(1), fd(2, Ty::Int, None, true), fd(3, Ty::Json, None, true)])])]); i1.blocks[0].1[0].idx = vec![vec![1], vec![SYSF, 2]];
    let mut i2 = i1.clone(); i2.blocks[0].1[0].idx = vec![vec![2, 1]];
    let mut i3 = i1.clone(); i3.blocks[0].1[0].idx = vec![vec![3]];
    let mut i4 = i1.clone(); i4.blocks[0].1[0].idx = vec![vec![1], vec![1]];
    let mut i5 = i1.clone(); i5.blocks[0].1[0].idx = vec![vec![1, 1]];
    let mut i6 = i1.clone(); i6.blocks[0].1[0].idx = vec![vec![7]];
    let mut i7 = i1.clone(); i7.blocks[0].1[0].idx = vec![vec![SYSF + 4]];
    out.push(("directed_indexes", vec![(false, i1.clone()), (false, i2), (false, i3), (false, i4), (false, i5), (false, i6), (false, i7), (false, i1)]));
    // compatibility rules one by one
    let c1 = ver(vec![(2, vec![ed(1, vec![s(1), sn(2), fd(3, Ty::Ent(2, 2), None, true)]), ed(2, vec![s(1)])])]);
    let mut r1 = c1.clone(); r1.blocks[0].1[0].fields[1] = s(2);                       // nullable -> not nullable, no default
    let mut r2 = c1.clone(); r2.blocks[0].1[0].fields[1] = fd(2, Ty::Str, Some(1), false);   // with default
    let mut r3 = c1.clone(); r3.blocks[0].1[0].fields[2].nullable = false;           // reference: allowed
    let mut r4 = c1.clone(); r4.blocks[0].1[0].fields[0].ty = Ty::Int;               // retype
    let mut r5 = c1.clone(); r5.blocks[0].1[0].fields.swap(0, 1);                    // reorder fields
    let mut r6 = c1.clone(); r6.blocks[0].1.swap(0, 1);                              // reorder entities
    let mut r7 = c1.clone(); r7.blocks[0].1[0].fields[2] = sn(3); r7.blocks[0].1.remove(1);  // missing entity (+ retype)
    let r8 = ver(vec![(3, vec![ed(1, vec![s(1)])])]);                                // missing namespace
    let mut r9 = c1.clone(); r9.blocks[0].1[0].fields.push(s(4));                    // new field without default
    let mut r10 = c1.clone(); r10.blocks[0].1[0].fields.push(fd(SYSF, Ty::Int, None, true));  // system field name
    let mut r11 = c1.clone(); r11.blocks[0].1[0].fields.push(fd(4, Ty::Ent(2, 9), None, true));  // unknown entity
    for (k, r) in [r1, r2, r3, r4, r5, r6, r7, r8, r9, r10, r11].into_iter().enumerate() {
        let name: &'static str = ["directed_rule_non_null_no_default", "directed_rule_non_null_default", "directed_rule_reference_non_null", "directed_rule_retype",
            "directed_rule_field_order", "directed_rule_entity_order", "directed_rule_missing_entity", "directed_rule_missing_namespace", "directed_rule_new_field_no_default",
            "directed_rule_system_field_name", "directed_rule_unknown_entity"][k];
        out.push((name, vec![(false, c1.clone()), (false, r), (false, c1.clone())]));
    }
    out
}

// ------------------------------------------------------------------ real instances
async fn read_stored(svc: &GraphDatabaseService) -> Option<String> {
    let (tx, rx) = tokio::sync::oneshot::channel::<Option<String>>();
    svc.db.reader.send_async(Box::new(move |conn: &rusqlite::Connection| {
        let r: Result<String, rusqlite::Error> = conn.query_row("SELECT value FROM _configuration WHERE key='Data Model'", [], |row| row.get(0));
        let _ = tx.send(r.ok());
    })).await.ok()?;
    rx.await.ok()?
}
fn row_value(t: &Ty, row: u64) -> Option<String> {
    match t { Ty::Str => Some(format!("\"r{}\"", row)), Ty::Int => Some(format!("{}", 10 + row)), Ty::Float => Some(format!("{}.25", row)), Ty::Bool => Some((row % 2 == 0).to_string()), _ => None }
}
fn sorted_rows(result: &str, q: &str) -> Value {
    let v: Value = serde_json::from_str(result).unwrap_or(Value::Null);
    let mut rows = v.get(q).and_then(|x| x.as_array()).cloned().unwrap_or_default();
    rows.sort_by_key(|r| r["id"].as_str().unwrap_or("").to_string());
    Value::Array(rows)
}
fn expected_new_value(f: &FD) -> Value {
    match (f.nullable, f.default, &f.ty) {
        (_, Some(d), Ty::Bool) => json!(d % 2 == 1), (_, Some(d), Ty::Int) => json!(d), (_, Some(d), Ty::Float) => json!(d as f64 + 0.5),
        (_, Some(d), Ty::Str) => json!(format!("s{}", d)), _ => Value::Null,
    }
}

struct Baseline { ns: u64, e: u64, fields: Vec<u64>, qfields: Vec<u64>, rows: Value }

async fn inst_case(kind: &str, k: usize, seq: &[(bool, Ver)], stats: &mut InstStats) -> Case {
    let mut it = Interner { tags: HashMap::new() };
    let steps: Vec<(bool, Step)> = seq.iter().map(|(start, v)| (*start, it.step(false, v))).collect();
    let work = std::env::var("VERIF_WORK").unwrap_or("/verif/work".into());
    let path: PathBuf = format!("{}/C15/inst_{}", work, k).into();
    let _ = std::fs::remove_dir_all(&path);
    std::fs::create_dir_all(&path).unwrap();
    let secret = random32();
    let mut svc: Option<GraphDatabaseService> = None;
    let mut obs: Vec<i64> = vec![];
    let mut tabs: Vec<OTab> = vec![];
    let mut baselines: Vec<Baseline> = vec![];
    let mut baseline_done = false;
    let mut first_entities: Vec<(u64, u64)> = vec![];
    let mut baseline_failed = false;
    let mut log = vec![];
    for (is_start, s) in &steps {
        let api_ok;
        if *is_start {
            if let Some(old) = svc.take() { drop(old); tokio::time::sleep(std::time::Duration::from_millis(30)).await; }
            match GraphDatabaseService::start("c15", &s.text, &secret, &random32(), path.clone(), &Configuration::default(), EventService::new()).await {
                Ok((sv, _, _)) => { svc = Some(sv); api_ok = true; }
                Err(e) => { api_ok = false; let m = format!("{}", e); if m.contains("index") { stats.storage_refusals += 1; } log.push(format!("start refused: {}", m)); }
            }
        } else {
            match svc.as_ref() { Some(sv) => { let r = sv.update_data_model(&s.text).await; api_ok = r.is_ok(); if let Err(e) = r { let m = format!("{}", e); if m.contains("index") { stats.storage_refusals += 1; } log.push(format!("update refused: {}", m)); } }
                                 None => { api_ok = false; } }
        }
        obs.push(api_ok as i64);
        let tab = OTab::default();
        if let Some(sv) = svc.as_ref() {
            let mem = observe(&serde_json::from_str(&sv.datamodel().await.unwrap()).unwrap(), &it.tags, true);
            let stored = observe(&serde_json::from_str(&read_stored(sv).await.unwrap()).unwrap(), &it.tags, true);
            // rows: written once, after the first start; read back after every step
            if !baseline_done {
                baseline_done = true;
                first_entities = all_ents(&s.ver);
                for (ns, eds) in &s.ver.blocks { for e in eds {
                    // entities whose rows can be written with plain scalar values (has_rows in Run_C15.v)
                    let fs: Vec<&FD> = e.fields.iter().filter(|f| row_value(&f.ty, 0).is_some()).collect();
                    if fs.is_empty() || e.fields.iter().any(|f| matches!(f.ty, Ty::B64 | Ty::Json) && !f.nullable && f.default.is_none()) { continue; }
                    for row in 0..3u64 {
                        let body: Vec<String> = fs.iter().map(|f| format!("{}:{}", field_name(f.name), row_value(&f.ty, row).unwrap())).collect();
                        let m = format!("mutate {{ {} {{ {} }} }}", qual(*ns, e.name), body.join(" "));
                        if let Err(err) = sv.mutate_raw(&m, None).await { baseline_failed = true; log.push(format!("row not written: {} ({})", m, err)); }
                    }
                    // (a query of more than 63 fields is refused by SQLite's json_object: read 20 of them)
                    let qfields: Vec<u64> = fs.iter().map(|f| f.name).take(20).collect();
                    let q = format!("query {{ {} {{ id {} }} }}", qual(*ns, e.name), qfields.iter().map(|f| field_name(*f)).collect::<Vec<_>>().join(" "));
                    let res = sv.query(&q, None).await.unwrap_or_default();
                    let rows = sorted_rows(&res, &qual(*ns, e.name));
                    if rows.as_array().map(|a| a.len()) != Some(3) { baseline_failed = true; log.push(format!("baseline of {} has not 3 rows: {}", qual(*ns, e.name), res)); }
                    baselines.push(Baseline { ns: *ns, e: e.name, fields: e.fields.iter().map(|f| f.name).collect(), qfields, rows });
                } }
            }
            let mut rows_ok = !baseline_failed;
            if !api_ok {
                // a refused version has no effect on the running instance: the entities it would have
                // added do not exist (a row for them is refused)
                for (ns, eds) in &s.ver.blocks { for e in eds {
                    if stored.nss.iter().any(|n| n.name == *ns && n.ents.iter().any(|x| x.name == e.name)) { continue; }
                    let body: Vec<String> = e.fields.iter().filter_map(|f| row_value(&f.ty, 7).map(|v| format!("{}:{}", field_name(f.name), v))).collect();
                    if body.is_empty() { continue; }
                    let m = format!("mutate {{ {} {{ {} }} }}", qual(*ns, e.name), body.join(" "));
                    stats.probes_new_entity += 1;
                    if sv.mutate_raw(&m, None).await.is_ok() { rows_ok = false; log.push(format!("an entity of the refused version accepts rows: {}", m)); }
                } }
            }
            // entities the model has gained since the rows were written have no rows
            for n in &mem.nss { for e in &n.ents {
                if first_entities.contains(&(n.name, e.name)) { continue; }
                let q = format!("query {{ {} {{ id }} }}", qual(n.name, e.name));
                match sv.query(&q, None).await {
                    Ok(res) => { let rows = sorted_rows(&res, &qual(n.name, e.name)); if rows.as_array().map(|a| a.len()) != Some(0) { rows_ok = false; log.push(format!("the new entity {} returns rows: {}", qual(n.name, e.name), res)); } }
                    Err(err) => { rows_ok = false; log.push(format!("the new entity {} cannot be queried: {}", qual(n.name, e.name), err)); }
                }
                stats.probes_new_entity += 1;
            } }
            for b in &baselines {
                let q = format!("query {{ {} {{ id {} }} }}", qual(b.ns, b.e), b.qfields.iter().map(|f| field_name(*f)).collect::<Vec<_>>().join(" "));
                match sv.query(&q, None).await {
                    Ok(res) => { if sorted_rows(&res, &qual(b.ns, b.e)) != b.rows { rows_ok = false; log.push(format!("rows of {} changed: {}", qual(b.ns, b.e), res)); } }
                    Err(err) => { rows_ok = false; log.push(format!("rows of {} unreadable: {}", qual(b.ns, b.e), err)); }
                }
                // fields the model in memory has gained since: null or the default on the old rows
                if let Some(me) = mem.nss.iter().find(|n| n.name == b.ns).and_then(|n| n.ents.iter().find(|e| e.name == b.e)) {
                    let decl = s.ver.blocks.iter().filter(|(n, _)| *n == b.ns).flat_map(|(_, eds)| eds.iter()).find(|e| e.name == b.e);
                    for f in &me.fields {
                        if b.fields.contains(&f.name) || is_ref(&f.ty) || f.ty == Ty::Json || f.ty == Ty::B64 { continue; }
                        let q = format!("query {{ {} {{ id {} }} }}", qual(b.ns, b.e), field_name(f.name));
                        let want = decl.and_then(|d| d.fields.iter().find(|g| g.name == f.name)).map(expected_new_value)
                            .unwrap_or_else(|| expected_new_value(&FD { name: f.name, ty: f.ty.clone(), default: f.default, nullable: f.nullable, depr: false }));
                        match sv.query(&q, None).await {
                            Ok(res) => { for r in sorted_rows(&res, &qual(b.ns, b.e)).as_array().unwrap() { if r[field_name(f.name)] != want { rows_ok = false; log.push(format!("new field reads {} instead of {}", r[field_name(f.name)], want)); } } }
                            Err(err) => { rows_ok = false; log.push(format!("new field unreadable: {}", err)); }
                        }
                    }
                }
            }
            obs.push(1);
            enc_model(&mem, &mut obs);
            enc_model(&stored, &mut obs);
            obs.push(rows_ok as i64);
            if !rows_ok { stats.rows_not_ok += 1; }
            if !*is_start && mem != stored { stats.mem_differs_from_stored += 1; }
        } else {
            obs.push(0);
            stats.failed_starts += 1;
        }
        tabs.push(tab);
        stats.steps += 1;
    }
    drop(svc);
    tokio::time::sleep(std::time::Duration::from_millis(30)).await;
    let _ = std::fs::remove_dir_all(&path);
    let steps_coq: Vec<String> = steps.iter().map(|(st, s)| format!("({}, {})", gb(*st), step_coq(s))).collect();
    Case { kind: kind.into(), coq: format!("CInst {} {}", glist(&steps_coq), glist(&tabs.iter().map(|t| t.coq()).collect::<Vec<_>>())), obs,
           meta: json!({"steps": steps.len(), "log": log, "texts": steps.iter().map(|s| s.1.text.clone()).collect::<Vec<_>>() }) }
}
#[derive(Default)]
struct InstStats { steps: usize, failed_starts: usize, rows_not_ok: usize, mem_differs_from_stored: usize, probes_new_entity: usize, storage_refusals: usize }

fn directed_inst() -> Vec<(&'static str, Vec<(bool, Ver)>)> {
    let s = |n| fd(n, Ty::Str, None, false);
    let sn = |n| fd(n, Ty::Str, None, true);
    let i = |n, d| fd(n, Ty::Int, Some(d), false);
    let v1 = ver(vec![(2, vec![ed(1, vec![s(1), i(2, 1)]), ed(2, vec![fd(1, Ty::Bool, None, false), fd(2, Ty::Arr(2, 1), None, false)])])]);
    let mut v2 = v1.clone(); v2.blocks[0].1[0].fields.push(sn(3));
    let mut v3 = v2.clone(); v3.blocks[0].1[0].fields.push(i(4, 2)); v3.blocks[0].1.push(ed(3, vec![s(1)])); v3.blocks.push((0, vec![ed(1, vec![s(1)])]));
    let mut out = vec![];
    // compatible evolution: at run time, at restart, same model again
    out.push(("inst_evolution", vec![(true, v1.clone()), (false, v2.clone()), (true, v2.clone()), (true, v3.clone()), (false, v3.clone()), (true, v3.clone())]));
    // former K1 on a real instance: three fields at run time, then a restart with the same text
    let mut k = v1.clone(); k.blocks[0].1[0].fields.extend(vec![sn(5), sn(3), i(4, 0)]);
    for _ in 0..3 { out.push(("inst_k1_restart_after_fields_at_once", vec![(true, v1.clone()), (false, k.clone()), (true, k.clone())])); }
    // former K2 + K3 (fixed 332422f): refused at run time (a field is missing); the caller is told, nothing changes
    let mut bad = ver(vec![(2, vec![ed(1, vec![s(1)]), ed(2, vec![fd(1, Ty::Bool, None, false), fd(2, Ty::Arr(2, 1), None, false)])])]); bad.blocks[0].1[0].depr = true;
    out.push(("inst_k2_refused_at_run_time", vec![(true, v1.clone()), (false, bad.clone()), (false, v1.clone()), (true, v1.clone())]));
    // former K2: a new nullable field and a new field without default in one version
    let mut bad2 = v1.clone(); bad2.blocks[0].1[0].fields.extend(vec![sn(3), s(4)]);
    for _ in 0..2 { out.push(("inst_k2_new_field_kept_after_refusal", vec![(true, v1.clone()), (false, bad2.clone()), (true, v1.clone())])); }
    // refused at start: no instance; the store is intact
    out.push(("inst_refused_at_start", vec![(true, v1.clone()), (true, bad), (true, v1.clone()), (false, v2.clone())]));
    // renamed fields on a real instance: refused at run time and at start, the store still opens with its text
    {
        let mut ra = v1.clone(); ra.blocks[0].1[0].fields[0] = sn(9);
        let mut rb = v1.clone(); rb.blocks[0].1[0].fields.remove(1); rb.blocks[0].1[0].fields.push(i(8, 2)); rb.blocks[0].1[0].fields.push(sn(9));
        out.push(("inst_rename_fields", vec![(true, v1.clone()), (false, ra.clone()), (true, ra), (true, v1.clone()), (false, rb.clone()), (false, v2.clone()), (true, rb), (true, v2.clone())]));
    }
    // a namespace opened again with new entities, on an instance with rows: the new entities have no rows
    {
        let p0 = ver(vec![(2, vec![ed(1, vec![s(1)]), ed(2, vec![s(1), i(2, 1)])]), (3, vec![ed(1, vec![s(1)])]), (2, vec![ed(3, vec![s(1)])]), (0, vec![ed(1, vec![s(1)])])]);
        let mut p1 = p0.clone(); p1.blocks.push((2, vec![ed(4, vec![s(1)])])); p1.blocks.push((0, vec![ed(2, vec![s(1)])])); p1.blocks.push((3, vec![ed(2, vec![s(1)]), ed(3, vec![s(1)])]));
        out.push(("inst_namespace_opened_again", vec![(true, p0.clone()), (false, p1.clone()), (true, p1.clone()), (true, p1)]));
        let mut p2 = p0.clone(); p2.blocks.push((3, vec![ed(2, vec![s(1)])]));
        out.push(("inst_namespace_opened_again_at_start", vec![(true, p0), (true, p2.clone()), (false, p2)]));
    }
    // open finding 4: an entity with rows gets a Boolean field with a default
    let mut vb = v1.clone(); vb.blocks[0].1[0].fields.push(fd(3, Ty::Bool, Some(1), false));
    out.push(("inst_bool_default_on_old_rows", vec![(true, v1.clone()), (false, vb.clone()), (true, vb)]));
    // refused by the database when the model is stored: E1 and e1 (same name but for the case), both
    // with index(f1): at run time, then an accepted version, then at start
    let mut x1 = ver(vec![(2, vec![ed(1, vec![s(1), i(2, 1)])])]); x1.blocks[0].1[0].idx = vec![vec![1]];
    let mut xc = x1.clone(); { let mut t = x1.blocks[0].1[0].clone(); t.name = 1001; xc.blocks[0].1.push(t); }
    let mut x3 = x1.clone(); x3.blocks[0].1.push(ed(2, vec![s(1)]));
    let mut x4 = x3.clone(); x4.blocks[0].1[1].fields.push(sn(2));
    out.push(("inst_storage_refusal_entity_case", vec![(true, x1.clone()), (false, xc.clone()), (false, x3.clone()), (true, xc.clone()), (true, x3.clone()), (false, xc), (false, x4)]));
    // the same with two fields f3 / F3 of one entity
    let mut y2 = x1.clone(); y2.blocks[0].1[0].fields.push(sn(3)); y2.blocks[0].1[0].fields.push(sn(503)); y2.blocks[0].1[0].idx = vec![vec![1], vec![3], vec![503]];
    let mut y3 = y2.clone(); y3.blocks[0].1[0].idx = vec![vec![1], vec![3]];
    out.push(("inst_storage_refusal_field_case", vec![(true, x1.clone()), (false, y2.clone()), (false, y3.clone()), (true, y2), (true, y3)]));
    // wide entity on a real instance: four fields across 99 / 100 at run time, the same again, restart
    {
        let w0 = ver(vec![(2, vec![ed(1, (1..=66).map(|k| sn(k)).collect())])]);
        let mut w1 = w0.clone(); for k in [70u64, 67, 69, 68] { w1.blocks[0].1[0].fields.push(sn(k)); }
        let mut w2 = w1.clone(); w2.blocks[0].1[0].fields.push(i(72, 1)); w2.blocks[0].1[0].fields.push(sn(71));
        out.push(("inst_wide_fields_across_100", vec![(true, w0), (false, w1.clone()), (false, w1.clone()), (true, w1), (true, w2.clone()), (true, w2)]));
    }
    out
}

#[tokio::main(flavor = "multi_thread")]
async fn main() {
    let mut rng = Rng::from_env();
    let mut out = Out::create();
    let mut stats = Stats::default();
    std::panic::set_hook(Box::new(|_| {}));
    // directed bare cases first
    for (name, seq) in directed_bare() { let c = bare_case(name, &seq, 2, &mut rng, &mut stats); out.push(c); }
    // instances
    let mut ist = InstStats::default();
    let mut k = 0;
    for (name, seq) in directed_inst() { let c = inst_case(name, k, &seq, &mut ist).await; out.push(c); k += 1; }
    let n_inst_random = scale(4, 60);
    let mut edits_inst = BTreeMap::new();
    for _ in 0..n_inst_random {
        // compatible histories only (scalars that can be written and read back), alternately at run time and at restart
        let seq = gen_sequence(&mut rng, 0, &mut edits_inst);
        let mut seq: Vec<(bool, Ver)> = seq.into_iter().filter(|(sys, _)| !*sys).enumerate().map(|(i, (_, v))| (i == 0 || rng.chance(1, 2), v)).collect();
        // a version the database refuses, at run time or at start, between two accepted ones
        let mut kind = "inst_random_compatible";
        if rng.chance(2, 3) {
            let at = 1 + rng.below(seq.len() as u64) as usize;
            if let Some(cv) = clash_version(&mut rng, &seq[at - 1].1) {
                seq.insert(at, (rng.chance(1, 3), cv));
                if seq[at].0 && at + 1 < seq.len() { seq[at + 1].0 = true; }   // a refused start leaves no instance: start again
                kind = "inst_random_storage_refusal";
            }
        }
        if kind == "inst_random_compatible" && rng.chance(2, 3) {
            // a version that renames fields, at run time or at start, then the accepted text again
            let at = 1 + rng.below(seq.len() as u64) as usize;
            let mut rv = seq[at - 1].1.clone();
            if let Some((b, i)) = pick_entity(&mut rng, &rv) {
                if rename_edit(&mut rng, &mut rv, b, i) != "none" {
                    let good = seq[at - 1].1.clone();
                    let start = rng.chance(1, 2);
                    seq.insert(at, (start, rv));
                    seq.insert(at + 1, (true, good));
                    kind = "inst_random_rename";
                }
            }
        }
        let c = inst_case(kind, k, &seq, &mut ist).await; out.push(c); k += 1;
    }
    for _ in 0..scale(1, 8) {
        let seq: Vec<(bool, Ver)> = gen_wide_sequence(&mut rng).into_iter().enumerate().map(|(i, (_, v))| (i == 0 || rng.chance(1, 2), v)).collect();
        let c = inst_case("inst_random_wide", k, &seq, &mut ist).await; out.push(c); k += 1;
    }

    // random bare histories
    let n = scale(240, 6000);
    let wide_every = scale(30, 30);
    let mut edits = BTreeMap::new();
    for i in 0..n {
        if i % wide_every == 7 {
            // wide entities on bare values (spread over the run: their terms are large)
            let seq = gen_wide_sequence(&mut rng);
            let c = bare_case("random_wide_entity", &seq, 2, &mut rng, &mut stats); out.push(c);
        }
        let mode = match i % 10 { 0..=4 => 0, 5..=6 => 1, _ => 2 };
        let seq = gen_sequence(&mut rng, mode, &mut edits);
        let kind = ["random_compatible", "random_fields_at_once", "random_invalid_edits"][mode as usize];
        let mut c = bare_case(kind, &seq, 2, &mut rng, &mut stats);
        if i + 1 == n {
            c.meta["generator"] = json!({"steps": stats.steps, "verdicts_peer0": stats.verdicts.iter().map(|(k, v)| (k.to_string(), *v)).collect::<BTreeMap<_, _>>(),
                "refused_steps_that_changed_the_model": stats.changed_on_refusal, "edits": edits.iter().map(|(k, v)| (k.to_string(), *v)).collect::<BTreeMap<_, _>>(),
                "instances": {"steps": ist.steps, "failed_starts": ist.failed_starts, "rows_not_ok": ist.rows_not_ok, "in_memory_differs_from_stored_after_update": ist.mem_differs_from_stored,
                    "refused_by_the_database": ist.storage_refusals, "row_probes_into_entities_of_refused_versions": ist.probes_new_entity}});
        }
        out.push(c);
    }
    eprintln!("c15: {} cases; steps {}, verdicts {:?}, refused-but-changed {}; instances: steps {}, failed starts {}, rows not ok {}, mem!=stored {}, storage refusals {}, new-entity probes {}",
        out.n, stats.steps, stats.verdicts, stats.changed_on_refusal, ist.steps, ist.failed_starts, ist.rows_not_ok, ist.mem_differs_from_stored, ist.storage_refusals, ist.probes_new_entity);
    out.finish();
    let work = std::env::var("VERIF_WORK").unwrap_or("/verif/work".into());
    let _ = std::fs::remove_dir_all(format!("{}/C15/inst_tmp", work));
}
