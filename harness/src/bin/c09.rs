//! C09 correspondence: multi-day histories of local writes, deletions, room moves and ingested
//! (peer-signed) batches on a real GraphDatabaseService with the clock hook; after recompute
//! barriers the `_daily_log` table and the stored rows are read back and compared with the model
//! (coq/model/DailyLog.v) and judged by the from-scratch recount oracle (coq/run/Run_C09.v).
use discret::verif_hooks::configuration::Configuration;
use discret::verif_hooks::database::edge::{Edge, EdgeDeletionEntry};
use discret::verif_hooks::database::graph_database::{DbMessage, GraphDatabaseService};
use discret::verif_hooks::database::mutation_query::MutationQuery;
use discret::verif_hooks::database::node::{Node, NodeDeletionEntry, NodeIdentifier};
use discret::verif_hooks::date_utils::verif_clock;
use discret::verif_hooks::event_service::{Event, EventService};
use discret::verif_hooks::security::{base64_encode, random32, Ed25519SigningKey, SigningKey};
use discret::verif_hooks::verif_faults as vf;
use discret::{Parameters, ParametersAdd};
use serde_json::json;
use std::collections::{HashMap, HashSet};
use std::path::PathBuf;
use vharness::common::*;

const BASE: i64 = 1_700_006_400_000; // a midnight (UTC)
static MISSING: std::sync::atomic::AtomicU64 = std::sync::atomic::AtomicU64::new(0);
/// bound of every wait for an event: generous until events have gone missing three times in this run
/// (then the tree under test drops recompute requests and the run must stay short)
fn wait_bound() -> std::time::Duration { if MISSING.load(std::sync::atomic::Ordering::SeqCst) < 3 { std::time::Duration::from_secs(5) } else { std::time::Duration::from_millis(500) } }
type Uid = [u8; 16];

/// DeletionQuery::updated_nodes holds Node (baseline) or NodeDelete (after the C01 reference-deletion fix)
trait AsNode { fn as_node(&self) -> &Node; }
impl AsNode for Node { fn as_node(&self) -> &Node { self } }
impl AsNode for discret::verif_hooks::database::deletion::NodeDelete { fn as_node(&self) -> &Node { &self.node } }

// ---------------------------------------------------------------- symbolic history (provisional indices)
#[derive(Clone, Debug)]
enum Op {
    Tick(i64),
    LCreate { id: usize, room: Option<usize>, ent: u64, sig: usize },
    LUpdate { id: usize, ent: u64, room: Option<usize>, sig: usize },
    LAddRef { src: usize, ent: u64, dest: usize, sig: usize },
    LDelNode { id: usize, ent: u64, tsig: usize },
    LDelRef { src: usize, ent: u64, dest: usize, sig: usize, esig: usize },
    SNodes { room: usize, ns: Vec<(usize, u64, i64, usize)> },
    SDelNodes(Vec<(usize, usize, u64, i64, i64, usize)>), // room id ent mdate date sig
    SDelEdges(Vec<(usize, usize, u64, usize, i64, i64, usize)>), // room src ent dest cdate date sig
}
#[derive(Clone, Debug)]
enum Msg { Op(Op), Compute }
#[derive(Clone, Debug)]
enum Item { Batch(Vec<Msg>), Check }

#[derive(Clone, Debug, PartialEq, Eq, Hash)]
enum Term { HD(Vec<usize>), HC(Box<Term>, Option<Box<Term>>) }

#[derive(Clone, Debug)]
struct LogRow { room: usize, ent: u64, day: i64, n: i64, dirty: bool, daily: Option<Vec<u8>>, hist: Option<Vec<u8>> }
#[derive(Clone, Debug)]
struct Dump { content: Vec<(usize, u64, i64, usize)>, log: Vec<LogRow> }

struct Names { person: String, pet: String, label: String }
fn ent_of(names: &Names, s: &str) -> u64 { if s == names.person { 1 } else if s == names.pet { 2 } else { 99 } }
fn ent_short(names: &Names, e: u64) -> String { if e == 1 { names.person.clone() } else { names.pet.clone() } }
fn ent_long(e: u64) -> &'static str { if e == 1 { "ns.Person" } else { "ns.Pet" } }

struct Inst {
    app: GraphDatabaseService,
    ev: tokio::sync::broadcast::Receiver<Event>,
    me: Vec<u8>,
    peer: Ed25519SigningKey,
    names: Names,
    path: PathBuf,
    missing_events: u64,
}

impl Inst {
    async fn start(tag: &str) -> Inst {
        let work = std::env::var("VERIF_WORK").unwrap_or_else(|_| "/verif/work".into());
        let path: PathBuf = format!("{}/C09/{}", work, tag).into();
        let _ = std::fs::remove_dir_all(&path);
        std::fs::create_dir_all(&path).unwrap();
        verif_clock::set(BASE - 10 * DAY);
        let model = "ns { Person{ name:String, parents:[ns.Person] } Pet{ name:String } }";
        let es = EventService::new();
        let ev = es.subcribe().await;
        let (app, me, _) = GraphDatabaseService::start("c09", model, &random32(), &random32(), path.clone(), &Configuration::default(), es).await.unwrap();
        let mut inst = Inst { app, ev, me, peer: Ed25519SigningKey::create_from(&[5u8; 32]), names: Names { person: String::new(), pet: String::new(), label: String::new() }, path, missing_events: 0 };
        inst.wait_events(1).await; // the recompute requested at start-up
        // learn the short names from real rows
        let r = inst.app.mutate_raw(r#"mutate { a: ns.Person{ name:"x" parents:[{name:"y"}] } b: ns.Pet{ name:"z" } }"#, None).await.unwrap();
        inst.wait_events(1).await;
        inst.names.person = r.mutate_entities[0].node_to_mutate.node.as_ref().unwrap()._entity.clone();
        inst.names.pet = r.mutate_entities[1].node_to_mutate.node.as_ref().unwrap()._entity.clone();
        inst.names.label = r.mutate_entities[0].edge_insertions[0].label.clone();
        assert!(inst.names.person < inst.names.pet);
        inst
    }
    /// one DataChanged event per processed ComputeDailyLog: the recompute barrier. Every wait is
    /// bounded: an event that does not come is an observation (the tables read back afterwards show
    /// what was not recomputed), never a harness failure
    async fn wait_events(&mut self, n: usize) -> Vec<Vec<(String, String, i64)>> {
        let mut out = vec![];
        while out.len() < n {
            match tokio::time::timeout(wait_bound(), self.ev.recv()).await {
                Ok(Ok(Event::DataChanged(d))) => {
                    let mut v = vec![];
                    for (r, m) in &d.rooms { for (e, ds) in m { for d in ds { v.push((r.clone(), e.clone(), *d)); } } }
                    v.sort();
                    out.push(v);
                }
                Ok(Ok(_)) => {}
                Ok(Err(tokio::sync::broadcast::error::RecvError::Lagged(_))) => {}
                Ok(Err(e)) => panic!("event channel: {:?}", e),
                Err(_) => { self.missing_events += 1; MISSING.fetch_add(1, std::sync::atomic::Ordering::SeqCst); break; }
            }
        }
        out
    }
    async fn new_room(&mut self) -> Uid {
        let mut p = Parameters::default();
        p.add("me", base64_encode(&self.me)).unwrap();
        p.add("peer", base64_encode(&self.peer.export_verifying_key())).unwrap();
        let room = self.app.mutate_raw(r#"mutate { sys.Room{ admin:[{verif_key:$me}] authorisations:[{ name:"g" rights:[{entity:"ns.Person" mutate_self:true mutate_all:true},{entity:"ns.Pet" mutate_self:true mutate_all:true}] users:[{verif_key:$me},{verif_key:$peer}] }] } }"#, Some(p)).await.unwrap();
        self.wait_events(1).await;
        room.mutate_entities[0].node_to_mutate.id
    }
    /// mutation without the recompute request that mutate_raw appends
    async fn mutate_quiet(&self, q: &str, p: Parameters) -> Result<MutationQuery, discret::verif_hooks::database::Error> {
        let (reply, receive) = tokio::sync::oneshot::channel();
        let _ = self.app.sender.send(DbMessage::Mutate(q.to_string(), p, reply)).await;
        receive.await.unwrap()
    }
    async fn sql_rows(&self, q: &'static str, room: Uid) -> Vec<(String, i64, Vec<u8>)> {
        let (tx, rx) = tokio::sync::oneshot::channel();
        self.app.db.reader.send_async(Box::new(move |conn| {
            let mut st = conn.prepare(q).unwrap();
            let rows: Vec<(String, i64, Vec<u8>)> = st.query_map([room], |r| Ok((r.get(0)?, r.get(1)?, r.get(2)?))).unwrap().map(|x| x.unwrap()).collect();
            let _ = tx.send(rows);
        })).await.unwrap();
        rx.await.unwrap()
    }
    async fn sql_log(&self, room: Uid) -> Vec<(String, i64, i64, Option<Vec<u8>>, Option<Vec<u8>>, bool)> {
        let (tx, rx) = tokio::sync::oneshot::channel();
        self.app.db.reader.send_async(Box::new(move |conn| {
            let mut st = conn.prepare("SELECT entity, date, entry_number, daily_hash, history_hash, need_recompute FROM _daily_log WHERE room_id = ?").unwrap();
            let rows: Vec<_> = st.query_map([room], |r| Ok((r.get(0)?, r.get(1)?, r.get(2)?, r.get(3)?, r.get(4)?, r.get(5)?))).unwrap().map(|x| x.unwrap()).collect();
            let _ = tx.send(rows);
        })).await.unwrap();
        rx.await.unwrap()
    }
}

// ---------------------------------------------------------------- one scenario
#[derive(Clone, Debug)]
struct Shadow { idx: usize, uid: Uid, ent: u64, room: Option<usize>, mdate: i64, alive: bool }

struct Scn {
    rooms: Vec<Uid>,
    sigs: Vec<Vec<u8>>,            // provisional id = index + 1
    sig_ix: HashMap<Vec<u8>, usize>,
    ids: Vec<Uid>,                 // node index = position + 1
    nodes: Vec<Shadow>,
    edges: Vec<(usize, usize, i64)>, // src dest cdate
    items: Vec<Item>,
    dumps: Vec<Dump>,
    dict: HashMap<Vec<u8>, Term>,
    room_hashes: Vec<HashSet<Vec<u8>>>,
    now: i64,
    t0: i64,
    case_no: u64,
    stats: HashMap<&'static str, u64>,
}

impl Scn {
    fn sig(&mut self, s: &[u8]) -> usize {
        if let Some(i) = self.sig_ix.get(s) { return *i; }
        self.sigs.push(s.to_vec());
        let i = self.sigs.len();
        self.sig_ix.insert(s.to_vec(), i);
        i
    }
    fn new_id(&mut self, uid: Uid) -> usize { self.ids.push(uid); self.ids.len() }
    fn fresh_uid(&self) -> Uid {
        let mut u = uid_of(self.ids.len() as u64 + 1);
        u[1..8].copy_from_slice(&self.case_no.to_be_bytes()[1..8]);
        u
    }
    fn bump(&mut self, k: &'static str) { *self.stats.entry(k).or_insert(0) += 1; }
    fn push_batch(&mut self, ops: Vec<Op>) { self.items.push(Item::Batch(ops.into_iter().map(Msg::Op).collect())); }
    fn room_ix(&self, u: &Uid) -> Option<usize> { self.rooms.iter().position(|r| r == u) }
}

/// reads the stored rows + log of the scenario's rooms; registers every signature seen and the
/// daily hash (real BLAKE3) of every stored key in the dictionary of explained hashes
async fn read_tables(inst: &Inst, scn: &mut Scn) -> Dump {
    let mut content = vec![];
    let mut log = vec![];
    for (ri, room) in scn.rooms.clone().iter().enumerate() {
        let mut rows = inst.sql_rows("SELECT _entity, mdate, _signature FROM _node WHERE room_id = ?", *room).await;
        rows.extend(inst.sql_rows("SELECT entity, deletion_date, signature FROM _node_deletion_log WHERE room_id = ?", *room).await);
        rows.extend(inst.sql_rows("SELECT src_entity, deletion_date, signature FROM _edge_deletion_log WHERE room_id = ?", *room).await);
        let mut by_key: HashMap<(u64, i64), Vec<Vec<u8>>> = HashMap::new();
        for (e, d, s) in rows {
            let ent = ent_of(&inst.names, &e);
            let si = scn.sig(&s);
            content.push((ri, ent, d, si));
            by_key.entry((ent, d.div_euclid(DAY))).or_default().push(s);
        }
        for (_, mut ss) in by_key {
            ss.sort();
            let mut h = blake3::Hasher::new();
            for s in &ss { h.update(s); }
            let t = Term::HD(ss.iter().map(|s| scn.sig(s)).collect());
            let hb = h.finalize().as_bytes().to_vec();
            scn.room_hashes[ri].insert(hb.clone());
            scn.dict.insert(hb, t);
        }
        for (e, d, n, daily, hist, dirty) in inst.sql_log(*room).await {
            log.push(LogRow { room: ri, ent: ent_of(&inst.names, &e), day: d, n, dirty, daily, hist });
        }
    }
    Dump { content, log }
}

/// explains history hashes as chains over already explained hashes (real BLAKE3). Candidates are
/// the hashes seen so far in the same room; depth 2 covers a value chained twice within one pass.
fn h2(p: &[u8], d: Option<&[u8]>) -> Vec<u8> {
    let mut hs = blake3::Hasher::new();
    hs.update(p);
    if let Some(d) = d { hs.update(d); }
    hs.finalize().as_bytes().to_vec()
}
fn explain_chains(scn: &mut Scn, d: &Dump) {
    let mut rows: Vec<&LogRow> = d.log.iter().collect();
    rows.sort_by(|a, b| (scn.rooms[a.room], a.ent, a.day).cmp(&(scn.rooms[b.room], b.ent, b.day)));
    for room in 0..scn.rooms.len() {
        let mut cand: Vec<Vec<u8>> = scn.room_hashes[room].iter().cloned().collect();
        for r in rows.iter().filter(|r| r.room == room) { for h in [&r.hist, &r.daily].into_iter().flatten() { if !cand.contains(h) { cand.push(h.clone()); } } }
        loop {
            let mut progress = false;
            for r in rows.iter().filter(|r| r.room == room) {
                for h in [&r.hist, &r.daily].into_iter().flatten() {
                    if scn.dict.contains_key(h) { continue; }
                    let known: Vec<(Vec<u8>, Term)> = cand.iter().filter_map(|k| scn.dict.get(k).map(|t| (k.clone(), t.clone()))).collect();
                    let mut dopts: Vec<(Option<&[u8]>, Option<Box<Term>>)> = vec![(None, None)];
                    for (db, dt) in &known { if matches!(dt, Term::HD(_)) { dopts.push((Some(db.as_slice()), Some(Box::new(dt.clone())))); } }
                    let mut found: Option<Term> = None;
                    'd1: for (pb, pt) in &known {
                        for (db, dt) in &dopts {
                            if h2(pb, *db) == *h { found = Some(Term::HC(Box::new(pt.clone()), dt.clone())); break 'd1; }
                        }
                    }
                    if found.is_none() {
                        'd2: for (pb, pt) in &known {
                            for (db, dt) in &dopts {
                                let mid = h2(pb, *db);
                                for (eb, et) in &dopts {
                                    if h2(&mid, *eb) == *h {
                                        found = Some(Term::HC(Box::new(Term::HC(Box::new(pt.clone()), dt.clone())), et.clone()));
                                        break 'd2;
                                    }
                                }
                            }
                        }
                    }
                    if let Some(t) = found { scn.dict.insert(h.clone(), t); progress = true; }
                }
            }
            if !progress { break; }
        }
        for c in cand { scn.room_hashes[room].insert(c); }
    }
}

async fn after_write(inst: &Inst, scn: &mut Scn) {
    let d = read_tables(inst, scn).await;
    explain_chains(scn, &d);
    if std::env::var("VERIF_DEBUG").is_ok() {
        eprintln!("-- after {:?}", scn.items.last());
        let mut lg: Vec<&LogRow> = d.log.iter().collect();
        lg.sort_by_key(|l| (scn.rooms[l.room], l.ent, l.day));
        for l in lg { eprintln!("   room {} ent {} day {} n {} dirty {} daily {:?} hist {:?}", l.room, l.ent, (l.day - BASE) / DAY, l.n, l.dirty, l.daily.as_ref().map(|h| hex::encode(&h[..3])), l.hist.as_ref().map(|h| hex::encode(&h[..3]))); }
    }
}

async fn do_compute(inst: &mut Inst, scn: &mut Scn) {
    inst.app.compute_daily_log().await;
    inst.wait_events(1).await;
    scn.items.push(Item::Batch(vec![Msg::Compute]));
    after_write(inst, scn).await;
}
async fn do_check(inst: &Inst, scn: &mut Scn) {
    let d = read_tables(inst, scn).await;
    explain_chains(scn, &d);
    scn.dumps.push(d);
    scn.items.push(Item::Check);
}
/// bookkeeping after a local write issued through mutate_raw / delete (they request a recompute)
async fn auto_compute(inst: &mut Inst, scn: &mut Scn, quiet: bool) {
    after_write(inst, scn).await;
    if !quiet {
        inst.wait_events(1).await;
        scn.items.push(Item::Batch(vec![Msg::Compute]));
        after_write(inst, scn).await;
    }
}

fn tick(scn: &mut Scn, t: i64) {
    if t != scn.now { scn.now = t; verif_clock::set(t); scn.items.push(Item::Batch(vec![Msg::Op(Op::Tick(t))])); }
}

/// arms the H4 fault hook so that the COMMIT of the next writer batch (one message with `groups`
/// statement groups) fails; returns after the caller's write: true if the failure was injected
fn arm_commit_failure(groups: u64) { vf::arm(vf::MODE_FAIL, 2 * groups + 3, 0, None); }
fn disarm_fired() -> bool { let f = vf::fired() == 1; vf::disarm(); f }

async fn l_create(inst: &mut Inst, scn: &mut Scn, ent: u64, room: Option<usize>, quiet: bool) { l_create_f(inst, scn, ent, room, quiet, false).await }
/// fail_first: the same request is first sent while the COMMIT of its batch is made to fail (the
/// transaction is rolled back, the caller gets an error), then sent again
async fn l_create_f(inst: &mut Inst, scn: &mut Scn, ent: u64, room: Option<usize>, quiet: bool, fail_first: bool) {
    if fail_first {
        let mut p = Parameters::default();
        let q = match room {
            Some(r) => { p.add("room_id", base64_encode(&scn.rooms[r])).unwrap(); format!("mutate {{ {}{{ room_id:$room_id name:\"c\" }} }}", ent_long(ent)) }
            None => format!("mutate {{ {}{{ name:\"c\" }} }}", ent_long(ent)),
        };
        arm_commit_failure(1);
        let r = inst.mutate_quiet(&q, p).await;
        let fired = disarm_fired();
        if let Ok(m) = r { // the failure was not injected: the write is there, record it
            let n = m.mutate_entities[0].node_to_mutate.node.as_ref().unwrap();
            let id = scn.new_id(n.id);
            let sig = scn.sig(&n._signature);
            scn.nodes.push(Shadow { idx: id, uid: n.id, ent, room, mdate: n.mdate, alive: true });
            scn.push_batch(vec![Op::LCreate { id, room, ent, sig }]);
            after_write(inst, scn).await;
            scn.bump("fault_not_injected");
        } else if fired { scn.bump("fault_commit_failed"); }
    }
    let mut p = Parameters::default();
    let q = match room {
        Some(r) => { p.add("room_id", base64_encode(&scn.rooms[r])).unwrap(); format!("mutate {{ {}{{ room_id:$room_id name:\"c\" }} }}", ent_long(ent)) }
        None => format!("mutate {{ {}{{ name:\"c\" }} }}", ent_long(ent)),
    };
    let r = if quiet { inst.mutate_quiet(&q, p).await } else { inst.app.mutate_raw(&q, Some(p)).await }.unwrap();
    let n = r.mutate_entities[0].node_to_mutate.node.as_ref().unwrap();
    let id = scn.new_id(n.id);
    let sig = scn.sig(&n._signature);
    scn.nodes.push(Shadow { idx: id, uid: n.id, ent, room, mdate: n.mdate, alive: true });
    scn.push_batch(vec![Op::LCreate { id, room, ent, sig }]);
    scn.bump("l_create");
    auto_compute(inst, scn, quiet).await;
}

async fn l_update(inst: &mut Inst, scn: &mut Scn, ni: usize, as_ent: u64, room: Option<usize>, quiet: bool) {
    let sh = scn.nodes[ni].clone();
    let mut p = Parameters::default();
    p.add("id", base64_encode(&sh.uid)).unwrap();
    let q = match room {
        Some(r) => { p.add("room_id", base64_encode(&scn.rooms[r])).unwrap(); format!("mutate {{ {}{{ id:$id room_id:$room_id name:\"u{}\" }} }}", ent_long(as_ent), scn.now % 1000) }
        None => format!("mutate {{ {}{{ id:$id name:\"u{}\" }} }}", ent_long(as_ent), scn.now % 1000),
    };
    let r = if quiet { inst.mutate_quiet(&q, p).await } else { inst.app.mutate_raw(&q, Some(p)).await };
    let sig = match &r {
        Ok(m) => {
            let n = m.mutate_entities[0].node_to_mutate.node.as_ref().unwrap();
            let s = scn.sig(&n._signature);
            let sh = &mut scn.nodes[ni];
            sh.mdate = n.mdate;
            if room.is_some() { sh.room = room; }
            scn.bump("l_update_ok");
            s
        }
        Err(_) => { scn.bump("l_update_err"); 0 }
    };
    scn.push_batch(vec![Op::LUpdate { id: sh.idx, ent: as_ent, room, sig }]);
    auto_compute(inst, scn, quiet).await;
}

async fn l_addref(inst: &mut Inst, scn: &mut Scn, si: usize, di: usize) {
    let (s, d) = (scn.nodes[si].clone(), scn.nodes[di].clone());
    let mut p = Parameters::default();
    p.add("src", base64_encode(&s.uid)).unwrap();
    p.add("dest", base64_encode(&d.uid)).unwrap();
    let r = inst.app.mutate_raw("mutate { ns.Person{ id:$src parents:[{id:$dest}] } }", Some(p)).await;
    let sig = match &r {
        Ok(m) => match &m.mutate_entities[0].node_to_mutate.node {
            Some(n) => {
                let sg = scn.sig(&n._signature);
                scn.nodes[si].mdate = n.mdate;
                scn.edges.push((s.idx, d.idx, m.mutate_entities[0].edge_insertions[0].cdate));
                scn.bump("l_addref_new");
                sg
            }
            None => { scn.bump("l_addref_noop"); 0 }
        },
        Err(_) => { scn.bump("l_addref_err"); 0 }
    };
    scn.push_batch(vec![Op::LAddRef { src: s.idx, ent: 1, dest: d.idx, sig }]);
    auto_compute(inst, scn, false).await;
}

/// mutate { ns.Person{ room_id? name parents:[{ room_id? name }] } }: an owner row and a nested row
/// created in one request (the nested row takes the owner's room only when it names none)
async fn l_nested_create(inst: &mut Inst, scn: &mut Scn, oroom: Option<usize>, croom: Option<usize>, quiet: bool) {
    let mut p = Parameters::default();
    let o = match oroom { Some(r) => { p.add("ro", base64_encode(&scn.rooms[r])).unwrap(); "room_id:$ro " } None => "" };
    let c = match croom { Some(r) => { p.add("rc", base64_encode(&scn.rooms[r])).unwrap(); "room_id:$rc " } None => "" };
    let q = format!("mutate {{ ns.Person{{ {}name:\"o\" parents:[{{ {}name:\"n\" }}] }} }}", o, c);
    let r = if quiet { inst.mutate_quiet(&q, p).await } else { inst.app.mutate_raw(&q, Some(p)).await }.unwrap();
    let ie = &r.mutate_entities[0];
    let on = ie.node_to_mutate.node.as_ref().unwrap();
    let cn = ie.sub_nodes.get("parents").unwrap()[0].node_to_mutate.node.as_ref().unwrap();
    let (oid, cid) = (scn.new_id(on.id), scn.new_id(cn.id));
    let (osig, csig) = (scn.sig(&on._signature), scn.sig(&cn._signature));
    let oroom_eff = on.room_id.and_then(|u| scn.room_ix(&u));
    let croom_eff = cn.room_id.and_then(|u| scn.room_ix(&u));
    scn.nodes.push(Shadow { idx: oid, uid: on.id, ent: 1, room: oroom_eff, mdate: on.mdate, alive: true });
    scn.nodes.push(Shadow { idx: cid, uid: cn.id, ent: 1, room: croom_eff, mdate: cn.mdate, alive: true });
    scn.edges.push((oid, cid, ie.edge_insertions[0].cdate));
    scn.push_batch(vec![Op::LCreate { id: oid, room: oroom_eff, ent: 1, sig: osig }, Op::LCreate { id: cid, room: croom_eff, ent: 1, sig: csig },
                        Op::LAddRef { src: oid, ent: 1, dest: cid, sig: osig }]);
    scn.bump("l_nested_create");
    auto_compute(inst, scn, quiet).await;
}

/// mutate { ns.Person{ id:$p parents:[{ id:$c name }] } }: a row updated THROUGH another one (which
/// is itself only rewritten when the reference is new)
async fn l_via(inst: &mut Inst, scn: &mut Scn, pi: usize, ci: usize, quiet: bool) {
    let (ps, cs) = (scn.nodes[pi].clone(), scn.nodes[ci].clone());
    let mut p = Parameters::default();
    p.add("p", base64_encode(&ps.uid)).unwrap();
    p.add("c", base64_encode(&cs.uid)).unwrap();
    let q = format!("mutate {{ ns.Person{{ id:$p parents:[{{ id:$c name:\"v{}\" }}] }} }}", scn.now % 1000);
    let r = if quiet { inst.mutate_quiet(&q, p).await } else { inst.app.mutate_raw(&q, Some(p)).await };
    match &r {
        Ok(m) => {
            let ie = &m.mutate_entities[0];
            let psig = match &ie.node_to_mutate.node { Some(n) => { let sg = scn.sig(&n._signature); scn.nodes[pi].mdate = n.mdate; scn.edges.push((ps.idx, cs.idx, ie.edge_insertions[0].cdate)); sg } None => 0 };
            let cn = ie.sub_nodes.get("parents").unwrap()[0].node_to_mutate.node.as_ref().unwrap();
            let csig = scn.sig(&cn._signature);
            scn.nodes[ci].mdate = cn.mdate;
            scn.push_batch(vec![Op::LAddRef { src: ps.idx, ent: 1, dest: cs.idx, sig: psig }, Op::LUpdate { id: cs.idx, ent: 1, room: None, sig: csig }]);
            scn.bump(if psig == 0 { "l_via_unchanged_parent" } else { "l_via_new_reference" });
        }
        Err(_) => { scn.bump("l_via_err"); }
    }
    auto_compute(inst, scn, quiet).await;
}

async fn l_delnode(inst: &mut Inst, scn: &mut Scn, ni: usize) {
    let sh = scn.nodes[ni].clone();
    let mut p = Parameters::default();
    p.add("id", base64_encode(&sh.uid)).unwrap();
    let q = format!("delete {{ {}{{ $id }} }}", ent_long(sh.ent));
    let r = inst.app.delete(&q, Some(p)).await.unwrap();
    let tsig = match r.node_log.first() { Some(l) => scn.sig(&l.signature), None => 0 };
    if !r.nodes.is_empty() { scn.nodes[ni].alive = false; scn.edges.retain(|e| e.0 != sh.idx && e.1 != sh.idx); scn.bump("l_delnode"); } else { scn.bump("l_delnode_absent"); }
    scn.push_batch(vec![Op::LDelNode { id: sh.idx, ent: sh.ent, tsig }]);
    auto_compute(inst, scn, false).await;
}

async fn l_delref(inst: &mut Inst, scn: &mut Scn, si: usize, di: usize) {
    let (s, d) = (scn.nodes[si].clone(), scn.nodes[di].clone());
    let mut p = Parameters::default();
    p.add("src", base64_encode(&s.uid)).unwrap();
    p.add("dest", base64_encode(&d.uid)).unwrap();
    let r = inst.app.delete("delete { ns.Person{ $src parents[$dest] } }", Some(p)).await.unwrap();
    let sig = match r.updated_nodes.first().map(|n| n.as_node()) { Some(n) => { scn.nodes[si].mdate = n.mdate; scn.sig(&n._signature) } None => 0 };
    let esig = match r.edge_log.first() { Some(l) => scn.sig(&l.signature), None => 0 };
    if !r.edges.is_empty() { scn.edges.retain(|e| !(e.0 == s.idx && e.1 == d.idx)); scn.bump("l_delref_edge"); } else { scn.bump("l_delref_noedge"); }
    scn.push_batch(vec![Op::LDelRef { src: s.idx, ent: 1, dest: d.idx, sig, esig }]);
    auto_compute(inst, scn, false).await;
}

/// versions: (node index or None for a new id, entity, mdate)
async fn s_nodes(inst: &mut Inst, scn: &mut Scn, room: usize, versions: Vec<(Option<usize>, u64, i64)>) { s_nodes_f(inst, scn, room, versions, false).await }
async fn s_nodes_f(inst: &mut Inst, scn: &mut Scn, room: usize, versions: Vec<(Option<usize>, u64, i64)>, fail_first: bool) {
    let mut set = HashSet::new();
    let mut built: HashMap<Uid, Node> = HashMap::new();
    let mut sym = vec![];
    for (ni, ent, mdate) in versions {
        let (idx, uid) = match ni {
            Some(i) => (scn.nodes[i].idx, scn.nodes[i].uid),
            None => {
                let uid = scn.fresh_uid();
                let idx = scn.new_id(uid);
                scn.nodes.push(Shadow { idx, uid, ent, room: Some(room), mdate, alive: true });
                (idx, uid)
            }
        };
        if built.contains_key(&uid) { continue; }
        let mut node = Node { id: uid, room_id: Some(scn.rooms[room]), cdate: mdate, mdate, _entity: ent_short(&inst.names, ent), _json: Some(format!("{{\"32\":\"s{}\"}}", mdate % 977)), ..Default::default() };
        node.sign(&inst.peer).unwrap();
        let sig = scn.sig(&node._signature);
        set.insert(NodeIdentifier { id: uid, mdate, signature: node._signature.clone() });
        sym.push((idx, ent, mdate, sig));
        built.insert(uid, node);
    }
    if fail_first {
        let set2: HashSet<NodeIdentifier> = set.iter().map(|n| NodeIdentifier { id: n.id, mdate: n.mdate, signature: n.signature.clone() }).collect();
        let mut ntis = inst.app.filter_existing_node(set2).await.unwrap();
        for nti in &mut ntis { let mut n = built.get(&nti.id).unwrap().clone(); n._local_id = nti.old_local_id; nti.node = Some(n); }
        if !ntis.is_empty() {
            arm_commit_failure(ntis.len() as u64);
            let r = inst.app.add_nodes(scn.rooms[room], ntis).await;
            let fired = disarm_fired();
            if r.is_err() && fired { scn.bump("fault_commit_failed"); } else { scn.bump("fault_not_injected"); }
            // (if the failure was not injected the rows are stored: the second attempt below is then
            //  filtered out as "not newer", which the model reproduces: same rows offered twice)
            if r.is_ok() { scn.push_batch(vec![Op::SNodes { room, ns: sym.clone() }]); after_write(inst, scn).await; }
        }
    }
    let mut ntis = inst.app.filter_existing_node(set).await.unwrap();
    let mut accepted = 0;
    for nti in &mut ntis {
        let mut n = built.get(&nti.id).unwrap().clone();
        n._local_id = nti.old_local_id;
        nti.node = Some(n);
        accepted += 1;
    }
    let acc_ids: Vec<Uid> = ntis.iter().map(|n| n.id).collect();
    let rej = inst.app.add_nodes(scn.rooms[room], ntis).await.unwrap();
    assert!(rej.is_empty(), "a generated node was refused by add_nodes");
    for sh in scn.nodes.iter_mut() {
        if acc_ids.contains(&sh.uid) { let n = &built[&sh.uid]; sh.mdate = n.mdate; sh.room = Some(room); sh.alive = true; sh.ent = ent_of(&inst.names, &n._entity); }
    }
    *scn.stats.entry("s_nodes_accepted").or_insert(0) += accepted;
    *scn.stats.entry("s_nodes_filtered").or_insert(0) += (sym.len() as u64) - accepted;
    scn.push_batch(vec![Op::SNodes { room, ns: sym }]);
    after_write(inst, scn).await;
}

/// tombstones: (node index, claimed entity, claimed mdate, deletion date)
async fn s_delnodes(inst: &mut Inst, scn: &mut Scn, room: usize, ts: Vec<(usize, u64, i64, i64)>) {
    let mut entries = vec![];
    let mut sym = vec![];
    let mut seen = HashSet::new();
    for (ni, ent, mdate, date) in ts {
        let sh = scn.nodes[ni].clone();
        if !seen.insert(sh.uid) { continue; }
        let node = Node { id: sh.uid, mdate, _entity: ent_short(&inst.names, ent), ..Default::default() };
        let e = NodeDeletionEntry::build(scn.rooms[room], &node, date, &inst.peer);
        let sig = scn.sig(&e.signature);
        sym.push((room, sh.idx, ent, mdate, date, sig));
        entries.push(e);
        if sh.room == Some(room) { scn.nodes[ni].alive = false; }
    }
    inst.app.delete_nodes(entries).await.unwrap();
    scn.bump("s_delnodes");
    scn.push_batch(vec![Op::SDelNodes(sym)]);
    after_write(inst, scn).await;
}

/// edge tombstones: (src node index, dest node index, cdate, deletion date)
async fn s_deledges(inst: &mut Inst, scn: &mut Scn, room: usize, ts: Vec<(usize, usize, i64, i64)>) { s_deledges_ent(inst, scn, room, ts, 1).await }
async fn s_deledges_ent(inst: &mut Inst, scn: &mut Scn, room: usize, ts: Vec<(usize, usize, i64, i64)>, ent: u64) {
    let mut entries = vec![];
    let mut sym = vec![];
    for (si, di, cdate, date) in ts {
        let (s, d) = (scn.nodes[si].clone(), scn.nodes[di].clone());
        let edge = Edge { src: s.uid, src_entity: ent_short(&inst.names, ent), label: inst.names.label.clone(), dest: d.uid, cdate, ..Default::default() };
        let e = EdgeDeletionEntry::build(scn.rooms[room], &edge, date, &inst.peer);
        let sig = scn.sig(&e.signature);
        sym.push((room, s.idx, ent, d.idx, cdate, date, sig));
        entries.push(e);
        scn.edges.retain(|x| !(x.0 == s.idx && x.1 == d.idx && x.2 == cdate));
    }
    inst.app.delete_edges(entries).await.unwrap();
    scn.bump("s_deledges");
    scn.push_batch(vec![Op::SDelEdges(sym)]);
    after_write(inst, scn).await;
}

// ---------------------------------------------------------------- emission
fn rank_map<T: Ord + Clone>(v: &[T]) -> Vec<u64> {
    let mut sorted: Vec<T> = v.to_vec();
    sorted.sort();
    sorted.dedup();
    v.iter().map(|x| sorted.binary_search(x).unwrap() as u64 + 1).collect()
}

struct Fin { sig: Vec<u64>, room: Vec<u64> }
impl Fin {
    fn s(&self, i: usize) -> u64 { if i == 0 { 0 } else { self.sig[i - 1] } }
    fn r(&self, i: usize) -> u64 { self.room[i] }
    fn ro(&self, r: Option<usize>) -> Option<u64> { r.map(|i| self.room[i]) }
}

fn op_coq(o: &Op, f: &Fin) -> String {
    match o {
        Op::Tick(t) => format!("Tick {}", gz(*t)),
        Op::LCreate { id, room, ent, sig } => format!("LCreate {} {} {} {}", gn(*id as u64), gon(f.ro(*room)), gn(*ent), gn(f.s(*sig))),
        Op::LUpdate { id, ent, room, sig } => format!("LUpdate {} {} {} {}", gn(*id as u64), gn(*ent), gon(f.ro(*room)), gn(f.s(*sig))),
        Op::LAddRef { src, ent, dest, sig } => format!("LAddRef {} {} {} {}", gn(*src as u64), gn(*ent), gn(*dest as u64), gn(f.s(*sig))),
        Op::LDelNode { id, ent, tsig } => format!("LDelNode {} {} {}", gn(*id as u64), gn(*ent), gn(f.s(*tsig))),
        Op::LDelRef { src, ent, dest, sig, esig } => format!("LDelRef {} {} {} {} {}", gn(*src as u64), gn(*ent), gn(*dest as u64), gn(f.s(*sig)), gn(f.s(*esig))),
        Op::SNodes { room, ns } => format!("SNodes {} {}", gn(f.r(*room)), glist(&ns.iter().map(|(i, e, m, s)|
            format!("{{| sn_id := {}; sn_ent := {}; sn_mdate := {}; sn_sig := {} |}}", gn(*i as u64), gn(*e), gz(*m), gn(f.s(*s)))).collect::<Vec<_>>())),
        Op::SDelNodes(ts) => format!("SDelNodes {}", glist(&ts.iter().map(|(r, i, e, m, d, s)|
            format!("{{| nd_room := {}; nd_id := {}; nd_ent := {}; nd_mdate := {}; nd_date := {}; nd_sig := {} |}}", gn(f.r(*r)), gn(*i as u64), gn(*e), gz(*m), gz(*d), gn(f.s(*s)))).collect::<Vec<_>>())),
        Op::SDelEdges(ts) => format!("SDelEdges {}", glist(&ts.iter().map(|(r, s, e, d, c, dt, sg)|
            format!("{{| ed_room := {}; ed_edge := {{| e_src := {}; e_ent := {}; e_label := 1%N; e_dest := {}; e_cdate := {} |}}; ed_date := {}; ed_sig := {} |}}",
                gn(f.r(*r)), gn(*s as u64), gn(*e), gn(*d as u64), gz(*c), gz(*dt), gn(f.s(*sg)))).collect::<Vec<_>>())),
    }
}
fn items_coq(items: &[Item], f: &Fin) -> String {
    glist(&items.iter().map(|i| match i {
        Item::Check => "ICheck".to_string(),
        Item::Batch(b) => format!("IBatch {}", glist(&b.iter().map(|m| match m { Msg::Compute => "MCompute".to_string(), Msg::Op(o) => format!("MOp ({})", op_coq(o, f)) }).collect::<Vec<_>>())),
    }).collect::<Vec<_>>())
}
fn enc_term(t: &Term, f: &Fin, out: &mut Vec<i64>) {
    match t {
        Term::HD(l) => { out.push(1); out.push(l.len() as i64); for s in l { out.push(f.s(*s) as i64); } }
        Term::HC(p, d) => { out.push(2); enc_term(p, f, out); match d { Some(x) => enc_term(x, f, out), None => out.push(0) } }
    }
}
fn enc_hash(h: &Option<Vec<u8>>, scn: &Scn, f: &Fin, unexplained: &mut u64) -> Vec<i64> {
    match h {
        None => vec![0],
        Some(b) => match scn.dict.get(b) {
            Some(t) => { let mut v = vec![]; enc_term(t, f, &mut v); v }
            None => { *unexplained += 1; vec![99] }
        },
    }
}

fn emit(out: &mut Out, scn: &Scn, kind: &str, profile: &str) {
    let f = Fin { sig: rank_map(&scn.sigs), room: rank_map(&scn.rooms) };
    let mut obs: Vec<i64> = vec![scn.dumps.len() as i64];
    let mut unexplained = 0u64;
    let mut rows_total = 0;
    for d in &scn.dumps {
        let mut cs: Vec<(u64, u64, i64, u64)> = d.content.iter().map(|(r, e, dt, s)| (f.r(*r), *e, *dt, f.s(*s))).collect();
        cs.sort();
        obs.push(cs.len() as i64);
        for (r, e, dt, s) in cs { obs.extend([r as i64, e as i64, dt, s as i64]); }
        let mut lg: Vec<&LogRow> = d.log.iter().collect();
        lg.sort_by_key(|l| (f.r(l.room), l.ent, l.day));
        obs.push(lg.len() as i64);
        rows_total += lg.len();
        for l in lg {
            let dh = enc_hash(&l.daily, scn, &f, &mut unexplained);
            let hh = enc_hash(&l.hist, scn, &f, &mut unexplained);
            obs.extend([f.r(l.room) as i64, l.ent as i64, l.day, l.n, l.dirty as i64, dh.len() as i64, hh.len() as i64]);
            obs.extend(dh);
            obs.extend(hh);
        }
    }
    let items = items_coq(&scn.items, &f);
    let nops = scn.items.iter().map(|i| match i { Item::Batch(b) => b.len(), _ => 0 }).sum::<usize>();
    let meta = json!({"missing_events": MISSING.load(std::sync::atomic::Ordering::SeqCst), "profile": profile, "msgs": nops, "checks": scn.dumps.len(), "log_rows_read": rows_total, "unexplained_hashes": unexplained, "ops": scn.stats, "case_no": scn.case_no});
    out.push(Case { kind: format!("{}-daily", kind), coq: format!("CDaily {} {}", gz(scn.t0), items), obs: obs.clone(), meta: meta.clone() });
    out.push(Case { kind: format!("{}-canon", kind), coq: format!("CCanon {} {}", gz(scn.t0), items), obs, meta });
}

async fn new_scn(inst: &mut Inst, case_no: u64, nrooms: usize, start_day: i64) -> Scn {
    let t0 = BASE + start_day * DAY + 1000 + (case_no as i64 % 7) * 100;
    verif_clock::set(t0);
    let mut rooms = vec![];
    for _ in 0..nrooms { rooms.push(inst.new_room().await); }
    let nr = rooms.len();
    let mut scn = Scn { room_hashes: vec![HashSet::new(); nr], rooms, sigs: vec![], sig_ix: HashMap::new(), ids: vec![], nodes: vec![], edges: vec![], items: vec![], dumps: vec![],
                        dict: HashMap::new(), now: t0, t0, case_no, stats: HashMap::new() };
    tick(&mut scn, t0 + 10);
    scn
}

// ---------------------------------------------------------------- directed cases
async fn directed(inst: &mut Inst, out: &mut Out, which: u64) {
    let mut scn = new_scn(inst, 1000 + which, if which == 4 || which == 9 || which == 10 { 2 } else { 1 }, 0).await;
    let d = |k: i64, ms: i64| BASE + k * DAY + ms;
    match which {
        0 => { // repaired (4510e5f), must pass: synchronised update, same room, another day
            s_nodes(inst, &mut scn, 0, vec![(None, 1, d(0, 5000)), (None, 1, d(0, 6000))]).await;
            do_compute(inst, &mut scn).await; do_check(inst, &mut scn).await;
            tick(&mut scn, d(2, 50));
            s_nodes(inst, &mut scn, 0, vec![(Some(0), 1, d(1, 7000))]).await;
            do_compute(inst, &mut scn).await; do_check(inst, &mut scn).await;
        }
        1 => { // repaired (f14488a), must pass: reference deletion, the source row moves to today
            l_create(inst, &mut scn, 1, Some(0), false).await;
            l_create(inst, &mut scn, 1, Some(0), false).await;
            l_addref(inst, &mut scn, 0, 1).await;
            do_check(inst, &mut scn).await;
            tick(&mut scn, d(1, 100));
            l_delref(inst, &mut scn, 0, 1).await;
            do_check(inst, &mut scn).await;
            tick(&mut scn, d(2, 100));
            l_delref(inst, &mut scn, 0, 1).await; // no edge left: nothing is marked at all
            do_check(inst, &mut scn).await;
        }
        2 => { // repaired (ad91329 + 9c2e3ca), must pass: tombstone naming an older version of the row: the newer version stays
            l_create(inst, &mut scn, 1, Some(0), false).await;
            let v0 = scn.nodes[0].mdate;
            tick(&mut scn, d(1, 10));
            l_update(inst, &mut scn, 0, 1, None, false).await;
            do_check(inst, &mut scn).await;
            tick(&mut scn, d(3, 10));
            s_delnodes(inst, &mut scn, 0, vec![(0, 1, v0, d(2, 77))]).await;
            do_compute(inst, &mut scn).await; do_check(inst, &mut scn).await;
            let v1 = scn.nodes[0].mdate;
            s_delnodes(inst, &mut scn, 0, vec![(0, 1, v1 + 5, d(2, 99))]).await; // names a later date: removes the stored version, whose own day must be marked
            do_compute(inst, &mut scn).await; do_check(inst, &mut scn).await;
        }
        3 => { // K2: same three rows, one pass (canonical) ...
            s_nodes(inst, &mut scn, 0, vec![(None, 1, d(0, 5000)), (None, 1, d(1, 5000)), (None, 1, d(2, 5000))]).await;
            do_compute(inst, &mut scn).await; do_check(inst, &mut scn).await;
            // ... then a change on a non-last day: later history hashes are not re-chained
            s_nodes(inst, &mut scn, 0, vec![(None, 1, d(0, 6000))]).await;
            do_compute(inst, &mut scn).await; do_check(inst, &mut scn).await;
        }
        4 => { // K2: the same rows day by day; a room move leaves an empty row behind
            for k in 0..3 { s_nodes(inst, &mut scn, 0, vec![(None, 1, d(k, 5000))]).await; do_compute(inst, &mut scn).await; }
            do_check(inst, &mut scn).await;
            l_create(inst, &mut scn, 2, Some(0), false).await;
            tick(&mut scn, d(1, 10));
            l_update(inst, &mut scn, 3, 2, Some(1), false).await;
            do_check(inst, &mut scn).await;
        }
        5 => { // clean multi-day local history with moves and deletions: everything must match
            l_create(inst, &mut scn, 1, Some(0), false).await;
            l_create(inst, &mut scn, 2, Some(0), true).await;
            tick(&mut scn, d(1, 0));
            l_update(inst, &mut scn, 0, 1, None, false).await;
            tick(&mut scn, d(1, DAY - 1));
            l_create(inst, &mut scn, 1, Some(0), false).await;
            tick(&mut scn, d(2, 0));
            l_delnode(inst, &mut scn, 1).await;
            l_update(inst, &mut scn, 1, 2, None, false).await; // deleted row: refused
            do_check(inst, &mut scn).await;
        }
        6 => { // edges: reference added, removed by a peer's edge tombstone, added again, removed locally the same day (covered)
            l_create(inst, &mut scn, 1, Some(0), false).await;
            l_create(inst, &mut scn, 1, Some(0), false).await;
            l_addref(inst, &mut scn, 0, 1).await;
            l_addref(inst, &mut scn, 0, 1).await; // already there: only spurious marks
            let e = scn.edges[0];
            let dd = scn.now - 3;
            s_deledges(inst, &mut scn, 0, vec![(0, 1, e.2, dd)]).await;
            do_compute(inst, &mut scn).await; do_check(inst, &mut scn).await;
            tick(&mut scn, d(1, 10));
            l_update(inst, &mut scn, 0, 1, None, false).await;
            l_addref(inst, &mut scn, 0, 1).await;
            tick(&mut scn, d(1, 500));
            l_delref(inst, &mut scn, 0, 1).await;
            do_check(inst, &mut scn).await;
        }
        7 => { // repaired (9b19d99), must pass: a synchronised version that arrives under ANOTHER entity for a stored id
            s_nodes(inst, &mut scn, 0, vec![(None, 1, d(0, 5000)), (None, 1, d(0, 6000))]).await;
            do_compute(inst, &mut scn).await; do_check(inst, &mut scn).await;
            tick(&mut scn, d(2, 50));
            s_nodes(inst, &mut scn, 0, vec![(Some(0), 2, d(1, 7000))]).await;
            do_compute(inst, &mut scn).await; do_check(inst, &mut scn).await;
        }
        8 => { // repaired (de0967d), must pass: an edge tombstone is replaced by one for the same edge and instant under another source entity
            l_create(inst, &mut scn, 1, Some(0), false).await;
            l_create(inst, &mut scn, 1, Some(0), false).await;
            l_addref(inst, &mut scn, 0, 1).await;
            let e = scn.edges[0];
            let dd = scn.now - 3;
            s_deledges(inst, &mut scn, 0, vec![(0, 1, e.2, dd)]).await;
            do_compute(inst, &mut scn).await; do_check(inst, &mut scn).await;
            s_deledges_ent(inst, &mut scn, 0, vec![(0, 1, e.2, dd)], 2).await;
            do_compute(inst, &mut scn).await; do_check(inst, &mut scn).await;
        }
        9 => { // a row updated through an unchanged parent: same room / other room, same day / other day
            l_nested_create(inst, &mut scn, Some(0), None, false).await;     // nodes 0 (owner) 1 (nested), room 0
            l_create(inst, &mut scn, 1, Some(1), false).await;               // node 2, room 1
            l_via(inst, &mut scn, 0, 2, false).await;                         // new reference: owner rewritten too
            do_check(inst, &mut scn).await;
            tick(&mut scn, d(1, 40));
            l_via(inst, &mut scn, 0, 1, false).await;                         // reference exists: only the nested row changes (same room, other day)
            do_check(inst, &mut scn).await;
            tick(&mut scn, d(2, 40));
            l_via(inst, &mut scn, 0, 2, true).await;                          // nested row in another room than the owner, no recompute requested
            tick(&mut scn, d(2, 90));
            l_via(inst, &mut scn, 0, 1, false).await;
            do_check(inst, &mut scn).await;
        }
        10 => { // a private (room-less) owner with a shared nested row
            l_nested_create(inst, &mut scn, None, Some(0), false).await;     // nodes 0 (owner, no room) 1 (nested, room 0)
            do_check(inst, &mut scn).await;
            tick(&mut scn, d(1, 40));
            l_update(inst, &mut scn, 1, 1, None, false).await;                // the shared row updated directly
            do_check(inst, &mut scn).await;
            tick(&mut scn, d(2, 40));
            l_via(inst, &mut scn, 0, 1, false).await;                         // ... and through its room-less owner
            do_check(inst, &mut scn).await;
            tick(&mut scn, d(3, 40));
            l_create(inst, &mut scn, 1, None, false).await;                   // node 2, no room
            l_create(inst, &mut scn, 1, Some(1), false).await;                // node 3, room 1
            l_via(inst, &mut scn, 2, 3, false).await;                         // new reference from a room-less row
            tick(&mut scn, d(4, 40));
            l_via(inst, &mut scn, 2, 3, true).await;
            do_compute(inst, &mut scn).await; do_check(inst, &mut scn).await;
        }
        11 => { // a batch whose COMMIT fails is rolled back; the same writes are sent again: every mark must be there
            l_create_f(inst, &mut scn, 1, Some(0), true, true).await;
            s_nodes_f(inst, &mut scn, 0, vec![(None, 2, d(0, 5000)), (None, 1, d(0, 6000))], true).await;
            do_compute(inst, &mut scn).await; do_check(inst, &mut scn).await;
            tick(&mut scn, d(1, 40));
            l_create_f(inst, &mut scn, 1, Some(0), true, true).await;        // same key as before the failure? no: a new day
            s_nodes_f(inst, &mut scn, 0, vec![(Some(1), 2, d(1, 7000)), (None, 2, d(1, 8000))], true).await;
            do_compute(inst, &mut scn).await; do_check(inst, &mut scn).await;
            s_nodes_f(inst, &mut scn, 0, vec![(None, 2, d(1, 9000))], true).await; // a key that was marked and recomputed before
            l_create_f(inst, &mut scn, 1, Some(0), true, true).await;
            do_compute(inst, &mut scn).await; do_check(inst, &mut scn).await;
        }
        _ => {}
    }
    emit(out, &scn, "directed", &format!("d{}", which));
}

// ---------------------------------------------------------------- generated histories
async fn random_case(inst: &mut Inst, out: &mut Out, rng: &mut Rng, case_no: u64) {
    let clean = rng.chance(1, 2);
    let nrooms = 1 + rng.below(2) as usize;
    let mut scn = new_scn(inst, case_no, nrooms, 0).await;
    let nops = 5 + rng.below(if clean { 16 } else { 12 });
    let mut day = 0i64;
    for _ in 0..nops {
        // the clock: mostly a few ms, sometimes the next day(s), sometimes exactly around midnight
        let t = match rng.below(10) {
            0..=5 => scn.now + 1 + rng.range(0, 40),
            6 => { day += 1; BASE + day * DAY }
            7 => { BASE + (day + 1) * DAY - 1 }
            8 => { day += 1 + rng.below(2) as i64; BASE + day * DAY + rng.range(1, 5000) }
            _ => scn.now + 1,
        };
        let t = t.max(scn.now + 1);
        day = (t - BASE).div_euclid(DAY);
        tick(&mut scn, t);
        let alive: Vec<usize> = (0..scn.nodes.len()).filter(|i| scn.nodes[*i].alive).collect();
        let persons: Vec<usize> = alive.iter().cloned().filter(|i| scn.nodes[*i].ent == 1).collect();
        let room = rng.below(nrooms as u64) as usize;
        let past = |rng: &mut Rng, scn: &Scn| -> i64 { // a date between room creation and now
            let lo = scn.t0 + 5;
            match rng.below(4) { 0 => scn.now - rng.range(0, 30).min(scn.now - lo), 1 => BASE + rng.range(0, day) * DAY + rng.range(2000, 9000), 2 => { let k = rng.range(0, day); (BASE + k * DAY).max(lo) } _ => lo + rng.below((scn.now - lo) as u64 + 1) as i64 }
        };
        match rng.below(100) {
            0..=13 => { let ent = 1 + rng.below(2); let r = if rng.chance(1, 10) { None } else { Some(room) }; let q = rng.chance(1, 3); let f = q && rng.chance(1, 5); l_create_f(inst, &mut scn, ent, r, q, f).await; }
            14..=17 => { // nested creation: owner / nested row with or without a room of their own
                let o = if rng.chance(1, 3) { None } else { Some(room) };
                let c = match rng.below(3) { 0 => None, 1 => Some(room), _ => Some(rng.below(nrooms as u64) as usize) };
                l_nested_create(inst, &mut scn, o, c, rng.chance(1, 3)).await;
            }
            18..=31 if !alive.is_empty() => {
                let ni = *rng.pick(&alive);
                let mv = if rng.chance(1, 3) { Some(room) } else { None };
                let ent = if rng.chance(1, 15) { 3 - scn.nodes[ni].ent } else { scn.nodes[ni].ent };
                l_update(inst, &mut scn, ni, ent, mv, rng.chance(1, 3)).await;
            }
            32..=36 if persons.len() >= 2 => { // a row updated through another one
                let (pi, ci) = if !scn.edges.is_empty() && rng.chance(2, 3) { let e = *rng.pick(&scn.edges); (scn.nodes.iter().position(|n| n.idx == e.0).unwrap(), scn.nodes.iter().position(|n| n.idx == e.1).unwrap()) } else { (*rng.pick(&persons), *rng.pick(&persons)) };
                if pi != ci && scn.nodes[pi].alive && scn.nodes[ci].alive && scn.nodes[pi].ent == 1 && scn.nodes[ci].ent == 1 { l_via(inst, &mut scn, pi, ci, rng.chance(1, 3)).await; }
            }
            37..=38 if !scn.nodes.is_empty() && rng.chance(1, 3) => { let ni = rng.below(scn.nodes.len() as u64) as usize; let e = scn.nodes[ni].ent; l_update(inst, &mut scn, ni, e, None, false).await; }
            39..=58 => {
                let mut vs = vec![];
                for _ in 0..(1 + rng.below(3)) {
                    if alive.is_empty() || rng.chance(1, 2) { vs.push((None, 1 + rng.below(2), past(rng, &scn).max(scn.t0 + 5))); }
                    else {
                        let ni = *rng.pick(&alive);
                        let sh = scn.nodes[ni].clone();
                        let same_room = sh.room == Some(room);
                        let md = if clean && same_room {
                            // stays on the stored day (covered) or is stale (filtered out)
                            let end = (sh.mdate.div_euclid(DAY) + 1) * DAY - 1;
                            if rng.chance(1, 5) { sh.mdate - rng.range(0, 3) } else { (sh.mdate + 1 + rng.range(0, 500)).min(end) }
                        } else { match rng.below(4) { 0 => sh.mdate + 1 + rng.range(0, 100), 1 => sh.mdate + DAY * rng.range(1, 2), 2 => sh.mdate - rng.range(0, 2), _ => (sh.mdate.div_euclid(DAY) + 1) * DAY } };
                        let ent = if !clean && rng.chance(1, 12) { 3 - sh.ent } else { sh.ent }; // rarely: the version arrives under another entity
                        vs.push((Some(ni), ent, md.max(scn.t0 + 5)));
                    }
                }
                let f = rng.chance(1, 8);
                s_nodes_f(inst, &mut scn, room, vs, f).await;
            }
            59..=65 if !alive.is_empty() => { let ni = *rng.pick(&alive); l_delnode(inst, &mut scn, ni).await; }
            66..=73 if !scn.nodes.is_empty() => {
                let ni = rng.below(scn.nodes.len() as u64) as usize;
                let sh = scn.nodes[ni].clone();
                let del = scn.now - rng.range(0, 50).min(scn.now - scn.t0 - 5);
                let (ent, md) = if clean || rng.chance(1, 2) { (sh.ent, sh.mdate) } else { match rng.below(3) { 0 => (sh.ent, sh.mdate - DAY), 1 => (3 - sh.ent, sh.mdate), _ => (sh.ent, sh.mdate - 1) } };
                let r = if clean { sh.room.unwrap_or(room) } else { room };
                s_delnodes(inst, &mut scn, r, vec![(ni, ent, md, del)]).await;
            }
            74..=83 if persons.len() >= 2 => { let s = *rng.pick(&persons); let d = *rng.pick(&persons); l_addref(inst, &mut scn, s, d).await; }
            84..=90 if persons.len() >= 2 => {
                let (s, d) = if !scn.edges.is_empty() && rng.chance(3, 4) { let e = *rng.pick(&scn.edges); (scn.nodes.iter().position(|n| n.idx == e.0).unwrap(), scn.nodes.iter().position(|n| n.idx == e.1).unwrap()) }
                             else { (*rng.pick(&persons), *rng.pick(&persons)) };
                let has_edge = scn.edges.iter().any(|e| e.0 == scn.nodes[s].idx && e.1 == scn.nodes[d].idx);
                let covered = scn.nodes[s].room.is_none() || (has_edge && scn.nodes[s].mdate.div_euclid(DAY) == scn.now.div_euclid(DAY));
                if !clean || covered { l_delref(inst, &mut scn, s, d).await; }
            }
            91..=95 if !scn.edges.is_empty() => {
                let e = *rng.pick(&scn.edges);
                let s = scn.nodes.iter().position(|n| n.idx == e.0).unwrap();
                let d = scn.nodes.iter().position(|n| n.idx == e.1).unwrap();
                let r = scn.nodes[s].room.unwrap_or(room);
                let del = scn.now - rng.range(0, 50).min(scn.now - scn.t0 - 5);
                s_deledges(inst, &mut scn, r, vec![(s, d, if rng.chance(1, 4) { e.2 + 1 } else { e.2 }, del)]).await;
            }
            _ => { do_compute(inst, &mut scn).await; if rng.chance(1, 2) { do_check(inst, &mut scn).await; } }
        }
    }
    do_compute(inst, &mut scn).await;
    do_check(inst, &mut scn).await;
    emit(out, &scn, "history", if clean { "clean" } else { "any" });
}

#[tokio::main(flavor = "multi_thread")]
async fn main() {
    let mut out = Out::create();
    let mut rng = Rng::from_env();
    let mut inst = Inst::start(&format!("inst{}", seed())).await;
    let only: Option<u64> = std::env::var("VERIF_ONLY").ok().and_then(|s| s.parse().ok());
    for w in 0..12 { if only.is_none() || only == Some(w) { directed(&mut inst, &mut out, w).await; } }
    let n = if only.is_some() { 0 } else { scale(130, 1500) };
    for i in 0..n {
        let mut r = rng.fork();
        random_case(&mut inst, &mut out, &mut r, i as u64).await;
    }
    verif_clock::clear();
    let _ = std::fs::remove_dir_all(&inst.path);
    out.finish();
}
